(* Totality of grid placement on the domain: the size estimate covers every definite item (so the occupancy matrix is
   never asked to expand towards negative indices), no machine arithmetic overflows, no index is out of bounds, every
   search loop finishes within its fuel. *)
From Coq Require Import ZArith Bool List Lia Permutation.
From TV Require Import Model.PlacementBase Gen.PlacementGen Model.Placement
  Proofs.PlacementTables Proofs.PlacementMatrix Proofs.PlacementProofs.
Import ListNotations.
Open Scope Z_scope.

Ltac unfold_ops := unfold ozl_add_u16, ozl_sub_u16, i16_add, i16_sub, i16_neg, u16_add, u16_sub, usize_add, usize_mul in *.
Ltac ok_step :=
  first [ rewrite chk_i16_intro by lia | rewrite chk_u16_intro by lia | rewrite chk_usize_intro by lia
        | rewrite u16_as_i16_small by lia ]; cbn [bind].
Ltac ok_steps := unfold_ops; repeat ok_step.
Lemma chk_usize_mul_small : forall a b, 0 <= a <= 70000 -> 0 <= b <= 70000 -> chk_usize (a * b) = Ok (a * b).
Proof. intros. apply chk_usize_intro. nia. Qed.

Ltac ok_step2 :=
  first [ ok_step | rewrite chk_usize_mul_small by lia | rewrite usize_as_i16_small by lia | rewrite i16_as_usize_small by lia
        | rewrite i16_as_u16_small by lia | rewrite usize_as_u16_small by lia ]; cbn [bind].
Ltac ok_steps2 := unfold_ops; repeat ok_step2.

(* ------------------------------------------------------------------ tables are total on the domain *)
Definition ozln (ln : Ln GP) (e : Z) : Ln GP := mkLn (ozp_spec (l_start ln) e) (ozp_spec (l_end ln) e).

Lemma into_origin_zero_line_total : forall l e, 0 <= e <= 64 -> -64 <= l <= 64 -> l <> 0 ->
  into_origin_zero_line l e = Ok (oz l e).
Proof.
  intros l e He Hl Hn. unfold into_origin_zero_line, oz. ok_steps.
  destruct (Z.compare_spec l 0); [lia| |]; destruct (Z.ltb_spec 0 l); try lia; ok_steps; f_equal; lia.
Qed.

Lemma into_origin_zero_placement_total : forall p e, 0 <= e <= 64 -> gp_ok p ->
  into_origin_zero_placement p e = Ok (ozp_spec p e).
Proof.
  intros [|l|s] e He Hp; simpl in *; auto.
  destruct (Z.eqb_spec l 0).
  - subst. reflexivity.
  - unfold into_origin_zero_placement. destruct l; [lia| |]; rewrite into_origin_zero_line_total by (auto; lia); reflexivity.
Qed.

Lemma into_origin_zero_total : forall ln e, 0 <= e <= 64 -> ln_ok ln -> into_origin_zero ln e = Ok (ozln ln e).
Proof.
  intros ln e He [Hs Ht]. unfold into_origin_zero. rewrite !into_origin_zero_placement_total by auto. reflexivity.
Qed.

(* what the estimate knows about one axis of one child *)
Definition axis_cover (ln : Ln GP) (e mn mx sp : Z) : Prop :=
  (is_definite ln = true -> exists r, resolve_definite_grid_lines (ozln ln e) = Ok r /\ mn <= l_start r /\ l_end r <= mx) /\
  (is_definite ln = false -> exists s, indefinite_span (ozln ln e) = Ok s /\ s <= sp).

Definition mms_bounds (mn mx sp : Z) : Prop := -127 <= mn <= 128 /\ -127 <= mx <= 192 /\ 1 <= sp <= 64.

Lemma child_mms_total : forall ln e, 0 <= e <= 64 -> ln_ok ln ->
  exists mn mx sp, child_min_line_max_line_span ln e = Ok (mn, mx, sp) /\ axis_cover ln e mn mx sp /\ mms_bounds mn mx sp.
Proof.
  intros ln e He Hln. unfold child_min_line_max_line_span. rewrite into_origin_zero_total by auto. cbn [bind].
  unfold axis_cover, mms_bounds. rewrite <- (is_definite_oz_spec ln e). fold (ozln ln e).
  assert (Hok : ozln_ok (ozln ln e)) by (destruct Hln; split; simpl; apply ozp_spec_ok; auto).
  destruct (ozln ln e) as [s t]. destruct Hok as [Hs Ht]. simpl in Hs, Ht.
  unfold is_definite_oz, resolve_definite_grid_lines, indefinite_span. simpl.
  destruct s as [|a|a], t as [|b|b]; simpl in *; ok_steps.
  all: try (destruct (Z.eqb_spec a b); ok_steps).
  all: do 3 eexists; (split; [reflexivity|]);
       (split; [split; intros; first [discriminate | eexists; split; [reflexivity|simpl; lia]]|]); lia.
Qed.

Lemma axis_cover_mono : forall ln e mn mx sp mn' mx' sp', axis_cover ln e mn mx sp -> mn' <= mn -> mx <= mx' -> sp <= sp' ->
  axis_cover ln e mn' mx' sp'.
Proof.
  intros ln e mn mx sp mn' mx' sp' [H1 H2] A B C. split.
  - intros Hd. destruct (H1 Hd) as [r [Hr [? ?]]]. exists r. split; auto. lia.
  - intros Hd. destruct (H2 Hd) as [s [Hs ?]]. exists s. split; auto. lia.
Qed.

Definition kp_cover (ec er : Z) (k : known_positions) (c : child) : Prop :=
  let '(cmin, cmax, cspan, rmin, rmax, rspan) := k in
  axis_cover (c_col c) ec cmin cmax cspan /\ axis_cover (c_row c) er rmin rmax rspan.

Definition kp_le (k k' : known_positions) : Prop :=
  let '(cmin, cmax, cspan, rmin, rmax, rspan) := k in
  let '(cmin', cmax', cspan', rmin', rmax', rspan') := k' in
  cmin' <= cmin /\ cmax <= cmax' /\ cspan <= cspan' /\ rmin' <= rmin /\ rmax <= rmax' /\ rspan <= rspan'.

Lemma known_positions_fold_total : forall ec er children k0, 0 <= ec <= 64 -> 0 <= er <= 64 -> Forall child_ok children -> kp_ok k0 ->
  exists k, foldM (fun '(col_min, col_max, col_max_span, row_min, row_max, row_max_span) c =>
           do '(child_col_min, child_col_max, child_col_span) <- child_min_line_max_line_span (c_col c) ec;
           do '(child_row_min, child_row_max, child_row_span) <- child_min_line_max_line_span (c_row c) er;
           Ok (Z.min col_min child_col_min, Z.max col_max child_col_max, Z.max col_max_span child_col_span,
               Z.min row_min child_row_min, Z.max row_max child_row_max, Z.max row_max_span child_row_span))
        children k0 = Ok k /\ kp_ok k /\ kp_le k0 k /\ Forall (kp_cover ec er k) children.
Proof.
  intros ec er children. induction children as [|c t IH]; intros k0 Hec Her Hch Hk0.
  - exists k0. simpl. split; auto. split; auto. split; [|constructor].
    destruct k0 as [[[[[a b] c] d] e] f]. unfold kp_le. lia.
  - inversion Hch as [|? ? [Hr Hc] Ht]; subst.
    destruct k0 as [[[[[cmin cmax] cspan] rmin] rmax] rspan]. simpl.
    destruct (child_mms_total (c_col c) ec Hec Hc) as (a1 & a2 & a3 & Ea & Ca & Ba). rewrite Ea. cbn [bind].
    destruct (child_mms_total (c_row c) er Her Hr) as (b1 & b2 & b3 & Eb & Cb & Bb). rewrite Eb. cbn [bind].
    unfold mms_bounds in *. unfold kp_ok in Hk0.
    destruct (IH (Z.min cmin a1, Z.max cmax a2, Z.max cspan a3, Z.min rmin b1, Z.max rmax b2, Z.max rspan b3) Hec Her Ht) as (k & Ek & Hk & Hle & Hcov).
    { unfold kp_ok. lia. }
    exists k. split; [exact Ek|]. split; [exact Hk|].
    destruct k as [[[[[cmin' cmax'] cspan'] rmin'] rmax'] rspan']. unfold kp_le in *. split; [lia|].
    constructor; auto. unfold kp_cover. split; eapply axis_cover_mono; eauto; lia.
Qed.

Lemma known_positions_total : forall ec er children, 0 <= ec <= 64 -> 0 <= er <= 64 -> Forall child_ok children ->
  exists k, get_known_child_positions children ec er = Ok k /\ kp_ok k /\ Forall (kp_cover ec er k) children.
Proof.
  intros ec er children Hec Her Hch. unfold get_known_child_positions.
  destruct (known_positions_fold_total ec er children (0, 0, 0, 0, 0, 0) Hec Her Hch) as (k & Ek & Hk & _ & Hcov).
  { unfold kp_ok. lia. }
  exists k. auto.
Qed.

(* one axis of the estimate: the counts cover [lmin, lmax] and are at least max_span long *)
Lemma estimate_axis_total : forall lmin lmax sp e, -127 <= lmin <= 0 -> 0 <= lmax <= 192 -> 0 <= sp <= 64 -> 0 <= e <= 64 ->
  exists tc, estimate_axis lmin lmax sp e = Ok tc /\
    tc_nonneg tc /\ tc_neg tc = - lmin /\ tc_explicit tc = e /\ lmax <= tc_explicit tc + tc_pos tc /\ sp <= tlen tc /\ tlen tc <= 400.
Proof.
  intros lmin lmax sp e H1 H2 H3 H4. unfold estimate_axis.
  unfold implied_negative_implicit_tracks, implied_positive_implicit_tracks, i16_unsigned_abs.
  set (ng := if lmin <? 0 then Z.abs lmin else 0).
  assert (Hng : ng = - lmin) by (unfold ng; destruct (Z.ltb_spec lmin 0); lia).
  rewrite u16_as_i16_small by lia.
  set (pi := if lmax >? e then lmax - e else 0).
  assert (Hpi : (if lmax >? e then u16_sub (i16_as_u16 lmax) e else Ok 0) = Ok pi).
  { unfold pi. destruct (Z.gtb_spec lmax e); auto. rewrite i16_as_u16_small by lia. ok_steps. reflexivity. }
  rewrite Hpi. cbn [bind]. assert (0 <= pi <= 192) by (unfold pi; destruct (Z.gtb_spec lmax e); lia).
  assert (lmax <= e + pi) by (unfold pi; destruct (Z.gtb_spec lmax e); lia).
  ok_steps. destruct (Z.ltb_spec (ng + e + pi) sp).
  - ok_steps. eexists. split; [reflexivity|]. unfold tc_nonneg, tlen. simpl. lia.
  - cbn [bind]. eexists. split; [reflexivity|]. unfold tc_nonneg, tlen. simpl. lia.
Qed.

Definition axis_fits (ln : Ln GP) (e : Z) (tc : TrackCounts) : Prop :=
  (is_definite ln = true -> exists r, resolve_definite_grid_lines (ozln ln e) = Ok r /\
                                      - tc_neg tc <= l_start r /\ l_end r <= tc_explicit tc + tc_pos tc) /\
  (is_definite ln = false -> exists s, indefinite_span (ozln ln e) = Ok s /\ s <= tlen tc).

(* estimate_covers: every child's definite area lies inside the estimated track range; every indefinite span fits *)
Theorem estimate_covers : forall ec er children, 0 <= ec <= 64 -> 0 <= er <= 64 -> Forall child_ok children ->
  exists cc rc, compute_grid_size_estimate ec er children = Ok (cc, rc) /\
    tc_nonneg cc /\ tc_neg cc <= 127 /\ tc_explicit cc = ec /\ tlen cc <= 400 /\
    tc_nonneg rc /\ tc_neg rc <= 127 /\ tc_explicit rc = er /\ tlen rc <= 400 /\
    Forall (fun c => axis_fits (c_col c) ec cc /\ axis_fits (c_row c) er rc) children.
Proof.
  intros ec er children Hec Her Hch. unfold compute_grid_size_estimate.
  destruct (known_positions_total ec er children Hec Her Hch) as (k & Ek & Hk & Hcov). rewrite Ek. cbn [bind].
  destruct k as [[[[[cmin cmax] cspan] rmin] rmax] rspan]. unfold kp_ok in Hk.
  destruct (estimate_axis_total cmin cmax cspan ec) as (cc & Ec & C1 & C2 & C3 & C4 & C5 & C6); try lia. rewrite Ec. cbn [bind].
  destruct (estimate_axis_total rmin rmax rspan er) as (rc & Er & R1 & R2 & R3 & R4 & R5 & R6); try lia. rewrite Er. cbn [bind].
  exists cc, rc. split; [reflexivity|]. repeat (split; [first [assumption | lia]|]).
  eapply Forall_impl; [|exact Hcov]. intros c [[Hc1 Hc2] [Hr1 Hr2]]. split; split.
  - intros Hd. destruct (Hc1 Hd) as [r [Hr [? ?]]]. exists r. split; auto. lia.
  - intros Hd. destruct (Hc2 Hd) as [s [Hs ?]]. exists s. split; auto. lia.
  - intros Hd. destruct (Hr1 Hd) as [r [Hr [? ?]]]. exists r. split; auto. lia.
  - intros Hd. destruct (Hr2 Hd) as [s [Hs ?]]. exists s. split; auto. lia.
Qed.

(* ------------------------------------------------------------------ matrix operations are total *)
Lemma track_range_total : forall tc s, tc_nonneg tc -> tlen tc <= 32767 ->
  -32768 <= l_start s + tc_neg tc <= 32767 -> -32768 <= l_end s + tc_neg tc <= 32767 ->
  oz_line_range_to_track_range tc s = Ok (l_start s + tc_neg tc, l_end s + tc_neg tc).
Proof.
  intros tc s (Hn & He & Hp) Hl H1 H2. unfold tlen in Hl. unfold oz_line_range_to_track_range, oz_line_to_next_track.
  ok_steps. reflexivity.
Qed.

Lemma unoccupied_total : forall m ax ps ss, wf m ->
  let rs := row_span_of ax ps ss in let cs := col_span_of ax ps ss in
  -32768 <= l_start rs + tc_neg (m_rows m) -> l_end rs + tc_neg (m_rows m) <= 32767 -> l_start rs <= l_end rs ->
  -32768 <= l_start cs + tc_neg (m_cols m) -> l_end cs + tc_neg (m_cols m) <= 32767 -> l_start cs <= l_end cs ->
  exists b, line_area_is_unoccupied m ax ps ss = Ok b.
Proof.
  intros m ax ps ss (Hnr & Hnc & Hlr & Hlc & _) rs cs A1 A2 A3 B1 B2 B3. unfold line_area_is_unoccupied.
  subst rs cs. destruct ax; simpl in *; rewrite !track_range_total by (auto; lia); cbn [bind]; eauto.
Qed.

(* an area that starts at or beyond the last track of one axis is free *)
Lemma unoccupied_beyond : forall m ax ps ss b, wf m -> line_area_is_unoccupied m ax ps ss = Ok b ->
  let rs := row_span_of ax ps ss in let cs := col_span_of ax ps ss in
  (tc_explicit (m_rows m) + tc_pos (m_rows m) <= l_start rs \/ tc_explicit (m_cols m) + tc_pos (m_cols m) <= l_start cs) ->
  b = true.
Proof.
  intros m ax ps ss b Hwf H rs cs Hb. apply (unoccupied_spec _ _ _ _ _ Hwf H).
  intros r c Hr Hc. unfold cellv. destruct Hwf as (_ & _ & _ & _ & Hreg).
  eapply gc_out; eauto. unfold tlen. fold rs cs in Hr, Hc. lia.
Qed.

Lemma foldM_collect_total : forall A B (f : A -> res B) l acc,
  (forall i, In i l -> exists x, f i = Ok x) ->
  exists xs, foldM (fun acc i => do x <- f i; Ok (acc ++ [x])) l acc = Ok (acc ++ xs).
Proof.
  induction l; simpl; intros acc H.
  - exists []. rewrite app_nil_r. reflexivity.
  - destruct (H a (or_introl eq_refl)) as [x Hx]. rewrite Hx. cbn [bind].
    destruct (IHl (acc ++ [x])) as [xs Hxs]; [intros; apply H; auto|].
    exists (x :: xs). rewrite Hxs, <- app_assoc. reflexivity.
Qed.

Lemma grid_get_some : forall g R C r c, reg g R C -> 0 <= r < R -> 0 <= c < C -> exists x, grid_get g r c = Some x.
Proof.
  intros g R C r c Hreg Hr Hc. unfold grid_get.
  pose proof (reg_rows _ _ _ Hreg) as HRr. pose proof (reg_cols _ _ _ Hreg) as HCc.
  destruct (Z.eqb_spec R 0); [lia|]. destruct (Z.eqb_spec C 0); [lia|]. simpl in *.
  rewrite HRr, HCc.
  destruct (Z.leb_spec 0 r); [|lia]. destruct (Z.ltb_spec r R); [|lia]. destruct (Z.leb_spec 0 c); [|lia]. destruct (Z.ltb_spec c C); [|lia].
  simpl. pose proof (reg_row_length g R C r Hreg ltac:(lia)) as Hlen. rewrite HCc in Hlen.
  destruct (nth_error (nth (Z.to_nat r) g []) (Z.to_nat c)) eqn:E; eauto.
  apply nth_error_None in E. lia.
Qed.

Lemma copy_row_total : forall g R C k row, reg g R C -> 0 <= row < R -> exists x, copy_row g C k row = Ok x.
Proof.
  intros g R C k row Hreg Hrow. unfold copy_row.
  destruct (foldM_collect_total _ _ (fun col => match grid_get g row col with Some x => Ok x | None => Err OutOfBounds end) (zrange 0 C) []) as [xs Hxs].
  - intros i Hi. apply zrange_In in Hi. destruct (grid_get_some g R C row i Hreg Hrow ltac:(lia)) as [x Hx]. rewrite Hx. eauto.
  - rewrite Hxs. cbn [bind]. eauto.
Qed.

Lemma expand_total : forall m rr cr, wf m -> 0 <= fst rr -> 0 <= fst cr -> 0 <= snd rr <= 32767 -> 0 <= snd cr <= 32767 ->
  exists m', expand_to_fit_range m rr cr = Ok m'.
Proof.
  intros m rr cr Hwf Hfr Hfc Hsr Hsc. pose proof Hwf as (Hnr & Hnc & Hlr & Hlc & Hreg).
  assert (Hr0 : 0 <= tlen (m_rows m)) by (destruct Hnr as (?&?&?); unfold tlen; lia).
  assert (Hc0 : 0 <= tlen (m_cols m)) by (destruct Hnc as (?&?&?); unfold tlen; lia).
  unfold expand_to_fit_range.
  rewrite (tc_len_intro (m_rows m)) by (auto; lia). cbn [bind].
  rewrite (tc_len_intro (m_cols m)) by (auto; lia). cbn [bind].
  replace (Z.min (fst rr) 0) with 0 by lia. replace (Z.min (fst cr) 0) with 0 by lia.
  ok_steps2. change (0 <? 0) with false. cbn [orb]. ok_steps2.
  destruct (foldM_collect_total _ _ (fun row => copy_row (m_inner m) (tlen (m_cols m)) (Z.max (snd cr - tlen (m_cols m)) 0) row) (zrange 0 (tlen (m_rows m))) []) as [xs Hxs].
  { intros i Hi. apply zrange_In in Hi. eapply copy_row_total; eauto. }
  rewrite Hxs. cbn [bind].
  destruct Hnr as (?&?&?). destruct Hnc as (?&?&?). unfold tlen in *. ok_steps2. eauto.
Qed.

Lemma is_area_in_range_total : forall m cr rr, wf m -> exists b, is_area_in_range m Horizontal cr rr = Ok b.
Proof.
  intros m cr rr (Hnr & Hnc & Hlr & Hlc & _). unfold is_area_in_range. simpl.
  rewrite (tc_len_intro (m_cols m)) by (auto; lia). rewrite (tc_len_intro (m_rows m)) by (auto; lia). cbn [bind].
  destruct (fst cr <? 0); cbn [bind]; eauto.
  destruct (snd cr >? usize_as_i16 (tlen (m_cols m))); cbn [bind]; eauto.
  destruct (fst rr <? 0); cbn [bind]; eauto.
  destruct (snd rr >? usize_as_i16 (tlen (m_rows m))); cbn [bind]; eauto.
Qed.

Lemma mark_area_total : forall m ax ps ss v, wf m ->
  let rs := row_span_of ax ps ss in let cs := col_span_of ax ps ss in
  - tc_neg (m_rows m) <= l_start rs -> l_start rs < l_end rs -> l_end rs + tc_neg (m_rows m) <= 32767 ->
  - tc_neg (m_cols m) <= l_start cs -> l_start cs < l_end cs -> l_end cs + tc_neg (m_cols m) <= 32767 ->
  exists m', mark_area_as m ax ps ss v = Ok m'.
Proof.
  intros m ax ps ss v Hwf rs cs A1 A2 A3 B1 B2 B3. pose proof Hwf as (Hnr & Hnc & Hlr & Hlc & Hreg).
  unfold mark_area_as.
  assert (Hspans : (match ax with Horizontal => (ss, ps) | Vertical => (ps, ss) end) = (rs, cs)) by (destruct ax; reflexivity).
  rewrite Hspans.
  rewrite (track_range_total (m_cols m) cs) by (auto; lia). cbn [bind].
  rewrite (track_range_total (m_rows m) rs) by (auto; lia). cbn [bind].
  destruct (is_area_in_range_total m (l_start cs + tc_neg (m_cols m), l_end cs + tc_neg (m_cols m))
                                   (l_start rs + tc_neg (m_rows m), l_end rs + tc_neg (m_rows m)) Hwf) as [b Hb].
  rewrite Hb. cbn [bind]. destruct b.
  - cbn [bind]. apply is_area_in_range_true in Hb; auto. simpl in Hb.
    pose proof (reg_rows _ _ _ Hreg) as HRr. pose proof (reg_cols _ _ _ Hreg) as HCc.
    assert (tlen (m_rows m) <> 0 /\ tlen (m_cols m) <> 0) by lia.
    destruct (Z.eqb_spec (tlen (m_rows m)) 0); [lia|]. destruct (Z.eqb_spec (tlen (m_cols m)) 0); [lia|]. simpl in HRr, HCc.
    unfold set_area. simpl fst. simpl snd. rewrite HRr, HCc.
    destruct (Z.leb_spec (l_end rs + tc_neg (m_rows m)) (l_start rs + tc_neg (m_rows m))); [lia|].
    destruct (Z.leb_spec (l_end cs + tc_neg (m_cols m)) (l_start cs + tc_neg (m_cols m))); [lia|]. cbn [orb].
    destruct (Z.leb_spec 0 (l_start rs + tc_neg (m_rows m))); [|lia].
    destruct (Z.leb_spec (l_end rs + tc_neg (m_rows m)) (tlen (m_rows m))); [|lia].
    destruct (Z.leb_spec 0 (l_start cs + tc_neg (m_cols m))); [|lia].
    destruct (Z.leb_spec (l_end cs + tc_neg (m_cols m)) (tlen (m_cols m))); [|lia].
    cbn [andb bind]. eauto.
  - destruct (expand_total m (l_start rs + tc_neg (m_rows m), l_end rs + tc_neg (m_rows m))
                             (l_start cs + tc_neg (m_cols m), l_end cs + tc_neg (m_cols m)) Hwf) as [m1 Hm1]; simpl; try lia.
    rewrite Hm1. cbn [bind].
    pose proof (expand_spec _ _ _ _ Hwf Hm1 ltac:(simpl; lia) ltac:(simpl; lia)) as
      (Hwf1 & _ & _ & Hn1 & He1 & Hp1 & Hn2 & He2 & Hp2 & _). simpl in Hp1, Hp2.
    pose proof Hwf1 as (Hnr1 & Hnc1 & Hlr1 & Hlc1 & Hreg1).
    rewrite (track_range_total (m_cols m1) cs) by (auto; rewrite ?Hn2; lia). cbn [bind].
    rewrite (track_range_total (m_rows m1) rs) by (auto; rewrite ?Hn1; lia). cbn [bind].
    pose proof (reg_rows _ _ _ Hreg1) as HRr. pose proof (reg_cols _ _ _ Hreg1) as HCc.
    assert (HR1 : l_end rs + tc_neg (m_rows m) <= tlen (m_rows m1)) by (unfold tlen in *; lia).
    assert (HC1 : l_end cs + tc_neg (m_cols m) <= tlen (m_cols m1)) by (unfold tlen in *; lia).
    destruct (Z.eqb_spec (tlen (m_rows m1)) 0); [lia|]. destruct (Z.eqb_spec (tlen (m_cols m1)) 0); [lia|]. simpl in HRr, HCc.
    unfold set_area. simpl fst. simpl snd. rewrite HRr, HCc, Hn1, Hn2.
    destruct (Z.leb_spec (l_end rs + tc_neg (m_rows m)) (l_start rs + tc_neg (m_rows m))); [lia|].
    destruct (Z.leb_spec (l_end cs + tc_neg (m_cols m)) (l_start cs + tc_neg (m_cols m))); [lia|]. cbn [orb].
    destruct (Z.leb_spec 0 (l_start rs + tc_neg (m_rows m))); [|lia].
    destruct (Z.leb_spec (l_end rs + tc_neg (m_rows m)) (tlen (m_rows m1))); [|lia].
    destruct (Z.leb_spec 0 (l_start cs + tc_neg (m_cols m))); [|lia].
    destruct (Z.leb_spec (l_end cs + tc_neg (m_cols m)) (tlen (m_cols m1))); [|lia].
    cbn [andb bind]. eauto.
Qed.

(* ------------------------------------------------------------------ capacity invariant *)
Definition endl (tc : TrackCounts) : Z := tc_explicit tc + tc_pos tc.

(* after k placed items: counts stay far below the i16 range *)
Definition cap (m : matrix) (k : Z) : Prop :=
  wf m /\ tc_neg (m_rows m) <= 127 /\ tc_neg (m_cols m) <= 127 /\
  tc_explicit (m_rows m) <= 64 /\ tc_explicit (m_cols m) <= 64 /\
  tc_pos (m_rows m) <= 400 + 128 * k /\ tc_pos (m_cols m) <= 400 + 128 * k.

Lemma cap_bounds : forall m k a, cap m k -> 0 <= k <= 64 ->
  tc_nonneg (track_counts m a) /\ tlen (track_counts m a) <= 9000 /\ tc_neg (track_counts m a) <= 127 /\
  0 <= endl (track_counts m a) <= 8700.
Proof.
  intros m k a (Hwf & ? & ? & ? & ? & ? & ?) Hk. destruct Hwf as (Hnr & Hnc & _).
  pose proof Hnr as (?&?&?). pose proof Hnc as (?&?&?).
  destruct a; simpl; unfold tlen, endl; repeat split; auto; lia.
Qed.

Lemma axis_fits_mono : forall ln e tc tc', axis_fits ln e tc -> tc_neg tc' = tc_neg tc -> tc_explicit tc' = tc_explicit tc ->
  tc_pos tc <= tc_pos tc' -> axis_fits ln e tc'.
Proof.
  intros ln e tc tc' [H1 H2] Hn He Hp. split.
  - intros Hd. destruct (H1 Hd) as [r [Hr [? ?]]]. exists r. split; auto. lia.
  - intros Hd. destruct (H2 Hd) as [s [Hs ?]]. exists s. split; auto. unfold tlen in *. lia.
Qed.

Definition explicit_at (ecc erc : Z) (a : axis) : Z := match a with Horizontal => ecc | Vertical => erc end.

(* the child's two axes fit the current counts of m *)
Definition child_fits (ecc erc : Z) (m : matrix) (c : child) : Prop :=
  forall a, axis_fits (grid_placement c a) (explicit_at ecc erc a) (track_counts m a).

Definition grows (m m' : matrix) : Prop :=
  same_counts m m' /\ tc_pos (m_rows m) <= tc_pos (m_rows m') /\ tc_pos (m_cols m) <= tc_pos (m_cols m').

Lemma grows_refl : forall m, grows m m.
Proof. intros. split; [apply same_counts_refl|lia]. Qed.
Lemma grows_trans : forall a b c, grows a b -> grows b c -> grows a c.
Proof. intros a b c [S1 [? ?]] [S2 [? ?]]. split; [eapply same_counts_trans; eauto|lia]. Qed.

Lemma child_fits_grows : forall ecc erc m m' c, child_fits ecc erc m c -> grows m m' -> child_fits ecc erc m' c.
Proof.
  intros ecc erc m m' c H [(S1 & S2 & S3 & S4) [P1 P2]] a. specialize (H a).
  destruct a; simpl in *; eapply axis_fits_mono; eauto.
Qed.

Lemma origin_zero_placement_total : forall ecc erc c, 0 <= ecc <= 64 -> 0 <= erc <= 64 -> child_ok c ->
  origin_zero_placement ecc erc c = Ok (mkBoth (ozln (c_col c) ecc) (ozln (c_row c) erc)).
Proof.
  intros ecc erc c He1 He2 [Hr Hc]. unfold origin_zero_placement. rewrite !into_origin_zero_total by auto. reflexivity.
Qed.

Lemma both_get_ozln : forall ecc erc c a,
  both_get (mkBoth (ozln (c_col c) ecc) (ozln (c_row c) erc)) a = ozln (grid_placement c a) (explicit_at ecc erc a).
Proof. intros. destruct a; reflexivity. Qed.

Lemma ozln_is_ok : forall ln e, 0 <= e <= 64 -> ln_ok ln -> ozln_ok (ozln ln e).
Proof. intros ln e He [Hs Ht]. split; simpl; apply ozp_spec_ok; auto. Qed.

(* ------------------------------------------------------------------ record_grid_placement is total and keeps the capacity *)
Lemma record_total : forall m items idx pax ps ss ty k, cap m k -> 0 <= k < 64 ->
  let rs := row_span_of pax ps ss in let cs := col_span_of pax ps ss in
  - tc_neg (m_rows m) <= l_start rs -> l_start rs < l_end rs -> l_end rs <= endl (m_rows m) + 128 ->
  - tc_neg (m_cols m) <= l_start cs -> l_start cs < l_end cs -> l_end cs <= endl (m_cols m) + 128 ->
  exists m', record_grid_placement m items idx pax ps ss ty = Ok (m', items ++ [mkItem idx cs rs]) /\
             cap m' (k + 1) /\ grows m m' /\ l_end rs <= endl (m_rows m') /\ l_end cs <= endl (m_cols m').
Proof.
  intros m items idx pax ps ss ty k Hcap Hk rs cs A1 A2 A3 B1 B2 B3.
  pose proof Hcap as (Hwf & N1 & N2 & E1 & E2 & P1 & P2).
  pose proof Hwf as (Hnr & Hnc & _). pose proof Hnr as (?&?&?). pose proof Hnc as (?&?&?).
  unfold endl in *.
  destruct (mark_area_total m pax ps ss ty Hwf) as [m' Hm']; fold rs cs; try lia.
  unfold record_grid_placement. rewrite Hm'. cbn [bind].
  assert (Hit : (let '(col_span, row_span) := match pax with Horizontal => (ps, ss) | Vertical => (ss, ps) end in
                 Ok (m', items ++ [mkItem idx col_span row_span])) = Ok (m', items ++ [mkItem idx cs rs])) by (destruct pax; reflexivity).
  exists m'. split; [exact Hit|].
  pose proof (mark_area_spec _ _ _ _ _ _ Hwf Hm' A2 B2) as
    (Hwf' & Hn1 & He1 & Hp1 & Hn2 & He2 & Hp2 & _ & _ & Hi2 & _ & Hi4 & Hq1 & Hq2).
  fold rs cs in Hq1, Hq2, Hi2, Hi4.
  split; [|split; [|split; lia]].
  - unfold cap. split; [exact Hwf'|]. lia.
  - unfold grows, same_counts. lia.
Qed.

(* ------------------------------------------------------------------ the search loops terminate within their fuel *)
Lemma unoccupied_total_axis : forall m pax ps ss k, cap m k -> 0 <= k <= 64 ->
  -20000 <= l_start ps -> l_start ps <= l_end ps -> l_end ps <= 20000 ->
  -20000 <= l_start ss -> l_start ss <= l_end ss -> l_end ss <= 20000 ->
  exists b, line_area_is_unoccupied m pax ps ss = Ok b.
Proof.
  intros m pax ps ss k Hcap Hk A1 A2 A3 B1 B2 B3.
  destruct (cap_bounds m k Horizontal Hcap Hk) as ((?&?&?) & ? & ? & ?).
  destruct (cap_bounds m k Vertical Hcap Hk) as ((?&?&?) & ? & ? & ?). simpl in *.
  destruct Hcap as (Hwf & _). apply unoccupied_total; auto; destruct pax; simpl; lia.
Qed.

Lemma unoccupied_beyond_primary : forall m pax ps ss b, wf m -> line_area_is_unoccupied m pax ps ss = Ok b ->
  endl (track_counts m pax) <= l_start ps -> b = true.
Proof.
  intros m pax ps ss b Hwf H Hb. eapply unoccupied_beyond; eauto. unfold endl in Hb. destruct pax; simpl in *; auto.
Qed.

Lemma unoccupied_beyond_secondary : forall m pax ps ss b, wf m -> line_area_is_unoccupied m pax ps ss = Ok b ->
  endl (track_counts m (other_axis pax)) <= l_start ss -> b = true.
Proof.
  intros m pax ps ss b Hwf H Hb. eapply unoccupied_beyond; eauto. unfold endl in Hb. destruct pax; simpl in *; auto.
Qed.

Lemma resolve_indefinite_total : forall z pos, ozln_ok z -> is_definite_oz z = false -> -20000 <= pos <= 20000 ->
  exists r, resolve_indefinite_grid_tracks z pos = Ok r.
Proof.
  intros [a b] pos [Ha Hb] Hd Hp. unfold resolve_indefinite_grid_tracks, is_definite_oz in *. simpl in *.
  destruct a, b; simpl in *; try discriminate; ok_steps; eauto.
Qed.

Lemma ssd_total : forall fuel m pl pax sec pos k, cap m k -> 0 <= k <= 64 ->
  ozln_ok (both_get pl pax) -> is_definite_oz (both_get pl pax) = false ->
  -20000 <= l_start sec -> l_start sec <= l_end sec -> l_end sec <= 20000 ->
  - tc_neg (track_counts m pax) <= pos -> pos <= 10000 ->
  Z.max 0 (endl (track_counts m pax) - pos) < Z.of_nat fuel ->
  exists pp, search_secondary_definite fuel m pl pax sec pos = Ok (pp, sec) /\
             pos <= l_start pp /\ l_start pp <= Z.max pos (endl (track_counts m pax)).
Proof.
  induction fuel; intros m pl pax sec pos k Hcap Hk Hok Hd S1 S2 S3 P1 P2 Hf; [lia|].
  destruct (cap_bounds m k pax Hcap Hk) as ((?&?&?) & ? & ? & ?).
  simpl. destruct (resolve_indefinite_total _ pos Hok Hd ltac:(lia)) as [pp Hpp]. rewrite Hpp. cbn [bind].
  pose proof (resolve_indefinite_spec _ _ _ Hok Hpp) as (R1 & R2 & R3).
  destruct (unoccupied_total_axis m pax pp sec k Hcap Hk) as [b Hb]; try lia. rewrite Hb. cbn [bind].
  destruct b.
  - exists pp. split; auto. lia.
  - assert (Hlt : pos < endl (track_counts m pax)).
    { destruct (Z.lt_ge_cases pos (endl (track_counts m pax))); auto.
      assert (false = true) by (eapply unoccupied_beyond_primary; eauto; first [apply Hcap | lia]). discriminate. }
    unfold ozl_add_u16, i16_add. rewrite u16_as_i16_small by lia. rewrite chk_i16_intro by lia. cbn [bind].
    destruct (IHfuel m pl pax sec (pos + 1) k) as [pp' [Hs [? ?]]]; auto; try lia.
    exists pp'. split; auto. lia.
Qed.

Lemma ss_total : forall fuel m pax pspan sspan idx k, cap m k -> 0 <= k <= 64 ->
  -20000 <= l_start pspan -> l_start pspan <= l_end pspan -> l_end pspan <= 20000 -> 1 <= sspan <= 64 ->
  - tc_neg (track_counts m (other_axis pax)) <= idx -> idx <= 10000 ->
  Z.max 0 (endl (track_counts m (other_axis pax)) - idx) < Z.of_nat fuel ->
  exists i, search_secondary fuel m pax pspan sspan idx = Ok (pspan, mkLn i (i + sspan)) /\
            idx <= i /\ i <= Z.max idx (endl (track_counts m (other_axis pax))).
Proof.
  induction fuel; intros m pax pspan sspan idx k Hcap Hk S1 S2 S3 Hs P1 P2 Hf; [lia|].
  destruct (cap_bounds m k (other_axis pax) Hcap Hk) as ((?&?&?) & ? & ? & ?).
  simpl. unfold ozl_add_u16 at 1, i16_add. rewrite u16_as_i16_small by lia. rewrite chk_i16_intro by lia. cbn [bind].
  destruct (unoccupied_total_axis m pax pspan (mkLn idx (idx + sspan)) k Hcap Hk) as [b Hb]; simpl; try lia. rewrite Hb. cbn [bind].
  destruct b; simpl.
  - exists idx. split; auto. lia.
  - assert (Hlt : idx < endl (track_counts m (other_axis pax))).
    { destruct (Z.lt_ge_cases idx (endl (track_counts m (other_axis pax)))); auto.
      assert (false = true) by (eapply unoccupied_beyond_secondary; eauto; first [apply Hcap | simpl; lia]). discriminate. }
    unfold ozl_add_u16, i16_add. rewrite u16_as_i16_small by lia. rewrite chk_i16_intro by lia. cbn [bind].
    destruct (IHfuel m pax pspan sspan (idx + 1) k) as [i [Hs' [? ?]]]; auto; try lia.
    exists i. split; auto. lia.
Qed.

(* the loop over both axes: fuel (end_s - s) * (plen + 2) + (end_p + 2 - p) + 2 suffices *)
Lemma sb_total : forall fuel m pax pspan sspan pidx sidx k, cap m k -> 0 <= k <= 64 ->
  1 <= pspan <= 64 -> pspan <= tlen (track_counts m pax) -> 1 <= sspan <= 64 ->
  - tc_neg (track_counts m pax) <= pidx -> pidx <= endl (track_counts m pax) + 1 ->
  - tc_neg (track_counts m (other_axis pax)) <= sidx -> sidx <= endl (track_counts m (other_axis pax)) + 1 ->
  Z.max 0 (endl (track_counts m (other_axis pax)) - sidx) * (tlen (track_counts m pax) + 2) + (endl (track_counts m pax) + 2 - pidx) + 2 <= Z.of_nat fuel ->
  exists i j, search_both fuel m pax pspan sspan (- tc_neg (track_counts m pax)) (endl (track_counts m pax)) pidx sidx
              = Ok (mkLn i (i + pspan), mkLn j (j + sspan)) /\
              - tc_neg (track_counts m pax) <= i /\ i + pspan <= endl (track_counts m pax) /\ sidx <= j /\
              j <= Z.max sidx (endl (track_counts m (other_axis pax))) + 1.
Proof.
  induction fuel; intros m pax pspan sspan pidx sidx k Hcap Hk Hp Hpl Hs P1 P2 S1 S2 Hf.
  { exfalso. assert (0 <= Z.max 0 (endl (track_counts m (other_axis pax)) - sidx) * (tlen (track_counts m pax) + 2)).
    { apply Z.mul_nonneg_nonneg; [lia|]. destruct (cap_bounds m k pax Hcap Hk) as ((?&?&?) & _). unfold tlen. lia. }
    simpl in Hf. lia. }
  destruct (cap_bounds m k pax Hcap Hk) as ((?&?&?) & ? & ? & ?).
  destruct (cap_bounds m k (other_axis pax) Hcap Hk) as ((?&?&?) & ? & ? & ?).
  remember (track_counts m pax) as tp eqn:Etp. remember (track_counts m (other_axis pax)) as ts eqn:Ets.
  assert (HW : 0 <= Z.max 0 (endl ts - sidx) * (tlen tp + 2)) by (apply Z.mul_nonneg_nonneg; unfold tlen; lia).
  rewrite Nat2Z.inj_succ in Hf.
  simpl. unfold ozl_add_u16 at 1, i16_add. rewrite u16_as_i16_small by lia. rewrite chk_i16_intro by lia. cbn [bind].
  unfold ozl_add_u16 at 1, i16_add. rewrite u16_as_i16_small by lia. rewrite chk_i16_intro by lia. cbn [bind].
  destruct (Z.gtb_spec (pidx + pspan) (endl tp)).
  - (* primary out of bounds: next secondary index, primary back to the start *)
    unfold ozl_add_u16, i16_add. rewrite u16_as_i16_small by lia. rewrite chk_i16_intro by lia. cbn [bind].
    destruct (Z.lt_ge_cases sidx (endl ts)) as [Hlt|Hge].
    + assert (Hfuel : Z.max 0 (endl ts - (sidx + 1)) * (tlen tp + 2) + (endl tp + 2 - - tc_neg tp) + 2 <= Z.of_nat fuel).
      { replace (Z.max 0 (endl ts - (sidx + 1))) with (Z.max 0 (endl ts - sidx) - 1) by lia. unfold tlen, endl in *. nia. }
      subst tp ts.
      destruct (IHfuel m pax pspan sspan (- tc_neg (track_counts m pax)) (sidx + 1) k Hcap Hk Hp Hpl Hs) as (i & j & Hs' & ? & ? & ? & ?); try lia.
      exists i, j. split; [auto|lia].
    + (* beyond the last secondary track: the first probe fits *)
      destruct fuel as [|fuel']; [exfalso; rewrite Z.max_l in Hf by lia; simpl in Hf; lia|].
      simpl. unfold ozl_add_u16 at 1, i16_add. rewrite u16_as_i16_small by lia. rewrite chk_i16_intro by (unfold tlen, endl in *; lia). cbn [bind].
      unfold ozl_add_u16 at 1, i16_add. rewrite u16_as_i16_small by lia. rewrite chk_i16_intro by lia. cbn [bind].
      destruct (Z.gtb_spec (- tc_neg tp + pspan) (endl tp)); [unfold tlen, endl in *; lia|].
      subst tp ts.
      destruct (unoccupied_total_axis m pax (mkLn (- tc_neg (track_counts m pax)) (- tc_neg (track_counts m pax) + pspan)) (mkLn (sidx + 1) (sidx + 1 + sspan)) k Hcap Hk) as [b Hb]; simpl; try lia.
      rewrite Hb. cbn [bind].
      assert (b = true) by (eapply unoccupied_beyond_secondary; eauto; first [apply Hcap | simpl; lia]). subst b. simpl.
      exists (- tc_neg (track_counts m pax)), (sidx + 1). split; auto. lia.
  - subst tp ts.
    destruct (unoccupied_total_axis m pax (mkLn pidx (pidx + pspan)) (mkLn sidx (sidx + sspan)) k Hcap Hk) as [b Hb]; simpl; try lia.
    rewrite Hb. cbn [bind]. destruct b; simpl.
    + exists pidx, sidx. split; auto. lia.
    + unfold ozl_add_u16, i16_add. rewrite u16_as_i16_small by lia. rewrite chk_i16_intro by lia. cbn [bind].
      assert (Hlt : sidx < endl (track_counts m (other_axis pax))).
      { destruct (Z.lt_ge_cases sidx (endl (track_counts m (other_axis pax)))); auto.
        assert (false = true) by (eapply unoccupied_beyond_secondary; eauto; first [apply Hcap | simpl; lia]). discriminate. }
      destruct (IHfuel m pax pspan sspan (pidx + 1) sidx k Hcap Hk Hp Hpl Hs) as (i & j & Hs' & ? & ? & ? & ?); try lia.
      exists i, j. split; [auto|lia].
Qed.

(* ------------------------------------------------------------------ last_of_type *)
Lemma rposition_from_range : forall kind l i acc r, rposition_from kind l i acc = Some r ->
  acc = Some r \/ i <= r < i + Z.of_nat (length l).
Proof.
  induction l; simpl; intros i acc r H; auto.
  apply IHl in H. destruct H as [H|H]; [|right; lia].
  destruct (cell_eqb a kind); auto. inversion H; subst. right. lia.
Qed.

Lemma rposition_range : forall kind l r, rposition kind l = Some r -> 0 <= r < Z.of_nat (length l).
Proof. intros kind l r H. apply rposition_from_range in H. destruct H as [H|H]; [discriminate|lia]. Qed.

Lemma last_of_type_total : forall m pax start k, cap m k -> 0 <= k <= 64 ->
  - tc_neg (track_counts m (other_axis pax)) <= start -> start < endl (track_counts m (other_axis pax)) ->
  1 <= tlen (track_counts m pax) ->
  exists o, last_of_type m pax start AutoPlaced = Ok o /\
            match o with None => True | Some l => - tc_neg (track_counts m pax) <= l /\ l < endl (track_counts m pax) end.
Proof.
  intros m pax start k Hcap Hk S1 S2 Hp.
  destruct (cap_bounds m k Horizontal Hcap Hk) as ((?&?&?) & ? & ? & ?).
  destruct (cap_bounds m k Vertical Hcap Hk) as ((?&?&?) & ? & ? & ?). simpl in *.
  destruct Hcap as (Hwf & _). destruct Hwf as (_ & _ & _ & _ & Hreg).
  pose proof (reg_rows _ _ _ Hreg) as HRr. pose proof (reg_cols _ _ _ Hreg) as HCc.
  unfold last_of_type, oz_line_to_next_track. unfold tlen, endl in *.
  destruct pax; simpl in *; ok_steps; rewrite i16_as_usize_small by lia.
  - (* rows are the secondary axis *)
    destruct (Z.eqb_spec (tc_neg (m_rows m) + tc_explicit (m_rows m) + tc_pos (m_rows m)) 0); [lia|].
    destruct (Z.eqb_spec (tc_neg (m_cols m) + tc_explicit (m_cols m) + tc_pos (m_cols m)) 0); [lia|]. simpl in HRr, HCc.
    rewrite HRr. destruct (Z.ltb_spec (start + tc_neg (m_rows m)) (tc_neg (m_rows m) + tc_explicit (m_rows m) + tc_pos (m_rows m))); [|lia].
    cbn [bind].
    destruct (rposition AutoPlaced (nth (Z.to_nat (start + tc_neg (m_rows m))) (m_inner m) [])) as [i|] eqn:Er.
    + apply rposition_range in Er.
      pose proof (reg_row_length _ _ _ (start + tc_neg (m_rows m)) Hreg ltac:(lia)) as Hl. rewrite HCc in Hl.
      unfold track_to_prev_oz_line. rewrite usize_as_u16_small by lia. ok_steps. eexists. split; [reflexivity|]. simpl. lia.
    + eexists. split; [reflexivity|]. exact I.
  - destruct (Z.eqb_spec (tc_neg (m_rows m) + tc_explicit (m_rows m) + tc_pos (m_rows m)) 0); [lia|].
    destruct (Z.eqb_spec (tc_neg (m_cols m) + tc_explicit (m_cols m) + tc_pos (m_cols m)) 0); [lia|]. simpl in HRr, HCc.
    rewrite HCc. destruct (Z.ltb_spec (start + tc_neg (m_cols m)) (tc_neg (m_cols m) + tc_explicit (m_cols m) + tc_pos (m_cols m))); [|lia].
    cbn [bind].
    destruct (rposition AutoPlaced (map (fun row => nth (Z.to_nat (start + tc_neg (m_cols m))) row Unoccupied) (m_inner m))) as [i|] eqn:Er.
    + apply rposition_range in Er. rewrite map_length in Er. unfold grid_rows in HRr.
      unfold track_to_prev_oz_line. rewrite usize_as_u16_small by lia. ok_steps. eexists. split; [reflexivity|]. simpl. lia.
    + eexists. split; [reflexivity|]. exact I.
Qed.

(* ------------------------------------------------------------------ the two auto-placement functions *)
Lemma fits_definite : forall ecc erc m c a, 0 <= ecc <= 64 -> 0 <= erc <= 64 -> child_ok c -> child_fits ecc erc m c ->
  is_definite (grid_placement c a) = true ->
  exists r, resolve_definite_grid_lines (ozln (grid_placement c a) (explicit_at ecc erc a)) = Ok r /\
            - tc_neg (track_counts m a) <= l_start r /\ l_start r < l_end r /\ l_end r <= endl (track_counts m a).
Proof.
  intros ecc erc m c a He1 He2 [Hr Hc] Hfit Hd. destruct (Hfit a) as [H1 _]. destruct (H1 Hd) as [r [Hres [? ?]]].
  exists r. split; auto. unfold endl.
  assert (Hln : ln_ok (grid_placement c a)) by (destruct a; auto).
  assert (He : 0 <= explicit_at ecc erc a <= 64) by (destruct a; auto).
  pose proof (resolve_definite_spec _ _ _ He Hln Hd Hres) as (_ & ? & _). lia.
Qed.

Lemma fits_indefinite : forall ecc erc m c a, 0 <= ecc <= 64 -> 0 <= erc <= 64 -> child_ok c -> child_fits ecc erc m c ->
  is_definite (grid_placement c a) = false ->
  exists s, indefinite_span (ozln (grid_placement c a) (explicit_at ecc erc a)) = Ok s /\ 1 <= s <= 64 /\ s <= tlen (track_counts m a) /\
            is_definite_oz (ozln (grid_placement c a) (explicit_at ecc erc a)) = false /\
            ozln_ok (ozln (grid_placement c a) (explicit_at ecc erc a)).
Proof.
  intros ecc erc m c a He1 He2 [Hr Hc] Hfit Hd. destruct (Hfit a) as [_ H2]. destruct (H2 Hd) as [s [Hs ?]].
  assert (Hln : ln_ok (grid_placement c a)) by (destruct a; auto).
  assert (He : 0 <= explicit_at ecc erc a <= 64) by (destruct a; auto).
  pose proof (ozln_is_ok _ _ He Hln) as Hok.
  exists s. split; auto. split; [eapply indefinite_span_range; eauto|]. split; auto. split; auto.
  unfold ozln. rewrite is_definite_oz_spec. auto.
Qed.

Lemma tlen_endl : forall tc, tlen tc = tc_neg tc + endl tc.
Proof. intros. unfold tlen, endl. lia. Qed.

Lemma implicit_start_line_total : forall tc, tc_nonneg tc -> tc_neg tc <= 32767 -> implicit_start_line tc = Ok (- tc_neg tc).
Proof. intros tc (?&?&?) Hb. unfold implicit_start_line. ok_steps. reflexivity. Qed.

Lemma implicit_end_line_total : forall tc, tc_nonneg tc -> endl tc <= 32767 -> implicit_end_line tc = Ok (endl tc).
Proof. intros tc (?&?&?) Hb. unfold implicit_end_line, endl in *. ok_steps. reflexivity. Qed.

Lemma pdsa_total : forall m ecc erc c fl k, cap m k -> 0 <= k <= 64 -> child_ok c -> 0 <= ecc <= 64 -> 0 <= erc <= 64 ->
  child_fits ecc erc m c ->
  is_definite (grid_placement c (other_axis (primary_axis fl))) = true -> is_definite (grid_placement c (primary_axis fl)) = false ->
  exists pp sec, place_definite_secondary_axis_item m (mkBoth (ozln (c_col c) ecc) (ozln (c_row c) erc)) fl = Ok (pp, sec) /\
     - tc_neg (track_counts m (primary_axis fl)) <= l_start pp /\ l_start pp < l_end pp /\
     l_end pp <= endl (track_counts m (primary_axis fl)) + 64 /\
     - tc_neg (track_counts m (other_axis (primary_axis fl))) <= l_start sec /\ l_start sec < l_end sec /\
     l_end sec <= endl (track_counts m (other_axis (primary_axis fl))).
Proof.
  intros m ecc erc c fl k Hcap Hk Hc He1 He2 Hfit Hd2 Hd1. set (pax := primary_axis fl) in *.
  destruct (cap_bounds m k pax Hcap Hk) as (Hnp & ? & ? & ?). pose proof Hnp as (?&?&?).
  destruct (cap_bounds m k (other_axis pax) Hcap Hk) as (Hns & ? & ? & ?). pose proof Hns as (?&?&?).
  destruct (fits_definite ecc erc m c (other_axis pax) He1 He2 Hc Hfit Hd2) as (sec & Hsec & S1 & S2 & S3).
  destruct (fits_indefinite ecc erc m c pax He1 He2 Hc Hfit Hd1) as (sp & Hsp & Sp1 & Sp2 & Hdo & Hok).
  unfold place_definite_secondary_axis_item. fold pax. rewrite !both_get_ozln. rewrite Hsec. cbn [bind].
  rewrite implicit_start_line_total by (auto; lia). cbn [bind].
  assert (Hstart : exists sp0, (if is_dense fl then Ok (- tc_neg (track_counts m pax))
                    else (do lo <- last_of_type m pax (l_start sec) AutoPlaced;
                          Ok (match lo with Some l => l | None => - tc_neg (track_counts m pax) end))) = Ok sp0 /\
                    - tc_neg (track_counts m pax) <= sp0 <= endl (track_counts m pax)).
  { destruct (is_dense fl).
    - eexists. split; [reflexivity|]. lia.
    - destruct (last_of_type_total m pax (l_start sec) k Hcap Hk) as [o [Ho Hb]]; try lia.
      rewrite Ho. cbn [bind]. destruct o; eexists; (split; [reflexivity|]); lia. }
  destruct Hstart as [sp0 [Hsp0 Hb0]]. rewrite Hsp0. cbn [bind].
  rewrite (tc_len_intro (track_counts m pax)) by (auto; lia). cbn [bind].
  destruct (ssd_total (Z.to_nat (tlen (track_counts m pax) + 2)) m (mkBoth (ozln (c_col c) ecc) (ozln (c_row c) erc)) pax sec sp0 k Hcap Hk)
    as (pp & Hpp & P1 & P2); try lia.
  { rewrite both_get_ozln. auto. }
  { rewrite both_get_ozln. auto. }
  { rewrite tlen_endl. lia. }
  exists pp, sec. split; [exact Hpp|].
  apply search_secondary_definite_spec in Hpp. destruct Hpp as (_ & _ & [p Hp]). rewrite both_get_ozln in Hp.
  apply resolve_indefinite_spec in Hp; auto. lia.
Qed.

Lemma pipi_total : forall m ecc erc c fl k cp cs, cap m k -> 0 <= k <= 64 -> child_ok c -> 0 <= ecc <= 64 -> 0 <= erc <= 64 ->
  child_fits ecc erc m c ->
  is_definite (grid_placement c (other_axis (primary_axis fl))) = false ->
  - tc_neg (track_counts m (primary_axis fl)) <= cp <= endl (track_counts m (primary_axis fl)) ->
  - tc_neg (track_counts m (other_axis (primary_axis fl))) <= cs <= endl (track_counts m (other_axis (primary_axis fl))) ->
  exists ps ss, place_indefinitely_positioned_item m (mkBoth (ozln (c_col c) ecc) (ozln (c_row c) erc)) fl (cp, cs) = Ok (ps, ss) /\
     - tc_neg (track_counts m (primary_axis fl)) <= l_start ps /\ l_start ps < l_end ps /\
     l_end ps <= endl (track_counts m (primary_axis fl)) /\
     - tc_neg (track_counts m (other_axis (primary_axis fl))) <= l_start ss /\ l_start ss < l_end ss /\
     l_end ss <= endl (track_counts m (other_axis (primary_axis fl))) + 66.
Proof.
  intros m ecc erc c fl k cp cs Hcap Hk Hc He1 He2 Hfit Hd2 Hcp Hcs. set (pax := primary_axis fl) in *.
  destruct (cap_bounds m k pax Hcap Hk) as (Hnp & ? & ? & ?). pose proof Hnp as (?&?&?).
  destruct (cap_bounds m k (other_axis pax) Hcap Hk) as (Hns & ? & ? & ?). pose proof Hns as (?&?&?).
  destruct (fits_indefinite ecc erc m c (other_axis pax) He1 He2 Hc Hfit Hd2) as (ssp & Hssp & Ss1 & Ss2 & _ & _).
  unfold place_indefinitely_positioned_item. fold pax. rewrite !both_get_ozln. rewrite Hssp. cbn [bind].
  rewrite !implicit_start_line_total by (auto; lia). rewrite implicit_end_line_total by (auto; lia). cbn [bind].
  rewrite (tc_len_intro (track_counts m pax)) by (auto; lia). rewrite (tc_len_intro (track_counts m (other_axis pax))) by (auto; lia). cbn [bind].
  unfold ozln at 1. rewrite is_definite_oz_spec.
  destruct (is_definite (grid_placement c pax)) eqn:Hd1.
  - destruct (fits_definite ecc erc m c pax He1 He2 Hc Hfit Hd1) as (pr & Hpr & P1 & P2 & P3). rewrite Hpr. cbn [bind].
    assert (Hidx : exists i0, (if is_dense fl then Ok (- tc_neg (track_counts m (other_axis pax)))
                      else if l_start pr <? cp then ozl_add_u16 cs 1 else Ok cs) = Ok i0 /\
                      - tc_neg (track_counts m (other_axis pax)) <= i0 <= endl (track_counts m (other_axis pax)) + 1).
    { destruct (is_dense fl); [eexists; split; [reflexivity|lia]|].
      destruct (l_start pr <? cp); [|eexists; split; [reflexivity|lia]].
      ok_steps. eexists; split; [reflexivity|lia]. }
    destruct Hidx as [i0 [Hi0 Hb0]]. rewrite Hi0. cbn [bind].
    destruct (ss_total (Z.to_nat (tlen (track_counts m (other_axis pax)) + 2)) m pax pr ssp i0 k Hcap Hk) as (i & Hs & I1 & I2); try lia.
    { rewrite tlen_endl. lia. }
    exists pr, (mkLn i (i + ssp)). split; [exact Hs|]. simpl. lia.
  - destruct (fits_indefinite ecc erc m c pax He1 He2 Hc Hfit Hd1) as (psp & Hpsp & Ps1 & Ps2 & _ & _). rewrite Hpsp. cbn [bind].
    destruct (sb_total (Z.to_nat ((tlen (track_counts m pax) + 2) * (tlen (track_counts m (other_axis pax)) + 2))) m pax psp ssp cp cs k Hcap Hk)
      as (i & j & Hs & I1 & I2 & J1 & J2); try lia.
    { rewrite Z2Nat.id by (apply Z.mul_nonneg_nonneg; unfold tlen; lia).
      rewrite !tlen_endl. 
      assert (0 <= Z.max 0 (endl (track_counts m (other_axis pax)) - cs) <= tc_neg (track_counts m (other_axis pax)) + endl (track_counts m (other_axis pax))) by lia.
      nia. }
    exists (mkLn i (i + psp)), (mkLn j (j + ssp)). split; [exact Hs|]. simpl. lia.
Qed.

(* ------------------------------------------------------------------ the phases *)
Lemma foldM_total_count : forall A S (f : S -> A -> res S) (P : Z -> S -> Prop) l s0 k0,
  P k0 s0 ->
  (forall k s x, In x l -> k0 <= k < k0 + Z.of_nat (length l) -> P k s -> exists s', f s x = Ok s' /\ P (k + 1) s') ->
  exists s, foldM f l s0 = Ok s /\ P (k0 + Z.of_nat (length l)) s.
Proof.
  induction l; intros s0 k0 H0 Hstep.
  - exists s0. simpl. rewrite Z.add_0_r. auto.
  - assert (Hk : k0 <= k0 < k0 + Z.of_nat (length (a :: l))) by (simpl length; lia).
    destruct (Hstep k0 s0 a (or_introl eq_refl) Hk H0) as [s1 [E1 H1]].
    destruct (IHl s1 (k0 + 1) H1) as [s [Es Hs]].
    { intros k s x Hin Hk' Hp. apply Hstep; auto; [right; auto|simpl length; lia]. }
    exists s. simpl. rewrite E1. cbn [bind]. split; auto.
    replace (k0 + Z.pos (Pos.of_succ_nat (length l))) with (k0 + 1 + Z.of_nat (length l)) by lia. auto.
Qed.

Section Phases.
  Variable children : list (Z * child).
  Variables ecc erc : Z.
  Variable m0 : matrix.
  Hypothesis Hecc : 0 <= ecc <= 64.
  Hypothesis Herc : 0 <= erc <= 64.
  Hypothesis Hchildren : Forall (fun c => child_ok (snd c)) children.
  Hypothesis Hfits : Forall (fun c => child_fits ecc erc m0 (snd c)) children.

  Lemma child_facts : forall x m, In x children -> grows m0 m -> child_ok (snd x) /\ child_fits ecc erc m (snd x).
  Proof.
    intros x m Hin Hg. rewrite Forall_forall in Hchildren, Hfits. split; auto.
    eapply child_fits_grows; eauto.
  Qed.

  Definition P12 (k : Z) (st : matrix * list item) : Prop := cap (fst st) k /\ grows m0 (fst st).

  Lemma phase1_step_total : forall pax k st x, In x children -> phase1_filter x = true -> 0 <= k < 64 -> P12 k st ->
    exists st', phase1_step ecc erc pax st x = Ok st' /\ P12 (k + 1) st'.
  Proof.
    intros pax k [m items] [i c] Hin Hf Hk [Hcap Hg]. simpl in *.
    destruct (child_facts (i, c) m Hin Hg) as [Hc Hfit]. simpl in Hc, Hfit.
    rewrite origin_zero_placement_total by auto. cbn [bind].
    unfold phase1_filter in Hf. simpl in Hf. apply andb_true_iff in Hf. destruct Hf as [Hdr Hdc].
    assert (Hda : forall a, is_definite (grid_placement c a) = true) by (intros [|]; auto).
    destruct (fits_definite ecc erc m c pax Hecc Herc Hc Hfit (Hda pax)) as (ps & Hps & A1 & A2 & A3).
    destruct (fits_definite ecc erc m c (other_axis pax) Hecc Herc Hc Hfit (Hda (other_axis pax))) as (ss & Hss & B1 & B2 & B3).
    unfold place_definite_grid_item. rewrite !both_get_ozln, Hps, Hss. cbn [bind].
    destruct (record_total m items i pax ps ss DefinitelyPlaced k Hcap Hk) as (m' & Hr & Hcap' & Hg' & _); try (destruct pax; simpl in *; lia).
    rewrite Hr. eexists. split; [reflexivity|]. split; simpl; auto. eapply grows_trans; eauto.
  Qed.

  Lemma phase2_step_total : forall fl k st x, In x children ->
    phase2_filter (primary_axis fl) (other_axis (primary_axis fl)) x = true -> 0 <= k < 64 -> P12 k st ->
    exists st', phase2_step ecc erc fl st x = Ok st' /\ P12 (k + 1) st'.
  Proof.
    intros fl k [m items] [i c] Hin Hf Hk [Hcap Hg]. simpl in *.
    destruct (child_facts (i, c) m Hin Hg) as [Hc Hfit]. simpl in Hc, Hfit.
    rewrite origin_zero_placement_total by auto. cbn [bind].
    unfold phase2_filter in Hf. simpl in Hf. apply andb_true_iff in Hf. destruct Hf as [Hd2 Hd1]. apply negb_true_iff in Hd1.
    destruct (pdsa_total m ecc erc c fl k Hcap ltac:(lia) Hc Hecc Herc Hfit Hd2 Hd1) as (pp & sec & Hp & A1 & A2 & A3 & B1 & B2 & B3).
    rewrite Hp. cbn [bind].
    destruct (record_total m items i (primary_axis fl) pp sec AutoPlaced k Hcap Hk) as (m' & Hr & Hcap' & Hg' & _);
      try (destruct (primary_axis fl); simpl in *; lia).
    rewrite Hr. eexists. split; [reflexivity|]. split; simpl; auto. eapply grows_trans; eauto.
  Qed.

  Definition cursor_ok (fl : flow) (m : matrix) (gp : Z * Z) : Prop :=
    - tc_neg (track_counts m (primary_axis fl)) <= fst gp <= endl (track_counts m (primary_axis fl)) /\
    - tc_neg (track_counts m (other_axis (primary_axis fl))) <= snd gp <= endl (track_counts m (other_axis (primary_axis fl))).

  Definition P4 (fl : flow) (k : Z) (st : matrix * list item * (Z * Z)) : Prop :=
    cap (fst (fst st)) k /\ grows m0 (fst (fst st)) /\ cursor_ok fl (fst (fst st)) (snd st).

  Lemma phase4_step_total : forall fl gs k st x, In x children ->
    phase4_filter (other_axis (primary_axis fl)) x = true -> 0 <= k < 64 ->
    (forall m, grows m0 m -> cap m (k + 1) -> cursor_ok fl m gs) ->
    P4 fl k st ->
    exists st', phase4_step ecc erc fl gs st x = Ok st' /\ P4 fl (k + 1) st'.
  Proof.
    intros fl gs k [[m items] [cp cs]] [i c] Hin Hf Hk Hgs (Hcap & Hg & Hcur). simpl in *.
    destruct (child_facts (i, c) m Hin Hg) as [Hc Hfit]. simpl in Hc, Hfit.
    rewrite origin_zero_placement_total by auto. cbn [bind].
    unfold phase4_filter in Hf. simpl in Hf. apply negb_true_iff in Hf.
    destruct Hcur as [Hcp Hcs]. simpl in Hcp, Hcs.
    destruct (pipi_total m ecc erc c fl k cp cs Hcap ltac:(lia) Hc Hecc Herc Hfit Hf Hcp Hcs) as (ps & ss & Hp & A1 & A2 & A3 & B1 & B2 & B3).
    rewrite Hp. cbn [bind].
    destruct (record_total m items i (primary_axis fl) ps ss AutoPlaced k Hcap Hk) as (m' & Hr & Hcap' & Hg' & E1 & E2);
      try (destruct (primary_axis fl); simpl in *; lia).
    rewrite Hr. cbn [bind]. eexists. split; [reflexivity|]. unfold P4. simpl.
    split; [auto|]. split; [eapply grows_trans; eauto|].
    destruct (is_dense fl).
    - apply Hgs; auto. eapply grows_trans; eauto.
    - unfold cursor_ok. simpl. destruct Hg' as ((S1 & S2 & S3 & S4) & _).
      destruct (primary_axis fl); simpl in *; unfold endl in *; lia.
  Qed.
End Phases.

(* ... and the final matrix has the negative / explicit counts of the initial one and at least its positive counts (`grows`) *)
Lemma place_grid_items_total_grows : forall children m0 fl,
  0 <= tc_explicit (m_cols m0) <= 64 -> 0 <= tc_explicit (m_rows m0) <= 64 ->
  Forall (fun c => child_ok (snd c)) children ->
  Forall (fun c => child_fits (tc_explicit (m_cols m0)) (tc_explicit (m_rows m0)) m0 (snd c)) children ->
  (length children <= 64)%nat -> cap m0 0 ->
  exists m items, place_grid_items m0 children fl = Ok (m, items) /\ exists k, 0 <= k <= 64 /\ cap m k /\ grows m0 m.
Proof.
  intros children m0 fl Hec Her Hch Hfit Hlen Hcap0. unfold place_grid_items. simpl.
  set (ecc := tc_explicit (m_cols m0)) in *. set (erc := tc_explicit (m_rows m0)) in *. set (pax := primary_axis fl).
  set (L1 := filter phase1_filter children). set (L2 := filter (phase2_filter pax (other_axis pax)) children).
  set (L4 := filter (phase4_filter (other_axis pax)) children).
  assert (Hn : (length L1 + length L2 + length L4 = length children)%nat).
  { pose proof (Permutation_length (phases_partition children pax)) as Hp. rewrite !app_length in Hp. fold L1 L2 L4 in Hp. lia. }
  (* phase 1 *)
  destruct (foldM_total_count _ _ (phase1_step ecc erc pax) (P12 m0) L1 (m0, []) 0) as [st1 [E1 [C1 G1]]].
  { split; simpl; [exact Hcap0|apply grows_refl]. }
  { intros k s x Hin Hk Hp. apply filter_In in Hin. destruct Hin as [Hin Hf].
    eapply phase1_step_total; eauto. lia. }
  rewrite E1. cbn [bind].
  (* phase 2 *)
  destruct (foldM_total_count _ _ (phase2_step ecc erc fl) (P12 m0) L2 st1 (0 + Z.of_nat (length L1))) as [st2 [E2 [C2 G2]]].
  { split; auto. }
  { intros k s x Hin Hk Hp. apply filter_In in Hin. destruct Hin as [Hin Hf].
    eapply phase2_step_total; eauto. lia. }
  fold pax. rewrite E2. cbn [bind]. destruct st2 as [m2 items2]. simpl in C2, G2.
  set (k2 := 0 + Z.of_nat (length L1) + Z.of_nat (length L2)) in *.
  destruct (cap_bounds m2 k2 pax C2 ltac:(unfold k2; lia)) as ((?&?&?) & ? & ? & ?).
  destruct (cap_bounds m2 k2 (other_axis pax) C2 ltac:(unfold k2; lia)) as ((?&?&?) & ? & ? & ?).
  unfold i16_neg. rewrite !u16_as_i16_small by lia. rewrite !chk_i16_intro by lia. cbn [bind].
  (* phase 4 *)
  set (gs := (- tc_neg (track_counts m2 pax), - tc_neg (track_counts m2 (other_axis pax)))).
  assert (Hgs : forall m k, grows m0 m -> cap m k -> 0 <= k <= 64 -> cursor_ok fl m gs).
  { intros m k Hg Hc Hk. destruct Hg as ((S1 & S2 & S3 & S4) & _). destruct G2 as ((T1 & T2 & T3 & T4) & _).
    destruct (cap_bounds m k pax Hc Hk) as (_ & _ & _ & ?). destruct (cap_bounds m k (other_axis pax) Hc Hk) as (_ & _ & _ & ?).
    unfold cursor_ok, gs. fold pax. simpl. destruct pax; simpl in *; lia. }
  destruct (foldM_total_count _ _ (phase4_step ecc erc fl gs) (P4 m0 fl) L4 (m2, items2, gs) k2) as [st4 [E4 [C4 [G4 _]]]].
  { split; [exact C2|]. split; [exact G2|]. simpl. eapply Hgs; eauto. unfold k2; lia. }
  { intros k s x Hin Hk Hp. apply filter_In in Hin. destruct Hin as [Hin Hf].
    eapply phase4_step_total; eauto; [unfold k2 in Hk; lia|].
    intros m Hg Hc. eapply Hgs; eauto. unfold k2 in Hk; lia. }
  rewrite E4. cbn [bind]. destruct st4 as [[m4 items4] gp4]. exists m4, items4. split; [reflexivity|].
  exists (k2 + Z.of_nat (length L4)). split; [unfold k2; lia|]. split; [exact C4|exact G4].
Qed.

Lemma place_grid_items_total : forall children m0 fl,
  0 <= tc_explicit (m_cols m0) <= 64 -> 0 <= tc_explicit (m_rows m0) <= 64 ->
  Forall (fun c => child_ok (snd c)) children ->
  Forall (fun c => child_fits (tc_explicit (m_cols m0)) (tc_explicit (m_rows m0)) m0 (snd c)) children ->
  (length children <= 64)%nat -> cap m0 0 ->
  exists m items, place_grid_items m0 children fl = Ok (m, items) /\ exists k, 0 <= k <= 64 /\ cap m k.
Proof.
  intros children m0 fl Hec Her Hch Hfit Hlen Hcap0.
  destruct (place_grid_items_total_grows children m0 fl Hec Her Hch Hfit Hlen Hcap0) as (m & items & E & k & Hk & Hc & _).
  exists m, items. split; [exact E|]. exists k. split; assumption.
Qed.

(* ------------------------------------------------------------------ the report and the whole run *)
Lemma reported_line_total : forall tc l, tc_nonneg tc -> tlen tc <= 16000 -> - tc_neg tc <= l <= endl tc ->
  exists v, reported_line tc l = Ok v.
Proof.
  intros tc l (Hn & He & Hp) Hl Hr. unfold tlen, endl in *. unfold reported_line, into_track_vec_index.
  ok_steps.
  destruct (Z.geb_spec l (- tc_neg tc)); [|lia]. cbn [bind]. ok_steps.
  destruct (Z.leb_spec l (tc_explicit tc + tc_pos tc)); [|lia]. cbn [bind]. ok_steps.
  rewrite i16_as_usize_small by lia. ok_steps. rewrite usize_as_u16_small by lia.
  unfold to_one_indexed_grid_line. unfold u16_add. rewrite chk_u16_intro; [eauto|].
  assert (0 <= 2 * (l + tc_neg tc) / 2 <= 32767) by (replace (2 * (l + tc_neg tc)) with ((l + tc_neg tc) * 2) by lia; rewrite Z.div_mul; lia).
  lia.
Qed.

Lemma mapM_total : forall A B (f : A -> res B) l, Forall (fun x => exists y, f x = Ok y) l -> exists ys, mapM f l = Ok ys.
Proof.
  induction 1; simpl; [eauto|]. destruct H as [y Hy]. destruct IHForall as [ys Hys].
  rewrite Hy, Hys. cbn [bind]. eauto.
Qed.

Lemma filter_len_le : forall A (f : A -> bool) l, (length (filter f l) <= length l)%nat.
Proof. induction l; simpl; auto. destruct (f a); simpl; lia. Qed.

Lemma in_flow_children_length : forall children, (length (in_flow_children children) <= length children)%nat.
Proof.
  intros. unfold in_flow_children. rewrite map_length.
  eapply Nat.le_trans; [apply filter_len_le|].
  assert (H : forall A (l : list A) s, length (enumerate_from s l) = length l) by (induction l; simpl; intros; auto).
  rewrite H. auto.
Qed.

Theorem placement_total : forall ec er fl children, in_domain ec er children ->
  exists o, grid_placement_run ec er fl children = Ok o.
Proof.
  intros ec er fl children (Hec & Her & Hlen & Hch). unfold grid_placement_run.
  destruct (estimate_covers ec er (estimate_children children) Hec Her) as (cc & rc & Eest & C1 & C2 & C3 & C4 & R1 & R2 & R3 & R4 & Hfits).
  { unfold estimate_children. rewrite Forall_map. rewrite Forall_forall in *. intros x Hx. apply filter_In in Hx. apply Hch. tauto. }
  rewrite Eest. cbn [bind].
  unfold with_track_counts. rewrite (tc_len_intro rc) by (auto; lia). rewrite (tc_len_intro cc) by (auto; lia). cbn [bind].
  set (m0 := mkM (grid_new (tlen rc) (tlen cc)) cc rc).
  assert (Hwf0 : wf m0).
  { unfold wf, m0; simpl. repeat (split; [first [assumption | lia]|]).
    apply grid_new_reg; unfold tc_nonneg, tlen in *; lia. }
  assert (Hcap0 : cap m0 0).
  { unfold cap, m0; simpl. split; [exact Hwf0|]. unfold tc_nonneg, tlen in *. lia. }
  assert (Hin : forall x, In x (in_flow_children children) -> In (snd x) (estimate_children children)).
  { intros [i c] Hx. apply in_flow_children_In in Hx. destruct Hx as [_ Hn]. apply nth_error_In in Hn.
    unfold estimate_children. apply in_map_iff. exists (InFlow, c). split; [reflexivity|].
    apply filter_In. split; [exact Hn|reflexivity]. }
  destruct (place_grid_items_total (in_flow_children children) m0 fl) as (m & items & Epl & k & Hk & Hcapk).
  - simpl. lia.
  - simpl. lia.
  - apply in_flow_children_ok; auto.
  - apply Forall_forall. intros x Hx. apply Hin in Hx. rewrite Forall_forall in Hfits. destruct (Hfits _ Hx) as [Fc Fr].
    intros a. destruct a; simpl; rewrite ?C3, ?R3; auto.
  - eapply Nat.le_trans; [apply in_flow_children_length|]. auto.
  - exact Hcap0.
  - rewrite Epl. cbn [bind].
    pose proof (place_grid_items_inv (in_flow_children children) m0 fl m items) as Hinv. simpl in Hinv.
    destruct Hinv as [(Hwf & Hall & _) _]; auto; try lia.
    { apply in_flow_children_ok; auto. } { apply in_flow_children_nodup. }
    destruct (cap_bounds m k Horizontal Hcapk Hk) as (Hnc & ? & ? & ?).
    destruct (cap_bounds m k Vertical Hcapk Hk) as (Hnr & ? & ? & ?). simpl in *.
    destruct (mapM_total _ _ (report_item (m_cols m) (m_rows m)) (sort_items items)) as [rep Hrep].
    { apply Forall_forall. intros it Hit. apply (proj1 (In_sort_items _ _)) in Hit.
      rewrite Forall_forall in Hall. destruct (Hall it Hit) as ((N1 & N2) & _ & (I1 & I2 & I3 & I4) & _).
      unfold report_item.
      destruct (reported_line_total (m_cols m) (l_start (i_col it))) as [v1 E1]; auto; try (unfold endl; lia). rewrite E1. cbn [bind].
      destruct (reported_line_total (m_cols m) (l_end (i_col it))) as [v2 E2]; auto; try (unfold endl; lia). rewrite E2. cbn [bind].
      destruct (reported_line_total (m_rows m) (l_start (i_row it))) as [v3 E3]; auto; try (unfold endl; lia). rewrite E3. cbn [bind].
      destruct (reported_line_total (m_rows m) (l_end (i_row it))) as [v4 E4]; auto; try (unfold endl; lia). rewrite E4. cbn [bind].
      eauto. }
    rewrite Hrep. cbn [bind]. eauto.
Qed.
