(* The combined algorithms of Model/TaffyEngine.v satisfy the premises of the engine-level theorems of C05 / C06:
     grid_leaf_algo_hidden_blind / _abs_blind_lines   engines of grid containers and leaves
     taffy_algo_hidden_blind                          engines of block, flex, grid containers and leaves: HiddenBlind with no premise left,
                                                      for every dispatch on (own style, number of children) *)
From Coq Require Import ZArith Bool List.
From TV Require Import Model.Common Model.Leaf Model.FlexAlgBase Model.FlexAlg Model.EngineLift Model.BlockFlexEngine.
From TV Require Import Model.FiltersBase Gen.FiltersGen Model.ItemFilters.
From TV Require Import Model.GridAlgBase Model.GridAlg Model.GridAlgTotal Model.TaffyEngine.
From TV Require Import Model.Engine Proofs.EngineMemo Proofs.EngineBlind Proofs.EngineAbs Proofs.EngineAbsKey Proofs.EngineLift.
From TV Require Import Proofs.BlockAlgBlind Proofs.FlexAlgBlind Proofs.BlockFlexEngine Proofs.GridAlgIface Proofs.GridAlgBlind Proofs.GridAlgTotal.
Import ListNotations.
Close Scope Z_scope.

(* dispatch on the node's own style and ITS NUMBER OF CHILDREN (the views of a child list have its length) *)
Definition tk_is (a b : TKind) : bool :=
  match a, b with TKBlock, TKBlock | TKFlex, TKFlex | TKGrid, TKGrid | TKLeaf, TKLeaf => true | _, _ => false end.

Lemma HiddenBlind_ext (S In Out Lay : Type) (is_none : S -> bool) (a b : S -> list S -> In -> Alg In Out Lay) :
  (forall s st i, b s st i = a s st i) -> HiddenBlind S In Out Lay is_none a -> HiddenBlind S In Out Lay is_none b.
Proof.
  intros E (V & v & a' & Hv & Ha). exists V, v, a'. split; [exact Hv|]. intros s st i. rewrite E. apply Ha.
Qed.

Lemma HiddenBlind_dispatch_n (S In Out Lay : Type) (is_none : S -> bool) (sel : S -> nat -> bool)
      (a1 a2 : S -> list S -> In -> Alg In Out Lay) :
  HiddenBlind S In Out Lay is_none a1 -> HiddenBlind S In Out Lay is_none a2 ->
  HiddenBlind S In Out Lay is_none (fun s st i => if sel s (length st) then a1 s st i else a2 s st i).
Proof.
  intros (V1 & v1 & b1 & Hv1 & Hb1) (V2 & v2 & b2 & Hv2 & Hb2).
  exists (V1 * V2)%type, (fun s => (v1 s, v2 s)), (fun s vs i => if sel s (length vs) then b1 s (map fst vs) i else b2 s (map snd vs) i).
  split.
  - intros a b Ha Hb. rewrite (Hv1 a b Ha Hb), (Hv2 a b Ha Hb). reflexivity.
  - intros s st i. rewrite map_length, !map_map. cbn [fst snd]. rewrite Hb1, Hb2.
    replace (map (fun x => v1 x) st) with (map v1 st) by reflexivity.
    replace (map (fun x => v2 x) st) with (map v2 st) by reflexivity. reflexivity.
Qed.

Section Taffy.
  Context {T : Type} `{Num T}.
  Notation Out := (LayoutOutput T).

  Lemma to_gstyle_is_none (s : TStyle T) : g_is_none (to_gstyle s) = t_is_none s.
  Proof. reflexivity. Qed.

  Theorem grid_alg_t_hidden_blind : HiddenBlind (TStyle T) (FIn T) Out (FLay T) t_is_none grid_alg_t.
  Proof. unfold grid_alg_t. eapply HiddenBlind_comap; [apply to_gstyle_is_none|apply grid_alg_total_hidden_blind]. Qed.

  Theorem block_alg_t_hidden_blind pre abs_child :
    HiddenBlind (TStyle T) (FIn T) Out (FLay T) t_is_none (block_alg_t pre abs_child).
  Proof. unfold block_alg_t. eapply HiddenBlind_comap; [intros s; reflexivity|apply block_alg_bf_hidden_blind]. Qed.

  Theorem flex_alg_t_hidden_blind : HiddenBlind (TStyle T) (FIn T) Out (FLay T) t_is_none flex_alg_t.
  Proof. unfold flex_alg_t. eapply HiddenBlind_comap; [intros s; reflexivity|apply flex_alg_bf_hidden_blind]. Qed.

  Theorem taffy_algo_hidden_blind disp pre abs_child leaf :
    HiddenBlind (TStyle T) (FIn T) Out (FLay T) t_is_none (taffy_algo disp pre abs_child leaf).
  Proof.
    apply (HiddenBlind_ext (TStyle T) (FIn T) Out (FLay T) t_is_none
             (fun s st i => if tk_is TKGrid (disp s (length st)) then grid_alg_t s st i
                            else if tk_is TKBlock (disp s (length st)) then block_alg_t pre abs_child s st i
                            else if tk_is TKFlex (disp s (length st)) then flex_alg_t s st i
                            else Engine.Ret (FIn T) Out (FLay T) (leaf s i))).
    - intros s st i. unfold taffy_algo. destruct (disp s (length st)); reflexivity.
    - apply (HiddenBlind_dispatch_n (TStyle T) (FIn T) Out (FLay T) t_is_none (fun s n => tk_is TKGrid (disp s n)));
        [apply grid_alg_t_hidden_blind|].
      apply (HiddenBlind_dispatch_n (TStyle T) (FIn T) Out (FLay T) t_is_none (fun s n => tk_is TKBlock (disp s n)));
        [apply block_alg_t_hidden_blind|].
      apply (HiddenBlind_dispatch_n (TStyle T) (FIn T) Out (FLay T) t_is_none (fun s n => tk_is TKFlex (disp s n)));
        [apply flex_alg_t_hidden_blind|].
      apply (HiddenBlind_leaf (TStyle T) (FIn T) Out (FLay T) t_is_none leaf).
  Qed.

  Theorem grid_leaf_algo_hidden_blind sel leaf :
    HiddenBlind (GStyle T) (GIn T) Out (GLay T) g_is_none (grid_leaf_algo sel leaf).
  Proof.
    unfold grid_leaf_algo. apply (HiddenBlind_dispatch2 (GStyle T) (GIn T) Out (GLay T) g_is_none sel);
      [apply grid_alg_hidden_blind|apply (HiddenBlind_leaf (GStyle T) (GIn T) Out (GLay T) g_is_none leaf)].
  Qed.

  Theorem grid_leaf_algo_abs_blind_lines sel leaf r c :
    AbsBlind (GStyle T) (GIn T) Out (GLay T) (grid_leaf_algo sel leaf) (ab_lines r c) gout_eq glay_eq.
  Proof.
    unfold grid_leaf_algo. apply (AbsBlind_dispatch2 (GStyle T) (GIn T) Out (GLay T) sel);
      [apply grid_alg_abs_blind_lines|apply (AbsBlind_leaf (GStyle T) (GIn T) Out (GLay T) leaf); apply gout_eq_refl].
  Qed.

  (* ---- C06, keyed by the grid lines: engines of grid containers and leaves, and of all four node kinds *)
  Notation LK := (PB.Ln PB.GP * PB.Ln PB.GP)%type.

  Lemma AbsBlindK_leaf (S In O Lay K : Type) (leaf : S -> In -> O) ab (key : S -> K) (oeq : O -> O -> Prop) leq :
    (forall o, oeq o o) -> AbsBlindK S In O Lay (fun s _ i => Engine.Ret In O Lay (leaf s i)) ab K key oeq leq.
  Proof. intros Hrefl s st st' i _. apply AB_ret. apply Hrefl. Qed.

  Theorem grid_leaf_algo_abs_blind_keyed sel leaf :
    AbsBlindK (GStyle T) (GIn T) Out (GLay T) (grid_leaf_algo sel leaf) g_visible_absolute LK g_lines gout_eq glay_eq.
  Proof.
    unfold grid_leaf_algo. apply (AbsBlindK_dispatch2 (GStyle T) (GIn T) Out (GLay T) LK sel);
      [apply grid_alg_abs_blind_keyed|apply AbsBlindK_leaf; apply gout_eq_refl].
  Qed.

  Theorem grid_alg_t_abs_blind_keyed : AbsBlindK (TStyle T) (FIn T) Out (FLay T) grid_alg_t t_visible_absolute LK t_lines fout_eq flay_eq.
  Proof.
    unfold grid_alg_t, style_comap.
    apply (AbsBlindK_comap (GStyle T) (TStyle T) (FIn T) Out (FLay T) LK to_gstyle g_visible_absolute t_visible_absolute g_lines t_lines);
      [intros s; reflexivity|intros s; reflexivity|apply grid_alg_total_abs_blind_keyed].
  Qed.

  Theorem block_alg_t_abs_blind_keyed pre abs_child : BlockAlg.AbsChildLocal abs_child ->
    AbsBlindK (TStyle T) (FIn T) Out (FLay T) (block_alg_t pre abs_child) t_visible_absolute LK t_lines fout_eq flay_eq.
  Proof.
    intros Hloc. apply AbsBlind_K. unfold block_alg_t.
    eapply AbsBlind_comap; [intros s; reflexivity|apply block_alg_bf_abs_blind; exact Hloc].
  Qed.

  Theorem flex_alg_t_abs_blind_keyed :
    AbsBlindK (TStyle T) (FIn T) Out (FLay T) flex_alg_t t_visible_absolute LK t_lines fout_eq flay_eq.
  Proof.
    apply AbsBlind_K. unfold flex_alg_t. eapply AbsBlind_comap; [intros s; reflexivity|apply flex_alg_bf_abs_blind].
  Qed.

  Theorem taffy_algo_abs_blind_keyed disp pre abs_child leaf : BlockAlg.AbsChildLocal abs_child ->
    AbsBlindK (TStyle T) (FIn T) Out (FLay T) (taffy_algo disp pre abs_child leaf) t_visible_absolute LK t_lines fout_eq flay_eq.
  Proof.
    intros Hloc s st st' i Hr. unfold taffy_algo.
    assert (EL : length st' = length st) by (clear -Hr; induction Hr; cbn; congruence).
    rewrite EL. destruct (disp s (length st)).
    - apply block_alg_t_abs_blind_keyed; assumption.
    - apply flex_alg_t_abs_blind_keyed; assumption.
    - apply grid_alg_t_abs_blind_keyed; assumption.
    - apply AB_ret. apply fout_eq_refl.
  Qed.
End Taffy.
