"""Translate `CollapsibleMarginSet` (src/tree/layout.rs: the struct, ZERO, from_margin, collapse_with_margin,
collapse_with_set, resolve) into `Num`-generic Gallina (coq/Gen/BlockGen.v), and fingerprint the bodies of the
hand-modelled functions of block layout (src/compute/block.rs, src/compute/leaf.rs, src/compute/mod.rs).

Source forms understood (anything else: Refuse, the Gen file then does not compile):
  struct CollapsibleMarginSet { f1: f32, f2: f32 }          -> Record MarginSet
  pub const ZERO: Self = Self { f: 0.0, .. };
  fn m(self | mut self | &self, p: f32 | CollapsibleMarginSet ...) -> Self | f32 { body }
  body   := stmt* tail
  stmt   := `if cond { stmt* } else { stmt* }` | `self.f = expr;`
  tail   := `self` | `Self { f: expr, .. }` | expr | `if cond { body } else { body }`
  expr   := 0.0 | param | self.f | param.f | f32_max(e, e) | f32_min(e, e) | e + e | e - e | e >= e | e > e | e < e | e <= e
f32_max / f32_min themselves must be `a.max(b)` / `a.min(b)` (src/util/sys.rs, std variant)."""
import re
from rustparse import *

LAYOUT = 'src/tree/layout.rs'
SYS = 'src/util/sys.rs'
BLOCK = 'src/compute/block.rs'
LEAF = 'src/compute/leaf.rs'
CMOD = 'src/compute/mod.rs'
STRUCT = 'CollapsibleMarginSet'


class Refuse(Exception):
    pass


def strip_docs(toks):
    return toks


class MS:
    """Functional translation of a method body over the struct fields."""

    def __init__(self, fields, params, ptypes):
        self.fields = fields
        self.params = params      # names (excluding self)
        self.ptypes = ptypes      # name -> 'f32' | STRUCT

    # -- expressions (type T or bool)
    def e(self, a, st):
        k = a[0]
        if k == 'lit':
            if a[1] in ('0.0', '0.'):
                return 'zero'
            raise Refuse('literal %s' % a[1])
        if k == 'path':
            if len(a[1]) == 1 and a[1][0] in self.params and self.ptypes[a[1][0]] == 'f32':
                return a[1][0]
            raise Refuse('name %s' % '::'.join(a[1]))
        if k == 'field':
            base, f = a[1], a[2]
            if f not in self.fields:
                raise Refuse('field %s' % f)
            if base == ('path', ['self']):
                return st[f]
            if base[0] == 'path' and len(base[1]) == 1 and self.ptypes.get(base[1][0]) == STRUCT:
                return '(ms_%s %s)' % (f, base[1][0])
            raise Refuse('field access on %r' % (base,))
        if k == 'call':
            f = a[1]
            if f[0] == 'path' and f[1][-1] in ('f32_max', 'f32_min') and len(a[2]) == 2:
                return '(%s %s %s)' % ('fmax' if f[1][-1] == 'f32_max' else 'fmin', self.e(a[2][0], st), self.e(a[2][1], st))
            raise Refuse('call')
        if k == 'bin':
            op, l, r = a[1], self.e(a[2], st), self.e(a[3], st)
            table = {'+': 'add %s %s', '-': 'sub %s %s', '>=': 'leb %s %s', '>': 'ltb %s %s', '<': 'ltb %s %s', '<=': 'leb %s %s'}
            if op not in table:
                raise Refuse('operator %s' % op)
            if op in ('>=', '>'):
                l, r = r, l
            return '(' + table[op] % (l, r) + ')'
        raise Refuse('expression kind %s' % k)

    def mk(self, st):
        return '(mkMS %s)' % ' '.join(st[f] for f in self.fields)

    # -- bodies: returns a term; `ret` is 'set' or 'num'
    def body(self, stmts, tail, st, ret):
        if not stmts:
            return self.tail(tail, st, ret)
        s, rest = stmts[0], stmts[1:]
        if s[0] == 'expr' and s[1][0] == 'assign':
            _, op, lhs, rhs = s[1]
            if op != '=' or lhs[0] != 'field' or lhs[1] != ('path', ['self']) or lhs[2] not in self.fields:
                raise Refuse('assignment form')
            st2 = dict(st)
            st2[lhs[2]] = self.e(rhs, st)
            return self.body(rest, tail, st2, ret)
        if s[0] == 'expr' and s[1][0] == 'if':
            _, c, th, el = s[1]
            if el is None or el[0] != 'block':
                raise Refuse('if without plain else')
            if th[2] is not None or el[2] is not None:
                raise Refuse('valued if in statement position')
            return '(if %s then %s else %s)' % (self.e(c, st), self.body(th[1] + rest, tail, st, ret), self.body(el[1] + rest, tail, st, ret))
        raise Refuse('statement %r' % (s[0],))

    def tail(self, t, st, ret):
        if t is None:
            raise Refuse('no value')
        if t[0] == 'if':
            _, c, th, el = t
            if el is None or el[0] != 'block':
                raise Refuse('if without plain else')
            return '(if %s then %s else %s)' % (self.e(c, st), self.body(th[1], th[2], st, ret), self.body(el[1], el[2], st, ret))
        if ret == 'set':
            if t == ('path', ['self']):
                return self.mk(st)
            if t[0] == 'struct' and t[1] == ['Self'] and t[3] is None:
                got = dict(t[2])
                if sorted(got) != sorted(self.fields):
                    raise Refuse('struct literal fields')
                return self.mk({f: self.e(got[f], st) for f in self.fields})
            raise Refuse('tail %r' % (t[0],))
        return self.e(t, st)


def split_params(params):
    parts, cur, depth = [], [], 0
    for t in params:
        if t[1] in '([{<':
            depth += 1
        elif t[1] in ')]}>':
            depth -= 1
        if t[1] == ',' and depth == 0:
            parts.append(cur)
            cur = []
        else:
            cur.append(t)
    if cur:
        parts.append(cur)
    return parts


def ret_type(toks, name):
    """Return-type text of `fn name` (tokens between `->` and the body)."""
    for i in range(len(toks) - 1):
        if toks[i] == ('id', 'fn') and toks[i + 1] == ('id', name):
            j = i + 2
            k = match_brace(toks, j)
            b = k + 1
            out = []
            while toks[b][1] != '{':
                out.append(toks[b][1])
                b += 1
            if not out or out[0] != '->':
                raise Refuse('fn %s has no return type' % name)
            return ' '.join(out[1:])
    raise Refuse('fn %s not found' % name)


def generate(repo):
    src = open(repo + '/' + LAYOUT).read()
    toks = tokenize(src)
    fps = {}
    out = []
    w = out.append
    w('(* GENERATED on every run by /verif/translator/gen_block.py from %s -- do not edit. *)' % LAYOUT)
    w('From Coq Require Import ZArith Bool List.')
    w('From TV Require Import Num.Num.')
    # --- struct
    si = [i for i in range(len(toks)) if seq_at(toks, i, ['pub', 'struct', STRUCT, '{'])]
    if len(si) != 1:
        raise Refuse('struct %s not found' % STRUCT)
    sb = si[0] + 3
    se = match_brace(toks, sb)
    ftoks = [t for t in toks[sb + 1:se]]
    fields = []
    i = 0
    while i < len(ftoks):
        if ftoks[i][1] == '#':
            j = match_brace(ftoks, i + 1)
            i = j + 1
            continue
        if ftoks[i][0] == 'id' and ftoks[i][1] == 'pub':
            i += 1
            continue
        if ftoks[i][0] == 'id' and i + 2 < len(ftoks) + 1 and ftoks[i + 1][1] == ':':
            if ftoks[i + 2][1] != 'f32':
                raise Refuse('field %s is not f32' % ftoks[i][1])
            fields.append(ftoks[i][1])
            i += 3
            if i < len(ftoks) and ftoks[i][1] == ',':
                i += 1
            continue
        raise Refuse('struct body token %r' % (ftoks[i],))
    if fields != ['positive', 'negative']:
        raise Refuse('fields of %s changed: %r' % (STRUCT, fields))
    fps['CollapsibleMarginSet::struct'] = norm_tokens(toks[sb:se + 1])
    w('Record MarginSet (T : Type) := mkMS { %s }.' % '; '.join('ms_%s : T' % f for f in fields))
    w('Arguments mkMS {T}.')
    for f in fields:
        w('Arguments ms_%s {T}.' % f)
    w('Section BlockGen.')
    w('Context {T : Type} `{Num T}.')
    # --- impl block
    ii = [i for i in range(len(toks)) if seq_at(toks, i, ['impl', STRUCT, '{'])]
    if len(ii) != 1:
        raise Refuse('expected exactly one `impl %s`' % STRUCT)
    ib = ii[0] + 2
    ie = match_brace(toks, ib)
    impl = toks[ib:ie + 1]
    # ZERO
    zi = [i for i in range(len(impl)) if seq_at(impl, i, ['pub', 'const', 'ZERO', ':', 'Self', '='])]
    if len(zi) != 1:
        raise Refuse('const ZERO')
    j = zi[0] + 6
    k = j
    while impl[k][1] != ';':
        k += 1
    z = parse_expr(impl[j:k])
    m0 = MS(fields, [], {})
    w('Definition ms_ZERO : MarginSet T := %s.' % m0.tail(z, {}, 'set'))
    fps['CollapsibleMarginSet::ZERO'] = norm_tokens(impl[j:k])
    # methods
    for fn in ['from_margin', 'collapse_with_margin', 'collapse_with_set', 'resolve']:
        params, body, _ = find_fn(impl, fn)
        fps['CollapsibleMarginSet::' + fn] = norm_tokens(body)
        names, ptypes, has_self = [], {}, False
        for p in split_params(params):
            ws = [t[1] for t in p]
            if 'self' in ws and ':' not in ws:
                has_self = True
                continue
            kk = ws.index(':')
            nm = [x for x in ws[:kk] if x != 'mut'][-1]
            ty = ' '.join(ws[kk + 1:])
            if ty not in ('f32', STRUCT):
                raise Refuse('parameter type %s' % ty)
            names.append(nm)
            ptypes[nm] = ty
        rt = ret_type(impl, fn)
        if rt not in ('Self', 'f32'):
            raise Refuse('return type %s' % rt)
        ms = MS(fields, names, ptypes)
        st = {f: '(ms_%s self)' % f for f in fields} if has_self else {}
        blk = parse_block(body)
        term = ms.body(blk[1], blk[2], st, 'set' if rt == 'Self' else 'num')
        args = (['(self : MarginSet T)'] if has_self else []) + ['(%s : %s)' % (n, 'T' if ptypes[n] == 'f32' else 'MarginSet T') for n in names]
        w('Definition ms_%s %s : %s :=\n  %s.' % (fn, ' '.join(args), 'MarginSet T' if rt == 'Self' else 'T', term))
    w('End BlockGen.')
    # --- f32_max / f32_min must be max / min
    stoks = tokenize(open(repo + '/' + SYS).read())
    for fn, meth in (('f32_max', 'max'), ('f32_min', 'min')):
        start = 0
        cnt = 0
        while True:
            try:
                params, body, start = find_fn(stoks, fn, start)
            except ParseError:
                break
            cnt += 1
            if norm_tokens(body) != '{ a . %s ( b ) }' % meth or param_names(params) != ['a', 'b']:
                raise Refuse('%s is no longer a.%s(b)' % (fn, meth))
        if cnt == 0:
            raise Refuse('%s not found' % fn)
    # --- fingerprints of the hand-modelled functions
    btoks = tokenize(open(repo + '/' + BLOCK).read())
    for fn in ['compute_block_layout', 'compute_inner', 'generate_item_list', 'determine_content_based_container_width',
               'perform_final_layout_on_in_flow_children']:
        params, body, _ = find_fn(btoks, fn)
        fps['block::' + fn] = norm_tokens(params) + ' ' + norm_tokens(body)
    ltoks = tokenize(open(repo + '/' + LEAF).read())
    params, body, _ = find_fn(ltoks, 'compute_leaf_layout')
    fps['leaf::compute_leaf_layout'] = norm_tokens(body)
    mtoks = tokenize(open(repo + '/' + CMOD).read())
    params, body, _ = find_fn(mtoks, 'compute_root_layout')
    fps['compute::compute_root_layout'] = norm_tokens(body)
    return '\n'.join(out) + '\n', fps


TARGETS = {'BlockGen.v': generate}
