(* Executable driver used by the correspondence check of C18: the same definitions the theorems are about
   (Gen.CompactLengthGen, Proofs.CompactLengthProofs.build) evaluated on the harness's cases. *)
From Coq Require Import NArith Bool List.
From TV Require Import Gen.CompactLengthGen Model.CompactLength.
Import ListNotations.
Open Scope N_scope.

Definition b2n (b : bool) : N := if b then 1 else 0.

Definition predmask (w : N) : N :=
  let ps := [cl_is_calc w; cl_is_zero w; cl_is_length_or_percentage w; cl_is_auto w; cl_is_min_content w;
             cl_is_max_content w; cl_is_fit_content w; cl_is_max_or_fit_content w; cl_is_max_content_alike w;
             cl_is_min_or_max_content w; cl_is_intrinsic w; cl_is_fr w; cl_uses_percentage w] in
  snd (fold_left (fun '(i, acc) b => (i + 1, acc + N.shiftl (b2n b) i)) ps (0, 0)).

Definition kind_of_N (n : N) : kind := nth (N.to_nat n) all_kinds KLength.

(* one case: [kind; v]  ->  the fields the harness prints after `R` *)
Definition run_case (c : list N) : list N :=
  match c with
  | [kd; v] =>
      if kd <? 8 then
        let k := kind_of_N kd in
        let w := build k v in
        let fit := if kd <? 2 then match cl_fit_content w with Some x => x | None => 0 end else 0 in
        [w; tag w; value w; predmask w; fit]
      else
        match cl_calc v with
        | Some w => [1; w; b2n (cl_is_calc w); cl_calc_value w; tag w]
        | None => [0; 0; 0; 0; 0]
        end
  | _ => []
  end.
