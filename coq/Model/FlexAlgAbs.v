(* perform_absolute_layout_on_absolute_children (flexbox.rs l.2058-2331), ONE child, expressed with the kernel TRANSLATED from that
   loop body on every run (Gen/AbsPosGen.v `flex_resolve`, `flex_known`, `flex_place`: C11) -- this file only converts between the
   geometry / style types of Model/Types.v and those of Model/AbsPosBase.v, and adds what the translated kernel leaves out because C11
   does not need it: the available space of the query, scrollbar_size, the content-size contribution.  Definitions only. *)
From Coq Require Import ZArith NArith Bool List.
From TV Require Import Model.Common Model.Leaf Model.FlexAlgBase.
From TV Require Gen.FlexGen Gen.AbsPosEnums Model.AbsPosBase Gen.AbsPosGen Model.Engine.
Import ListNotations.
Close Scope Z_scope.

Module AB := AbsPosBase.
Module AE := AbsPosEnums.
Module AG := AbsPosGen.

Section Conv.
  Context {T : Type} `{Num T}.

  Definition a_size {A} (s : Size A) : AB.Size A := AB.mkSize (width s) (height s).
  Definition a_rect {A} (r : Rect A) : AB.Rect A := AB.mkRect (r_left r) (r_right r) (r_top r) (r_bottom r).
  Definition a_point {A} (p : Point A) : AB.Point A := AB.mkPoint (px p) (py p).
  Definition c_size {A} (s : AB.Size A) : Size A := mkSize (AB.s_width s) (AB.s_height s).
  Definition c_rect {A} (r : AB.Rect A) : Rect A := mkRect (AB.r_left r) (AB.r_right r) (AB.r_top r) (AB.r_bottom r).
  Definition c_point {A} (p : AB.Point A) : Point A := mkPoint (AB.p_x p) (AB.p_y p).

  Definition a_lpa (d : LengthPercentageAuto T) : AB.Dim T :=
    match d with Auto => AB.DAuto | Length v => AB.DLength v | Percent v => AB.DPercent v end.
  Definition a_lp (d : LengthPercentage T) : AB.Dim T :=
    match d with LpLength v => AB.DLength v | LpPercent v => AB.DPercent v end.

  Definition a_align (a : FAlign) : AE.AlignItems :=
    match a with
    | FA_Start => AE.AI_Start | FA_End => AE.AI_End | FA_FlexStart => AE.AI_FlexStart | FA_FlexEnd => AE.AI_FlexEnd
    | FA_Center => AE.AI_Center | FA_Baseline => AE.AI_Baseline | FA_Stretch => AE.AI_Stretch
    end.
  Definition a_content (a : FlexGen.AlignContent) : AE.AlignContent :=
    match a with
    | FlexGen.AC_Start => AE.AC_Start | FlexGen.AC_End => AE.AC_End | FlexGen.AC_FlexStart => AE.AC_FlexStart
    | FlexGen.AC_FlexEnd => AE.AC_FlexEnd | FlexGen.AC_Center => AE.AC_Center | FlexGen.AC_Stretch => AE.AC_Stretch
    | FlexGen.AC_SpaceBetween => AE.AC_SpaceBetween | FlexGen.AC_SpaceEvenly => AE.AC_SpaceEvenly
    | FlexGen.AC_SpaceAround => AE.AC_SpaceAround
    end.
  Definition a_dir (row reverse : bool) : AE.FlexDirection :=
    match row, reverse with
    | true, false => AE.FD_Row | false, false => AE.FD_Column | true, true => AE.FD_RowReverse | false, true => AE.FD_ColumnReverse
    end.

  (* the fields of AlgoConstants the absolute pass reads *)
  Definition abs_constants (container_size : Size T) (border content_box_inset : Rect T) (gutter : Point T)
             (row reverse wrap_reverse : bool) (justify : option FlexGen.AlignContent) (align_items : FAlign) : AB.FlexConstants T :=
    AB.mkFlexConstants (a_size container_size) (a_rect border) (a_point gutter) (a_rect content_box_inset)
                       (a_dir row reverse) row wrap_reverse (option_map a_content justify) (a_align align_items).

  Definition abs_style (st : FStyle T) : AB.AbsStyle T :=
    let c := fs_core st in
    AB.mkAbsStyle (a_size (size_map a_lpa (size c))) (a_size (size_map a_lpa (min_size c))) (a_size (size_map a_lpa (max_size c)))
                  (a_rect (rect_map a_lpa (fs_inset st))) (a_rect (rect_map a_lpa (margin c)))
                  (a_rect (rect_map a_lp (padding c))) (a_rect (rect_map a_lp (border c)))
                  (aspect_ratio c) (match box_sizing c with ContentBox => AE.BS_ContentBox | BorderBox => AE.BS_BorderBox end)
                  (option_map a_align (fs_align_self st)) None AE.Pos_Absolute.

  (* min_size as the loop computes it: `.or(padding_border_sum.map(Some)).maybe_max(padding_border_sum)` *)
  Definition abs_min_size (i : AB.AbsIn T) : AB.Size (option T) :=
    AB.size_zip2 AG.maybe_max_OF (AB.size_or (AB.ai_min0 i) (AB.size_map Some (AB.ai_pb_sum i))) (AB.ai_pb_sum i).

  (* the input of the one query the loop body issues *)
  Definition abs_query_input (c : AB.FlexConstants T) (node_inner_size : Size (option T)) (st : FStyle T) : FIn T :=
    let i := AG.flex_resolve c (abs_style st) in
    let mn := abs_min_size i in
    let mx := AB.ai_max i in
    mkFIn Engine.PerformLayout InherentSize AxBoth (c_size (AG.flex_known c i)) node_inner_size
          (mkSize (Definite (AG.maybe_clamp_FOO (AB.s_width (AB.fc_container_size c)) (AB.s_width mn) (AB.s_width mx)))
                  (Definite (AG.maybe_clamp_FOO (AB.s_height (AB.fc_container_size c)) (AB.s_height mn) (AB.s_height mx))))
          (mkLine false false).

  (* the Layout stored for the child, given the answer's size and content size *)
  Definition abs_layout (c : AB.FlexConstants T) (st : FStyle T) (order : nat) (measured content : Size T) : FLay T :=
    let i := AG.flex_resolve c (abs_style st) in
    let o := AG.flex_place c i (a_size measured) in
    let ov := overflow (fs_core st) in
    let sw := scrollbar_width (fs_core st) in
    mkFLay (Z.of_nat order) (c_point (AB.o_location o)) (c_size (AB.o_size o)) content
           (mkSize (if is_scroll (py ov) then sw else zero) (if is_scroll (px ov) then sw else zero))
           (c_rect (AB.ai_border i)) (c_rect (AB.ai_padding i)) (c_rect (AB.o_margin o)).

  (* what the child adds to the container's content size (None: nothing, the child has no area) *)
  Definition abs_contribution (st : FStyle T) (l : FLay T) : option (Size T) :=
    let ov := overflow (fs_core st) in
    let fs := fl_size l in
    let cs := fl_content_size l in
    let w := match px ov with Visible => fmax (width fs) (width cs) | _ => width fs end in
    let h := match py ov with Visible => fmax (height fs) (height cs) | _ => height fs end in
    if gtb w zero && gtb h zero then Some (mkSize (add (px (fl_location l)) w) (add (py (fl_location l)) h)) else None.
End Conv.
