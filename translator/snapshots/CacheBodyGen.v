(* GENERATED on every run by /verif/translator/gen_cachebody.py from src/tree/cache.rs and src/style/available_space.rs -- do not edit.
   The bodies of Cache::new / get / store / clear / is_empty and AvailableSpace::is_roughly_equal, statement by statement, over
   the types of Model/Cache.v (only its type vocabulary is used; the generator checks that).  Proofs/CacheBodyProofs.v proves
   each gen_* equal to the hand-written function of Model/Cache.v. *)
From Coq Require Import NArith Bool List.
From TV Require Import Num.Num Gen.CacheGen Model.Cache.
Import ListNotations.
Section CacheBodyGen.
  Context {T : Type} `{Num T}.
  (* AvailableSpace::is_roughly_equal *)
  Definition gen_is_roughly_equal (r_self : avail T) (r_other : (avail T)) : bool :=
    (match r_self, r_other with | (Definite r_a), (Definite r_b) => (ltb (fabs (sub r_a r_b)) epsilon) | MinContent, MinContent => true | MaxContent, MaxContent => true | _, _ => false end).
  (* Cache::new *)
  Definition gen_new  : (cache T) :=
    {| final := None; meas := (repeat None (N.to_nat CACHE_SIZE)); is_empty_flag := true |}.
  (* Cache::get *)
  Definition gen_get (r_self : cache T) (k : key T) (r_run_mode : run_mode) : (option (output T)) :=
    (match r_run_mode with | PerformLayout => (match (match (final r_self) with Some r_entry => if (((((opt_eqb (kd_w k) (kd_w (e_key r_entry))) || (opt_eqb (kd_w k) (Some (width (o_size (e_content r_entry)))))) && ((opt_eqb (kd_h k) (kd_h (e_key r_entry))) || (opt_eqb (kd_h k) (Some (height (o_size (e_content r_entry))))))) && ((is_some (kd_w k)) || (gen_is_roughly_equal (av_w (e_key r_entry)) (av_w k)))) && ((is_some (kd_h k)) || (gen_is_roughly_equal (av_h (e_key r_entry)) (av_h k)))) then Some r_entry else None | None => None end) with Some r_e => Some (e_content r_e) | None => None end) | ComputeSize => ((fix loop1 (l : (list (option (entry T (size T))))) := match l with [] => None | None :: l' => loop1 l' | Some r_entry :: l' => (if (((((opt_eqb (kd_w k) (kd_w (e_key r_entry))) || (opt_eqb (kd_w k) (Some (width (e_content r_entry))))) && ((opt_eqb (kd_h k) (kd_h (e_key r_entry))) || (opt_eqb (kd_h k) (Some (height (e_content r_entry)))))) && ((is_some (kd_w k)) || (gen_is_roughly_equal (av_w (e_key r_entry)) (av_w k)))) && ((is_some (kd_h k)) || (gen_is_roughly_equal (av_h (e_key r_entry)) (av_h k)))) then (Some (from_outer_size (e_content r_entry))) else loop1 l') end) (meas r_self)) | PerformHiddenLayout => None end).
  (* Cache::store *)
  Definition gen_store (r_self : cache T) (k : key T) (r_run_mode : run_mode) (r_layout_output : (output T)) : (cache T) :=
    (match r_run_mode with | PerformLayout => {| final := (Some {| e_key := k; e_content := r_layout_output |}); meas := (meas r_self); is_empty_flag := false |} | ComputeSize => {| final := (final r_self); meas := (set_nth (N.to_nat (slot (is_some (kd_w k)) (is_some (kd_h k)) (kind_of (av_w k)) (kind_of (av_h k)))) (Some {| e_key := k; e_content := (o_size r_layout_output) |}) (meas r_self)); is_empty_flag := false |} | PerformHiddenLayout => r_self end).
  (* Cache::clear *)
  Definition gen_clear (r_self : cache T) : (cache T * clear_state) :=
    (if (is_empty_flag r_self) then (r_self, AlreadyEmpty) else ({| final := None; meas := (repeat None (N.to_nat CACHE_SIZE)); is_empty_flag := true |}, Cleared)).
  (* Cache::is_empty *)
  Definition gen_is_empty (r_self : cache T) : bool :=
    ((negb (is_some (final r_self))) && (negb (existsb (fun r_entry => (is_some r_entry)) (meas r_self)))).
End CacheBodyGen.
(* dropped, recognised syntactically as the inactive exact-key test hook:
   - Cache::new: field `exact` of Self { .. } under #[cfg(taffy_verif)]
   - Cache::get: `if crate::verif_hooks::exact_key() ..` statement under #[cfg(taffy_verif)]
   - Cache::store: `if crate::verif_hooks::exact_key() ..` statement under #[cfg(taffy_verif)]
   - Cache::clear: `self.exact.clear(..)` under #[cfg(taffy_verif)]
*)
