(* C14 -- tree structure stays consistent under any sequence of structural edits.
   Statements only (each proof is `exact <lemma>` or a few lines of glue).  They are about Model/Tree.v:
   the slot-map model of TaffyTree {nodes, children, parents, node_context_data} with every structural method
   transcribed from src/tree/taffy_tree.rs (`step`), the forest specification (`spec_step`, parent derived), the
   abstraction `abs`, the precondition `pre` ("a node is attached only while detached, or via set_children with
   distinct children; keys live"), and the invariant WF of Proofs/TreeProofs.v.  The correspondence check
   (vh c14 cases vs Model/TreeRun.v) runs the same `step` against the real implementation. *)
From Coq Require Import NArith List Bool.
From TV Require Import Model.Tree Proofs.TreeLists Proofs.TreeSlotMap Proofs.TreeProofs Proofs.TreeExamples.
From TV Require Import Model.TreeImp Gen.TreeBodiesGen Model.TreeGenStep Proofs.TreeBodiesProofs.
Import ListNotations.

(* ---- the invariant.  WF t = the three slot maps satisfy the slot-map invariant (free list acyclic through vacant slots,
   odd version <-> occupied, sentinel, counter) and have the same shape (identical key sets, versions, free lists);
   every child list is duplicate free and each listed node points back; every parent pointer is matched by a list entry.
   Its consequences in the words of the property: *)
Theorem C14_WF_meaning : forall t, WF t ->
  (* identical key sets *)
  (forall k, sm_get (t_nodes t) k <> None <-> sm_get (t_children t) k <> None) /\
  (forall k, sm_get (t_nodes t) k <> None <-> sm_get (t_parents t) k <> None) /\
  (* parents c = Some p <-> c in children p *)
  (forall c p, sm_get (t_parents t) c = Some (Some p) <-> exists l, sm_get (t_children t) p = Some l /\ In c l) /\
  (* duplicate free, pairwise disjoint, listed keys live *)
  (forall p l, sm_get (t_children t) p = Some l -> NoDup l) /\
  (forall p q lp lq c, sm_get (t_children t) p = Some lp -> sm_get (t_children t) q = Some lq -> In c lp -> In c lq -> p = q) /\
  (forall p l c, sm_get (t_children t) p = Some l -> In c l -> sm_get (t_nodes t) c <> None).
Proof.
  intros t W. repeat split.
  - apply (shape_live (t_nodes t) (t_children t) k). symmetry. apply (wf_shape_c t W).
  - apply (shape_live (t_nodes t) (t_children t) k). symmetry. apply (wf_shape_c t W).
  - apply (shape_live (t_nodes t) (t_parents t) k). symmetry. apply (wf_shape_p t W).
  - apply (shape_live (t_nodes t) (t_parents t) k). symmetry. apply (wf_shape_p t W).
  - apply (wf_up t W).
  - intros [l [Hl Hc]]. apply (wf_down t W p l Hl). exact Hc.
  - intros p l H. apply (wf_down t W p l H).
  - intros p q lp lq c. apply WF_disjoint. exact W.
  - intros p l c Hl Hc. apply (WF_listed_live t p l c W Hl Hc).
Qed.

Theorem C14_WF_init : WF tree_new.
Proof. exact tree_new_WF. Qed.

(* ---- one step: under WF and the precondition the concrete method succeeds (no panic), preserves WF, commutes with the
   abstraction to the specification's step, and returns the specification's output; the id a creation returns is fresh *)
Theorem C14_refines : forall t o, WF t -> pre (abs t) o ->
  exists t' out, step t o = Ok (t', out) /\ WF t' /\
                 ~ In (next_key t) (live (abs t)) /\
                 spec_equiv (abs t') (fst (spec_step (abs t) o (next_key t))) /\
                 out = snd (spec_step (abs t) o (next_key t)).
Proof.
  intros t o W P. destruct (refines_all t o W P) as [[t' [out [Hs [W' [He Ho]]]]] Hf].
  exists t', out. split; [exact Hs|]. split; [exact W'|]. split; [exact Hf|]. split; [exact He | exact Ho].
Qed.

(* ---- all histories (induction over the fold_left of `run`): no operation panics, WF holds throughout, every step is the
   specification's step.  `sim_hist` is the conjunction of the C14_refines conclusions at every step of the run. *)
Theorem C14_history : forall os t, WF t -> pre_hist t os ->
  sim_hist t os /\ exists t' outs, run t os = Ok (t', outs) /\ WF t' /\ length outs = length os.
Proof. intros os t W P. exact (history os t [] W P). Qed.

(* from the empty tree in particular *)
Theorem C14_history_from_new : forall os, pre_hist tree_new os ->
  sim_hist tree_new os /\ exists t' outs, run tree_new os = Ok (t', outs) /\ WF t' /\ length outs = length os.
Proof. intros os P. exact (history os tree_new [] tree_new_WF P). Qed.

(* the same against the reference model run on its own (`spec_run`, started from abs t, never looking at the concrete
   state again except for the ids the allocator hands out, `run_keys`), with the precondition judged on the reference
   model along its own run: the final states agree and every output is the reference model's output *)
Theorem C14_history_spec : forall os t, WF t -> spec_pre_run (abs t) os (run_keys t os) ->
  exists t' outs, run t os = Ok (t', outs) /\ WF t' /\
                  spec_equiv (abs t') (fst (spec_run (abs t) os (run_keys t os))) /\
                  outs = snd (spec_run (abs t) os (run_keys t os)).
Proof.
  intros os t W P. exact (history_spec os t (abs t) [] W (spec_equiv_refl _) (sm_keys_NoDup _) P).
Qed.

(* ---- what the accessors show in a WF state is the forest: children / child_count / parent / child_at_index /
   total_node_count are the specification's child lists, derived parent and live count *)
Theorem C14_observations : forall t k, WF t -> sm_get (t_nodes t) k <> None ->
  children t k = Ok (kids (abs t) k) /\
  child_count t k = Ok (length (kids (abs t) k)) /\
  parent t k = Ok (spec_parent (abs t) k) /\
  (forall i, child_at_index t k i = Ok (spec_child_at (abs t) k i)) /\
  total_node_count t = length (live (abs t)).
Proof. exact observe. Qed.

(* each attached node appears exactly once, in exactly its parent's child list, and parent() agrees with it *)
Theorem C14_forest : forall t, WF t ->
  NoDup (live (abs t)) /\
  (forall p, tlive t p -> NoDup (kids (abs t) p)) /\
  (forall p q c, tlive t p -> tlive t q -> In c (kids (abs t) p) -> In c (kids (abs t) q) -> p = q) /\
  (forall p c, tlive t p -> In c (kids (abs t) p) -> tlive t c /\ spec_parent (abs t) c = Some p) /\
  (forall c p, tlive t c -> spec_parent (abs t) c = Some p -> tlive t p /\ In c (kids (abs t) p)).
Proof. exact forest. Qed.

(* ---- index errors: the right payload, the state is returned unchanged (any state in which the parent key is live) *)
Theorem C14_index_errors : forall t p l, sm_get (t_children t) p = Some l ->
  forall i c,
  ((N.of_nat (length l) < i)%N -> step t (OInsertChild p i c) = Ok (t, RErr p i (N.of_nat (length l)))) /\
  ((N.of_nat (length l) <= i)%N ->
     step t (ORemoveChildAt p i) = Ok (t, RErr p i (N.of_nat (length l))) /\
     step t (OReplaceChildAt p i c) = Ok (t, RErr p i (N.of_nat (length l))) /\
     child_at_index t p i = Ok (RErr p i (N.of_nat (length l)))).
Proof. exact index_errors. Qed.

(* ---- remove: the node leaves all three maps, every list just loses it, its children become roots *)
Theorem C14_remove : forall t n, WF t -> tlive t n ->
  exists t', step t (ORemove n) = Ok (t', RKey n) /\ WF t' /\
    sm_get (t_nodes t') n = None /\ sm_get (t_children t') n = None /\ sm_get (t_parents t') n = None /\
    S (total_node_count t') = total_node_count t /\
    (forall q, q <> n -> (tlive t' q <-> tlive t q)) /\
    (forall q, tlive t' q -> children t' q = Ok (retain_ne n (kids (abs t) q))) /\
    (forall c, In c (kids (abs t) n) -> c <> n -> tlive t' c /\ parent t' c = Ok None).
Proof. exact remove_spelled_out. Qed.

(* ---- slot reuse.  `spent m k`: the slot of k carries a larger version than k (k was removed).  As long as no u32 version
   wraps (premise `no_wrap`: 2^31 remove/insert cycles of one slot would be needed), a removed key is spent, a spent key stays
   spent through every operation, is not live, and is never what a creation returns -- so a key returned after a remove
   differs from every earlier key (live ones by C14_refines' freshness, removed ones by this). *)
Theorem C14_slot_reuse : forall t n t1 out, tlive t n -> no_wrap (t_nodes t) -> step t (ORemove n) = Ok (t1, out) ->
  spent (t_nodes t1) n /\
  forall os t' outs, nowrap_hist t1 os -> run t1 os = Ok (t', outs) ->
    spent (t_nodes t') n /\ ~ tlive t' n /\ next_key t' <> n.
Proof.
  intros t n t1 out Hn Hw Hs. pose proof (remove_spends_key t n t1 out Hn Hw Hs) as Hsp. split; [exact Hsp|].
  intros os t' outs Hh Hr. pose proof (spent_hist os t1 [] t' outs n Hsp Hh Hr) as H. split; [exact H|].
  apply spent_not_live. exact H.
Qed.

Theorem C14_slot_reuse_step : forall t o t' out k, step t o = Ok (t', out) -> no_wrap (t_nodes t) -> spent (t_nodes t) k ->
  spent (t_nodes t') k /\ (is_creation o = true -> out <> RKey k).
Proof. exact spent_step. Qed.

(* ---- node contexts: remove / clear do not touch node_context_data, so contexts of removed nodes stay behind in the
   secondary map (get_node_context of the *stale* key still returns them).  They are never attributed to a new node:
   `ctx_inv` (every stored context sits at or below the current version of its slot) holds initially, is preserved by
   every operation (no version wrap), and implies that a node created without context in a reused slot has none. *)
Theorem C14_ctx_inv_preserved :
  ctx_inv tree_new /\
  forall t o t' out, WF t -> no_wrap (t_nodes t) -> ctx_inv t -> step t o = Ok (t', out) -> ctx_inv t'.
Proof. split; [exact ctx_inv_new | exact ctx_inv_step]. Qed.

Theorem C14_fresh_context_none : forall t o t' k, WF t -> ctx_inv t ->
  (o = ONewLeaf \/ exists cs, o = ONewWithChildren cs) ->
  step t o = Ok (t', RKey k) -> get_node_context t' k = None.
Proof. exact fresh_ctx_none. Qed.

(* ---- non-vacuity: a reachable, non-trivial state (attach, insert in front, remove, slot reuse, set_children) satisfies
   pre at every step, hence WF; and the precondition is needed: add_child of an attached node breaks WF *)
Example C14_example_reachable :
  pre_hist tree_new good_history /\
  exists t, run tree_new good_history = Ok (t, [RKey k1; RKey k2; RKey k3; RUnit; RUnit; RKey k2; RKey k2'; RUnit]) /\ WF t /\
            children t k1 = Ok [k3] /\ children t k3 = Ok [k2'] /\ parent t k2' = Ok (Some k3) /\ parent t k3 = Ok (Some k1) /\
            parent t k1 = Ok None /\ total_node_count t = 3 /\
            sm_get (t_nodes t) k2 = None /\ get_node_context t k2' = Some 7%N.
Proof. split; [exact good_history_pre | exact good_history_run]. Qed.

(* the premises of C14_slot_reuse / C14_ctx_inv_preserved are met along that history: before `remove(k2)` the key is live and
   no version is near 2^32; the remove succeeds; no_wrap holds at every later state (nowrap_hist); and the very next creation
   returns the SAME slot with a different version (k2' = slot 2, version 3), i.e. the reuse the theorem speaks about happens *)
Definition st5 : tree := match run tree_new (firstn 5 good_history) with Ok (t, _) => t | Panic => tree_new end.
Definition st6 : tree := match step st5 (ORemove k2) with Ok (t, _) => t | Panic => st5 end.

Example C14_example_slot_reuse_premises :
  run tree_new (firstn 5 good_history) = Ok (st5, [RKey k1; RKey k2; RKey k3; RUnit; RUnit]) /\
  tlive st5 k2 /\ no_wrap (t_nodes st5) /\ step st5 (ORemove k2) = Ok (st6, RKey k2) /\
  nowrap_hist st6 [ONewLeafCtx 7; OSetChildren k3 [k2']] /\
  next_key st6 = k2' /\ fst k2' = fst k2 /\ k2' <> k2 /\ ctx_inv st6.
Ltac nowrap := unfold no_wrap; apply Forall_forall; let s := fresh "s" in let Hs := fresh "Hs" in
  intros s Hs; vm_compute in Hs; repeat (destruct Hs as [Hs|Hs]; [subst s; reflexivity|]); destruct Hs.
Proof.
  split; [vm_compute; reflexivity|].
  split; [vm_compute; discriminate|].
  split; [nowrap|].
  split; [vm_compute; reflexivity|].
  split.
  { cbn [nowrap_hist]. split; [nowrap|].
    intros t' out H. vm_compute in H. injection H as <- <-.
    split; [nowrap|].
    intros t' out H. vm_compute in H. injection H as <- <-.
    nowrap. }
  split; [vm_compute; reflexivity|]. split; [reflexivity|]. split; [discriminate|].
  intros idx ver c H.
  (destruct idx as [|[|[|[|idx]]]]; vm_compute in H; try discriminate; destruct idx; discriminate).
Qed.

Example C14_pre_needed_example :
  (exists t outs, run tree_new bad_history = Ok (t, outs) /\
                  children t k1 = Ok [k3] /\ children t k2 = Ok [k3] /\ parent t k3 = Ok (Some k2) /\ ~ WF t) /\
  (exists t outs, run tree_new (firstn 4 bad_history) = Ok (t, outs) /\ ~ pre (abs t) (OAddChild k2 k3)).
Proof. split; [exact bad_history_breaks | exact bad_history_violates_pre]. Qed.

(* ---- the tie to the source: the bodies of 14 methods are translated from src/tree/taffy_tree.rs on every run
   (translator/gen_tree.py -> Gen/TreeBodiesGen.v, statement by statement into the target language Model/TreeImp.v, the
   whole state threaded in source order, `mark_dirty(..)?` recognised) and each is EQUAL to the hand-written method of
   Model/Tree.v that the theorems above are about: every state (no WF premise), every argument, panics included. *)
Theorem C14_translated_add_child_is_model : forall t p c, gen_add_child t p c = add_child t p c.
Proof. exact gen_add_child_eq. Qed.
Theorem C14_translated_insert_child_at_index_is_model : forall t p i c, gen_insert_child_at_index t p i c = insert_child_at_index t p i c.
Proof. exact gen_insert_child_at_index_eq. Qed.
Theorem C14_translated_remove_child_at_index_is_model : forall t p i, gen_remove_child_at_index t p i = remove_child_at_index t p i.
Proof. exact gen_remove_child_at_index_eq. Qed.
Theorem C14_translated_replace_child_at_index_is_model : forall t p i c, gen_replace_child_at_index t p i c = replace_child_at_index t p i c.
Proof. exact gen_replace_child_at_index_eq. Qed.
Theorem C14_translated_remove_child_is_model : forall t p c, gen_remove_child t p c = remove_child t p c.
Proof. exact gen_remove_child_eq. Qed.
Theorem C14_translated_remove_children_range_is_model : forall t p a b, gen_remove_children_range t p a b = remove_children_range t p a b.
Proof. exact gen_remove_children_range_eq. Qed.
Theorem C14_translated_set_children_is_model : forall t p cs, gen_set_children t p cs = set_children t p cs.
Proof. exact gen_set_children_eq. Qed.
Theorem C14_translated_remove_is_model : forall t n, gen_remove t n = remove t n.
Proof. exact gen_remove_eq. Qed.
Theorem C14_translated_new_leaf_is_model : forall t, gen_new_leaf t = new_leaf t.
Proof. exact gen_new_leaf_eq. Qed.
Theorem C14_translated_new_with_children_is_model : forall t cs, gen_new_with_children t cs = new_with_children t cs.
Proof. exact gen_new_with_children_eq. Qed.
Theorem C14_translated_child_at_index_is_model : forall t p i, gen_child_at_index t p i = child_at_index t p i.
Proof. exact gen_child_at_index_eq. Qed.
(* usize is N in the translation, nat in the hand model *)
Theorem C14_translated_child_count_is_model : forall t p, gen_child_count t p = (n <- child_count t p ;; Ok (N.of_nat n)).
Proof. exact gen_child_count_eq. Qed.
Theorem C14_translated_parent_is_model : forall t c, gen_parent t c = parent t c.
Proof. exact gen_parent_eq. Qed.
Theorem C14_translated_children_is_model : forall t p, gen_children t p = children t p.
Proof. exact gen_children_eq. Qed.

(* `gen_step` (Model/TreeGenStep.v) dispatches 10 of the 13 operations to the translated bodies (new_leaf_with_context, clear,
   set_node_context: hand model); it is `step`, `gen_run` is `run` *)
Theorem C14_translated_step_is_model : forall t o, gen_step t o = step t o.
Proof. exact gen_step_eq. Qed.
Theorem C14_translated_run_is_model : forall os t, gen_run t os = run t os.
Proof. exact gen_run_eq. Qed.

(* C14_refines restated for the step function built from the translated methods *)
Theorem C14_translated_refines : forall t o, WF t -> pre (abs t) o ->
  exists t' out, gen_step t o = Ok (t', out) /\ WF t' /\
                 ~ In (next_key t) (live (abs t)) /\
                 spec_equiv (abs t') (fst (spec_step (abs t) o (next_key t))) /\
                 out = snd (spec_step (abs t) o (next_key t)).
Proof. exact gen_refines. Qed.

(* and the history theorem from the empty tree: no translated operation panics, WF at the end, one output per operation *)
Theorem C14_translated_history_from_new : forall os, pre_hist tree_new os ->
  exists t' outs, gen_run tree_new os = Ok (t', outs) /\ WF t' /\ length outs = length os.
Proof. exact gen_history_from_new. Qed.

(* non-vacuity (computed on the translated functions): good_history satisfies pre_hist (C14_example_reachable), runs on
   `gen_run` to the same outputs, and the translated accessors answer on the final state, error payload included *)
Example C14_translated_example :
  pre_hist tree_new good_history /\
  exists t, gen_run tree_new good_history = Ok (t, [RKey k1; RKey k2; RKey k3; RUnit; RUnit; RKey k2; RKey k2'; RUnit]) /\
            gen_children t k1 = Ok [k3] /\ gen_parent t k2' = Ok (Some k3) /\ gen_child_count t k3 = Ok 1%N /\
            gen_child_at_index t k1 0%N = Ok (RKey k3) /\ gen_child_at_index t k1 1%N = Ok (RErr k1 1%N 1%N).
Proof. split; [exact good_history_pre | exact gen_good_history_run]. Qed.

Print Assumptions C14_WF_meaning.
Print Assumptions C14_WF_init.
Print Assumptions C14_refines.
Print Assumptions C14_history.
Print Assumptions C14_history_from_new.
Print Assumptions C14_history_spec.
Print Assumptions C14_observations.
Print Assumptions C14_forest.
Print Assumptions C14_index_errors.
Print Assumptions C14_remove.
Print Assumptions C14_slot_reuse.
Print Assumptions C14_slot_reuse_step.
Print Assumptions C14_ctx_inv_preserved.
Print Assumptions C14_fresh_context_none.
Print Assumptions C14_example_reachable.
Print Assumptions C14_pre_needed_example.
Print Assumptions C14_translated_add_child_is_model.
Print Assumptions C14_translated_insert_child_at_index_is_model.
Print Assumptions C14_translated_remove_child_at_index_is_model.
Print Assumptions C14_translated_replace_child_at_index_is_model.
Print Assumptions C14_translated_remove_child_is_model.
Print Assumptions C14_translated_remove_children_range_is_model.
Print Assumptions C14_translated_set_children_is_model.
Print Assumptions C14_translated_remove_is_model.
Print Assumptions C14_translated_new_leaf_is_model.
Print Assumptions C14_translated_new_with_children_is_model.
Print Assumptions C14_translated_child_at_index_is_model.
Print Assumptions C14_translated_child_count_is_model.
Print Assumptions C14_translated_parent_is_model.
Print Assumptions C14_translated_children_is_model.
Print Assumptions C14_translated_step_is_model.
Print Assumptions C14_translated_run_is_model.
Print Assumptions C14_translated_refines.
Print Assumptions C14_translated_history_from_new.
Print Assumptions C14_translated_example.
