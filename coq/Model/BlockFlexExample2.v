(* More concrete trees / containers over XQ for the computed non-vacuity Examples of Props/C04.v and Props/C12.v (audit, wave 7b).
   Definitions only.  Everything is built from the vocabulary of Model/BlockFlexExample.v.

     fx_tree2     the 10-node tree of BlockFlexExample.v with the nested flex COLUMN container replaced by a flex ROW container sized by
                  content whose first item has flex-basis 40 > its content (25 x 8), flex-shrink 1: the floor
                  `max(tau, flex_shrink * inner_flex_basis)` IS evaluated on the negative side (content contribution < flex basis) -- and is
                  inactive at floor 1 and at floor 5/2 because shrink * basis = 40 (100 scaled).  `fx_floor_insensitive PInf` is false on it.
     ex_cont ..   a flex row container (width 200, max-height 90, padding 3, border 1/2/3/1, gap 6) with two items (flex-basis 40;
                  width 60, min-height 20, grow 1), all content-box with non-zero padding AND border, answered by an oracle:
                  the algorithm-level Examples (`alg_run` of `flex_alg`)
     fx_tree0     the 10-node tree with border 1/2/3/1 on EVERY node and the growing item's flex-grow set to 0 (so that its width IS its
                  flex basis), and `fx_rw`: the direction-aware rewrite of every eligible node, LENGTH flex_basis included
     gx_tree      a display:grid root with two children: outside the class of Proofs/BlockFlexTaffy.v (the two engines differ on it) *)
From Coq Require Import ZArith QArith Bool List.
From TV Require Import Num.Num Num.QNum Model.Common Model.Leaf Model.Scale Model.FlexAlgBase Model.FlexAlg Model.FlexAlgRel Model.FlexBoxSizing.
From TV Require Import Model.Engine Model.EngineRel Model.BlockFlexEngine Model.BlockFlexK Model.BlockFlexExample.
From TV Require Import Model.TaffyEngine Model.TaffyRoot Model.BlockFlexTaffy.
From TV Require Model.Block Model.BlockEngineExample.
Import ListNotations.

(* ---- the floor is read *)
Definition fx_d2 : sk FxSpec :=
  SNode _ (fx_style (fx_core DBlock Relative BorderBox auto_sz auto_sz auto_sz 0 0) no_inset true 0 (dlen 40) zero one, BX.EFixed (qz 25) (qz 8)) [].
Definition fx_c2 : sk FxSpec :=
  SNode _ (fx_style (fx_core DFlex Relative BorderBox auto_sz auto_sz auto_sz 0 0) no_inset true 2 Auto zero one, BX.EFixed (qz 0) (qz 0)) [fx_d2; fx_e].
Definition fx_F2 : sk FxSpec :=
  SNode _ (fx_style (fx_core DFlex Relative ContentBox auto_sz auto_sz auto_sz 0 3) no_inset true 6 Auto zero one, BX.EFixed (qz 0) (qz 0))
        [fx_a; fx_b; fx_c2; fx_g; fx_h].
Definition fx_spec2 : sk FxSpec :=
  SNode _ (leaf_style (fx_core DBlock Relative ContentBox (mkSize (dlen 300) Auto) auto_sz auto_sz 0 4), BX.EFixed (qz 0) (qz 0)) [fx_H; fx_F2].
Definition fx_tree2 : sk (BFNode XQ) := sk_map fx_node fx_spec2.
Definition fx_tree2_scaled (k : Q) : sk (BFNode XQ) := sk_map fx_node (sk_map (fx_spec_scale k) fx_spec2).

(* ---- one flex container, answered by an oracle *)
Definition bd : Rect (LengthPercentage XQ) := mkRect (LpLength (qz 1)) (LpLength (qz 2)) (LpLength (qz 3)) (LpLength (qz 1)).
Definition core_b (disp : Display) (sz mn mx : Size (Dimension XQ)) (pad : Z) : Style XQ :=
  mkStyle disp Relative ContentBox (mkPoint Visible Visible) zero sz mn mx None (margin_l 0) (lp4 pad) bd.
Definition fsty (c : Style XQ) (row : bool) (basis : Dimension XQ) (grow shrink : XQ) : FStyle XQ :=
  mkFStyle c no_inset row false false false None None None None (mkSize (LpLength (qz 6)) (LpLength (qz 6))) basis grow shrink.
Definition ex_cont : FStyle XQ := fsty (core_b DFlex (mkSize (dlen 200) Auto) auto_sz (mkSize Auto (dlen 90)) 3) true Auto zero one.
Definition ex_a : FStyle XQ := fsty (core_b DBlock auto_sz auto_sz auto_sz 1) true (dlen 40) zero one.
Definition ex_b : FStyle XQ := fsty (core_b DBlock (mkSize (dlen 60) Auto) (mkSize Auto (dlen 20)) auto_sz 2) true Auto one one.
Definition ex_in : FIn XQ := root_fin size_NONE (mkSize (Definite (qz 400)) (Definite (qz 500))).
(* every child answers its known dimensions, 30k x 12k where unknown *)
Definition ex_oracle_k (k : Q) : nat -> FIn XQ -> LayoutOutput XQ :=
  fun _ i => from_outer_size (mkSize (opt_unwrap_or (width (qi_known i)) (Fin (k * 30))) (opt_unwrap_or (height (qi_known i)) (Fin (k * 12)))).
Definition run_k (k : Q) s st i := alg_run _ _ _ 40 (ex_oracle_k k) (flex_alg s st i).
Definition scaled_run_eqb (k : Q) (x y : option (LayoutOutput XQ * list (nat * FLay XQ))) : bool :=
  match x, y with
  | Some (o, ls), Some (o', ls') =>
      fout_eqb (output_scale k o) o'
      && BX.list_eqb (fun p q => Nat.eqb (fst p) (fst q) && flay_eqb (flay_scale k (snd p)) (snd q)) ls ls'
  | _, _ => false
  end.
Definition run_eqb (x y : option (LayoutOutput XQ * list (nat * FLay XQ))) : bool :=
  match x, y with
  | Some (o, ls), Some (o', ls') => fout_eqb o o' && BX.list_eqb (fun p q => Nat.eqb (fst p) (fst q) && flay_eqb (snd p) (snd q)) ls ls'
  | _, _ => false
  end.
Definition ex_run s st := run_k 1 s st ex_in.
Definition run_boxes (x : option (LayoutOutput XQ * list (nat * FLay XQ))) : option (XQ * XQ * list (nat * (XQ * XQ * XQ * XQ))) :=
  match x with
  | Some (o, ls) =>
      Some (x_red (width (out_size o)), x_red (height (out_size o)),
            map (fun p => (fst p, (x_red (px (fl_location (snd p))), x_red (py (fl_location (snd p))),
                                   x_red (width (fl_size (snd p))), x_red (height (fl_size (snd p)))))) ls)
  | None => None
  end.

(* ---- borders everywhere, a length flex_basis that is the item's width *)
(* the direction-aware rewrite of every eligible node: prow = direction of the node's parent; `flip` = along the WRONG axis instead *)
Fixpoint fx_rw_gen (flip : bool) (prow : bool) (t : sk (BFNode XQ)) : sk (BFNode XQ) :=
  match t with
  | SNode _ n kids =>
      let s := bfn_style n in
      SNode _ (if f_eligibleb (bf_flex s)
               then mkBFN (mkBF (f_to_border_box_in (xorb flip prow) (bf_flex s)) (bf_is_table s) (bf_text_align s)) (bfn_measure n) else n)
              (map (fx_rw_gen flip (fs_row (bf_flex s))) kids)
  end.
Definition fx_rw := fx_rw_gen false.
Definition add_border (b : Z) (n : BFNode XQ) : BFNode XQ :=
  let s := bfn_style n in let f := bf_flex s in let c := fs_core f in
  let c' := mkStyle (display c) (position c) (box_sizing c) (overflow c) (scrollbar_width c) (size c) (min_size c) (max_size c) (aspect_ratio c)
                    (margin c) (padding c) (mkRect (LpLength (qz b)) (LpLength (qz (2*b))) (LpLength (qz (3*b))) (LpLength (qz b))) in
  mkBFN (mkBF (mkFStyle c' (fs_inset f) (fs_row f) (fs_reverse f) (fs_wrap f) (fs_wrap_reverse f) (fs_align_items f) (fs_align_self f)
                        (fs_align_content f) (fs_justify_content f) (fs_gap f) (fs_flex_basis f) (fs_grow f) (fs_shrink f))
              (bf_is_table s) (bf_text_align s))
        (bfn_measure n).
Definition fx_a0 : sk FxSpec :=
  SNode _ (fx_style (fx_core DBlock Relative ContentBox auto_sz auto_sz auto_sz 0 1) no_inset true 0 (dlen 40) zero one, BX.EFixed (qz 30) (qz 12)) [].
Definition fx_F0 : sk FxSpec :=
  SNode _ (fx_style (fx_core DFlex Relative ContentBox auto_sz auto_sz auto_sz 0 3) no_inset true 6 Auto zero one, BX.EFixed (qz 0) (qz 0))
        [fx_a0; fx_b; fx_c; fx_g; fx_h].
Definition fx_spec0 : sk FxSpec :=
  SNode _ (leaf_style (fx_core DBlock Relative ContentBox (mkSize (dlen 300) Auto) auto_sz auto_sz 0 4), BX.EFixed (qz 0) (qz 0)) [fx_H; fx_F0].
Definition fx_tree0 : sk (BFNode XQ) := sk_map (add_border 1) (sk_map fx_node fx_spec0).
Definition fx_rw_wrong := fx_rw_gen true true.
(* what the rewrite did to the root's width, to the flex basis of item a0 and to the width of item b *)
Definition fx_rw_probe (t : sk (BFNode XQ)) : option (Dimension XQ * Dimension XQ * Dimension XQ) :=
  match t with
  | SNode _ r [_; SNode _ _ (SNode _ a _ :: SNode _ b _ :: _)] =>
      Some (width (size (bfn_core r)), fs_flex_basis (bfn_flex a), width (size (bfn_core b)))
  | _ => None
  end.

(* ---- outside the class: a grid container *)
Definition gx_spec : sk FxSpec :=
  SNode _ (leaf_style (fx_core DGrid Relative ContentBox (mkSize (dlen 300) Auto) auto_sz auto_sz 0 4), BX.EFixed (qz 0) (qz 0)) [fx_b; fx_e].
Definition gx_tree : sk (BFNode XQ) := sk_map fx_node gx_spec.

(* the complete engine on the embedded tree against bf_memo: same root output and stored layouts (as numbers)? *)
Definition real_vs_bf (t : sk (BFNode XQ)) (i : FIn XQ) : option bool :=
  match real_memo Num.eqb fx_fuel (taffy_fresh (sk_map bfn_emb t)) i, bf_memo fx_fuel (bfk_fresh t) i with
  | Some (o, T1), Some (o', t1) => Some (fout_eqb o o' && BX.list_eqb flay_eqb (lays _ _ _ _ T1) (lays _ _ _ _ t1))
  | _, _ => None
  end.
Definition real_boxes (t : sk (BFNode XQ)) (i : FIn XQ) : list (XQ * XQ * XQ * XQ) :=
  match real_memo Num.eqb fx_fuel (taffy_fresh (sk_map bfn_emb t)) i with
  | Some (_, T1) => map (fun l => (x_red (px (fl_location l)), x_red (py (fl_location l)), x_red (width (fl_size l)), x_red (height (fl_size l))))
                        (lays _ _ _ _ T1)
  | None => []
  end.
