(* C07 -- flex lines: items stay ordered, never overlap, and flexibility is exhausted.
   Statements only; every proof is `exact <lemma>` (Proofs/FlexProofs.v) or a vm_compute witness.
   The definitions the statements are about: Model/Flex.v (hand transcription of resolve_flexible_lengths,
   distribute_remaining_free_space, calculate_layout_line/calculate_flex_item, tied to the Rust by bit-exact
   correspondence over F32) and Gen/FlexGen.v (compute_alignment_offset, apply_alignment_fallback, sum_axis_gaps:
   regenerated from the Rust source on every run).  All theorems are over the exact instance XQ with explicit
   finiteness premises; C07_loop_terminates has no premise at all (NaN and infinities included).

   Vocabulary (Proofs/FlexProofs.v): for an item c, qb = flex_basis, qib = inner_flex_basis, qh / qho = hypothetical inner /
   outer main size, qmin = resolved_minimum_main_size, qmaxo = max_size.main, qg / qs = flex_grow / flex_shrink,
   qm = margin.main_axis_sum, qt / qot = target / outer target main size; qcl c x = the loop's clamp
   max(max(min(x, max), min), 0); effmax mn m = max(max(m, mn), 0) (= m when mn <= m and 0 <= m),
   effmin mn = max(mn, 0) (= mn when 0 <= mn). *)
From Coq Require Import ZArith QArith Bool List Lia Lqa.
From TV Require Import Num.Num Num.QNum Gen.FlexGen Model.Flex Model.FlexRun Proofs.FlexQ Proofs.FlexProofs.
Import ListNotations.
Open Scope Q_scope.

(* ---- flexibility exhausted.  Premises per item (exh_prem): all fields finite, not yet frozen, hypothetical inner
   size = clamp(flex basis) (true whenever max_size >= padding+border), hypothetical outer = inner + margins.
   grow_ok / shrink_ok, required only in the direction taken: factor >= 0 and (factor = 0 or factor >= 1); shrinking also
   needs inner_flex_basis >= 0.  Conclusion: the loop returns (no fuel exhaustion), every item is frozen, the static
   fields are untouched, and either the outer targets plus gaps fill M exactly, or (growing) every item with a non-zero
   grow factor has a max size and sits at effmax, or (shrinking) every item with non-zero shrink factor and non-zero
   inner flex basis (i.e. non-zero scaled shrink factor) sits at effmin. *)
Theorem C07_exhausted : forall (items : list Item) (gap M : XQ),
  finite gap -> finite M -> (forall c, In c items -> exh_prem c) ->
  let gaps := val (sum_axis_gaps gap (zlen items)) in
  let hyp_total := gaps + qsum qho items in
  (hyp_total < val M -> forall c, In c items -> grow_ok c) ->
  (val M < hyp_total -> forall c, In c items -> shrink_ok c) ->
  exists res, resolve_flexible_lengths items gap (Some M) = Some res /\ Forall2 static_eq items res /\
    (forall c, In c res -> fi_frozen c = true /\ item_fin c /\ qot c == qt c + qm c) /\
    (gaps + qsum qot res == val M \/
     (hyp_total < val M /\ forall c, In c res -> ~ qg c == 0 -> at_max c) \/
     (val M < hyp_total /\ forall c, In c res -> ~ qs c == 0 -> ~ qib c == 0 -> at_min c)).
Proof. exact exhausted. Qed.

(* the wording of the property ("sits at its min / max") for well-formed bounds *)
Theorem C07_effective_bounds : forall mn m, (mn <= m -> 0 <= m -> effmax mn m == m) /\ (0 <= mn -> effmin mn == mn).
Proof. intros mn m. unfold effmax, effmin. split; intros; qcases; lra. Qed.

(* ---- termination: the loop never runs out of its fuel (length items + 1), for arbitrary inputs over XQ -- every
   iteration freezes at least one unfrozen item (loop_body_decreases) or the all-frozen test exits *)
Theorem C07_loop_terminates : forall (items : list Item) (gap : XQ) (M : option XQ),
  exists res, resolve_flexible_lengths items gap M = Some res.
Proof. exact loop_terminates. Qed.

Theorem C07_every_iteration_freezes : forall k (items : list Item),
  forallb fi_frozen items = false -> (cnt (loop_body k items) < cnt items)%nat.
Proof. exact loop_body_decreases. Qed.

(* ---- order and no overlap, non-auto margins (oprem: margins finite, >= 0 and not auto, relative inset 0).
   `sizes` are the main sizes returned by the children's layout (any finite values >= 0).  For every pair i < j in document
   order: location_i + size_i + margin_end_i + margin_start_j + gap <= location_j; mirrored when the direction is
   reversed.  The margins are not changed by the alignment step.  Relative insets are excluded: see C07_inset_refuted. *)
Theorem C07_order_no_overlap : forall (items : list Item) (gap inner start : XQ) (jc : option AlignContent) (rv : bool)
                                      (sizes : list XQ),
  finite gap -> 0 <= val gap -> finite inner -> finite start ->
  (forall c, In c items -> oprem c) ->
  length sizes = length items -> (forall s, In s sizes -> finite s /\ 0 <= val s) ->
  let items' := distribute_remaining_free_space items gap inner jc rv in
  let pos := line_positions start rv (combine items' sizes) in
  Forall2 (fun c c' => fi_margin_start c' = fi_margin_start c /\ fi_margin_end c' = fi_margin_end c) items items' /\
  ForallOrdPairs (fun a b => if rv then sepR (val gap) b a else sepR (val gap) a b) (combine (combine items' sizes) pos).
Proof. exact order_no_overlap. Qed.

(* ---- auto margins absorbing positive free space: the margin boxes (with the resolved margins) still do not overlap,
   but only with separation 0 -- the gap is not inserted on such a line (C07_gap_dropped_with_auto_margins_refuted) *)
Theorem C07_order_no_overlap_auto_margins : forall (items : list Item) (gap inner start : XQ) (jc : option AlignContent)
                                                   (rv : bool) (sizes : list XQ),
  finite gap -> finite inner -> finite start ->
  (forall c, In c items -> aprem c) ->
  length sizes = length items -> (forall s, In s sizes -> finite s /\ 0 <= val s) ->
  let free := sub inner (add (sum_axis_gaps gap (zlen items)) (fsum (map fi_outer_target items))) in
  0 < val free -> (0 < count_auto items)%Z ->
  let items' := distribute_remaining_free_space items gap inner jc rv in
  let pos := line_positions start rv (combine items' sizes) in
  (forall c, In c items' -> 0 <= val (fi_margin_start c) /\ 0 <= val (fi_margin_end c)) /\
  ForallOrdPairs (fun a b => if rv then sepR 0 b a else sepR 0 a b) (combine (combine items' sizes) pos).
Proof. exact order_auto_margins. Qed.

(* ---- the justify-content table (regenerated from compute_alignment_offset on every run) has the CSS Box Alignment values:
   with non-negative free space f, gap g and n >= 2 items, the first item is offset by `first`, every further item by `next`
   (space-between: free/(n-1) between items; space-around: free/n between and half of it at both ends; space-evenly:
   free/(n+1) everywhere; flex-start/flex-end follow the direction).  The order law only needs next >= gap; this pins
   the rest of the table, so that an edit of one arm is noticed even when it cannot make items overlap. *)
Theorem C07_justify_offsets_spec : forall (f g : Q) (n : Z) (rv : bool), 0 <= f -> (2 <= n)%Z ->
  let first m := val (compute_alignment_offset (Fin f) n (Fin g) m rv true) in
  let next m := val (compute_alignment_offset (Fin f) n (Fin g) m rv false) in
  (first AC_Start == 0 /\ next AC_Start == g) /\
  (first AC_End == f /\ next AC_End == g) /\
  (first AC_FlexStart == (if rv then f else 0) /\ next AC_FlexStart == g) /\
  (first AC_FlexEnd == (if rv then 0 else f) /\ next AC_FlexEnd == g) /\
  (first AC_Center == f / 2 /\ next AC_Center == g) /\
  (first AC_Stretch == 0 /\ next AC_Stretch == g) /\
  (first AC_SpaceBetween == 0 /\ next AC_SpaceBetween == g + f / inject_Z (n - 1)) /\
  (first AC_SpaceAround == f / inject_Z n / 2 /\ next AC_SpaceAround == g + f / inject_Z n) /\
  (first AC_SpaceEvenly == f / inject_Z (n + 1) /\ next AC_SpaceEvenly == g + f / inject_Z (n + 1)).
Proof. exact justify_offsets_spec. Qed.

(* ---------------------------------------------------------------------------------------------- witnesses *)
Ltac qdec := first [exact I | reflexivity | (vm_compute; reflexivity) | (vm_compute; intro; discriminate)].
Definition fq (z : Z) : XQ := Fin (inject_Z z).
(* an item given by: basis, inner basis, hyp inner, hyp outer, min, max, grow, shrink, margins, auto flags, outer target *)
Definition wi (b ib h ho mn : Z) (mx : option Z) (g s ms me : Z) (msa mea : bool) (ot : Z) : Item :=
  mkItem (fq b) (fq ib) (fq h) (fq ho) (fq mn) (option_map fq mx) (fq g) (fq s) (fq ms) (fq me) msa mea (fq 0)
         false (fq 0) (fq ot) (fq 0) (fq 0).

(* FINDING (not a violation of the no-overlap law): on a line where auto margins absorb the free space the gap is not
   inserted between the items.  100 wide, gap 10, two 20-wide items, the second with margin-start: auto:
   CSS puts the second item at 80; the model (and taffy: `vh c07 probe`) puts it at 70. *)
Definition w_auto_items : list Item :=
  [wi 20 20 20 20 0 None 0 0 0 0 false false 20; wi 20 20 20 20 0 None 0 0 0 0 true false 20].
Theorem C07_gap_dropped_with_auto_margins_refuted :
  (forall c, In c w_auto_items -> aprem c) /\
  let items' := distribute_remaining_free_space w_auto_items (fq 10) (fq 100) None false in
  let pos := line_positions (fq 0) false (combine items' [fq 20; fq 20]) in
  exists a b, combine (combine items' [fq 20; fq 20]) pos = [a; b] /\ ~ sepR 10 a b /\ map val pos = [0; 70].
Proof.
  split.
  - intros c [<-|[<-|[]]]; unfold aprem; cbn; repeat split; qdec.
  - vm_compute. do 2 eexists. split; [reflexivity|]. split; [|reflexivity]. intro H. vm_compute in H. apply H. reflexivity.
Qed.

(* the statement of C07_order_no_overlap is false by design once a relative inset is present (it is added to the location
   but not to the accumulator): the premise `inset = 0` cannot be dropped.  Two 20-wide items, the first shifted by 30. *)
Definition w_inset_items : list Item :=
  [mkItem (fq 20) (fq 20) (fq 20) (fq 20) (fq 0) None (fq 0) (fq 0) (fq 0) (fq 0) false false (fq 30)
          false (fq 20) (fq 20) (fq 0) (fq 0);
   wi 20 20 20 20 0 None 0 0 0 0 false false 20].
Theorem C07_inset_refuted :
  let items' := distribute_remaining_free_space w_inset_items (fq 0) (fq 100) None false in
  let pos := line_positions (fq 0) false (combine items' [fq 20; fq 20]) in
  exists a b, combine (combine items' [fq 20; fq 20]) pos = [a; b] /\ ~ sepR 0 a b.
Proof.
  vm_compute. do 2 eexists. split; [reflexivity|]. intro H. vm_compute in H. apply H. reflexivity.
Qed.

(* FINDING F-C07-pbfloor (a corner of the property that taffy violates): step 4d of the loop floors the clamped
   border-box target at 0 instead of padding+border, while the item is then laid out at max(target, padding+border).
   Whole-container model (Model/FlexRun.v, the function the correspondence check runs over F32), row 100 wide:
   A = {flex-basis 100, shrink 1}, B = {flex-basis 50, shrink 1, min 5, max 10, padding-start 20}.
   The loop balances the line with B = 10 (A = 90), B is laid out 20 wide: the line is over-filled (110 > 100) although
   A (shrink factor 1, inner basis 100) is far above its minimum 0. *)
Definition w_pb_container : Container XQ :=
  mkContainer false None (fq 100) (fq 40) (fq 0) (fq 0) (fq 0) (fq 0) (fq 0) (fq 0) (fq 0) (fq 0) (fq 0).
Definition w_pb_styles : list (ItemStyle XQ) :=
  [mkStyle (Some (fq 100)) None None None (fq 0) (fq 1) false (fq 0) false (fq 0) (fq 0) (fq 0) (fq 0) (fq 0) (fq 0);
   mkStyle (Some (fq 50)) None (Some (fq 5)) (Some (fq 10)) (fq 0) (fq 1) false (fq 0) false (fq 0) (fq 20) (fq 0) (fq 0) (fq 0) (fq 0)].
Theorem C07_exhausted_laid_out_sizes_refuted :
  exists cm cc la sa lb sb,
    layout_flex_container w_pb_container w_pb_styles = Some (cm, cc, [(la, sa); (lb, sb)]) /\
    val cm == 100 /\ val sa == 90 /\ val sb == 20 /\ val cm < val sa + val sb /\ 0 < val sa.
Proof.
  vm_compute. do 6 eexists. split; [reflexivity|]. vm_compute. repeat split; intro; discriminate.
Qed.

(* ---------------------------------------------------------------------------------------------- non-vacuity *)
(* growing, three rounds: A hits its max 10 (negative total violation), then C its min 50 (positive), then B takes the rest *)
Definition ex_grow_items : list Item :=
  [wi 0 0 0 0 0 (Some 10%Z) 1 1 0 0 false false 0; wi 0 0 0 0 0 None 1 1 0 0 false false 0; wi 0 0 50 50 50 None 1 1 0 0 false false 0].
Example C07_example_grow :
  (forall c, In c ex_grow_items -> exh_prem c /\ grow_ok c) /\
  val (sum_axis_gaps (fq 0) (zlen ex_grow_items)) + qsum qho ex_grow_items < 100 /\
  option_map (map (fun c => (val (fi_target c), fi_frozen c))) (resolve_flexible_lengths ex_grow_items (fq 0) (Some (fq 100)))
    = Some [(10, true); (40, true); (50, true)].
Proof.
  split; [|split].
  - intros c [<-|[<-|[<-|[]]]]; unfold exh_prem, grow_ok, item_fin; cbn; repeat split; try qdec; first [left; qdec | right; qdec].
  - vm_compute. reflexivity.
  - vm_compute. reflexivity.
Qed.

(* shrinking with scaled factors: 80 (min 70, shrink 1) and 60 (shrink 2) in 100 with a gap of 10 *)
Definition ex_shrink_items : list Item :=
  [wi 80 80 80 80 70 None 0 1 0 0 false false 0; wi 60 60 60 60 0 None 0 2 0 0 false false 0].
Example C07_example_shrink :
  (forall c, In c ex_shrink_items -> exh_prem c /\ shrink_ok c) /\
  100 < val (sum_axis_gaps (fq 10) (zlen ex_shrink_items)) + qsum qho ex_shrink_items /\
  option_map (map (fun c => (Qred (val (fi_target c)), fi_frozen c))) (resolve_flexible_lengths ex_shrink_items (fq 10) (Some (fq 100)))
    = Some [(70, true); (20, true)].
Proof.
  split; [|split].
  - intros c [<-|[<-|[]]]; unfold exh_prem, shrink_ok, item_fin; cbn; repeat split; try qdec; first [left; qdec | right; qdec].
  - vm_compute. reflexivity.
  - vm_compute. reflexivity.
Qed.

(* order: three items, space-evenly, reversed *)
Definition ex_order_items : list Item :=
  [wi 10 10 10 10 0 None 0 0 1 2 false false 13; wi 20 20 20 20 0 None 0 0 0 0 false false 20; wi 30 30 30 30 0 None 0 0 3 0 false false 33].
Example C07_example_order :
  (forall c, In c ex_order_items -> oprem c) /\
  map (fun x => Qred (val x))
      (line_positions (fq 0) true (combine (distribute_remaining_free_space ex_order_items (fq 5) (fq 100) (Some AC_SpaceEvenly) true)
                                           [fq 10; fq 20; fq 30]))
    = [82; 50; 9].
Proof.
  split.
  - intros c [<-|[<-|[<-|[]]]]; unfold oprem; cbn; repeat split; qdec.
  - vm_compute. reflexivity.
Qed.

Print Assumptions C07_exhausted.
Print Assumptions C07_effective_bounds.
Print Assumptions C07_loop_terminates.
Print Assumptions C07_every_iteration_freezes.
Print Assumptions C07_order_no_overlap.
Print Assumptions C07_order_no_overlap_auto_margins.
Print Assumptions C07_justify_offsets_spec.
Print Assumptions C07_gap_dropped_with_auto_margins_refuted.
Print Assumptions C07_inset_refuted.
Print Assumptions C07_exhausted_laid_out_sizes_refuted.
