(* Grid placement: invariants of the three placement phases and the C08 theorems (given that the run returns Ok). *)
From Coq Require Import ZArith Bool List Lia Permutation.
From TV Require Import Model.PlacementBase Gen.PlacementGen Model.Placement Proofs.PlacementTables Proofs.PlacementMatrix.
Import ListNotations.
Open Scope Z_scope.

(* ------------------------------------------------------------------ search loops return a free area *)
Lemma search_secondary_definite_spec : forall fuel m pl pax sec pos pp ss,
  search_secondary_definite fuel m pl pax sec pos = Ok (pp, ss) ->
  ss = sec /\ line_area_is_unoccupied m pax pp sec = Ok true /\
  exists p, resolve_indefinite_grid_tracks (both_get pl pax) p = Ok pp.
Proof.
  induction fuel; simpl; intros m pl pax sec pos pp ss H; [discriminate|].
  apply bind_ok in H. destruct H as [pap [E1 H]]. apply bind_ok in H. destruct H as [fits [E2 H]].
  destruct fits.
  - inversion H; subst. eauto.
  - apply bind_ok in H. destruct H as [pos' [E3 H]]. eapply IHfuel; eauto.
Qed.

Lemma search_secondary_spec : forall fuel m pax pspan sspan idx pp ss,
  search_secondary fuel m pax pspan sspan idx = Ok (pp, ss) ->
  pp = pspan /\ line_area_is_unoccupied m pax pp ss = Ok true /\
  exists i e, ss = mkLn i e /\ ozl_add_u16 i sspan = Ok e.
Proof.
  induction fuel; simpl; intros m pax pspan sspan idx pp ss H; [discriminate|].
  apply bind_ok in H. destruct H as [e [E1 H]]. apply bind_ok in H. destruct H as [free [E2 H]].
  destruct free; simpl in H.
  - inversion H; subst. split; auto. split; auto. exists idx, e. auto.
  - apply bind_ok in H. destruct H as [s' [E3 H]]. eapply IHfuel; eauto.
Qed.

Lemma search_both_spec : forall fuel m pax pspan sspan ps pe pidx sidx pp ss,
  search_both fuel m pax pspan sspan ps pe pidx sidx = Ok (pp, ss) ->
  line_area_is_unoccupied m pax pp ss = Ok true /\
  (exists i e, pp = mkLn i e /\ ozl_add_u16 i pspan = Ok e) /\
  (exists i e, ss = mkLn i e /\ ozl_add_u16 i sspan = Ok e).
Proof.
  induction fuel; simpl; intros m pax pspan sspan ps pe pidx sidx pp ss H; [discriminate|].
  apply bind_ok in H. destruct H as [e1 [E1 H]]. apply bind_ok in H. destruct H as [e2 [E2 H]].
  destruct (e1 >? pe).
  - apply bind_ok in H. destruct H as [s' [E3 H]]. eapply IHfuel; eauto.
  - apply bind_ok in H. destruct H as [free [E3 H]]. destruct free; simpl in H.
    + inversion H; subst. split; auto. split; [exists pidx, e1|exists sidx, e2]; auto.
    + apply bind_ok in H. destruct H as [p' [E4 H]]. eapply IHfuel; eauto.
Qed.

(* ------------------------------------------------------------------ invariant *)
Definition disjoint (a b : item) : Prop :=
  ~ (l_start (i_row a) < l_end (i_row b) /\ l_start (i_row b) < l_end (i_row a) /\
     l_start (i_col a) < l_end (i_col b) /\ l_start (i_col b) < l_end (i_col a)).

Lemma disjoint_sym : forall a b, disjoint a b -> disjoint b a.
Proof. unfold disjoint. intros. lia. Qed.

Definition nonempty (it : item) : Prop :=
  l_start (i_row it) < l_end (i_row it) /\ l_start (i_col it) < l_end (i_col it).

Definition covered (m : matrix) (it : item) : Prop :=
  forall r c, l_start (i_row it) <= r < l_end (i_row it) -> l_start (i_col it) <= c < l_end (i_col it) ->
              cellv m r c <> Unoccupied.

Definition in_counts (m : matrix) (it : item) : Prop :=
  - tc_neg (m_rows m) <= l_start (i_row it) /\ l_end (i_row it) <= tc_explicit (m_rows m) + tc_pos (m_rows m) /\
  - tc_neg (m_cols m) <= l_start (i_col it) /\ l_end (i_col it) <= tc_explicit (m_cols m) + tc_pos (m_cols m).

(* an explicit placement is honoured by a span *)
Definition honoured (ln : Ln GP) (e : Z) (s : Ln Z) : Prop :=
  is_definite ln = true -> expected ln e = Some (l_start s, l_end s).

Definition same_counts (m m' : matrix) : Prop :=
  tc_neg (m_rows m') = tc_neg (m_rows m) /\ tc_explicit (m_rows m') = tc_explicit (m_rows m) /\
  tc_neg (m_cols m') = tc_neg (m_cols m) /\ tc_explicit (m_cols m') = tc_explicit (m_cols m).

Lemma same_counts_refl : forall m, same_counts m m.
Proof. unfold same_counts; tauto. Qed.
Lemma same_counts_trans : forall a b c, same_counts a b -> same_counts b c -> same_counts a c.
Proof. unfold same_counts; intros; intuition congruence. Qed.


Section Placement.
  Variable children : list (Z * child).
  Variables ecc erc : Z.
  Hypothesis Hecc : 0 <= ecc <= 64.
  Hypothesis Herc : 0 <= erc <= 64.
  Hypothesis Hchildren : Forall (fun c => child_ok (snd c)) children.
  Hypothesis Hnodup : NoDup (map fst children).

  Definition is_def (i : Z) : Prop := exists c, In (i, c) children /\ phase1_filter (i, c) = true.
  Definition is_auto (i : Z) : Prop := exists c, In (i, c) children /\ phase1_filter (i, c) = false.

  Lemma same_child : forall i c c', In (i, c) children -> In (i, c') children -> c = c'.
  Proof.
    clear Hchildren. induction children as [|[j d] t IH]; simpl; intros i c c' H1 H2; [tauto|].
    inversion Hnodup; subst.
    destruct H1 as [H1|H1], H2 as [H2|H2].
    - congruence.
    - inversion H1; subst. exfalso. apply H3. apply in_map_iff. exists (i, c'). auto.
    - inversion H2; subst. exfalso. apply H3. apply in_map_iff. exists (i, c). auto.
    - eapply IH; eauto.
  Qed.

  Lemma def_auto_excl : forall i, is_def i -> is_auto i -> False.
  Proof.
    intros i [c [Hc Hf]] [c' [Hc' Hf']]. assert (c = c') by (eapply same_child; eauto). subst. congruence.
  Qed.

  Definition item_of_child (it : item) : Prop :=
    exists c, In (i_index it, c) children /\ honoured (c_row c) erc (i_row it) /\ honoured (c_col c) ecc (i_col it).

  (* newest first: an auto-placed item is disjoint from everything placed before it; nothing auto-placed precedes a definite item *)
  Fixpoint sepr (l : list item) : Prop :=
    match l with
    | [] => True
    | a :: older => (is_auto (i_index a) -> Forall (disjoint a) older) /\
                    (is_def (i_index a) -> Forall (fun b => is_def (i_index b)) older) /\ sepr older
    end.

  Definition Inv (m : matrix) (items : list item) : Prop :=
    wf m /\ Forall (fun it => nonempty it /\ covered m it /\ in_counts m it /\ item_of_child it) items /\ sepr (rev items).

  Lemma record_step : forall m items idx pax ps ss ty m' items',
    Inv m items -> record_grid_placement m items idx pax ps ss ty = Ok (m', items') -> ty <> Unoccupied ->
    let it := mkItem idx (col_span_of pax ps ss) (row_span_of pax ps ss) in
    nonempty it -> item_of_child it ->
    (is_auto idx -> line_area_is_unoccupied m pax ps ss = Ok true) ->
    (is_def idx -> Forall (fun b => is_def (i_index b)) items) ->
    Inv m' items' /\ same_counts m m' /\ items' = items ++ [it].
  Proof.
    intros m items idx pax ps ss ty m' items' (Hwf & Hall & Hsep) H Hty it Hne Hchild Hauto Hdef.
    unfold record_grid_placement in H. apply bind_ok in H. destruct H as [m1 [Em H]].
    assert (Hit : (let '(col_span, row_span) := match pax with Horizontal => (ps, ss) | Vertical => (ss, ps) end in
                   mkItem idx col_span row_span) = it) by (destruct pax; reflexivity).
    destruct (match pax with Horizontal => (ps, ss) | Vertical => (ss, ps) end) as [col_span row_span].
    inversion H; subst m1 items'; clear H. rewrite Hit.
    destruct Hne as [Hne1 Hne2]. simpl in Hne1, Hne2.
    pose proof (mark_area_spec _ _ _ _ _ _ Hwf Em Hne1 Hne2) as
      (Hwf' & Hn1 & He1 & Hp1 & Hn2 & He2 & Hp2 & Hcell & Hi1 & Hi2 & Hi3 & Hi4 & _).
    split; [|split; [unfold same_counts; tauto|reflexivity]].
    split; [exact Hwf'|]. split.
    - apply Forall_app. split.
      + eapply Forall_impl; [|exact Hall]. intros a (Ha1 & Ha2 & Ha3 & Ha4).
        split; [auto|]. split; [|split; [|auto]].
        * intros r c Hr Hc. rewrite Hcell. destruct (in_spanb r (row_span_of pax ps ss) && in_spanb c (col_span_of pax ps ss)); auto.
        * unfold in_counts in *. rewrite Hn1, He1, Hn2, He2. lia.
      + constructor; [|constructor]. split; [split; auto|]. split; [|split; [|auto]].
        * intros r c Hr Hc. rewrite Hcell. simpl in Hr, Hc.
          assert (Hx : in_spanb r (row_span_of pax ps ss) = true) by (apply in_spanb_spec; auto).
          assert (Hy : in_spanb c (col_span_of pax ps ss) = true) by (apply in_spanb_spec; auto).
          rewrite Hx, Hy. simpl. auto.
        * unfold in_counts. simpl. lia.
    - rewrite rev_app_distr. simpl. split; [|split; [|exact Hsep]].
      + intros Ha. specialize (Hauto Ha). apply Forall_rev. apply Forall_forall. intros b Hb.
        rewrite Forall_forall in Hall. destruct (Hall b Hb) as ((Hb1 & Hb2) & Hcov & _).
        pose proof (proj1 (unoccupied_spec _ _ _ _ _ Hwf Hauto) eq_refl) as Hfree. simpl in Hfree.
        unfold disjoint. simpl. intros (O1 & O2 & O3 & O4).
        apply (Hcov (Z.max (l_start (i_row b)) (l_start (row_span_of pax ps ss))) (Z.max (l_start (i_col b)) (l_start (col_span_of pax ps ss)))); try lia.
        apply Hfree; lia.
      + intros Hd. apply Forall_rev. auto.
  Qed.

  (* ---------------- origin-zero placement of a child *)
  Lemma origin_zero_placement_spec : forall c b, child_ok c -> origin_zero_placement ecc erc c = Ok b ->
    b_horizontal b = mkLn (ozp_spec (l_start (c_col c)) ecc) (ozp_spec (l_end (c_col c)) ecc) /\ ozln_ok (b_horizontal b) /\
    b_vertical b = mkLn (ozp_spec (l_start (c_row c)) erc) (ozp_spec (l_end (c_row c)) erc) /\ ozln_ok (b_vertical b).
  Proof.
    intros c b [Hr Hc] H. unfold origin_zero_placement in H.
    apply bind_ok in H. destruct H as [h [Eh H]]. apply bind_ok in H. destruct H as [v [Ev H]]. inversion H; subst; simpl.
    apply into_origin_zero_ok in Eh; auto. apply into_origin_zero_ok in Ev; auto. tauto.
  Qed.

  Definition style_of (c : child) (a : axis) : Ln GP := grid_placement c a.
  Definition explicit_of (a : axis) : Z := match a with Horizontal => ecc | Vertical => erc end.

  Lemma both_get_spec : forall c b a, child_ok c -> origin_zero_placement ecc erc c = Ok b ->
    both_get b a = mkLn (ozp_spec (l_start (style_of c a)) (explicit_of a)) (ozp_spec (l_end (style_of c a)) (explicit_of a)) /\
    ozln_ok (both_get b a) /\ ln_ok (style_of c a) /\ 0 <= explicit_of a <= 64.
  Proof.
    intros c b a Hc H. pose proof (origin_zero_placement_spec _ _ Hc H) as (H1 & H2 & H3 & H4).
    destruct Hc as [Hr Hcc]. destruct a; simpl; auto.
  Qed.

  (* a resolved definite axis honours the style *)
  Lemma resolve_axis : forall c b a r, child_ok c -> origin_zero_placement ecc erc c = Ok b ->
    is_definite (style_of c a) = true -> resolve_definite_grid_lines (both_get b a) = Ok r ->
    honoured (style_of c a) (explicit_of a) r /\ l_start r < l_end r.
  Proof.
    intros c b a r Hc Hb Hd Hr. destruct (both_get_spec c b a Hc Hb) as (Hg & _ & Hln & He).
    rewrite Hg in Hr. apply resolve_definite_spec in Hr; auto. destruct Hr as (Hexp & Hlt & _).
    split; auto. intros _. exact Hexp.
  Qed.

  Lemma honoured_vacuous : forall ln e s, is_definite ln = false -> honoured ln e s.
  Proof. unfold honoured. intros. congruence. Qed.

  (* item construction from primary/secondary spans *)
  Lemma item_of_child_axes : forall i c pax ps ss,
    In (i, c) children ->
    honoured (style_of c pax) (explicit_of pax) ps -> honoured (style_of c (other_axis pax)) (explicit_of (other_axis pax)) ss ->
    item_of_child (mkItem i (col_span_of pax ps ss) (row_span_of pax ps ss)).
  Proof.
    intros i c pax ps ss Hin Hp Hs. exists c. simpl. split; auto. destruct pax; simpl in *; auto.
  Qed.

  Lemma nonempty_axes : forall i pax ps ss, l_start ps < l_end ps -> l_start ss < l_end ss ->
    nonempty (mkItem i (col_span_of pax ps ss) (row_span_of pax ps ss)).
  Proof. intros. unfold nonempty. destruct pax; simpl; auto. Qed.

  Lemma phase1_filter_axes : forall x pax, phase1_filter x = is_definite (style_of (snd x) pax) && is_definite (style_of (snd x) (other_axis pax)).
  Proof. intros [i c] pax. unfold phase1_filter, style_of, grid_placement. simpl. destruct pax; simpl; auto. apply andb_comm. Qed.

  (* ---------------- phase 1 *)
  Lemma phase1_step_inv : forall pax st x st',
    In x children -> phase1_filter x = true ->
    Inv (fst st) (snd st) -> Forall (fun b => is_def (i_index b)) (snd st) ->
    phase1_step ecc erc pax st x = Ok st' ->
    Inv (fst st') (snd st') /\ Forall (fun b => is_def (i_index b)) (snd st') /\ same_counts (fst st) (fst st').
  Proof.
    intros pax [m items] [i c] [m' items'] Hin Hf Hinv Hdefs H. simpl in *.
    assert (Hc : child_ok c) by (rewrite Forall_forall in Hchildren; apply (Hchildren (i, c)); auto).
    apply bind_ok in H. destruct H as [b [Eb H]]. apply bind_ok in H. destruct H as [[ps ss] [Ep H]].
    unfold place_definite_grid_item in Ep. apply bind_ok in Ep. destruct Ep as [ps' [E1 Ep]].
    apply bind_ok in Ep. destruct Ep as [ss' [E2 Ep]]. inversion Ep; subst ps' ss'; clear Ep.
    rewrite (phase1_filter_axes (i, c) pax) in Hf. simpl in Hf. apply andb_true_iff in Hf. destruct Hf as [Hd1 Hd2].
    destruct (resolve_axis c b pax ps Hc Eb Hd1 E1) as [Hh1 Hl1].
    destruct (resolve_axis c b (other_axis pax) ss Hc Eb Hd2 E2) as [Hh2 Hl2].
    assert (Hisdef : is_def i).
    { exists c. split; auto. rewrite (phase1_filter_axes (i, c) pax). simpl. rewrite Hd1, Hd2. reflexivity. }
    eapply record_step in H; eauto.
    - destruct H as (Hinv' & Hsc & Hitems). split; auto. split; auto. subst items'. apply Forall_app. split; auto.
    - discriminate.
    - apply nonempty_axes; auto.
    - eapply item_of_child_axes; eauto.
    - intros Ha. exfalso. eapply def_auto_excl; eauto.
  Qed.

  (* ---------------- phase 2 *)
  Lemma phase2_step_inv : forall fl st x st',
    In x children -> phase2_filter (primary_axis fl) (other_axis (primary_axis fl)) x = true ->
    Inv (fst st) (snd st) ->
    phase2_step ecc erc fl st x = Ok st' ->
    Inv (fst st') (snd st') /\ same_counts (fst st) (fst st').
  Proof.
    intros fl [m items] [i c] [m' items'] Hin Hf Hinv H. simpl in *.
    assert (Hc : child_ok c) by (rewrite Forall_forall in Hchildren; apply (Hchildren (i, c)); auto).
    set (pax := primary_axis fl) in *.
    apply bind_ok in H. destruct H as [b [Eb H]]. apply bind_ok in H. destruct H as [[ps ss] [Ep H]].
    unfold phase2_filter in Hf. simpl in Hf. apply andb_true_iff in Hf. destruct Hf as [Hd2 Hd1]. apply negb_true_iff in Hd1.
    change (is_definite (style_of c (other_axis pax)) = true) in Hd2. change (is_definite (style_of c pax) = false) in Hd1.
    unfold place_definite_secondary_axis_item in Ep. fold pax in Ep.
    apply bind_ok in Ep. destruct Ep as [sec [E1 Ep]]. apply bind_ok in Ep. destruct Ep as [sl [E2 Ep]].
    apply bind_ok in Ep. destruct Ep as [sp [E3 Ep]]. apply bind_ok in Ep. destruct Ep as [len [E4 Ep]].
    apply search_secondary_definite_spec in Ep. destruct Ep as (? & Hfree & [p Hp]). subst ss.
    destruct (resolve_axis c b (other_axis pax) sec Hc Eb Hd2 E1) as [Hh2 Hl2].
    destruct (both_get_spec c b pax Hc Eb) as (_ & Hok & _ & _).
    apply resolve_indefinite_spec in Hp; auto. destruct Hp as (Hp1 & Hp2 & _).
    assert (Hisauto : is_auto i).
    { exists c. split; auto. rewrite (phase1_filter_axes (i, c) pax). simpl. rewrite Hd1. reflexivity. }
    eapply record_step in H; eauto.
    - destruct H as (Hinv' & Hsc & Hitems). split; auto.
    - discriminate.
    - apply nonempty_axes; auto. lia.
    - eapply item_of_child_axes; eauto. apply honoured_vacuous; auto.
    - intros Hd. exfalso. eapply def_auto_excl; eauto.
  Qed.

  (* ---------------- phase 4 *)
  Lemma phase4_step_inv : forall fl gs st x st',
    In x children -> phase4_filter (other_axis (primary_axis fl)) x = true ->
    Inv (fst (fst st)) (snd (fst st)) ->
    phase4_step ecc erc fl gs st x = Ok st' ->
    Inv (fst (fst st')) (snd (fst st')) /\ same_counts (fst (fst st)) (fst (fst st')).
  Proof.
    intros fl gs [[m items] gp] [i c] [[m' items'] gp'] Hin Hf Hinv H. simpl in *.
    assert (Hc : child_ok c) by (rewrite Forall_forall in Hchildren; apply (Hchildren (i, c)); auto).
    set (pax := primary_axis fl) in *.
    apply bind_ok in H. destruct H as [b [Eb H]]. apply bind_ok in H. destruct H as [[ps ss] [Ep H]].
    apply bind_ok in H. destruct H as [[m1 items1] [Er H]]. inversion H; subst m1 items1 gp'; clear H.
    unfold phase4_filter in Hf. simpl in Hf. apply negb_true_iff in Hf.
    change (is_definite (style_of c (other_axis pax)) = false) in Hf.
    assert (Hisauto : is_auto i).
    { exists c. split; auto. rewrite (phase1_filter_axes (i, c) pax). simpl. rewrite Hf. apply andb_false_r. }
    destruct (both_get_spec c b pax Hc Eb) as (Hgp & Hokp & Hlnp & Hep).
    destruct (both_get_spec c b (other_axis pax) Hc Eb) as (Hgs & Hoks & Hlns & Hes).
    unfold place_indefinitely_positioned_item in Ep. fold pax in Ep.
    apply bind_ok in Ep. destruct Ep as [sspan [E1 Ep]]. apply indefinite_span_range in E1; auto.
    apply bind_ok in Ep. destruct Ep as [psl [E2 Ep]]. apply bind_ok in Ep. destruct Ep as [pel [E3 Ep]].
    apply bind_ok in Ep. destruct Ep as [ssl [E4 Ep]]. destruct gp as [pidx sidx].
    apply bind_ok in Ep. destruct Ep as [plen [E5 Ep]]. apply bind_ok in Ep. destruct Ep as [slen [E6 Ep]].
    assert (Hres : line_area_is_unoccupied m pax ps ss = Ok true /\ l_start ps < l_end ps /\ l_start ss < l_end ss /\
                   honoured (style_of c pax) (explicit_of pax) ps).
    { destruct (is_definite_oz (both_get b pax)) eqn:Hdo.
      - apply bind_ok in Ep. destruct Ep as [pspan [E7 Ep]]. apply bind_ok in Ep. destruct Ep as [sidx' [E8 Ep]].
        apply search_secondary_spec in Ep. destruct Ep as (? & Hfree & (i0 & e0 & ? & Hadd)). subst ps ss.
        rewrite Hgp, is_definite_oz_spec in Hdo.
        destruct (resolve_axis c b pax pspan Hc Eb Hdo E7) as [Hh Hl].
        unfold ozl_add_u16, i16_add in Hadd. apply chk_i16_ok in Hadd. rewrite u16_as_i16_small in Hadd by lia.
        simpl. repeat split; auto; lia.
      - apply bind_ok in Ep. destruct Ep as [pspan [E7 Ep]]. apply indefinite_span_range in E7; auto.
        apply search_both_spec in Ep. destruct Ep as (Hfree & (i1 & e1 & ? & Hadd1) & (i2 & e2 & ? & Hadd2)). subst ps ss.
        rewrite Hgp, is_definite_oz_spec in Hdo.
        unfold ozl_add_u16, i16_add in Hadd1, Hadd2. apply chk_i16_ok in Hadd1, Hadd2.
        rewrite u16_as_i16_small in Hadd1, Hadd2 by lia.
        simpl. repeat split; auto; try lia. apply honoured_vacuous; auto. }
    destruct Hres as (Hfree & Hl1 & Hl2 & Hh).
    eapply record_step in Er; eauto.
    - destruct Er as (Hinv' & Hsc & Hitems). split; auto.
    - discriminate.
    - apply nonempty_axes; auto.
    - eapply item_of_child_axes; eauto. apply honoured_vacuous; auto.
    - intros Hd. exfalso. eapply def_auto_excl; eauto.
  Qed.
End Placement.

(* ------------------------------------------------------------------ the three phases *)
Lemma place_grid_items_inv : forall children m0 fl m items,
  0 <= tc_explicit (m_cols m0) <= 64 -> 0 <= tc_explicit (m_rows m0) <= 64 ->
  Forall (fun c => child_ok (snd c)) children -> NoDup (map fst children) ->
  wf m0 -> place_grid_items m0 children fl = Ok (m, items) ->
  Inv children (tc_explicit (m_cols m0)) (tc_explicit (m_rows m0)) m items /\ same_counts m0 m.
Proof.
  intros children m0 fl m items Hec Her Hch Hnd Hwf H. unfold place_grid_items in H. simpl in H.
  set (ecc := tc_explicit (m_cols m0)) in *. set (erc := tc_explicit (m_rows m0)) in *.
  apply bind_ok in H. destruct H as [st1 [E1 H]].
  assert (I1 : Inv children ecc erc (fst st1) (snd st1) /\ Forall (fun b => is_def children (i_index b)) (snd st1) /\ same_counts m0 (fst st1)).
  { eapply (foldM_inv _ _ _ (fun st => Inv children ecc erc (fst st) (snd st) /\ Forall (fun b => is_def children (i_index b)) (snd st) /\ same_counts m0 (fst st))); [| |exact E1].
    - intros x s s' Hin (Hi & Hd & Hs) Hstep. apply filter_In in Hin. destruct Hin as [Hin Hf].
      eapply phase1_step_inv in Hstep; eauto. destruct Hstep as (? & ? & ?). split; [auto|]. split; [auto|]. eapply same_counts_trans; eauto.
    - simpl. split; [|split; [apply Forall_nil|apply same_counts_refl]].
      split; [exact Hwf|]. split; [apply Forall_nil|]. simpl. exact I. }
  destruct I1 as (I1 & _ & S1).
  apply bind_ok in H. destruct H as [st2 [E2 H]].
  assert (I2 : Inv children ecc erc (fst st2) (snd st2) /\ same_counts m0 (fst st2)).
  { eapply (foldM_inv _ _ _ (fun st => Inv children ecc erc (fst st) (snd st) /\ same_counts m0 (fst st))); [| |exact E2].
    - intros x s s' Hin (Hi & Hs) Hstep. apply filter_In in Hin. destruct Hin as [Hin Hf].
      eapply phase2_step_inv in Hstep; eauto. destruct Hstep as (? & ?). split; auto. eapply same_counts_trans; eauto.
    - auto. }
  destruct I2 as (I2 & S2). destruct st2 as [m2 items2]. simpl in *.
  apply bind_ok in H. destruct H as [pn [E3 H]]. apply bind_ok in H. destruct H as [sn [E4 H]].
  apply bind_ok in H. destruct H as [st4 [E5 H]]. inversion H; subst; clear H.
  assert (I4 : Inv children ecc erc (fst (fst st4)) (snd (fst st4)) /\ same_counts m0 (fst (fst st4))).
  { eapply (foldM_inv _ _ _ (fun st => Inv children ecc erc (fst (fst st)) (snd (fst st)) /\ same_counts m0 (fst (fst st)))); [| |exact E5].
    - intros x s s' Hin (Hi & Hs) Hstep. apply filter_In in Hin. destruct Hin as [Hin Hf].
      eapply phase4_step_inv in Hstep; eauto. destruct Hstep as (? & ?). split; auto. eapply same_counts_trans; eauto.
    - simpl. auto. }
  destruct st4 as [[m4 items4] gp]. simpl in *. inversion H1; subst. exact I4.
Qed.

(* any two distinct items, one of them auto-placed, are disjoint *)
Lemma sepr_disjoint : forall children ecc erc l a b,
  NoDup (map fst children) ->
  sepr children l -> Forall (item_of_child children ecc erc) l ->
  In a l -> In b l -> i_index a <> i_index b -> is_auto children (i_index a) -> disjoint a b.
Proof.
  intros children ecc erc l a b Hnd. induction l as [|x older IH]; simpl; intros Hsep Hall Ha Hb Hne Hauto; [tauto|].
  destruct Hsep as (Hs1 & Hs2 & Hs3). inversion Hall as [|? ? Hx Hrest]; subst.
  destruct Ha as [Ha|Ha], Hb as [Hb|Hb].
  - subst. congruence.
  - subst x. specialize (Hs1 Hauto). rewrite Forall_forall in Hs1. auto.
  - subst x. destruct Hx as [c [Hc _]].
    destruct (phase1_filter (i_index b, c)) eqn:Hf.
    + exfalso. assert (Hd : is_def children (i_index b)) by (exists c; auto).
      specialize (Hs2 Hd). rewrite Forall_forall in Hs2.
      apply (def_auto_excl children 0 0 ltac:(lia) ltac:(lia) Hnd (i_index a)); auto.
    + assert (Hau : is_auto children (i_index b)) by (exists c; auto).
      specialize (Hs1 Hau). rewrite Forall_forall in Hs1. apply disjoint_sym. auto.
  - apply IH; auto.
Qed.

(* ------------------------------------------------------------------ in-flow children, sorting, report *)
Lemma enumerate_from_In : forall A (l : list A) s i x,
  In (i, x) (enumerate_from s l) <-> s <= i /\ nth_error l (Z.to_nat (i - s)) = Some x.
Proof.
  induction l; simpl; intros s i x.
  - split; [tauto|]. intros [_ H]. destruct (Z.to_nat (i - s)); discriminate.
  - split.
    + intros [H|H].
      * inversion H; subst. split; [lia|]. replace (i - i) with 0 by lia. reflexivity.
      * apply IHl in H. destruct H as [H1 H2]. split; [lia|].
        replace (Z.to_nat (i - s)) with (S (Z.to_nat (i - (s + 1)))) by lia. exact H2.
    + intros [H1 H2]. destruct (Z.eq_dec i s).
      * subst. replace (s - s) with 0 in H2 by lia. simpl in H2. inversion H2. auto.
      * right. apply IHl. split; [lia|].
        replace (Z.to_nat (i - s)) with (S (Z.to_nat (i - (s + 1)))) in H2 by lia. exact H2.
Qed.

Lemma enumerate_from_fst : forall A (l : list A) s, map fst (enumerate_from s l) = map (fun k => s + Z.of_nat k) (seq 0 (length l)).
Proof.
  induction l; simpl; intros; auto. f_equal; [lia|]. rewrite IHl. rewrite <- seq_shift, map_map.
  apply map_ext. intros. lia.
Qed.

Definition increasing (l : list Z) : Prop := forall i j, (i < j < length l)%nat -> nth i l 0 < nth j l 0.

Lemma in_flow_children_In : forall children i c, In (i, c) (in_flow_children children) ->
  0 <= i /\ nth_error children (Z.to_nat i) = Some (InFlow, c).
Proof.
  intros children i c H. unfold in_flow_children in H. apply in_map_iff in H.
  destruct H as [[j [k d]] [Heq Hin]]. inversion Heq; subst. apply filter_In in Hin. destruct Hin as [Hin Hk].
  apply enumerate_from_In in Hin. destruct Hin as [H1 H2]. rewrite Z.sub_0_r in H2.
  destruct k; simpl in Hk; try discriminate. auto.
Qed.

Lemma map_fst_filter_sub : forall A B (f : A * B -> bool) l, exists l', map fst (filter f l) = l' /\
  forall x, In x l' -> In x (map fst l).
Proof.
  intros. exists (map fst (filter f l)). split; auto. intros x Hx. apply in_map_iff in Hx. destruct Hx as [y [Hy Hin]].
  apply filter_In in Hin. apply in_map_iff. exists y. tauto.
Qed.

Lemma NoDup_map_filter : forall A B (g : A -> B) (f : A -> bool) l, NoDup (map g l) -> NoDup (map g (filter f l)).
Proof.
  induction l; simpl; intros H; auto. inversion H; subst. destruct (f a); simpl; auto.
  constructor; auto. intros Hin. apply H2. apply in_map_iff in Hin. destruct Hin as [y [Hy Hin]].
  apply filter_In in Hin. apply in_map_iff. exists y. tauto.
Qed.

Lemma enumerate_from_nodup : forall A (l : list A) s, NoDup (map fst (enumerate_from s l)).
Proof.
  induction l; simpl; intros; constructor; auto.
  intros Hin. apply in_map_iff in Hin. destruct Hin as [[i x] [Hi Hin]]. simpl in Hi. subst.
  apply enumerate_from_In in Hin. lia.
Qed.

Lemma in_flow_children_nodup : forall children, NoDup (map fst (in_flow_children children)).
Proof.
  intros. unfold in_flow_children. rewrite map_map.
  rewrite map_ext with (g := fst) by (intros [i [k c]]; reflexivity).
  apply NoDup_map_filter. apply enumerate_from_nodup.
Qed.

Lemma insert_item_perm : forall x l, Permutation (insert_item x l) (x :: l).
Proof.
  induction l; simpl; auto. destruct (i_index x <? i_index a); auto.
  eapply perm_trans; [apply perm_skip; exact IHl|]. apply perm_swap.
Qed.

Lemma sort_items_perm : forall l, Permutation (sort_items l) l.
Proof.
  induction l; simpl; auto. eapply perm_trans; [apply insert_item_perm|]. auto.
Qed.

Lemma mapM_spec : forall A B (f : A -> res B) l ys, mapM f l = Ok ys -> Forall2 (fun x y => f x = Ok y) l ys.
Proof.
  induction l; simpl; intros ys H.
  - inversion H. constructor.
  - apply bind_ok in H. destruct H as [y [E1 H]]. apply bind_ok in H. destruct H as [ys' [E2 H]]. inversion H; subst.
    constructor; auto.
Qed.

Lemma Forall2_In_r : forall A B (P : A -> B -> Prop) l l' y, Forall2 P l l' -> In y l' -> exists x, In x l /\ P x y.
Proof.
  induction 1; simpl; intros Hin; [tauto|]. destruct Hin as [Hin|Hin].
  - subst. eauto.
  - destruct (IHForall2 Hin) as [x0 [? ?]]. eauto.
Qed.

Lemma reported_line_spec : forall tc l v, tc_nonneg tc -> tlen tc <= 32767 -> reported_line tc l = Ok v ->
  v = l + tc_neg tc + 1 /\ - tc_neg tc <= l <= tc_explicit tc + tc_pos tc.
Proof.
  intros tc l v (Hn & He & Hp) Hl H. unfold tlen in Hl. unfold reported_line in H.
  apply bind_ok in H. destruct H as [idx [E H]]. unfold into_track_vec_index in E. mon.
  rewrite !u16_as_i16_small in * by lia.
  destruct (Z.geb_spec l (- tc_neg tc)); [|discriminate]. destruct (Z.leb_spec l (tc_explicit tc + tc_pos tc)); [|discriminate].
  unfold to_one_indexed_grid_line in H. mon.
  rewrite i16_as_usize_small by lia. rewrite usize_as_u16_small by lia.
  replace (2 * (l + tc_neg tc)) with ((l + tc_neg tc) * 2) by lia. rewrite Z.div_mul by lia. lia.
Qed.

Lemma report_item_spec : forall cc rc it p, tc_nonneg cc -> tlen cc <= 32767 -> tc_nonneg rc -> tlen rc <= 32767 ->
  report_item cc rc it = Ok p ->
  p_index p = i_index it /\ p_row p = i_row it /\ p_col p = i_col it /\
  p_row_start p = l_start (i_row it) + tc_neg rc + 1 /\ p_row_end p = l_end (i_row it) + tc_neg rc + 1 /\
  p_col_start p = l_start (i_col it) + tc_neg cc + 1 /\ p_col_end p = l_end (i_col it) + tc_neg cc + 1.
Proof.
  intros cc rc it p H1 H2 H3 H4 H. unfold report_item in H.
  apply bind_ok in H. destruct H as [cs [Ecs H]]. apply bind_ok in H. destruct H as [ce [Ece H]].
  apply bind_ok in H. destruct H as [rs [Ers H]]. apply bind_ok in H. destruct H as [re [Ere H]].
  inversion H; subst; simpl.
  apply reported_line_spec in Ecs, Ece, Ers, Ere; auto. intuition.
Qed.

(* ------------------------------------------------------------------ the size estimate: bounds on the initial track counts *)
Lemma child_mms_bounds : forall ln e mn mx sp, 0 <= e <= 64 -> ln_ok ln ->
  child_min_line_max_line_span ln e = Ok (mn, mx, sp) ->
  -127 <= mn <= 128 /\ -127 <= mx <= 192 /\ 1 <= sp <= 64.
Proof.
  intros ln e mn mx sp He Hln H. unfold child_min_line_max_line_span in H.
  apply bind_ok in H. destruct H as [z [Ez H]]. apply into_origin_zero_ok in Ez; auto. destruct Ez as [_ [Hs Ht]].
  destruct z as [s t]. simpl in *.
  destruct s as [|a|a], t as [|b|b]; simpl in *; mon;
    repeat match goal with
           | H : context [Z.eqb ?x ?y] |- _ => destruct (Z.eqb_spec x y); simpl in H
           end; mon; rewrite ?u16_as_i16_small in * by lia;
    try match goal with H : indefinite_span _ = Ok _ |- _ => apply indefinite_span_range in H; [|split; simpl; auto] end;
    lia.
Qed.

Definition kp_ok (k : known_positions) : Prop :=
  let '(cmin, cmax, cspan, rmin, rmax, rspan) := k in
  -127 <= cmin <= 0 /\ 0 <= cmax <= 192 /\ 0 <= cspan <= 64 /\ -127 <= rmin <= 0 /\ 0 <= rmax <= 192 /\ 0 <= rspan <= 64.

Lemma known_positions_bounds : forall children ec er k, 0 <= ec <= 64 -> 0 <= er <= 64 -> Forall child_ok children ->
  get_known_child_positions children ec er = Ok k -> kp_ok k.
Proof.
  intros children ec er k Hec Her Hch H. unfold get_known_child_positions in H.
  eapply (foldM_inv _ _ _ kp_ok) in H; eauto.
  - intros c [[[[[cmin cmax] cspan] rmin] rmax] rspan] s' Hin Hk Hstep.
    rewrite Forall_forall in Hch. destruct (Hch c Hin) as [Hr Hc].
    apply bind_ok in Hstep. destruct Hstep as [[[a1 a2] a3] [E1 Hstep]].
    apply bind_ok in Hstep. destruct Hstep as [[[b1 b2] b3] [E2 Hstep]]. inversion Hstep; subst; clear Hstep.
    apply child_mms_bounds in E1; auto. apply child_mms_bounds in E2; auto. unfold kp_ok in *. lia.
  - unfold kp_ok. lia.
Qed.

Lemma estimate_axis_bounds : forall lmin lmax sp e tc, -127 <= lmin <= 0 -> 0 <= lmax <= 192 -> 0 <= sp <= 64 -> 0 <= e <= 64 ->
  estimate_axis lmin lmax sp e = Ok tc ->
  tc_nonneg tc /\ tc_neg tc <= 127 /\ tc_explicit tc = e /\ tlen tc <= 400.
Proof.
  intros lmin lmax sp e tc H1 H2 H3 H4 H. unfold estimate_axis in H.
  unfold implied_negative_implicit_tracks, implied_positive_implicit_tracks, i16_unsigned_abs in H.
  apply bind_ok in H. destruct H as [pi [E1 H]].
  assert (Hpi : 0 <= pi <= 192).
  { destruct (lmax >? u16_as_i16 e); mon; rewrite ?i16_as_u16_small in * by lia; lia. }
  set (ng := if lmin <? 0 then Z.abs lmin else 0) in *.
  assert (Hng : 0 <= ng <= 127) by (unfold ng; destruct (Z.ltb_spec lmin 0); lia).
  apply bind_ok in H. destruct H as [t [Et H]]. apply bind_ok in H. destruct H as [tot [Etot H]].
  apply bind_ok in H. destruct H as [p' [Ep H]]. inversion H; subst; clear H. mon.
  assert (Hp' : 0 <= p' <= 192) by (destruct (ng + e + pi <? sp); mon; lia).
  unfold tc_nonneg, tlen. simpl. lia.
Qed.

Lemma estimate_bounds : forall ec er children cc rc, 0 <= ec <= 64 -> 0 <= er <= 64 -> Forall child_ok children ->
  compute_grid_size_estimate ec er children = Ok (cc, rc) ->
  tc_nonneg cc /\ tc_neg cc <= 127 /\ tc_explicit cc = ec /\ tlen cc <= 400 /\
  tc_nonneg rc /\ tc_neg rc <= 127 /\ tc_explicit rc = er /\ tlen rc <= 400.
Proof.
  intros ec er children cc rc Hec Her Hch H. unfold compute_grid_size_estimate in H.
  apply bind_ok in H. destruct H as [[[[[[cmin cmax] cspan] rmin] rmax] rspan] [Ek H]].
  apply known_positions_bounds in Ek; auto. unfold kp_ok in Ek.
  apply bind_ok in H. destruct H as [c1 [E1 H]]. apply bind_ok in H. destruct H as [r1 [E2 H]]. inversion H; subst.
  apply estimate_axis_bounds in E1; try lia. apply estimate_axis_bounds in E2; try lia. intuition.
Qed.

Lemma with_track_counts_wf : forall cc rc m, tc_nonneg cc -> tlen cc <= 32767 -> tc_nonneg rc -> tlen rc <= 32767 ->
  with_track_counts cc rc = Ok m -> wf m /\ m_cols m = cc /\ m_rows m = rc.
Proof.
  intros cc rc m H1 H2 H3 H4 H. unfold with_track_counts in H.
  apply bind_ok in H. destruct H as [rl [Er H]]. apply tc_len_spec in Er; auto. destruct Er as [? _]; subst.
  apply bind_ok in H. destruct H as [cl [Ec H]]. apply tc_len_spec in Ec; auto. destruct Ec as [? _]; subst.
  inversion H; subst; simpl. split; auto. unfold wf; simpl. repeat (split; [assumption|]).
  apply grid_new_reg; unfold tc_nonneg, tlen in *; lia.
Qed.

(* ------------------------------------------------------------------ the whole run *)
(* Domain of the theorems: explicit track counts up to 64, at most 64 children (of any kind), line indices in [-64, 64]
   (0 included: it is treated as auto), spans in [1, 64].  `span 0` is EXCLUDED: CSS forbids it, and taffy gives such an item
   an empty area. *)
Definition in_domain (ec er : Z) (children : list (child_kind * child)) : Prop :=
  0 <= ec <= 64 /\ 0 <= er <= 64 /\ (length children <= 64)%nat /\ Forall (fun kc => child_ok (snd kc)) children.

Definition reports (cc rc : TrackCounts) (it : item) (p : placed) : Prop :=
  p_index p = i_index it /\ p_row p = i_row it /\ p_col p = i_col it /\
  p_row_start p = l_start (i_row it) + tc_neg rc + 1 /\ p_row_end p = l_end (i_row it) + tc_neg rc + 1 /\
  p_col_start p = l_start (i_col it) + tc_neg cc + 1 /\ p_col_end p = l_end (i_col it) + tc_neg cc + 1.

Lemma in_flow_children_ok : forall children, Forall (fun kc => child_ok (snd kc)) children ->
  Forall (fun c => child_ok (snd c)) (in_flow_children children).
Proof.
  intros children H. apply Forall_forall. intros [i c] Hin. apply in_flow_children_In in Hin. destruct Hin as [_ Hn].
  apply nth_error_In in Hn. rewrite Forall_forall in H. apply (H (InFlow, c)). auto.
Qed.

Lemma Forall2_imp : forall A B (P Q : A -> B -> Prop) l l', (forall x y, P x y -> Q x y) -> Forall2 P l l' -> Forall2 Q l l'.
Proof. induction 2; constructor; auto. Qed.

Lemma run_inv : forall ec er fl children o, in_domain ec er children ->
  grid_placement_run ec er fl children = Ok o ->
  exists m items,
    Inv (in_flow_children children) ec er m items /\
    o_cols o = m_cols m /\ o_rows o = m_rows m /\
    tc_neg (m_cols m) <= 127 /\ tc_neg (m_rows m) <= 127 /\ tc_explicit (m_cols m) = ec /\ tc_explicit (m_rows m) = er /\
    Forall2 (reports (m_cols m) (m_rows m)) (sort_items items) (o_items o) /\
    exists m0, place_grid_items m0 (in_flow_children children) fl = Ok (m, items).
Proof.
  intros ec er fl children o (Hec & Her & Hlen & Hch) H. unfold grid_placement_run in H.
  apply bind_ok in H. destruct H as [[cc rc] [Eest H]].
  apply estimate_bounds in Eest; auto; [|unfold estimate_children; rewrite Forall_map; rewrite Forall_forall in *; intros x0 Hx0; apply filter_In in Hx0; apply Hch; tauto].
  destruct Eest as (Hc1 & Hc2 & Hc3 & Hc4 & Hr1 & Hr2 & Hr3 & Hr4).
  apply bind_ok in H. destruct H as [m0 [Em0 H]].
  apply with_track_counts_wf in Em0; auto; try lia. destruct Em0 as (Hwf0 & Hmc & Hmr).
  apply bind_ok in H. destruct H as [[m items] [Epl H]].
  pose proof Epl as Epl0.
  apply place_grid_items_inv in Epl; auto.
  - destruct Epl as (Hinv & Hs1 & Hs2 & Hs3 & Hs4). rewrite Hmc, Hmr, Hc3, Hr3 in *.
    apply bind_ok in H. destruct H as [rep [Erep H]]. inversion H; subst o; clear H. simpl.
    exists m, items. split; [exact Hinv|]. split; [reflexivity|]. split; [reflexivity|].
    split; [lia|]. split; [lia|]. split; [lia|]. split; [lia|]. split; [|exists m0; exact Epl0].
    apply mapM_spec in Erep. destruct Hinv as (Hwf & _). destruct Hwf as (W1 & W2 & W3 & W4 & _).
    eapply Forall2_imp; [|exact Erep]. intros it p Hp. simpl in Hp.
    apply report_item_spec in Hp; auto.
  - rewrite Hmc, Hc3. auto.
  - rewrite Hmr, Hr3. auto.
  - apply in_flow_children_ok; auto.
  - apply in_flow_children_nodup.
Qed.

Lemma In_sort_items : forall it l, In it (sort_items l) <-> In it l.
Proof.
  intros. split; intros H.
  - eapply Permutation_in; [apply sort_items_perm|]; auto.
  - eapply Permutation_in; [apply Permutation_sym; apply sort_items_perm|]; auto.
Qed.

Lemma child_of_index : forall children i c k c', In (i, c') (in_flow_children children) ->
  nth_error children (Z.to_nat i) = Some (k, c) -> c' = c /\ k = InFlow.
Proof.
  intros children i c k c' Hin Hn. apply in_flow_children_In in Hin. destruct Hin as [_ Hn']. rewrite Hn in Hn'. inversion Hn'. auto.
Qed.

(* ------------------------------------------------------------------ C08 *)
Theorem area_in_range : forall ec er fl children o, in_domain ec er children ->
  grid_placement_run ec er fl children = Ok o ->
  forall p, In p (o_items o) ->
    1 <= p_row_start p /\ p_row_start p < p_row_end p /\ p_row_end p <= tlen (o_rows o) + 1 /\
    1 <= p_col_start p /\ p_col_start p < p_col_end p /\ p_col_end p <= tlen (o_cols o) + 1.
Proof.
  intros ec er fl children o Hdom Hrun p Hp.
  destruct (run_inv _ _ _ _ _ Hdom Hrun) as (m & items & Hinv & Hoc & Hor & _ & _ & _ & _ & Hrep & _).
  destruct (Forall2_In_r _ _ _ _ _ _ Hrep Hp) as [it [Hit Hr]]. apply (proj1 (In_sort_items _ _)) in Hit.
  destruct Hinv as (Hwf & Hall & _). rewrite Forall_forall in Hall. destruct (Hall it Hit) as ((N1 & N2) & _ & (C1 & C2 & C3 & C4) & _).
  destruct Hr as (_ & _ & _ & R1 & R2 & R3 & R4). rewrite Hoc, Hor. unfold tlen.
  destruct Hwf as ((? & ? & ?) & (? & ? & ?) & _). lia.
Qed.

Theorem explicit_honoured : forall ec er fl children o, in_domain ec er children ->
  grid_placement_run ec er fl children = Ok o ->
  forall p k c, In p (o_items o) -> nth_error children (Z.to_nat (p_index p)) = Some (k, c) ->
    (forall a b, expected (c_row c) er = Some (a, b) ->
       p_row_start p = a + tc_neg (o_rows o) + 1 /\ p_row_end p = b + tc_neg (o_rows o) + 1) /\
    (forall a b, expected (c_col c) ec = Some (a, b) ->
       p_col_start p = a + tc_neg (o_cols o) + 1 /\ p_col_end p = b + tc_neg (o_cols o) + 1).
Proof.
  intros ec er fl children o Hdom Hrun p k c Hp Hn.
  destruct (run_inv _ _ _ _ _ Hdom Hrun) as (m & items & Hinv & Hoc & Hor & _ & _ & _ & _ & Hrep & _).
  destruct (Forall2_In_r _ _ _ _ _ _ Hrep Hp) as [it [Hit Hr]]. apply (proj1 (In_sort_items _ _)) in Hit.
  destruct Hinv as (Hwf & Hall & _). rewrite Forall_forall in Hall. destruct (Hall it Hit) as (_ & _ & _ & (c' & Hc' & Hh1 & Hh2)).
  destruct Hr as (Ri & _ & _ & R1 & R2 & R3 & R4). rewrite <- Ri in Hc'.
  destruct (child_of_index _ _ _ _ _ Hc' Hn) as [? _]. subst c'. rewrite Hoc, Hor.
  split; intros a b He.
  - pose proof (expected_some_definite _ _ _ _ He) as Hd. specialize (Hh1 Hd). rewrite He in Hh1. inversion Hh1; subst. lia.
  - pose proof (expected_some_definite _ _ _ _ He) as Hd. specialize (Hh2 Hd). rewrite He in Hh2. inversion Hh2; subst. lia.
Qed.

Definition overlap (p q : placed) : Prop :=
  p_row_start p < p_row_end q /\ p_row_start q < p_row_end p /\ p_col_start p < p_col_end q /\ p_col_start q < p_col_end p.

Theorem auto_no_overlap : forall ec er fl children o, in_domain ec er children ->
  grid_placement_run ec er fl children = Ok o ->
  forall p q k c, In p (o_items o) -> In q (o_items o) -> p_index p <> p_index q ->
    nth_error children (Z.to_nat (p_index p)) = Some (k, c) ->
    is_definite (c_row c) && is_definite (c_col c) = false ->
    ~ overlap p q.
Proof.
  intros ec er fl children o Hdom Hrun p q k c Hp Hq Hne Hn Hauto.
  destruct (run_inv _ _ _ _ _ Hdom Hrun) as (m & items & Hinv & Hoc & Hor & _ & _ & _ & _ & Hrep & _).
  destruct (Forall2_In_r _ _ _ _ _ _ Hrep Hp) as [a [Ha Hra]]. apply (proj1 (In_sort_items _ _)) in Ha.
  destruct (Forall2_In_r _ _ _ _ _ _ Hrep Hq) as [b [Hb Hrb]]. apply (proj1 (In_sort_items _ _)) in Hb.
  destruct Hinv as (Hwf & Hall & Hsep).
  assert (Hic : Forall (item_of_child (in_flow_children children) ec er) (rev items)).
  { apply Forall_rev. eapply Forall_impl; [|exact Hall]. intros x Hx. apply Hx. }
  destruct Hra as (Ia & _ & _ & A1 & A2 & A3 & A4). destruct Hrb as (Ib & _ & _ & B1 & B2 & B3 & B4).
  assert (Hau : is_auto (in_flow_children children) (i_index a)).
  { rewrite Forall_forall in Hall. destruct (Hall a Ha) as (_ & _ & _ & (c' & Hc' & _)).
    rewrite <- Ia in Hc'. destruct (child_of_index _ _ _ _ _ Hc' Hn) as [? _]. subst c'.
    exists c. rewrite <- Ia. split; auto. }
  assert (Hd : disjoint a b).
  { eapply sepr_disjoint; eauto; try (apply in_rev; rewrite rev_involutive; auto); try apply in_flow_children_nodup. congruence. }
  unfold disjoint in Hd. unfold overlap. lia.
Qed.

(* ------------------------------------------------------------------ every in-flow child is placed exactly once, reported in source order *)
Lemma foldM_inv_list : forall A S (f : S -> A -> res S) (P : list A -> S -> Prop) l s0 s,
  P [] s0 -> (forall done x s s', P done s -> f s x = Ok s' -> P (done ++ [x]) s') -> foldM f l s0 = Ok s -> P l s.
Proof.
  intros A S f P l. assert (G : forall done s0 s, P done s0 -> (forall done x s s', P done s -> f s x = Ok s' -> P (done ++ [x]) s') ->
                              foldM f l s0 = Ok s -> P (done ++ l) s).
  { induction l; simpl; intros done s0 s H0 Hstep H.
    - inversion H; subst. rewrite app_nil_r. auto.
    - apply bind_ok in H. destruct H as [s1 [E H]]. replace (done ++ a :: l) with ((done ++ [a]) ++ l) by (rewrite <- app_assoc; reflexivity).
      eapply IHl; eauto. }
  intros s0 s H0 Hstep H. apply (G [] s0 s); auto.
Qed.

Lemma record_items : forall m items idx pax ps ss ty m' items',
  record_grid_placement m items idx pax ps ss ty = Ok (m', items') -> map i_index items' = map i_index items ++ [idx].
Proof.
  intros. unfold record_grid_placement in H. apply bind_ok in H. destruct H as [m1 [_ H]].
  destruct (match pax with Horizontal => (ps, ss) | Vertical => (ss, ps) end). inversion H; subst.
  rewrite map_app. reflexivity.
Qed.

Lemma phase1_step_items : forall ecc erc pax st x st', phase1_step ecc erc pax st x = Ok st' ->
  map i_index (snd st') = map i_index (snd st) ++ [fst x].
Proof.
  intros ecc erc pax [m items] x [m' items'] H. simpl in *.
  apply bind_ok in H. destruct H as [b [_ H]]. apply bind_ok in H. destruct H as [[ps ss] [_ H]].
  eapply record_items; eauto.
Qed.

Lemma phase2_step_items : forall ecc erc fl st x st', phase2_step ecc erc fl st x = Ok st' ->
  map i_index (snd st') = map i_index (snd st) ++ [fst x].
Proof.
  intros ecc erc fl [m items] x [m' items'] H. simpl in *.
  apply bind_ok in H. destruct H as [b [_ H]]. apply bind_ok in H. destruct H as [[ps ss] [_ H]].
  eapply record_items; eauto.
Qed.

Lemma phase4_step_items : forall ecc erc fl gs st x st', phase4_step ecc erc fl gs st x = Ok st' ->
  map i_index (snd (fst st')) = map i_index (snd (fst st)) ++ [fst x].
Proof.
  intros ecc erc fl gs [[m items] gp] x [[m' items'] gp'] H. simpl in *.
  apply bind_ok in H. destruct H as [b [_ H]]. apply bind_ok in H. destruct H as [[ps ss] [_ H]].
  apply bind_ok in H. destruct H as [[m1 items1] [Er H]]. inversion H; subst. eapply record_items; eauto.
Qed.

Lemma place_grid_items_indices : forall m0 children fl m items, place_grid_items m0 children fl = Ok (m, items) ->
  map i_index items =
    map fst (filter phase1_filter children) ++
    map fst (filter (phase2_filter (primary_axis fl) (other_axis (primary_axis fl))) children) ++
    map fst (filter (phase4_filter (other_axis (primary_axis fl))) children).
Proof.
  intros m0 children fl m items H. unfold place_grid_items in H.
  apply bind_ok in H. destruct H as [st1 [E1 H]].
  apply (foldM_inv_list _ _ _ (fun done st => map i_index (snd st) = map fst done)) in E1; auto.
  2:{ intros done x s s' Hd Hs. apply phase1_step_items in Hs. rewrite Hs, Hd, map_app. reflexivity. }
  apply bind_ok in H. destruct H as [st2 [E2 H]].
  apply (foldM_inv_list _ _ _ (fun done st => map i_index (snd st) = map i_index (snd st1) ++ map fst done)) in E2.
  2:{ simpl. rewrite app_nil_r. reflexivity. }
  2:{ intros done x s s' Hd Hs. apply phase2_step_items in Hs. rewrite Hs, Hd, map_app, <- app_assoc. reflexivity. }
  destruct st2 as [m2 items2]. simpl in *.
  apply bind_ok in H. destruct H as [pn [_ H]]. apply bind_ok in H. destruct H as [sn [_ H]].
  apply bind_ok in H. destruct H as [st4 [E4 H]]. inversion H; subst; clear H.
  apply (foldM_inv_list _ _ _ (fun done st => map i_index (snd (fst st)) = map i_index items2 ++ map fst done)) in E4.
  2:{ simpl. rewrite app_nil_r. reflexivity. }
  2:{ intros done x s s' Hd Hs. apply phase4_step_items in Hs. rewrite Hs, Hd, map_app, <- app_assoc. reflexivity. }
  destruct st4 as [[m4 items4] gp]. simpl in *. inversion H1; subst. rewrite E4, E2, E1, <- app_assoc. reflexivity.
Qed.

Lemma filter_partition_perm : forall A (f : A -> bool) l, Permutation (filter f l ++ filter (fun x => negb (f x)) l) l.
Proof.
  induction l; simpl; auto. destruct (f a); simpl.
  - constructor. auto.
  - eapply perm_trans; [apply Permutation_sym; apply Permutation_middle|]. constructor. auto.
Qed.

Lemma filter_filter : forall A (f g : A -> bool) l, filter f (filter g l) = filter (fun x => g x && f x) l.
Proof. induction l; simpl; auto. destruct (g a); simpl; auto. destruct (f a); simpl; congruence. Qed.

Lemma phases_partition : forall children pax,
  Permutation (filter phase1_filter children ++ filter (phase2_filter pax (other_axis pax)) children ++
               filter (phase4_filter (other_axis pax)) children) children.
Proof.
  intros children pax.
  set (S := fun x : Z * child => is_definite (grid_placement (snd x) (other_axis pax))).
  set (P := fun x : Z * child => is_definite (grid_placement (snd x) pax)).
  assert (E1 : filter phase1_filter children = filter P (filter S children)).
  { rewrite filter_filter. apply filter_ext. intros [i c]. unfold phase1_filter, S, P. destruct pax; simpl; auto. apply andb_comm. }
  assert (E2 : filter (phase2_filter pax (other_axis pax)) children = filter (fun x => negb (P x)) (filter S children)).
  { rewrite filter_filter. apply filter_ext. intros x. reflexivity. }
  assert (E4 : filter (phase4_filter (other_axis pax)) children = filter (fun x => negb (S x)) children) by reflexivity.
  rewrite E1, E2, E4, app_assoc.
  eapply perm_trans; [apply Permutation_app_tail; apply filter_partition_perm|]. apply filter_partition_perm.
Qed.

(* insertion sort on the indices *)
Fixpoint insert_z (x : Z) (l : list Z) : list Z :=
  match l with [] => [x] | y :: t => if x <? y then x :: l else y :: insert_z x t end.
Definition sort_z (l : list Z) : list Z := fold_right insert_z [] l.

Lemma map_insert_item : forall x l, map i_index (insert_item x l) = insert_z (i_index x) (map i_index l).
Proof. induction l; simpl; auto. destruct (i_index x <? i_index a); simpl; congruence. Qed.

Lemma map_sort_items : forall l, map i_index (sort_items l) = sort_z (map i_index l).
Proof. induction l; simpl; auto. rewrite map_insert_item, IHl. reflexivity. Qed.

Inductive ssorted : list Z -> Prop :=
| ss_nil : ssorted []
| ss_cons : forall x l, Forall (fun y => x < y) l -> ssorted l -> ssorted (x :: l).

Lemma insert_z_perm : forall x l, Permutation (insert_z x l) (x :: l).
Proof.
  induction l; simpl; auto. destruct (x <? a); auto.
  eapply perm_trans; [apply perm_skip; exact IHl|]. apply perm_swap.
Qed.

Lemma insert_z_sorted : forall x l, ssorted l -> ~ In x l -> ssorted (insert_z x l).
Proof.
  induction 1; simpl; intros Hn.
  - constructor; constructor.
  - destruct (Z.ltb_spec x x0).
    + constructor; [|constructor; auto]. constructor; auto. eapply Forall_impl; [|exact H]. simpl. intros; lia.
    + constructor.
      * assert (Hp := insert_z_perm x l). apply Forall_forall. intros y Hy.
        eapply Permutation_in in Hy; [|exact Hp]. destruct Hy as [Hy|Hy]; [subst; assert (x0 <> y) by (intro; subst; apply Hn; auto); lia|].
        rewrite Forall_forall in H. auto.
      * apply IHssorted. intro. apply Hn. auto.
Qed.

Lemma sort_z_spec : forall l, NoDup l -> ssorted (sort_z l) /\ Permutation (sort_z l) l.
Proof.
  induction 1; simpl.
  - split; constructor.
  - destruct IHNoDup as [Hs Hp]. split.
    + apply insert_z_sorted; auto. intro Hin. apply H. eapply Permutation_in; eauto.
    + eapply perm_trans; [apply insert_z_perm|]. constructor. auto.
Qed.

Lemma ssorted_unique : forall l l', ssorted l -> ssorted l' -> Permutation l l' -> l = l'.
Proof.
  induction l; intros l' Hs Hs' Hp.
  - apply Permutation_nil in Hp. auto.
  - destruct l' as [|b l']; [apply Permutation_sym, Permutation_nil in Hp; discriminate|].
    inversion Hs; subst. inversion Hs'; subst.
    assert (a = b).
    { assert (Ha : In a (b :: l')) by (eapply Permutation_in; [exact Hp|left; auto]).
      assert (Hb : In b (a :: l)) by (eapply Permutation_in; [apply Permutation_sym; exact Hp|left; auto]).
      destruct Ha as [Ha|Ha]; auto. destruct Hb as [Hb|Hb]; auto.
      rewrite Forall_forall in H1, H3. specialize (H1 _ Hb). specialize (H3 _ Ha). lia. }
    subst b. f_equal. apply IHl; auto. eapply Permutation_cons_inv; eauto.
Qed.

Lemma ssorted_enumerate_filter : forall A (f : Z * A -> bool) (l : list A) s, ssorted (map fst (filter f (enumerate_from s l))).
Proof.
  induction l; simpl; intros s; [constructor|].
  destruct (f (s, a)); simpl; auto. constructor; auto.
  apply Forall_forall. intros y Hy. apply in_map_iff in Hy. destruct Hy as [[i x] [Hi Hin]]. simpl in Hi. subst.
  apply filter_In in Hin. destruct Hin as [Hin _]. apply enumerate_from_In in Hin. lia.
Qed.

Lemma ssorted_nodup : forall l, ssorted l -> NoDup l.
Proof.
  induction 1; constructor; auto. intro Hin. rewrite Forall_forall in H. specialize (H _ Hin). lia.
Qed.

Theorem every_child_placed : forall ec er fl children o, in_domain ec er children ->
  grid_placement_run ec er fl children = Ok o ->
  map p_index (o_items o) = map fst (in_flow_children children).
Proof.
  intros ec er fl children o Hdom Hrun.
  destruct (run_inv _ _ _ _ _ Hdom Hrun) as (m & items & Hinv & _ & _ & _ & _ & _ & _ & Hrep & (m0 & Epl)).
  assert (E1 : map p_index (o_items o) = map i_index (sort_items items)).
  { clear - Hrep. induction Hrep; simpl; auto. destruct H as (Hi & _). congruence. }
  rewrite E1, map_sort_items.
  assert (Hidx := place_grid_items_indices _ _ _ _ _ Epl).
  assert (Hperm : Permutation (map i_index items) (map fst (in_flow_children children))).
  { rewrite Hidx, <- !map_app. apply Permutation_map. apply phases_partition. }
  assert (Hsorted : ssorted (map fst (in_flow_children children))).
  { unfold in_flow_children. rewrite map_map. rewrite map_ext with (g := fst) by (intros [i [k c]]; reflexivity).
    apply ssorted_enumerate_filter. }
  assert (Hnd : NoDup (map i_index items)).
  { eapply Permutation_NoDup; [apply Permutation_sym; exact Hperm|]. apply ssorted_nodup; auto. }
  destruct (sort_z_spec _ Hnd) as [Hs Hp].
  apply ssorted_unique; auto. eapply perm_trans; eauto.
Qed.
