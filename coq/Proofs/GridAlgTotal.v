(* Model/GridAlgTotal.v `grid_alg_total` = `grid_alg` with a total stand-in for the Rust panics.  It satisfies, WITHOUT the premise
   `grid_no_panic`, everything the engine theorems ask of an algorithm:
     WF, HQ, H1, H3 (C01 / C15), NS where grid_alg has it (no baseline alignment), HiddenBlind (C05), AbsBlindK keyed by the grid lines (C06),
   and it is grid_alg wherever the Rust code does not panic. *)
From Coq Require Import ZArith QArith Bool List Lia Permutation.
From TV Require Import Model.Common Model.Leaf Gen.GridTracksGen Model.GridTracks Model.GridIntrinsic.
From TV Require Import Model.FiltersBase Gen.FiltersGen Model.ItemFilters Model.GridAlgBase Model.GridAlg Model.GridAlgTotal.
From TV Require Import Proofs.GridAlgProg Proofs.GridAlgStruct Proofs.GridAlgIface Proofs.GridAlgVisits Proofs.GridAlgBlind.
From TV Require Import Model.Engine Model.EngineLayouts Proofs.EngineDirty Proofs.EngineNoScribble Proofs.EngineHidden.
From TV Require Import Proofs.EngineBlind Proofs.EngineAbs Proofs.EngineAbsKey.
Import ListNotations.
Close Scope Z_scope.
Close Scope Q_scope.

Section Total.
  Context {T : Type} `{Num T}.
  Notation GS := (GStyle T).
  Notation Out := (LayoutOutput T).
  Notation Alg := (Engine.Alg (GIn T) Out (GLay T)).
  Notation Query := (Engine.Query (GIn T) Out (GLay T)).
  Notation SetLayout := (Engine.SetLayout (GIn T) Out (GLay T)).
  Notation Ret := (Engine.Ret (GIn T) Out (GLay T)).
  Notation gmode := (@FlexAlgBase.qi_mode T).
  Notation gnones := (nones GS g_is_none).
  Notation Vis := (Visits (GIn T) Out (GLay T) gmode).
  Notation SL := (SetsLast (GIn T) Out (GLay T)).
  Notation SO := (SizeOnly (GIn T) Out (GLay T) gmode).

  Lemma grid_alg_total_ok (s : GS) st i : grid_no_panic s st i = true -> grid_alg_total s st i = grid_alg s st i.
  Proof. intros E. unfold grid_alg_total. rewrite E. reflexivity. Qed.

  (* ---- the stand-in *)
  Lemma visit_WF rest : WFAlg (GIn T) Out (GLay T) gmode rest -> forall n k, WFAlg (GIn T) Out (GLay T) gmode (visit_from k n rest).
  Proof.
    intros Hr. induction n as [|n IH]; intros k; cbn [visit_from]; [exact Hr|].
    apply WF_query; [discriminate|]. intros _. apply WF_set. apply IH.
  Qed.

  Lemma visit_HQ none rest : NoHiddenSize (GIn T) Out (GLay T) gmode none rest ->
    forall n k, NoHiddenSize (GIn T) Out (GLay T) gmode none (visit_from k n rest).
  Proof.
    intros Hr. induction n as [|n IH]; intros k; cbn [visit_from]; [exact Hr|].
    apply NHS_query; [intros E; discriminate|]. intros _. apply NHS_set. apply IH.
  Qed.

  Lemma remove_seq_head k n : remove Nat.eq_dec k (seq k (S n)) = seq (S k) n.
  Proof.
    cbn [seq remove]. destruct (Nat.eq_dec k k) as [_|Hne]; [|contradiction]. apply notin_remove. intros Hin. apply in_seq in Hin. lia.
  Qed.

  Lemma visit_Vis : forall n k o, Vis (seq k n) (visit_from k n (Ret o)).
  Proof.
    induction n as [|n IH]; intros k o; cbn [visit_from]; [apply Vis_ret|].
    apply Vis_query. intros _. cbn [gi_mode hidden_child_input FlexAlgBase.qi_mode]. apply Vis_set. rewrite remove_seq_head. apply IH.
  Qed.

  Lemma visit_SL none : forall n k o, SL none (seq k n) (visit_from k n (Ret o)).
  Proof.
    induction n as [|n IH]; intros k o; cbn [visit_from]; [apply SL_ret|].
    apply SL_query. intros _. apply SL_set.
    replace (remove Nat.eq_dec k (if none k then k :: seq k (S n) else seq k (S n))) with (seq (S k) n); [apply IH|].
    destruct (none k); [cbn [remove]; destruct (Nat.eq_dec k k) as [_|Hne]; [|contradiction]|]; rewrite remove_seq_head; reflexivity.
  Qed.

  (* ---- the interface hypotheses, unconditionally *)
  Theorem grid_alg_total_WF (s : GS) (st : list GS) (i : GIn T) : WFAlg (GIn T) Out (GLay T) gmode (grid_alg_total s st i).
  Proof.
    unfold grid_alg_total. destruct (grid_no_panic s st i); [apply grid_alg_WF|].
    unfold panic_alg. destruct (gi_mode i); try apply WF_ret. apply visit_WF. apply WF_ret.
  Qed.

  Theorem grid_alg_total_HQ (s : GS) (st : list GS) (i : GIn T) :
    NoHiddenSize (GIn T) Out (GLay T) gmode (gnones st) (grid_alg_total s st i).
  Proof.
    unfold grid_alg_total. destruct (grid_no_panic s st i); [apply grid_alg_HQ|].
    unfold panic_alg. destruct (gi_mode i); try apply NHS_ret. apply visit_HQ. apply NHS_ret.
  Qed.

  Theorem grid_alg_total_H1 (s : GS) (st : list GS) (i : GIn T) :
    gi_mode i = PerformLayout -> Vis (seq 0 (length st)) (grid_alg_total s st i).
  Proof.
    intros Em. unfold grid_alg_total. destruct (grid_no_panic s st i) eqn:E; [apply grid_alg_H1; assumption|].
    unfold panic_alg. rewrite Em. apply visit_Vis.
  Qed.

  Theorem grid_alg_total_H3 (s : GS) (st : list GS) (i : GIn T) :
    gi_mode i = PerformLayout -> SL (gnones st) (seq 0 (length st)) (grid_alg_total s st i).
  Proof.
    intros Em. unfold grid_alg_total. destruct (grid_no_panic s st i) eqn:E; [apply grid_alg_H3; assumption|].
    unfold panic_alg. rewrite Em. apply visit_SL.
  Qed.

  Theorem grid_alg_total_NS_partial (s : GS) (st : list GS) (i : GIn T) :
    not_baseline (gs_align_items s) -> Forall (fun sc => not_baseline (gs_align_self sc)) st ->
    gi_mode i = ComputeSize -> SO (grid_alg_total s st i).
  Proof.
    intros Hs Hst Em. unfold grid_alg_total. destruct (grid_no_panic s st i); [apply grid_alg_NS_partial; assumption|].
    unfold panic_alg. rewrite Em. apply SO_ret.
  Qed.

  (* ---- HiddenBlind *)
  Lemma grid_no_panic_none_rel (s : GS) st st' i : Forall2 none_rel st st' -> grid_no_panic s st i = grid_no_panic s st' i.
  Proof.
    intros Hr. unfold grid_no_panic.
    rewrite (estimate_styles_none_rel _ _ Hr), (in_flow_styles_none_rel _ _ Hr), (oof_none_rel _ _ Hr). reflexivity.
  Qed.

  Theorem grid_alg_total_hidden_blind : HiddenBlind GS (GIn T) Out (GLay T) g_is_none grid_alg_total.
  Proof.
    exists GS, g_hidden_view, grid_alg_total. split.
    - intros a b Ha Hb. unfold g_hidden_view. rewrite Ha, Hb. reflexivity.
    - intros s st i. unfold grid_alg_total.
      rewrite <- (grid_no_panic_none_rel s st _ i (g_hidden_view_rel st)), <- (grid_alg_none_rel s st _ i (g_hidden_view_rel st)), map_length.
      reflexivity.
  Qed.

  (* ---- AbsBlindK, keyed by the grid lines *)
  Notation Bis := (ABis (GIn T) Out (GLay T) gout_eq glay_eq).

  Lemma visit_bis (m : nat -> bool) o : forall n k, Bis m (visit_from k n (Ret o)) (visit_from k n (Ret o)).
  Proof.
    induction n as [|n IH]; intros k; cbn [visit_from]; [apply AB_ret; apply gout_eq_refl|].
    destruct (m k) eqn:Em.
    - apply AB_query_l; [exact Em|]. intros _. apply AB_query_r; [exact Em|]. intros _.
      apply AB_set_l; [exact Em|]. apply AB_set_r; [exact Em|]. apply IH.
    - apply AB_query; [exact Em|]. intros _ _ _. apply AB_set; [exact Em|apply glay_eq_refl|apply IH].
  Qed.

  Lemma oof_ok_orel ab cc rc v v' : GridAlgBlind.orel (T := T) ab v v' -> oof_ok cc rc v = oof_ok cc rc v'.
  Proof.
    intros [->|(cs & cs' & -> & -> & _ & _ & Er & Ec)]; [reflexivity|]. unfold oof_ok. rewrite Er, Ec. reflexivity.
  Qed.

  Lemma grid_no_panic_lrel ab (ab_va : forall s, ab s = true -> g_visible_absolute s = true) (s : GS) st st' i :
    Forall2 (GridAlgBlind.lrel ab) st st' -> grid_no_panic s st i = grid_no_panic s st' i.
  Proof.
    intros Hr. unfold grid_no_panic.
    rewrite <- (estimate_styles_lrel ab ab_va _ _ Hr), <- (in_flow_styles_lrel ab ab_va _ _ Hr).
    destruct (explicit_counts s (grid_pre s i)) as [ec er].
    destruct (place s ec er (estimate_styles st) (in_flow_styles st)) as [[mx placed]|e]; [|reflexivity].
    destruct (PL.mapM _ placed) as [items0|e]; [|reflexivity].
    pose proof (oof_lrel ab ab_va _ _ Hr) as Hoof. clear -Hoof.
    induction Hoof as [|v v' l l' Hv Hl IH]; [reflexivity|]. cbn [forallb]. rewrite IH, (oof_ok_orel ab _ _ v v' Hv). reflexivity.
  Qed.

  Theorem grid_alg_total_abs_blind_keyed :
    AbsBlindK GS (GIn T) Out (GLay T) grid_alg_total g_visible_absolute (PB.Ln PB.GP * PB.Ln PB.GP) g_lines gout_eq glay_eq.
  Proof.
    intros s st st' i Hr.
    assert (Hl : Forall2 (GridAlgBlind.lrel g_visible_absolute) st st').
    { clear -Hr. induction Hr as [|a b l l' Hab Hl IH]; constructor; [|exact IH].
      destruct Hab as [->|(A & B & E)]; [left; reflexivity|]. right. unfold g_lines in E. injection E as Er Ec. repeat split; assumption. }
    assert (EL : length st' = length st) by (clear -Hr; induction Hr; cbn; congruence).
    unfold grid_alg_total. rewrite <- (grid_no_panic_lrel g_visible_absolute (fun _ E => E) s st st' i Hl), EL.
    destruct (grid_no_panic s st i).
    - apply grid_alg_abs_blind_keyed. exact Hr.
    - unfold panic_alg. destruct (gi_mode i); try (apply AB_ret; apply gout_eq_refl). apply visit_bis.
  Qed.
End Total.
