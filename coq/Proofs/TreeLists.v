(* C14 -- proofs about Model/Tree.v, part 1: keys and the Vec operations on child lists. *)
From Coq Require Import NArith List Bool Arith Lia PeanoNat.
From TV Require Import Model.Tree.
Import ListNotations.



Lemma key_eqb_spec (a b : key) : reflect (a = b) (key_eqb a b).
Proof.
  destruct a as [i v], b as [j w]. unfold key_eqb. simpl.
  destruct (Nat.eqb_spec i j), (N.eqb_spec v w); simpl; constructor; congruence.
Qed.

Lemma key_eqb_refl a : key_eqb a a = true.
Proof. destruct (key_eqb_spec a a); congruence. Qed.

Lemma key_eqb_sym a b : key_eqb a b = key_eqb b a.
Proof. destruct (key_eqb_spec a b), (key_eqb_spec b a); congruence. Qed.

Lemma key_eq_dec (a b : key) : {a = b} + {a <> b}.
Proof. destruct (key_eqb_spec a b); auto. Qed.

Ltac keq a b := destruct (key_eqb_spec a b); subst; try congruence.

Lemma mem_In k l : mem k l = true <-> In k l.
Proof.
  unfold mem. rewrite existsb_exists. split.
  - intros [x [Hx He]]. keq k x.
  - intros H. exists k. split; auto. apply key_eqb_refl.
Qed.

Lemma mem_false k l : mem k l = false <-> ~ In k l.
Proof. rewrite <- mem_In. destruct (mem k l); split; congruence. Qed.

(* upd *)
Lemma upd_length {A} (l : list A) i x : length (upd l i x) = length l.
Proof. revert i. induction l; destruct i; simpl; auto. Qed.

Lemma nth_error_upd_eq {A} (l : list A) i x : i < length l -> nth_error (upd l i x) i = Some x.
Proof. revert i. induction l; destruct i; simpl; intros; try lia; auto. apply IHl. lia. Qed.

Lemma nth_error_upd_neq {A} (l : list A) i j x : i <> j -> nth_error (upd l i x) j = nth_error l j.
Proof. revert i j. induction l; destruct i, j; simpl; intros; try congruence; auto. Qed.

Lemma upd_map {A} {B} (f : A -> B) l i x : map f (upd l i x) = upd (map f l) i (f x).
Proof. revert i. induction l; destruct i; simpl; auto. f_equal. auto. Qed.

Lemma upd_same {A} (l : list A) i x : nth_error l i = Some x -> upd l i x = l.
Proof. revert i. induction l; destruct i; simpl; intros; try congruence. f_equal. auto. Qed.

Lemma nth_error_Some_lt {A} (l : list A) i x : nth_error l i = Some x -> i < length l.
Proof. intros H. apply nth_error_Some. congruence. Qed.
Arguments nth_error_Some_lt {A l i x} _.

Lemma In_upd {A} (l : list A) i x y : In y (upd l i x) -> y = x \/ In y l.
Proof. revert i. induction l; destruct i; simpl; intros; intuition. apply IHl in H0. intuition. Qed.

Lemma upd_split {A} (l : list A) i x y : nth_error l i = Some y -> upd l i x = firstn i l ++ x :: skipn (S i) l.
Proof.
  revert i. induction l; intros [|i] H; simpl in H; try discriminate.
  - reflexivity.
  - cbn [upd]. rewrite (IHl i H). reflexivity.
Qed.

Lemma nth_split {A} (l : list A) i y : nth_error l i = Some y -> l = firstn i l ++ y :: skipn (S i) l.
Proof.
  revert i. induction l; intros [|i] H; simpl in H; try discriminate.
  - inversion H. reflexivity.
  - rewrite (IHl i H) at 1. reflexivity.
Qed.

(* membership in the Vec results *)
Lemma In_firstn {A} (l : list A) n y : In y (firstn n l) -> In y l.
Proof. intros H. rewrite <- (firstn_skipn n l). apply in_or_app. auto. Qed.

Lemma In_skipn {A} (l : list A) n y : In y (skipn n l) -> In y l.
Proof. intros H. rewrite <- (firstn_skipn n l). apply in_or_app. auto. Qed.

Lemma In_vec_insert {A} (l : list A) i x y : In y (vec_insert l i x) <-> y = x \/ In y l.
Proof.
  unfold vec_insert. rewrite in_app_iff. simpl. split.
  - intros [H|[H|H]]; [right; eapply In_firstn; eauto | left; auto | right; eapply In_skipn; eauto].
  - intros [H|H]; [right; left; auto|].
    rewrite <- (firstn_skipn i l) in H. apply in_app_or in H. destruct H; auto.
Qed.

Lemma NoDup_insert_mid {A} (a b : list A) x : NoDup (a ++ b) -> ~ In x (a ++ b) -> NoDup (a ++ x :: b).
Proof.
  induction a as [|h a IH]; simpl; intros Hn Hx.
  - constructor; assumption.
  - inversion Hn; subst. constructor.
    + rewrite in_app_iff in *. simpl. intuition congruence.
    + apply IH; intuition.
Qed.

Lemma NoDup_vec_insert {A} (l : list A) i x : NoDup l -> ~ In x l -> NoDup (vec_insert l i x).
Proof.
  intros Hn Hx. unfold vec_insert. rewrite <- (firstn_skipn i l) in Hn, Hx.
  apply NoDup_insert_mid; assumption.
Qed.

Lemma NoDup_vec_remove {A} (l : list A) i : NoDup l -> NoDup (vec_remove l i).
Proof.
  intros Hn. unfold vec_remove. destruct (nth_error l i) eqn:E.
  - rewrite (nth_split l i _ E) in Hn. apply NoDup_remove in Hn. tauto.
  - apply nth_error_None in E. rewrite firstn_all2, skipn_all2 by lia. rewrite app_nil_r. auto.
Qed.

Lemma In_vec_remove {A} (l : list A) i y : In y (vec_remove l i) -> In y l.
Proof.
  unfold vec_remove. rewrite in_app_iff. intros [H|H].
  - eapply In_firstn; eauto.
  - eapply In_skipn; eauto.
Qed.

(* position / retain *)
Lemma position_Some k l i : position k l = Some i -> nth_error l i = Some k.
Proof.
  revert i. induction l as [|x r IH]; simpl; intros i H; [discriminate|].
  destruct (key_eqb_spec x k) as [->|Hne].
  - inversion H. reflexivity.
  - destruct (position k r) as [j|]; simpl in H; [|discriminate]. inversion H. simpl. apply IH. reflexivity.
Qed.

Lemma In_position k l : In k l -> exists i, position k l = Some i.
Proof.
  induction l as [|x r IH]; simpl; intros H; [tauto|].
  destruct (key_eqb_spec x k) as [->|Hne]; [eauto|].
  destruct H as [H|H]; [congruence|]. destruct (IH H) as [i Hi]. rewrite Hi. simpl. eauto.
Qed.

Lemma In_retain_ne k l x : In x (retain_ne k l) <-> In x l /\ x <> k.
Proof.
  unfold retain_ne. rewrite filter_In. destruct (key_eqb_spec x k); simpl; intuition congruence.
Qed.

Lemma retain_ne_notin k l : ~ In k l -> retain_ne k l = l.
Proof.
  induction l as [|x r IH]; simpl; intros H; [reflexivity|].
  destruct (key_eqb_spec x k) as [->|Hne]; simpl; [tauto|]. f_equal. apply IH. tauto.
Qed.

Lemma retain_ne_app k a b : retain_ne k (a ++ b) = retain_ne k a ++ retain_ne k b.
Proof. unfold retain_ne. apply filter_app. Qed.

Lemma vec_remove_retain (l : list key) i c : NoDup l -> nth_error l i = Some c -> vec_remove l i = retain_ne c l.
Proof.
  intros Hn Hi. unfold vec_remove. rewrite (nth_split l i _ Hi) at 3. rewrite (nth_split l i _ Hi) in Hn.
  apply NoDup_remove in Hn. destruct Hn as [_ Hn]. rewrite in_app_iff in Hn.
  rewrite retain_ne_app. simpl. rewrite key_eqb_refl. simpl.
  rewrite !retain_ne_notin by tauto. reflexivity.
Qed.

Lemma In_vec_remove_iff (l : list key) i c x : NoDup l -> nth_error l i = Some c -> (In x (vec_remove l i) <-> In x l /\ x <> c).
Proof. intros Hn Hi. rewrite (vec_remove_retain l i c Hn Hi). apply In_retain_ne. Qed.

Lemma NoDup_retain_ne k l : NoDup l -> NoDup (retain_ne k l).
Proof. apply NoDup_filter. Qed.

(* upd on a duplicate free list *)
Lemma In_upd_iff (l : list key) i old new x : NoDup l -> nth_error l i = Some old ->
  (In x (upd l i new) <-> x = new \/ (In x l /\ x <> old)).
Proof.
  intros Hn Hi. rewrite (upd_split l i new old Hi). rewrite in_app_iff. simpl.
  rewrite <- (In_vec_remove_iff l i old x Hn Hi). unfold vec_remove. rewrite in_app_iff. intuition.
Qed.

Lemma NoDup_upd (l : list key) i old new : NoDup l -> nth_error l i = Some old -> ~ In new l -> NoDup (upd l i new).
Proof.
  intros Hn Hi Hnew. rewrite (upd_split l i new old Hi). apply NoDup_insert_mid.
  - apply (NoDup_vec_remove l i Hn).
  - intros H. apply Hnew. eapply In_vec_remove. exact H.
Qed.

(* drain *)
Lemma skipn_skipn {A} a b (l : list A) : skipn a (skipn b l) = skipn (b + a) l.
Proof.
  revert l. induction b as [|b IH]; intros l; simpl; [reflexivity|].
  destruct l; [destruct a; reflexivity|]. apply IH.
Qed.

Lemma drain_split {A} (l : list A) a b : a <= b ->
  l = firstn a l ++ vec_drained l a b ++ skipn b l.
Proof.
  intros Hab. unfold vec_drained.
  rewrite <- (firstn_skipn a l) at 1. f_equal.
  rewrite <- (firstn_skipn (b - a) (skipn a l)) at 1. f_equal.
  rewrite skipn_skipn. f_equal. lia.
Qed.

Lemma NoDup_app_mid {A} (a d r : list A) : NoDup (a ++ d ++ r) -> NoDup (a ++ r) /\ forall x, In x (a ++ r) -> ~ In x d.
Proof.
  revert a. induction d as [|y d IH]; intros a H; simpl in *.
  - split; [exact H | tauto].
  - pose proof (NoDup_remove _ _ _ H) as [H1 H2]. destruct (IH a H1) as [H3 H4]. split; [exact H3|].
    intros x Hx [->|Hd].
    + apply H2. rewrite in_app_iff in *. rewrite in_app_iff. tauto.
    + apply (H4 x Hx Hd).
Qed.

Lemma drain_facts {A} (l : list A) a b : a <= b -> NoDup l ->
  NoDup (vec_drain_rest l a b) /\
  (forall x, In x l <-> In x (vec_drain_rest l a b) \/ In x (vec_drained l a b)) /\
  (forall x, In x (vec_drain_rest l a b) -> ~ In x (vec_drained l a b)).
Proof.
  intros Hab Hn. pose proof (drain_split l a b Hab) as Hs. unfold vec_drain_rest.
  rewrite Hs in Hn. destruct (NoDup_app_mid _ _ _ Hn) as [H1 H2]. split; [exact H1|]. split; [|exact H2].
  intros x. rewrite Hs at 1. rewrite !in_app_iff. tauto.
Qed.
