(* Executable driver of the WHOLE-TREE correspondence of the block engine: decodes a case printed by `vh blocktree cases`
   (number of passes, the available space of each pass, then a tree of block containers and leaves in pre-order: per node the 54 style integers of `vh c10`, 3 integers
   of measure data, the child count), runs compute_root_layout + the memoised evaluation `bl_memo block_pre abs_child_block`
   (Model/BlockEngine.v, Model/BlockAbs.v, Model/BlockRoot.v: the definitions the whole-tree theorems of C04 / C12 / C05 / C06 /
   C10 are about, with the exact-key caches of the engine skeleton) over the bit-exact F32 instance, starting from a FRESH tree,
   once per pass on the same tree, and encodes every node's stored layout after every pass as the harness prints it after `R`:
   per pass, per node, pre-order,
   [order; x; y; w; h; content w; content h; scrollbar w; scrollbar h; border l r t b; padding l r t b; margin l r t b].
   [-1] = out of fuel (never on the generated depth <= 4). *)
From Coq Require Import ZArith Bool List.
From TV Require Import Num.Num Num.F32.
From TV Require Model.Common Model.Leaf Model.MeasureFamily Model.BlockRun.
From TV Require Import Gen.BlockGen Model.Block Model.Engine Model.BlockAlg Model.BlockEngine Model.BlockAbs Model.BlockRoot.
Import ListNotations.
Open Scope Z_scope.

Definition NODE_LEN : nat := 58.
Definition g := BlockRun.g.
Definition fb := BlockRun.fb.
Definition tb (x : f32) : Z := f_to_bits x.

Definition dec_measure (l : list Z) : Leaf.MeasureFn f32 :=
  MeasureFamily.family_measure
    (match g l 54 with
     | 0 => MeasureFamily.MNone
     | 1 => MeasureFamily.MFixed (fb (g l 55)) (fb (g l 56))
     | 2 => MeasureFamily.MText (g l 55) (fb (g l 56))
     | _ => MeasureFamily.MEcho (fb (g l 55))
     end).

Definition dec_node (l : list Z) : BNode f32 := mkBNode (fst (BlockRun.dec_style l)) (dec_measure l).

Definition dummy_tree : sk (BNode f32) := SNode _ (dec_node []) [].

(* pre-order decoder: the node header, then `count` subtrees *)
Fixpoint dec_tree (fuel : nat) (l : list Z) : sk (BNode f32) * list Z :=
  match fuel with
  | O => (dummy_tree, l)
  | S f =>
      let hd := firstn NODE_LEN l in
      let '(kids, rest) :=
        (fix dec_kids (n : nat) (l : list Z) : list (sk (BNode f32)) * list Z :=
           match n with
           | O => ([], l)
           | S m => let '(t, l1) := dec_tree f l in let '(ts, l2) := dec_kids m l1 in (t :: ts, l2)
           end) (Z.to_nat (g hd 57)) (skipn NODE_LEN l) in
      (SNode _ (dec_node hd) kids, rest)
  end.

Definition dec_avail := BlockRun.dec_avail.

Definition enc_size (s : BSize f32) : list Z := [tb (s_w s); tb (s_h s)].
Definition enc_rect (r : BRect f32) : list Z := [tb (r_left r); tb (r_right r); tb (r_top r); tb (r_bottom r)].
Definition enc_layout (l : BLayout f32) : list Z :=
  [bl_order l; tb (bl_x l); tb (bl_y l)] ++ enc_size (bl_size l) ++ enc_size (bl_content_size l) ++ enc_size (bl_scrollbar l)
  ++ enc_rect (bl_border l) ++ enc_rect (bl_padding l) ++ enc_rect (bl_margin l).

Definition RUN_FUEL : nat := 12.

Fixpoint dec_avails (n : nat) (l : list Z) : list (BSize (Avail f32)) * list Z :=
  match n, l with
  | S m, awt :: awb :: aht :: ahb :: rest =>
      let '(as_, rest') := dec_avails m rest in (mkSize (dec_avail awt awb) (dec_avail aht ahb) :: as_, rest')
  | _, _ => ([], l)
  end.

Definition run_with (abs_child : @AbsChild f32) (c : list Z) : list Z :=
  match c with
  | np :: rest0 =>
      let '(avails, rest) := dec_avails (Z.to_nat np) rest0 in
      let t := fst (dec_tree RUN_FUEL rest) in
      match block_layout_passes block_pre abs_child RUN_FUEL t avails with
      | Some lss => flat_map (flat_map enc_layout) lss
      | None => [-1]
      end
  | _ => []
  end.

(* the runner of the correspondence: the real absolute-item routine *)
Definition run_case (c : list Z) : list Z := run_with abs_child_block c.
(* the same with the simplified routine of Model/BlockAlg.v (kept for the old instance theorems): used by the check only to
   measure how many generated trees tell the two routines apart *)
Definition run_case_simple (c : list Z) : list Z := run_with abs_child_simple c.
