(* The translated engine glue (Gen/EngineGlueGen.v) IS the hand-written skeleton of Model/Engine.v:
     glue_compute_cached_layout  = the cache step of `memo`                                   (memo_is_translated_cached_layout)
     glue_mark_dirty             = `mark_dirty` (the walk with its AlreadyEmpty early exit)   (translated_mark_dirty_is_model)
     glue_compute_hidden_layout  = `hide`                                                     (translated_hidden_layout_is_model)
   under the instantiation of the accessors of Model/EngineGlue.v.  The dispatch table and the complete compute_child_layout of the
   taffy engine are in Proofs/EngineGlueTaffy.v. *)
From Coq Require Import List Bool Arith Lia.
From TV Require Import Num.Num Model.Engine Gen.EngineGlueGen Model.EngineGlue Proofs.EngineMemo Proofs.EngineDirty.
Import ListNotations.

Section Proofs.
  Variables (S In Out Lay : Type).
  Variable mode : In -> RunMode.
  Variable in_eqb : In -> In -> bool.
  Variable is_none : S -> bool.
  Variable hidden_out : Out.
  Variable zero_lay : Lay.
  Notation tree := (tree S In Out Lay).
  Notation Node := (Node S In Out Lay).
  Notation cempty := (cempty In Out).
  Notation is_empty := (is_empty In Out).
  Notation subtree := (subtree S In Out Lay).
  Notation update := (update S In Out Lay).
  Notation md := (md S In Out Lay).
  Notation hide := (hide S In Out Lay zero_lay).
  Notation set_cache := (set_cache S In Out Lay).
  Notation set_lay := (set_lay S In Out Lay).
  Notation cache_of := (cache_of S In Out Lay).
  Notation kids_of := (kids_of S In Out Lay).

  (* ---------------------------------------------------------------- (a) compute_cached_layout *)
  Theorem memo_is_translated_cached_layout (algo : S -> list S -> In -> Alg In Out Lay) f t i :
    memo S In Out Lay mode in_eqb is_none hidden_out zero_lay algo (Datatypes.S f) t i =
    if eg_is_hidden In mode i then Some (hidden_out, hide t)
    else eg_swap S In Out Lay
           (eg_cached_layout S In Out Lay mode in_eqb t i
              (eg_uncached S In Out Lay is_none hidden_out zero_lay algo
                 (memo S In Out Lay mode in_eqb is_none hidden_out zero_lay algo f))).
  Proof.
    destruct t as [s c l kids].
    unfold eg_is_hidden, eg_cached_layout, glue_compute_cached_layout, eg_cache_get, eg_cache_store, eg_uncached, eg_hidden, eg_run.
    cbn [memo cache_of style_of Engine.cache_of Engine.style_of].
    destruct (mode i) eqn:Em; try reflexivity.
    all: destruct (cget In Out mode in_eqb c i) eqn:Eg; cbn [eg_swap]; try reflexivity.
    all: destruct (is_none s); cbn [eg_swap Engine.hide Engine.set_cache Engine.cache_of]; try reflexivity.
    all: destruct (run_memo S In Out Lay _ kids _) as [[o kids']|]; reflexivity.
  Qed.

  (* ---------------------------------------------------------------- (c) mark_dirty *)
  Lemma eg_cache_clear_spec c :
    eg_cache_clear In Out c = (cempty, if is_empty c then GCS_AlreadyEmpty else GCS_Cleared).
  Proof.
    unfold eg_cache_clear, glue_cache_clear. destruct (is_empty c) eqn:E; [|reflexivity].
    rewrite (is_empty_true In Out c E). reflexivity.
  Qed.

  Lemma replace_nth_twice {A} n (x y : A) l t : nth_error l n = Some t -> replace_nth n x (replace_nth n y l) = replace_nth n x l.
  Proof.
    revert l; induction n as [|n IH]; intros [|a l] H; try discriminate; cbn in *.
    - reflexivity.
    - unfold replace_nth in *. cbn. f_equal. apply IH. exact H.
  Qed.

  (* the node at q ++ [x] is dirty already: the walk of `md` changes nothing and stops *)
  Lemma md_snoc_empty : forall q x t u,
    subtree t (q ++ [x]) = Some u -> is_empty (cache_of u) = true -> md t (q ++ [x]) = (t, false).
  Proof.
    induction q as [|y q IH]; intros x [s c l kids] u Hs He; cbn [app] in *.
    - cbn in Hs. cbn [Engine.md]. destruct (nth_error kids x) as [[s' c' l' k']|] eqn:En; [|reflexivity].
      injection Hs as <-. cbn in He. cbn [Engine.md]. rewrite He. cbn [negb].
      pose proof (is_empty_true In Out c' He) as Ec. subst c'.
      rewrite (replace_nth_same x _ kids En). reflexivity.
    - cbn in Hs. cbn [Engine.md]. destruct (nth_error kids y) as [ch|] eqn:En; [|reflexivity].
      rewrite (IH x ch u Hs He). rewrite (replace_nth_same y _ kids En). reflexivity.
  Qed.

  (* the node at q ++ [x] is not dirty: `md` clears it and goes on from its parent q *)
  Lemma md_snoc_nonempty : forall q x t u,
    subtree t (q ++ [x]) = Some u -> is_empty (cache_of u) = false ->
    md t (q ++ [x]) = md (update t (q ++ [x]) (fun n => set_cache n cempty)) q.
  Proof.
    induction q as [|y q IH]; intros x [s c l kids] u Hs He; cbn [app] in *.
    - cbn in Hs. cbn [Engine.md Engine.update]. destruct (nth_error kids x) as [[s' c' l' k']|] eqn:En; [|discriminate].
      injection Hs as <-. cbn in He. cbn [Engine.md Engine.update Engine.set_cache]. rewrite He. reflexivity.
    - cbn in Hs. cbn [Engine.md Engine.update]. destruct (nth_error kids y) as [ch|] eqn:En; [|discriminate].
      rewrite (IH x ch u Hs He). cbn [Engine.md].
      rewrite (nth_error_replace_same y _ kids ch En).
      destruct (md (update ch (q ++ [x]) (fun n => set_cache n cempty)) q) as [ch' cont].
      rewrite (replace_nth_twice y _ _ kids ch En). reflexivity.
  Qed.

  Lemma md_root t : md t [] = (set_cache t cempty, negb (is_empty (cache_of t))).
  Proof. destruct t; reflexivity. Qed.

  Lemma subtree_snoc_inv : forall q x t u, subtree t (q ++ [x]) = Some u -> exists v, subtree t q = Some v.
  Proof.
    induction q as [|y q IH]; intros x t u H; cbn [app] in *.
    - eexists; reflexivity.
    - cbn in *. destruct (nth_error (kids_of t) y) as [ch|]; [|discriminate]. eapply IH; eauto.
  Qed.

  Lemma subtree_update_prefix : forall q x t f v,
    subtree t q = Some v -> exists v', subtree (update t (q ++ [x]) f) q = Some v'.
  Proof.
    induction q as [|y q IH]; intros x t f v H; cbn [app] in *.
    - eexists; reflexivity.
    - destruct t as [s c l kids]. cbn in H. cbn [Engine.update].
      destruct (nth_error kids y) as [ch|] eqn:En; [|discriminate].
      cbn. rewrite (nth_error_replace_same y _ kids ch En). eapply IH; eauto.
  Qed.

  Theorem translated_mark_dirty_is_model : forall p t u fuel,
    subtree t p = Some u -> length p < fuel ->
    eg_mark_dirty S In Out Lay fuel t p = mark_dirty S In Out Lay t p.
  Proof.
    unfold eg_mark_dirty, glue_mark_dirty, mark_dirty.
    induction p as [|x q IH] using rev_ind; intros t u fuel Hs Hf.
    - destruct fuel as [|fuel]; [inversion Hf|]. cbn [glue_mark_dirty_recursive].
      unfold eg_nodes_mark_dirty. cbn [Engine.subtree]. rewrite eg_cache_clear_spec.
      rewrite md_root. cbn [Engine.update fst].
      destruct (is_empty (cache_of t)) eqn:E; reflexivity.
    - destruct fuel as [|fuel]; [inversion Hf|]. cbn [glue_mark_dirty_recursive].
      unfold eg_nodes_mark_dirty at 1. rewrite Hs, eg_cache_clear_spec.
      rewrite app_length in Hf. cbn in Hf.
      destruct (is_empty (cache_of u)) eqn:E.
      + rewrite (md_snoc_empty q x t u Hs E). cbn [fst].
        (* nothing changes: the cache at q ++ [x] is already empty *)
        clear IH Hf. revert t Hs. induction q as [|y q IHq]; intros [s c l kids] Hs; cbn [app] in *.
        * cbn in Hs. cbn [Engine.update]. destruct (nth_error kids x) as [ch|] eqn:En; [|reflexivity].
          injection Hs as ->. destruct u as [s' c' l' k']. cbn in E. cbn [Engine.set_cache].
          rewrite <- (is_empty_true In Out c' E). rewrite (replace_nth_same x _ kids En). reflexivity.
        * cbn in Hs. cbn [Engine.update]. destruct (nth_error kids y) as [ch|] eqn:En; [|reflexivity].
          rewrite (IHq ch Hs). rewrite (replace_nth_same y _ kids En). reflexivity.
      + rewrite (md_snoc_nonempty q x t u Hs E).
        assert (Hp : eg_parents_get (q ++ [x]) = Some (Some q)).
        { unfold eg_parents_get. destruct (q ++ [x]) eqn:Eq; [destruct q; discriminate|]. rewrite <- Eq, removelast_last. reflexivity. }
        rewrite Hp.
        destruct (subtree_snoc_inv q x t u Hs) as [v Hv].
        destruct (subtree_update_prefix q x t (fun n => set_cache n cempty) v Hv) as [v' Hv'].
        apply (IH _ v' fuel Hv'). lia.
  Qed.

  (* ---------------------------------------------------------------- (d) compute_hidden_layout *)
  Lemma update_update : forall p t f g, update (update t p f) p g = update t p (fun n => g (f n)).
  Proof.
    induction p as [|x p IH]; intros [s c l kids] f g; [reflexivity|].
    cbn [Engine.update]. destruct (nth_error kids x) as [ch|] eqn:En.
    - cbn [Engine.update]. rewrite (nth_error_replace_same x _ kids ch En), IH, (replace_nth_twice x _ _ kids ch En). reflexivity.
    - cbn [Engine.update]. rewrite En. reflexivity.
  Qed.

  Lemma update_app : forall p q t f, update t (p ++ q) f = update t p (fun n => update n q f).
  Proof.
    induction p as [|x p IH]; intros q [s c l kids] f; [reflexivity|].
    cbn [app Engine.update]. destruct (nth_error kids x) as [ch|]; [|reflexivity]. rewrite IH. reflexivity.
  Qed.

  Lemma update_ext : forall p t f g, (forall n, f n = g n) -> update t p f = update t p g.
  Proof.
    induction p as [|x p IH]; intros [s c l kids] f g H; [apply H|].
    cbn [Engine.update]. destruct (nth_error kids x) as [ch|]; [|reflexivity]. rewrite (IH ch f g H). reflexivity.
  Qed.

  Lemma update_ext_at : forall p t u f g, subtree t p = Some u -> f u = g u -> update t p f = update t p g.
  Proof.
    induction p as [|x p IH]; intros [s c l kids] u f g Hs H.
    - cbn in *. injection Hs as <-. exact H.
    - cbn in Hs. cbn [Engine.update]. destruct (nth_error kids x) as [ch|]; [|reflexivity]. rewrite (IH ch u f g Hs H). reflexivity.
  Qed.

  Lemma subtree_update : forall p t f u, subtree t p = Some u -> subtree (update t p f) p = Some (f u).
  Proof.
    induction p as [|x p IH]; intros [s c l kids] f u H.
    - cbn in *. congruence.
    - cbn in H. cbn [Engine.update]. destruct (nth_error kids x) as [ch|] eqn:En; [|discriminate].
      cbn. rewrite (nth_error_replace_same x _ kids ch En). apply IH. exact H.
  Qed.

  Lemma replace_nth_mid {A} (pre : list A) a x rest : replace_nth (length pre) x (pre ++ a :: rest) = pre ++ x :: rest.
  Proof.
    unfold replace_nth. rewrite firstn_app, Nat.sub_diag, firstn_all. cbn [firstn]. rewrite app_nil_r. f_equal.
    replace (Datatypes.S (length pre)) with (length (pre ++ [a])) by (rewrite app_length; cbn; lia).
    replace (pre ++ a :: rest) with ((pre ++ [a]) ++ rest) by (rewrite <- app_assoc; reflexivity).
    rewrite skipn_app, Nat.sub_diag, skipn_all. reflexivity.
  Qed.

  Lemma hide_children_loop s c l : forall rest pre,
    fold_left (fun n k => update n [k] hide) (seq (length pre) (length rest)) (Node s c l (pre ++ rest)) =
    Node s c l (pre ++ map hide rest).
  Proof.
    induction rest as [|a rest IH]; intros pre; [reflexivity|].
    cbn [length seq fold_left map]. cbn [Engine.update].
    assert (En : nth_error (pre ++ a :: rest) (length pre) = Some a).
    { rewrite nth_error_app2, Nat.sub_diag by lia. reflexivity. }
    rewrite En. cbn [Engine.update]. rewrite replace_nth_mid.
    specialize (IH (pre ++ [hide a])). rewrite app_length in IH. cbn [length] in IH.
    rewrite Nat.add_1_r in IH. rewrite <- !app_assoc in IH. cbn [app] in IH. exact IH.
  Qed.

  Lemma update_id : forall p t, update t p (fun n => n) = t.
  Proof.
    induction p as [|x p IHp]; intros [s c l kids]; [reflexivity|].
    cbn [Engine.update]. destruct (nth_error kids x) as [ch|] eqn:En; [|reflexivity].
    rewrite IHp. rewrite (replace_nth_same x _ kids En). reflexivity.
  Qed.

  Lemma fold_left_ext' {A B} (f g : A -> B -> A) : (forall a b, f a b = g a b) -> forall l a, fold_left f l a = fold_left g l a.
  Proof. intros H l; induction l as [|b l IH]; intros a; cbn; [reflexivity|]. rewrite H. apply IH. Qed.

  Lemma fold_update_under : forall (ks : list nat) p t (g : tree -> nat -> tree),
    fold_left (fun t k => update t p (fun n => g n k)) ks t = update t p (fun n => fold_left g ks n).
  Proof.
    induction ks as [|k ks IH]; intros p t g; cbn [fold_left].
    - symmetry. apply update_id.
    - rewrite IH, update_update. reflexivity.
  Qed.

  Theorem translated_hidden_layout_is_model p t u :
    subtree t p = Some u ->
    eg_hidden_layout S In Out Lay hidden_out zero_lay t p = (update t p hide, hidden_out).
  Proof.
    intros Hs. unfold eg_hidden_layout, glue_compute_hidden_layout. f_equal.
    rewrite update_update.
    unfold eg_child_count. rewrite (subtree_update p t _ u Hs).
    cbn [fst].
    rewrite (fold_left_ext' _ (fun t k => update t p (fun n => update n [k] hide))).
    2:{ intros a k. apply update_app. }
    rewrite (fold_update_under _ p _ (fun n k => update n [k] hide)), update_update.
    apply (update_ext_at p t u _ _ Hs). destruct u as [s c l kids]. cbn [Engine.set_cache Engine.set_lay Engine.kids_of].
    exact (hide_children_loop s cempty zero_lay kids []).
  Qed.
End Proofs.
