(* The tie between the block + flex engine of the C04 / C12 whole-tree theorems (Model/BlockFlexK.v `bf_memo`, which has NO whole-tree
   correspondence runner of its own) and the complete engine `vh taffytree` runs against the implementation (Model/TaffyEngine.v
   `taffy_memo` over `taffy_algo taffy_dispatch block_pre abs_child_block taffy_leaf` = Model/TaffyRoot.v `real_memo`): definitions only, the
   lemmas are in Proofs/EngineMap.v and Proofs/BlockFlexTaffy.v.

     tree_map g        a tree with every style read through g (caches and stored layouts untouched)
     sk_good P         every node of a skeleton satisfies P (own style, the styles of its children)
     bfn_emb           a BFNode as a style of the complete engine: the grid-only fields are Style::DEFAULT's (no tracks, row flow, auto lines)
     bfn_taffy_ok      the nodes on which the two dispatches select the same algorithm: no children, or display is not grid
                       (BlockFlexK lays a display:grid node WITH children out as a block container; the complete engine runs grid_alg) *)
From Coq Require Import ZArith Bool List.
From TV Require Import Num.Num Model.Common Model.Leaf Model.FlexAlgBase Model.BlockFlexEngine Model.BlockFlexK.
From TV Require Import Gen.GridTracksGen Model.GridTracks Model.GridAlgBase Model.TaffyEngine.
From TV Require Model.Engine.
Import ListNotations.
Close Scope Z_scope.
Close Scope N_scope.

Section TreeMap.
  Variables (S1 S2 In Out Lay : Type).
  Variable g : S1 -> S2.
  Fixpoint tree_map (t : Engine.tree S1 In Out Lay) : Engine.tree S2 In Out Lay :=
    match t with Engine.Node _ _ _ _ s c l kids => Engine.Node S2 In Out Lay (g s) c l (map tree_map kids) end.

  Variable P : S1 -> list S1 -> Prop.
  Fixpoint sk_good (t : Engine.sk S1) : Prop :=
    match t with
    | Engine.SNode _ s kids =>
        P s (map (Engine.sstyle S1) kids)
        /\ (fix all (l : list (Engine.sk S1)) : Prop := match l with [] => True | k :: r => sk_good k /\ all r end) kids
    end.
End TreeMap.

Section BlockFlexTaffy.
  Context {T : Type} `{Num T}.

  Definition bfn_emb (n : BFNode T) : TStyle T :=
    mkTS (bfn_style n) [] [] [] [] PB.FRow None None auto_ln auto_ln false (bfn_measure n).

  Definition bfn_taffy_ok (n : BFNode T) (kids : list (BFNode T)) : Prop :=
    kids = [] \/ display (bfn_core n) <> DGrid.

  (* boolean form, for the computed Examples *)
  Definition bfn_taffy_okb (n : BFNode T) (kids : list (BFNode T)) : bool :=
    match kids with [] => true | _ => match display (bfn_core n) with DGrid => false | _ => true end end.
  Fixpoint sk_goodb (t : Engine.sk (BFNode T)) : bool :=
    match t with
    | Engine.SNode _ s kids => bfn_taffy_okb s (map (Engine.sstyle _) kids) && forallb sk_goodb kids
    end.

  Definition bf_result_emb (r : LayoutOutput T * Engine.tree (BFNode T) (FIn T) (LayoutOutput T) (FLay T))
    : LayoutOutput T * Engine.tree (TStyle T) (FIn T) (LayoutOutput T) (FLay T) :=
    (fst r, tree_map _ _ _ _ _ bfn_emb (snd r)).
End BlockFlexTaffy.
