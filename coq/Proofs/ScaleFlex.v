(* C04 -- homogeneity of the flexbox main-axis kernel (Model/Flex.v over the regenerated Gen/FlexGen.v) over XQ, k > 0:
   resolve_flexible_lengths (9.7, the fuelled freeze / violation loop: same fuel on both sides),
   distribute_remaining_free_space (9.5), line_positions, and the three generated tables sum_axis_gaps,
   apply_alignment_fallback, compute_alignment_offset.  Shape: related inputs give related outputs (Model/ScaleFlex.v).
   No finiteness premise.  Every decision of the loop is a comparison of two lengths (basis vs hypothetical size, used
   space vs container size, violation vs 0), of two dimensionless numbers (sum of flex factors vs 1 / 0), or the test
   `free_space.is_normal()` (invariant over XQ: zero, infinities and NaN are fixed points), so both runs take the same
   branches; the arithmetic is length +- length, length * factor, factor / factor and length / length. *)
From Coq Require Import QArith Qabs Lqa Bool List ZArith Lia.
From TV Require Import Num.Num Num.QNum Gen.FlexGen Model.Flex Model.ScaleFlex Proofs.ScaleKit.
Import ListNotations.

Ltac item_fields :=
  cbn [fi_basis fi_inner_basis fi_hyp_inner fi_hyp_outer fi_min fi_max fi_grow fi_shrink fi_margin_start fi_margin_end
       fi_margin_start_auto fi_margin_end_auto fi_inset fi_frozen fi_target fi_outer_target fi_violation fi_offset] in *.
Ltac item_open H :=
  let H' := fresh in
  pose proof H as H'; unfold item_rel in H';
  destruct H' as (?Hb & ?Hib & ?Hhi & ?Hho & ?Hmn & ?Hmx & ?Hg & ?Hs & ?Hms & ?Hme & ?Esa & ?Eea & ?Hin & ?Efr & ?Ht & ?Hot & ?Hv & ?Hof).

Section FlexHomog.
  Variable k : Q.
  Hypothesis Hk : 0 < k.

  (* ---- generated tables (Gen/FlexGen.v) *)
  Lemma rel_sum_axis_gaps gap gap' n : sc k gap gap' -> sc k (sum_axis_gaps gap n) (sum_axis_gaps gap' n).
  Proof.
    intros Hg. unfold sum_axis_gaps. destruct (Z.leb n 1); [apply sc_zero|].
    apply (sc_mul_dl k); [exact Hk | exact Hg | apply dl_of_Z].
  Qed.

  Lemma rel_apply_alignment_fallback f f' n mode safe :
    sc k f f' -> apply_alignment_fallback f' n mode safe = apply_alignment_fallback f n mode safe.
  Proof.
    intros Hf. unfold apply_alignment_fallback.
    assert (E : leb f' zero = leb f zero) by (apply (sc_leb k); [exact Hk | exact Hf | apply sc_zero]).
    rewrite E. reflexivity.
  Qed.

  Lemma rel_compute_alignment_offset f f' n gap gap' mode rev first :
    sc k f f' -> sc k gap gap' ->
    sc k (compute_alignment_offset f n gap mode rev first) (compute_alignment_offset f' n gap' mode rev first).
  Proof.
    intros Hf Hg. unfold compute_alignment_offset.
    assert (E : leb zero f' = leb zero f) by (apply (sc_leb k); [exact Hk | apply sc_zero | exact Hf]).
    assert (D : forall a a' z, sc k a a' -> sc k (div a (of_Z z)) (div a' (of_Z z))).
    { intros. apply (sc_div_dl k); [exact Hk | assumption | apply dl_of_Z]. }
    assert (M : sc k (fmax f zero) (fmax f' zero)) by (apply (sc_max k); [exact Hk | exact Hf | apply sc_zero]).
    rewrite E.
    destruct first; [ destruct mode, rev; try destruct (leb zero f); auto using sc_zero |
                      destruct mode; apply sc_add; auto using sc_zero ].
  Qed.

  (* ---- small helpers *)
  Lemma rel_margin_sum c c' : item_rel k c c' -> sc k (margin_sum c) (margin_sum c').
  Proof. intros Hc. item_open Hc. unfold margin_sum. apply sc_add; assumption. Qed.

  Lemma rel_maybe_min_f x x' o o' : sc k x x' -> op_rel (sc k) o o' -> sc k (maybe_min_f x o) (maybe_min_f x' o').
  Proof. intros Hx Ho. destruct o, o'; cbn [op_rel] in Ho; try contradiction; cbn [maybe_min_f]; [apply (sc_min k)|]; assumption. Qed.
  Lemma rel_maybe_max_f x x' o o' : sc k x x' -> op_rel (sc k) o o' -> sc k (maybe_max_f x o) (maybe_max_f x' o').
  Proof. intros Hx Ho. destruct o, o'; cbn [op_rel] in Ho; try contradiction; cbn [maybe_max_f]; [apply (sc_max k)|]; assumption. Qed.
  Lemma rel_maybe_clamp_f x x' a a' b b' :
    sc k x x' -> op_rel (sc k) a a' -> op_rel (sc k) b b' -> sc k (maybe_clamp_f x a b) (maybe_clamp_f x' a' b').
  Proof.
    intros Hx Ha Hb. destruct a, a', b, b'; cbn [op_rel] in Ha, Hb; try contradiction; cbn [maybe_clamp_f]; ks k Hk.
  Qed.
  Lemma rel_maybe_sub_o o o' y y' : op_rel (sc k) o o' -> sc k y y' -> op_rel (sc k) (maybe_sub_o o y) (maybe_sub_o o' y').
  Proof. intros Ho Hy. destruct o, o'; cbn [op_rel] in Ho; try contradiction; cbn [maybe_sub_o op_rel]; [apply sc_sub|]; auto. Qed.
  Lemma rel_unwrap_or o o' d d' : op_rel (sc k) o o' -> sc k d d' -> sc k (unwrap_or o d) (unwrap_or o' d').
  Proof. intros Ho Hd. destruct o, o'; cbn [op_rel] in Ho; try contradiction; cbn [unwrap_or]; assumption. Qed.

  (* ---- record updates *)
  Ltac upd := intros Hc; intros; item_open Hc; unfold item_rel; item_fields; repeat split; assumption.
  Lemma rel_set_target c c' v v' : item_rel k c c' -> sc k v v' -> item_rel k (set_target c v) (set_target c' v').
  Proof. unfold set_target. upd. Qed.
  Lemma rel_set_outer_target c c' v v' : item_rel k c c' -> sc k v v' -> item_rel k (set_outer_target c v) (set_outer_target c' v').
  Proof. unfold set_outer_target. upd. Qed.
  Lemma rel_set_violation c c' v v' : item_rel k c c' -> sc k v v' -> item_rel k (set_violation c v) (set_violation c' v').
  Proof. unfold set_violation. upd. Qed.
  Lemma rel_set_offset c c' v v' : item_rel k c c' -> sc k v v' -> item_rel k (set_offset c v) (set_offset c' v').
  Proof. unfold set_offset. upd. Qed.
  Lemma rel_set_frozen c c' b : item_rel k c c' -> item_rel k (set_frozen c b) (set_frozen c' b).
  Proof. unfold set_frozen. upd. Qed.
  Lemma rel_set_margins c c' a a' b b' :
    item_rel k c c' -> sc k a a' -> sc k b b' -> item_rel k (set_margins c a b) (set_margins c' a' b').
  Proof. unfold set_margins. upd. Qed.

  Lemma rel_frozen c c' : item_rel k c c' -> fi_frozen c' = fi_frozen c.
  Proof. intros Hc. item_open Hc. assumption. Qed.
  Lemma rel_unfrozen c c' : item_rel k c c' -> unfrozen c' = unfrozen c.
  Proof. intros Hc. unfold unfrozen. rewrite (rel_frozen _ _ Hc). reflexivity. Qed.
  Lemma rel_on_unfrozen f f' c c' :
    (forall x x', item_rel k x x' -> item_rel k (f x) (f' x')) -> item_rel k c c' -> item_rel k (on_unfrozen f c) (on_unfrozen f' c').
  Proof. intros Hf Hc. unfold on_unfrozen. rewrite (rel_frozen _ _ Hc). destruct (fi_frozen c); auto. Qed.

  (* ---- 9.7 *)
  Lemma rel_used_space_of g g' items items' :
    sc k g g' -> items_rel k items items' -> sc k (used_space_of g items) (used_space_of g' items').
  Proof.
    intros Hg Hi. unfold used_space_of. apply sc_add; [exact Hg|]. apply rel_fsum.
    apply (rel_map (item_rel k) (sc k)); [|exact Hi]. intros c c' Hc. rewrite (rel_frozen _ _ Hc).
    item_open Hc. destruct (fi_frozen c); [assumption|]. apply sc_add; [assumption | apply rel_margin_sum; assumption].
  Qed.

  Lemma rel_freeze_inflexible e g s c c' :
    item_rel k c c' -> item_rel k (freeze_inflexible e g s c) (freeze_inflexible e g s c').
  Proof.
    intros Hc. item_open Hc. unfold freeze_inflexible.
    assert (Hc1 : item_rel k (set_target c (fi_hyp_inner c)) (set_target c' (fi_hyp_inner c'))) by (apply rel_set_target; assumption).
    set (d := set_target c (fi_hyp_inner c)) in *. set (d' := set_target c' (fi_hyp_inner c')) in *.
    item_open Hc1.
    assert (E : (e || (fi_grow d' =? zero) && (fi_shrink d' =? zero) || g && gtb (fi_basis d') (fi_hyp_inner d')
                 || s && (fi_basis d' <? fi_hyp_inner d'))%bool%num
              = (e || (fi_grow d =? zero) && (fi_shrink d =? zero) || g && gtb (fi_basis d) (fi_hyp_inner d)
                 || s && (fi_basis d <? fi_hyp_inner d))%bool%num).
    { rewrite (dl_eqb _ _ zero zero Hg0 dl_zero), (dl_eqb _ _ zero zero Hs0 dl_zero),
              (sc_gtb k _ _ _ _ Hk Hb0 Hhi0), (sc_ltb k _ _ _ _ Hk Hb0 Hhi0). reflexivity. }
    rewrite E. match goal with |- context [if ?b then _ else _] => destruct b end; [|exact Hc1].
    apply rel_set_outer_target; [apply rel_set_frozen; exact Hc1|].
    apply sc_add; [assumption | apply rel_margin_sum; exact Hc1].
  Qed.

  Lemma rel_clamp_target c c' : item_rel k c c' -> sc k (clamp_target c) (clamp_target c').
  Proof.
    intros Hc. item_open Hc. unfold clamp_target. apply (sc_max k); [exact Hk | | apply sc_zero].
    apply rel_maybe_clamp_f; assumption.
  Qed.

  Lemma rel_fix_violation c c' : item_rel k c c' -> item_rel k (fix_violation c) (fix_violation c').
  Proof.
    intros Hc. unfold fix_violation.
    pose proof (rel_clamp_target _ _ Hc) as Hcl. item_open Hc.
    assert (H1 : item_rel k (set_violation c (clamp_target c - fi_target c)%num) (set_violation c' (clamp_target c' - fi_target c')%num))
      by (apply rel_set_violation; [exact Hc | apply sc_sub; assumption]).
    pose proof (rel_set_target _ _ _ _ H1 Hcl) as H2.
    apply rel_set_outer_target; [exact H2|].
    apply sc_add; [|apply rel_margin_sum; exact H2]. item_open H2. assumption.
  Qed.

  Lemma rel_freeze_by_violation tv tv' c c' :
    sc k tv tv' -> item_rel k c c' -> item_rel k (freeze_by_violation tv c) (freeze_by_violation tv' c').
  Proof.
    intros Htv Hc. item_open Hc. unfold freeze_by_violation.
    rewrite (sc_gtb k tv tv' zero zero Hk Htv (sc_zero k)), (sc_ltb k tv tv' zero zero Hk Htv (sc_zero k)).
    rewrite (sc_gtb k _ _ zero zero Hk Hv (sc_zero k)), (sc_ltb k _ _ zero zero Hk Hv (sc_zero k)).
    destruct (gtb tv zero); [|destruct (ltb tv zero)]; apply rel_set_frozen; exact Hc.
  Qed.

  Lemma rel_filter_unfrozen items items' :
    items_rel k items items' -> items_rel k (filter unfrozen items) (filter unfrozen items').
  Proof. apply rel_filter. exact rel_unfrozen. Qed.

  Lemma rel_sum_grow items items' : items_rel k items items' -> dl (sum_grow items) (sum_grow items').
  Proof.
    intros Hi. unfold sum_grow. apply (rel_fold_left (item_rel k) dl); [ | apply rel_filter_unfrozen; exact Hi | apply dl_zero].
    intros b b' c c' Hb Hc. item_open Hc. apply dl_add; assumption.
  Qed.
  Lemma rel_sum_shrink items items' : items_rel k items items' -> dl (sum_shrink items) (sum_shrink items').
  Proof.
    intros Hi. unfold sum_shrink. apply (rel_fold_left (item_rel k) dl); [ | apply rel_filter_unfrozen; exact Hi | apply dl_zero].
    intros b b' c c' Hb Hc. item_open Hc. apply dl_add; assumption.
  Qed.
  Lemma rel_sum_scaled_shrink items items' : items_rel k items items' -> sc k (sum_scaled_shrink items) (sum_scaled_shrink items').
  Proof.
    intros Hi. unfold sum_scaled_shrink. apply rel_fsum.
    apply (rel_map (item_rel k) (sc k)); [ | apply rel_filter_unfrozen; exact Hi].
    intros c c' Hc. item_open Hc. apply (sc_mul_dl k); assumption.
  Qed.

  Ltac ctx_open H :=
    let H' := fresh in pose proof H as H'; unfold ctx_rel in H'; destruct H' as (?Hcg & ?Hcm & ?Hcu & ?Hcf & ?Ecg & ?Ecs).

  Lemma rel_free_space_of c c' items items' :
    ctx_rel k c c' -> items_rel k items items' -> sc k (free_space_of c items) (free_space_of c' items').
  Proof.
    intros Hc Hi. ctx_open Hc. unfold free_space_of.
    pose proof (rel_used_space_of _ _ _ _ Hcg Hi) as Hu.
    pose proof (rel_sum_grow _ _ Hi) as Hsg. pose proof (rel_sum_shrink _ _ Hi) as Hss.
    rewrite Ecg, Ecs, (dl_ltb _ _ one one Hsg dl_one), (dl_ltb _ _ one one Hss dl_one).
    pose proof (rel_maybe_sub_o _ _ _ _ Hcm Hu) as Hms.
    destruct (lc_growing c && (sum_grow items <? one)%num)%bool.
    - apply rel_maybe_min_f; [|exact Hms]. apply sc_sub; [|assumption]. apply (sc_mul_dl k); assumption.
    - destruct (lc_shrinking c && (sum_shrink items <? one)%num)%bool.
      + apply rel_maybe_max_f; [|exact Hms]. apply sc_sub; [|assumption]. apply (sc_mul_dl k); assumption.
      + apply rel_unwrap_or; [exact Hms|]. apply sc_sub; assumption.
  Qed.

  Lemma rel_distribute c c' fs fs' items items' :
    ctx_rel k c c' -> sc k fs fs' -> items_rel k items items' ->
    items_rel k (distribute c fs items) (distribute c' fs' items').
  Proof.
    intros Hc Hfs Hi. ctx_open Hc. unfold distribute.
    pose proof (rel_sum_grow _ _ Hi) as Hsg. pose proof (rel_sum_shrink _ _ Hi) as Hss.
    pose proof (rel_sum_scaled_shrink _ _ Hi) as Hsss.
    rewrite (sc_is_normal k _ _ Hk Hfs), Ecg, Ecs, (dl_gtb _ _ zero zero Hsg dl_zero), (dl_gtb _ _ zero zero Hss dl_zero),
            (sc_gtb k _ _ zero zero Hk Hsss (sc_zero k)).
    destruct (is_normal fs); [|exact Hi].
    destruct (lc_growing c && gtb (sum_grow items) zero)%bool.
    - apply (rel_map (item_rel k) (item_rel k)); [|exact Hi]. intros x x' Hx. apply rel_on_unfrozen; [|exact Hx].
      clear x x' Hx. intros x x' Hx. item_open Hx. apply rel_set_target; [exact Hx|].
      apply sc_add; [assumption|]. apply (sc_mul_dl k); [exact Hk | exact Hfs | apply dl_div; assumption].
    - destruct (lc_shrinking c && gtb (sum_shrink items) zero)%bool; [|exact Hi].
      destruct (gtb (sum_scaled_shrink items) zero); [|exact Hi].
      apply (rel_map (item_rel k) (item_rel k)); [|exact Hi]. intros x x' Hx. apply rel_on_unfrozen; [|exact Hx].
      clear x x' Hx. intros x x' Hx. item_open Hx. apply rel_set_target; [exact Hx|].
      apply sc_add; [assumption|]. apply (sc_mul_dl k); [exact Hk | exact Hfs |].
      apply (dl_div_sc k); [exact Hk | apply (sc_mul_dl k); assumption | exact Hsss].
  Qed.

  Lemma rel_loop_body c c' items items' :
    ctx_rel k c c' -> items_rel k items items' -> items_rel k (loop_body c items) (loop_body c' items').
  Proof.
    intros Hc Hi. unfold loop_body.
    pose proof (rel_free_space_of _ _ _ _ Hc Hi) as Hfs.
    pose proof (rel_distribute _ _ _ _ _ _ Hc Hfs Hi) as H1.
    assert (H2 : items_rel k (map (on_unfrozen fix_violation) (distribute c (free_space_of c items) items))
                             (map (on_unfrozen fix_violation) (distribute c' (free_space_of c' items') items'))).
    { apply (rel_map (item_rel k) (item_rel k)); [|exact H1]. intros x x' Hx. apply rel_on_unfrozen; [|exact Hx].
      exact rel_fix_violation. }
    apply (rel_map (item_rel k) (item_rel k)); [|exact H2]. intros x x' Hx. apply rel_on_unfrozen; [|exact Hx].
    intros y y' Hy. apply rel_freeze_by_violation; [|exact Hy].
    apply (rel_fold_left (item_rel k) (sc k)); [ | apply rel_filter_unfrozen; exact H2 | apply sc_zero].
    intros b b' z z' Hb Hz. item_open Hz. apply sc_add; assumption.
  Qed.

  (* the fuelled loop: same fuel on both sides, same exit *)
  Lemma rel_flex_loop fuel c c' items items' :
    ctx_rel k c c' -> items_rel k items items' ->
    op_rel (items_rel k) (flex_loop fuel c items) (flex_loop fuel c' items').
  Proof.
    intros Hc. revert items items'. induction fuel as [|fuel IH]; intros items items' Hi; cbn [flex_loop]; [exact I|].
    rewrite (rel_forallb (item_rel k) fi_frozen fi_frozen items items' rel_frozen Hi).
    destruct (forallb fi_frozen items); [exact Hi|]. apply IH. apply rel_loop_body; assumption.
  Qed.

  Lemma rel_zlen {A} (R : A -> A -> Prop) l l' : Forall2 R l l' -> zlen l' = zlen l.
  Proof. intros Hl. unfold zlen. rewrite (rel_length R _ _ Hl). reflexivity. Qed.

  Theorem resolve_flexible_lengths_homog items items' gap gap' im im' :
    items_rel k items items' -> sc k gap gap' -> op_rel (sc k) im im' ->
    op_rel (items_rel k) (resolve_flexible_lengths items gap im) (resolve_flexible_lengths items' gap' im').
  Proof.
    intros Hi Hg Him. unfold resolve_flexible_lengths.
    rewrite (rel_zlen _ _ _ Hi).
    pose proof (rel_sum_axis_gaps _ _ (zlen items) Hg) as Htg.
    set (tg := sum_axis_gaps gap (zlen items)) in *. set (tg' := sum_axis_gaps gap' (zlen items)) in *.
    assert (Hho : sc k (fsum (map fi_hyp_outer items)) (fsum (map fi_hyp_outer items'))).
    { apply rel_fsum. apply (rel_map (item_rel k) (sc k)); [|exact Hi]. intros c c' Hc. item_open Hc. assumption. }
    assert (Huf : sc k (tg + fsum (map fi_hyp_outer items))%num (tg' + fsum (map fi_hyp_outer items'))%num) by (apply sc_add; assumption).
    set (uf := (tg + fsum (map fi_hyp_outer items))%num) in *. set (uf' := (tg' + fsum (map fi_hyp_outer items'))%num) in *.
    pose proof (rel_unwrap_or _ _ _ _ Him (sc_zero k)) as Hu0.
    rewrite (sc_ltb k _ _ _ _ Hk Huf Hu0), (sc_gtb k _ _ _ _ Hk Huf Hu0).
    set (growing := (uf <? unwrap_or im zero)%num). set (shrinking := gtb uf (unwrap_or im zero)).
    set (es := (negb growing && negb shrinking)%bool).
    assert (Hfz : items_rel k (map (freeze_inflexible es growing shrinking) items) (map (freeze_inflexible es growing shrinking) items')).
    { apply (rel_map (item_rel k) (item_rel k)); [|exact Hi]. intros c c' Hc. apply rel_freeze_inflexible. exact Hc. }
    destruct es; [exact Hfz|].
    rewrite (rel_length _ _ _ Hfz).
    apply rel_flex_loop; [|exact Hfz].
    unfold ctx_rel. cbn [lc_total_gap lc_inner_main lc_used_flex_factor lc_initial_free lc_growing lc_shrinking].
    repeat split; try assumption.
    apply rel_unwrap_or; [|apply sc_zero]. apply rel_maybe_sub_o; [exact Him|]. apply rel_used_space_of; assumption.
  Qed.

  (* ---- 9.5 *)
  Lemma rel_count_auto items items' : items_rel k items items' -> count_auto items' = count_auto items.
  Proof.
    intros Hi. unfold count_auto.
    set (f := fun (n : Z) (c : FlexItem XQ) => (n + (if fi_margin_start_auto c then 1 else 0) + (if fi_margin_end_auto c then 1 else 0))%Z).
    assert (G : forall n, fold_left f items' n = fold_left f items n); [|apply G].
    induction Hi as [|c c' l l' Hc Hl IH]; intros n; cbn [fold_left]; [reflexivity|].
    item_open Hc. unfold f at 2 4. rewrite Esa, Eea. apply IH.
  Qed.

  Lemma rel_map_first {A} (R : A -> A -> Prop) f f' g g' (l l' : list A) :
    (forall x x', R x x' -> R (f x) (f' x')) -> (forall x x', R x x' -> R (g x) (g' x')) ->
    Forall2 R l l' -> Forall2 R (map_first f g l) (map_first f' g' l').
  Proof.
    intros Hf Hg Hl. destruct Hl; cbn [map_first]; constructor; [auto|]. apply (rel_map R R); assumption.
  Qed.

  Theorem distribute_remaining_free_space_homog items items' gap gap' icm icm' jc rev :
    items_rel k items items' -> sc k gap gap' -> sc k icm icm' ->
    items_rel k (distribute_remaining_free_space items gap icm jc rev) (distribute_remaining_free_space items' gap' icm' jc rev).
  Proof.
    intros Hi Hg Hm. unfold distribute_remaining_free_space.
    rewrite (rel_zlen _ _ _ Hi), (rel_count_auto _ _ Hi).
    assert (Hfs : sc k (icm - (sum_axis_gaps gap (zlen items) + fsum (map fi_outer_target items)))%num
                       (icm' - (sum_axis_gaps gap' (zlen items) + fsum (map fi_outer_target items')))%num).
    { apply sc_sub; [exact Hm|]. apply sc_add; [apply rel_sum_axis_gaps; exact Hg|]. apply rel_fsum.
      apply (rel_map (item_rel k) (sc k)); [|exact Hi]. intros c c' Hc. item_open Hc. assumption. }
    set (fs := (icm - _)%num) in *. set (fs' := (icm' - _)%num) in *.
    rewrite (sc_gtb k _ _ zero zero Hk Hfs (sc_zero k)).
    destruct (gtb fs zero && (0 <? count_auto items)%Z)%bool.
    - apply (rel_map (item_rel k) (item_rel k)); [|exact Hi]. intros c c' Hc. item_open Hc. rewrite Esa, Eea.
      assert (Hmg : sc k (fs / of_Z (count_auto items))%num (fs' / of_Z (count_auto items))%num)
        by (apply (sc_div_dl k); [exact Hk | exact Hfs | apply dl_of_Z]).
      apply rel_set_margins; [exact Hc | |].
      + destruct (fi_margin_start_auto c); assumption.
      + destruct (fi_margin_end_auto c); assumption.
    - rewrite (rel_apply_alignment_fallback _ _ _ _ _ Hfs).
      set (mode := apply_alignment_fallback fs (zlen items) _ false).
      assert (J : forall b x x', item_rel k x x' ->
                    item_rel k (set_offset x (compute_alignment_offset fs (zlen items) gap mode rev b))
                               (set_offset x' (compute_alignment_offset fs' (zlen items) gap' mode rev b))).
      { intros b x x' Hx. apply rel_set_offset; [exact Hx|]. apply rel_compute_alignment_offset; assumption. }
      destruct rev.
      + apply rel_rev. apply rel_map_first; [apply J | apply J | apply rel_rev; exact Hi].
      + apply rel_map_first; [apply J | apply J | exact Hi].
  Qed.

  (* ---- main-axis positions *)
  Lemma rel_place t t' l l' : sc k t t' -> Forall2 (placed_rel k) l l' -> Forall2 (sc k) (place t l) (place t' l').
  Proof.
    intros Ht Hl. revert t t' Ht. induction Hl as [|p p' l l' Hp Hl IH]; intros t t' Ht; cbn [place]; [constructor|].
    destruct p as [it sz], p' as [it' sz']. destruct Hp as [Hit Hsz]. cbn [fst snd] in Hit, Hsz. item_open Hit.
    constructor.
    - repeat apply sc_add; assumption.
    - apply IH. apply sc_add; [exact Ht|]. repeat apply sc_add; try assumption; try (apply rel_margin_sum; exact Hit).
  Qed.

  Theorem line_positions_homog ms ms' rev l l' :
    sc k ms ms' -> Forall2 (placed_rel k) l l' -> Forall2 (sc k) (line_positions ms rev l) (line_positions ms' rev l').
  Proof.
    intros Hm Hl. unfold line_positions. destruct rev.
    - apply rel_rev. apply rel_place; [exact Hm | apply rel_rev; exact Hl].
    - apply rel_place; assumption.
  Qed.
  Lemma combine_placed_rel l l' s s' : items_rel k l l' -> Forall2 (sc k) s s' -> Forall2 (placed_rel k) (combine l s) (combine l' s').
  Proof.
    intros Hl. revert s s'. induction Hl; intros s s' Hs; cbn [combine]; [constructor|].
    destruct Hs; constructor; [split; assumption | apply IHHl; assumption].
  Qed.
End FlexHomog.

(* ---- the scaled inputs are related to the originals *)
Lemma item_rel_scale k c : item_rel k c (item_scale k c).
Proof.
  unfold item_rel, item_scale. item_fields.
  repeat split; try apply sc_self; try apply dl_refl; try apply op_rel_scale.
Qed.
Lemma items_rel_scale k l : items_rel k l (map (item_scale k) l).
Proof. apply Forall2_self. apply item_rel_scale. Qed.
Lemma placed_rel_scale k l : Forall2 (placed_rel k) l (map (placed_scale k) l).
Proof. apply Forall2_self. intros [c s]. split; cbn [fst snd placed_scale]; [apply item_rel_scale | apply sc_self]. Qed.

(* `related` is `equal to the scaled value` for the output sizes *)
Lemma item_rel_iff_sizes k c c' :
  item_rel k c c' -> dl (x_scale k (fi_target c)) (fi_target c') /\ dl (x_scale k (fi_outer_target c)) (fi_outer_target c') /\
                    dl (x_scale k (fi_offset c)) (fi_offset c') /\ fi_frozen c' = fi_frozen c.
Proof. intros Hc. item_open Hc. repeat split; assumption. Qed.
