(* GENERATED on every run by /verif/translator/gen_tree.py from src/tree/taffy_tree.rs -- do not edit. *)
(* The methods of TaffyTree that Model/Tree.v transcribes (found in the source; fingerprinted). *)
From Coq Require Import String List.
Import ListNotations.
Open Scope string_scope.
Definition taffy_tree_methods : list string := ["TaffyTree::add_child"; "TaffyTree::child_at_index"; "TaffyTree::child_count"; "TaffyTree::children"; "TaffyTree::clear"; "TaffyTree::get_node_context"; "TaffyTree::insert_child_at_index"; "TaffyTree::mark_dirty"; "TaffyTree::new"; "TaffyTree::new_leaf"; "TaffyTree::new_leaf_with_context"; "TaffyTree::new_with_children"; "TaffyTree::parent"; "TaffyTree::remove"; "TaffyTree::remove_child"; "TaffyTree::remove_child_at_index"; "TaffyTree::remove_children_range"; "TaffyTree::replace_child_at_index"; "TaffyTree::set_children"; "TaffyTree::set_node_context"; "TaffyTree::struct"; "TaffyTree::total_node_count"; "TaffyTree::with_capacity"].
