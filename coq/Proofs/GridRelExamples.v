(* Computed facts about the instance of Model/GridRelExample.v (vm_compute on the goal side only). *)
From Coq Require Import QArith ZArith Bool List.
From TV Require Import Num.Num Num.QNum Model.Common Model.Leaf Model.BoxSizing Gen.GridTracksGen Model.GridTracks.
From TV Require Import Model.GridAlgBase Model.GridAlg Model.FlexAlgBase Model.FlexAlgRel Model.GridAlgRel Model.GridRelExample.
Import ListNotations.
Close Scope Z_scope.

Lemma ge_classes : g_eligibleb ge_container = true /\ g_eligibleb ge_a = true /\ g_eligibleb ge_b = true /\
                   eligibleb (gs_core ge_a_replaced) = true /\ g_eligibleb ge_a_replaced = false.
Proof. vm_compute. repeat split. Qed.

Lemma ge_rewrite_changes :
  (width (size (gs_core (g_to_border_box ge_container))), box_sizing (gs_core (g_to_border_box ge_container)),
   size (gs_core (g_to_border_box ge_a))) =
  (Length (gq 100 + (gq 3 + gq 1 + (gq 3 + gq 1)))%num, BorderBox,
   mkSize (Length (gq 30 + (gq 2 + gq 1 + (gq 2 + gq 1)))%num) (Length (gq 10 + (gq 2 + gq 1 + (gq 2 + gq 1)))%num)).
Proof. reflexivity. Qed.

Lemma ge_run_values : ge_sizes (ge_run ge_container [ge_a; ge_b]) = [(0, gq 36, gq 16); (1, gq 62, gq 16)].
Proof. vm_compute. reflexivity. Qed.

(* container and item a rewritten / only the container / only item a: the same query answers give the same result and stored layouts *)
Lemma ge_same_all : ge_same (ge_run ge_container [ge_a; ge_b]) (ge_run (g_to_border_box ge_container) [g_to_border_box ge_a; ge_b]) = true.
Proof. vm_compute. reflexivity. Qed.
Lemma ge_same_container : ge_same (ge_run ge_container [ge_a; ge_b]) (ge_run (g_to_border_box ge_container) [ge_a; ge_b]) = true.
Proof. vm_compute. reflexivity. Qed.
Lemma ge_same_item : ge_same (ge_run ge_container [ge_a; ge_b]) (ge_run ge_container [g_to_border_box ge_a; ge_b]) = true.
Proof. vm_compute. reflexivity. Qed.
(* the comparison is not trivially true *)
Lemma ge_same_detects : ge_same (ge_run ge_container [ge_a; ge_b]) (ge_run ge_container [ge_b; ge_b]) = false.
Proof. vm_compute. reflexivity. Qed.

Lemma ge_gbb_rels : gbb_rel ge_container (g_to_border_box ge_container) /\ Forall2 gbb_rel [ge_a; ge_b] [g_to_border_box ge_a; ge_b].
Proof.
  split; [right; split; [vm_compute; reflexivity|reflexivity]|].
  constructor; [right; split; [vm_compute; reflexivity|reflexivity]|constructor; [left; reflexivity|constructor]].
Qed.

(* ---- the instance at scale 4 (Model/GridRelExampleK.v) *)
From TV Require Import Model.Scale Model.GridRelExampleK.
Lemma ge_scaled_4 : ge_scaled_same 4 (ge_run ge_container [ge_a; ge_b]) (ge_run_k 4 ge_container [ge_a; ge_b]) = true /\
                    ge_sizes (ge_run_k 4 ge_container [ge_a; ge_b]) = [(0, gq 144, gq 64); (1, gq 248, gq 64)] /\
                    ge_scaled_same 4 (ge_run ge_container [ge_a; ge_b]) (ge_run_k 2 ge_container [ge_a; ge_b]) = false.
Proof. vm_compute. repeat split. Qed.
