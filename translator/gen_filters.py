"""Translate the item-generation iterator pipelines of the three container algorithms, and the per-item predicates of block
layout that decide which items a loop visits, into Gallina (coq/Gen/FiltersGen.v), so that the C05 / C06 blindness theorems
(coq/Proofs/ItemFilters.v) are about the filters the source contains NOW.

  src/style/mod.rs            enum Display, enum BoxGenerationMode, enum Position; `impl CoreStyle for Style`::box_generation_mode
  src/compute/flexbox.rs      generate_anonymous_flex_items                  -> flex_generate_items
  src/compute/block.rs        generate_item_list                             -> block_generate_items
                              determine_content_based_container_width: which items the loop visits -> block_content_width_visits
                              compute_inner: the `.all(..)` closure of all_in_flow_children_can_be_collapsed_through
                                                                              -> block_all_collapsible_pred
                              perform_final_layout_on_in_flow_children: the condition of the absolute branch
                                                                              -> block_inflow_absolute_branch_cond
                                (+ a syntactic check that this branch only assigns fields of `item` and never calls `tree`)
                              compute_preliminary: the hidden-children loop          -> flex_hidden_pass_visits (+ canonical call checked)
                              perform_absolute_layout_on_absolute_children: the skip test -> flex_absolute_pass_skips
                              every call on `tree` that addresses a node: where, and to which node (syntactic scan)
  src/compute/grid/mod.rs     compute_grid_layout: closures get_child_styles_iter / in_flow_children_iter
                                                                              -> grid_estimate_children / grid_in_flow_children
                              the final `(0..tree.child_count(node)).for_each(|index| ..)` loop: the conditions of its two `if`s
                                                                              -> grid_final_loop_hidden_test / grid_final_loop_absolute_test
                                (+ syntactic checks: the hidden branch is the canonical perform_child_layout / set_unrounded_layout(with_order(order))
                                 pair on the child, `order += 1; return`; the absolute branch one align_and_position_item(tree, child, order, ..))
  src/compute/grid/*.rs       every call on `tree` that addresses a node: in which function, to which node (syntactic scan)

Source forms understood (anything else: Refuse -- the Gen file then does not compile):
  pipeline  := tree.child_ids(node) { .enumerate() | .map(closure) | .filter(closure) }* [.collect()]
  closure   := |pattern[: Type]| body         pattern := ident | _ | (pattern, ...)
  map body  := ident | (body, ...) | tree.get_<algo>_child_style(ident)        (tuple building)
             | StructName { field: expr, ... }   only as the LAST map of an item generator; rendered as `build <order> <node> <style>`
               after checking: the field `order` is `<ident> as u32`, the field `node` / `node_id` is an identifier, and no other
               field expression mentions these two identifiers (so every other field is a function of the child's style and of
               values of the enclosing function only)
  predicate := e == e | e != e | e && e | e || e | !e | matches!(e, Enum::Variant) | (e) | item.can_be_collapsed_through
  e         := <style ident>.position() | <style ident>.box_generation_mode() | item.position | Enum::Variant
  loops     := for item in items.iter()[.filter(closure)]* { [if predicate { continue; }]* ... }
"""
import re
from rustparse import *

STYLE = 'src/style/mod.rs'
FLEX = 'src/compute/flexbox.rs'
BLOCK = 'src/compute/block.rs'
GRID = 'src/compute/grid/mod.rs'

ENUMS = {'Display': 'GDisplay', 'BoxGenerationMode': 'GBoxGenerationMode', 'Position': 'GPosition'}
STYLE_ACCESSORS = {'position': 'Position', 'box_generation_mode': 'BoxGenerationMode'}
ITEM_ENUM_FIELDS = {'position': 'Position'}
ITEM_BOOL_FIELDS = ['can_be_collapsed_through']


class Refuse(Exception):
    pass


def enum_variants(toks, name):
    for i in range(len(toks) - 2):
        if seq_at(toks, i, ['enum', name, '{']):
            j = i + 2
            e = match_brace(toks, j)
            vs = []
            k = j + 1
            while k < e:
                if toks[k][1] == '#':
                    k = match_brace(toks, k + 1) + 1
                    continue
                if toks[k][0] != 'id' or toks[k + 1][1] not in (',', '}'):
                    raise Refuse('enum %s: variant with payload or discriminant' % name)
                vs.append(toks[k][1])
                k += 2 if toks[k + 1][1] == ',' else 1
            return vs, norm_tokens(toks[i:e + 1])
    raise Refuse('enum %s not found' % name)


def ctor(enum, variant):
    return '%s_%s' % (enum, variant)


# ----------------------------------------------------------------------------- patterns / expressions

def pat(p):
    """Rust closure pattern -> (Coq pattern text, bound identifiers)."""
    k = p[0]
    if k == 'pwild':
        return '_', []
    if k == 'pident':
        return p[1], [p[1]]
    if k == 'ptuple':
        parts = [pat(x) for x in p[1]]
        if len(parts) < 2:
            raise Refuse('tuple pattern of arity %d' % len(parts))
        return '(' + ', '.join(x[0] for x in parts) + ')', [n for x in parts for n in x[1]]
    raise Refuse('closure pattern %r' % (k,))


def lam(p, body):
    txt, _ = pat(p)
    if p[0] == 'ptuple':
        return "(fun '%s => %s)" % (txt, body)
    return '(fun %s => %s)' % (txt, body)


class Pred:
    """Boolean predicates over a child style (style idents) or over a BlockItem (`item`)."""

    def __init__(self, variants, style_idents=(), item_ident=None, child_ident=None):
        self.variants = variants
        self.style_idents = set(style_idents)
        self.item_ident = item_ident
        self.child_ident = child_ident

    def enum_expr(self, a):
        """-> (enum name, Coq term)"""
        if a[0] == 'path' and len(a[1]) == 2 and a[1][0] in self.variants:
            if a[1][1] not in self.variants[a[1][0]]:
                raise Refuse('unknown variant %s' % '::'.join(a[1]))
            return a[1][0], ctor(a[1][0], a[1][1])
        if a[0] == 'mcall' and a[1][0] == 'path' and len(a[1][1]) == 1 and a[1][1][0] in self.style_idents \
                and a[2] in STYLE_ACCESSORS and a[3] == []:
            return STYLE_ACCESSORS[a[2]], '(%s %s)' % (a[2], a[1][1][0])
        if a[0] == 'mcall' and is_style_lookup(a[1]) and len(a[1][3]) == 1 and a[1][3][0] == ('path', [self.child_ident]) \
                and a[2] in STYLE_ACCESSORS and a[3] == []:
            return STYLE_ACCESSORS[a[2]], 'child_%s' % a[2]
        if a[0] == 'field' and a[1] == ('path', [self.item_ident]) and a[2] in ITEM_ENUM_FIELDS:
            return ITEM_ENUM_FIELDS[a[2]], 'item_%s' % a[2]
        raise Refuse('enum-valued expression %r' % (a,))

    def b(self, a):
        k = a[0]
        if k == 'bin' and a[1] in ('==', '!='):
            e1, t1 = self.enum_expr(a[2])
            e2, t2 = self.enum_expr(a[3])
            if e1 != e2:
                raise Refuse('comparison of %s with %s' % (e1, e2))
            t = '(%s_eqb %s %s)' % (ENUMS[e1], t1, t2)
            return t if a[1] == '==' else '(negb %s)' % t
        if k == 'bin' and a[1] in ('&&', '||'):
            return '(%s %s %s)' % ('andb' if a[1] == '&&' else 'orb', self.b(a[2]), self.b(a[3]))
        if k == 'un' and a[1] == '!':
            return '(negb %s)' % self.b(a[2])
        if k == 'paren':
            return self.b(a[1])
        if k == 'block' and not a[1] and a[2] is not None:
            return self.b(a[2])
        if k == 'macro' and a[1] == 'matches':
            e, pt, g = a[2]
            if g is not None or pt[0] != 'ppath' or len(pt[1]) != 2 or pt[1][0] not in self.variants \
                    or pt[1][1] not in self.variants[pt[1][0]]:
                raise Refuse('matches! pattern')
            e1, t1 = self.enum_expr(e)
            if e1 != pt[1][0]:
                raise Refuse('matches! of %s against %s' % (e1, pt[1][0]))
            return '(%s_eqb %s %s)' % (ENUMS[e1], t1, ctor(pt[1][0], pt[1][1]))
        if k == 'field' and a[1] == ('path', [self.item_ident]) and a[2] in ITEM_BOOL_FIELDS:
            return 'item_%s' % a[2]
        raise Refuse('predicate form %r' % (k,))


def idents_in(a, acc):
    """all single-segment path identifiers mentioned in an AST"""
    if isinstance(a, tuple):
        if a and a[0] == 'path' and len(a[1]) == 1:
            acc.add(a[1][0])
        if a and a[0] == 'closure':
            # closure parameters shadow; keep it simple: still walk the body
            idents_in(a[2], acc)
            return
        for x in a[1:]:
            idents_in(x, acc)
    elif isinstance(a, list):
        for x in a:
            idents_in(x, acc)


def tuple_expr(a, bound):
    """map closure body that only builds tuples of bound identifiers and style lookups"""
    if a[0] == 'path' and len(a[1]) == 1:
        if a[1][0] not in bound:
            raise Refuse('free identifier %s in a tuple-building closure' % a[1][0])
        return a[1][0]
    if a[0] == 'tuple':
        return '(' + ', '.join(tuple_expr(x, bound) for x in a[1]) + ')'
    if a[0] == 'paren':
        return tuple_expr(a[1], bound)
    if a[0] == 'mcall' and a[1] == ('path', ['tree']) and re.fullmatch(r'get_[a-z_]*child_style', a[2]) and len(a[3]) == 1 \
            and a[3][0][0] == 'path' and len(a[3][0][1]) == 1 and a[3][0][1][0] in bound:
        return '(style_of %s)' % a[3][0][1][0]
    raise Refuse('tuple-building closure body %r' % (a[0],))


def is_style_lookup(a):
    return a[0] == 'mcall' and a[1] == ('path', ['tree']) and re.fullmatch(r'get_[a-z_]*child_style', a[2]) is not None


def builder(a, bound, struct_name):
    """the final map of an item generator: StructName { .. } -> `build order node style` (checked)"""
    if a[0] == 'block' and not a[1] and a[2] is not None:
        a = a[2]
    lets = []
    if a[0] == 'block':
        lets = a[1]
        a = a[2]
    if a is None or a[0] != 'struct' or a[1][-1] != struct_name or a[3] is not None:
        raise Refuse('item builder is not a `%s { .. }` literal' % struct_name)
    fields = dict(a[2])
    if 'order' not in fields:
        raise Refuse('item has no `order` field')
    o = fields['order']
    if not (o[0] == 'cast' and o[1][0] == 'path' and len(o[1][1]) == 1 and o[2].strip() == 'u32'):
        raise Refuse('`order` is not `<ident> as u32`')
    order_id = o[1][1][0]
    node_field = 'node_id' if 'node_id' in fields else 'node' if 'node' in fields else None
    if node_field is None:
        raise Refuse('item has no node field')
    n = fields[node_field]
    if not (n[0] == 'path' and len(n[1]) == 1):
        raise Refuse('node field is not an identifier')
    node_id = n[1][0]
    if order_id not in bound or node_id not in bound or order_id == node_id:
        raise Refuse('order / node identifiers are not closure parameters')
    style_ids = [b for b in bound if b not in (order_id, node_id)]
    if len(style_ids) != 1:
        raise Refuse('expected exactly one style parameter, got %r' % style_ids)
    used = set()
    for st in lets:
        if st[0] != 'let':
            raise Refuse('statement %r in the item builder' % (st[0],))
        idents_in(st[2], used)
    for f, e in a[2]:
        if f in ('order', node_field):
            continue
        idents_in(e, used)
    if order_id in used or node_id in used:
        raise Refuse('a field other than order / node depends on the index or the node id')
    return '(build %s %s %s)' % (order_id, node_id, style_ids[0]), style_ids[0]


class Pipe:
    def __init__(self, variants, struct_name=None):
        self.variants = variants
        self.struct_name = struct_name
        self.built = False

    def chain(self, a):
        """-> Coq term of type list _"""
        if a[0] != 'mcall':
            raise Refuse('pipeline element %r' % (a[0],))
        recv, name, args = a[1], a[2], a[3]
        if name == 'child_ids' and recv == ('path', ['tree']) and len(args) == 1:
            return 'child_ids'
        if self.built and name != 'collect':
            raise Refuse('adaptor %s after the item builder' % name)
        inner = self.chain(recv)
        if name == 'collect' and args == []:
            return inner
        if name == 'enumerate' and args == []:
            return '(g_enumerate %s)' % inner
        if name in ('map', 'filter') and len(args) == 1 and args[0][0] == 'closure' and len(args[0][1]) == 1:
            p, body = args[0][1][0], args[0][2]
            _, bound = pat(p)
            if name == 'filter':
                pr = Pred(self.variants, style_idents=bound)
                return '(filter %s %s)' % (lam(p, pr.b(body)), inner)
            stripped = body
            while stripped[0] == 'block' and not stripped[1] and stripped[2] is not None:
                stripped = stripped[2]
            if stripped[0] in ('path', 'tuple', 'paren') or is_style_lookup(stripped):
                return '(map %s %s)' % (lam(p, tuple_expr(stripped, bound)), inner)
            if self.struct_name is None:
                raise Refuse('unexpected map body %r' % (stripped[0],))
            term, _ = builder(body, bound, self.struct_name)
            self.built = True
            return '(map %s %s)' % (lam(p, term), inner)
        raise Refuse('iterator adaptor .%s(..)' % name)


def fn_tail(blk):
    """the value expression of a function / closure body block"""
    if blk[0] != 'block':
        return blk
    if blk[2] is None:
        raise Refuse('block without a value')
    return blk[2]


def find_let_closure(blk, name):
    for st in blk[1]:
        if st[0] == 'let' and st[1] == ('pident', name):
            if st[2][0] != 'closure':
                raise Refuse('`%s` is not a closure' % name)
            return st[2]
    raise Refuse('let %s = |..| .. not found' % name)


def walk(a, f):
    if isinstance(a, tuple):
        f(a)
        for x in a[1:]:
            walk(x, f)
    elif isinstance(a, list):
        for x in a:
            walk(x, f)


def find_all(a, pred):
    out = []
    walk(a, lambda n: out.append(n) if n and isinstance(n[0], str) and pred(n) else None)
    return out


def loop_visits(blk, variants, items_ident='items'):
    """`for item in items.iter()[.filter(c)]* { [if p { continue; }]* .. }` -> predicate of the items whose body runs"""
    fors = find_all(blk, lambda n: n[0] == 'for')
    if len(fors) != 1:
        raise Refuse('expected exactly one for loop, found %d' % len(fors))
    _, p, it, body = fors[0][:4]
    if p[0] != 'pident':
        raise Refuse('loop pattern')
    item = p[1]
    conj = []
    e = it
    filt = []
    while e[0] == 'mcall' and e[2] == 'filter':
        filt.append(e[3])
        e = e[1]
    if not (e[0] == 'mcall' and e[2] in ('iter', 'iter_mut') and e[1] == ('path', [items_ident]) and e[3] == []):
        raise Refuse('loop iterates over something else than %s.iter()' % items_ident)
    for args in reversed(filt):
        if len(args) != 1 or args[0][0] != 'closure' or len(args[0][1]) != 1 or args[0][1][0][0] != 'pident':
            raise Refuse('filter closure form')
        conj.append(Pred(variants, item_ident=args[0][1][0][1]).b(args[0][2]))
    for st in body[1]:
        if st[0] == 'expr' and st[1][0] == 'if' and st[1][3] is None:
            th = st[1][2]
            if len(th[1]) == 1 and th[2] is None and th[1][0][0] == 'expr' and th[1][0][1][0] == 'continue':
                conj.append('(negb %s)' % Pred(variants, item_ident=item).b(st[1][1]))
                continue
        break
    if not conj:
        return 'true', fors[0]
    t = conj[0]
    for c in conj[1:]:
        t = '(andb %s %s)' % (t, c)
    return t, fors[0]


ITEM_PARAMS = '(item_position : GPosition) (item_can_be_collapsed_through : bool)'

NODE_CALLS = ('perform_child_layout', 'measure_child_size', 'set_unrounded_layout', 'compute_child_layout', 'get_block_child_style')
PURE_CALLS = ('calc',)


def tree_calls_on_item(blk, item, what):
    """every method call on `tree` inside blk is `calc` or addresses `<item>.node_id`; returns the calls found"""
    calls = find_all(blk, lambda n: n[0] == 'mcall' and n[1] == ('path', ['tree']))
    seen = []
    for c in calls:
        if c[2] in PURE_CALLS:
            continue
        if c[2] not in NODE_CALLS:
            raise Refuse('%s: unexpected call tree.%s' % (what, c[2]))
        if not c[3] or c[3][0] != ('field', ('path', [item]), 'node_id'):
            raise Refuse('%s: tree.%s is not addressed to %s.node_id' % (what, c[2], item))
        seen.append(c[2])
    return seen


def generate(repo):
    fps = {}
    out = []
    w = out.append
    w('(* GENERATED on every run by /verif/translator/gen_filters.py from %s, %s, %s, %s -- do not edit. *)' % (STYLE, FLEX, BLOCK, GRID))
    w('From Coq Require Import Bool List.')
    w('From TV Require Import Model.FiltersBase.')
    w('Import ListNotations.')
    stoks = tokenize(open(repo + '/' + STYLE).read())
    variants = {}
    for en, coq in ENUMS.items():
        vs, fp = enum_variants(stoks, en)
        variants[en] = vs
        fps['enum ' + en] = fp
        w('Inductive %s := %s.' % (coq, ' | '.join(ctor(en, v) for v in vs)))
        arms = ' | '.join('%s, %s => true' % (ctor(en, v), ctor(en, v)) for v in vs)
        w('Definition %s_eqb (a b : %s) : bool := match a, b with %s | _, _ => false end.' % (coq, coq, arms))
    for en, need in (('Position', ['Relative', 'Absolute']), ('BoxGenerationMode', ['Normal', 'None']), ('Display', ['None'])):
        for v in need:
            if v not in variants[en]:
                raise Refuse('enum %s lost its variant %s' % (en, v))
    # --- impl CoreStyle for Style :: box_generation_mode
    ii = [i for i in range(len(stoks)) if seq_at(stoks, i, ['impl', 'CoreStyle', 'for', 'Style', '{'])]
    if len(ii) != 1:
        raise Refuse('expected exactly one `impl CoreStyle for Style`')
    ib = ii[0] + 4
    impl = stoks[ib:match_brace(stoks, ib) + 1]
    _, body, _ = find_fn(impl, 'box_generation_mode')
    fps['Style::box_generation_mode'] = norm_tokens(body)
    m = fn_tail(parse_block(body))
    if m[0] != 'match' or m[1] != ('field', ('path', ['self']), 'display'):
        raise Refuse('box_generation_mode is not `match self.display { .. }`')
    arms = []
    for arm in m[2]:
        pt, g, e = arm[0], arm[1], arm[2]
        if g is not None:
            raise Refuse('guarded arm')
        if not (e[0] == 'path' and len(e[1]) == 2 and e[1][0] == 'BoxGenerationMode' and e[1][1] in variants['BoxGenerationMode']):
            raise Refuse('arm value')
        val = ctor('BoxGenerationMode', e[1][1])
        alts = pt[1] if pt[0] == 'por' else [pt]
        for a in alts:
            if a[0] == 'pwild':
                arms.append('_ => %s' % val)
            elif a[0] == 'ppath' and len(a[1]) == 2 and a[1][0] == 'Display' and a[1][1] in variants['Display']:
                arms.append('%s => %s' % (ctor('Display', a[1][1]), val))
            else:
                raise Refuse('arm pattern %r' % (a,))
    w('Definition style_box_generation_mode (display : GDisplay) : GBoxGenerationMode :=\n  match display with %s end.' % ' | '.join(arms))
    # --- pipelines
    w('(* C: child handle (NodeId), S: child style, I: generated item; style_of = tree.get_<algo>_child_style(child),')
    w('   position = style.position(), box_generation_mode = style.box_generation_mode() *)')
    ctx = ('{C S %s: Type} (style_of : C -> S) (position : S -> GPosition) (box_generation_mode : S -> GBoxGenerationMode)')
    ftoks = tokenize(open(repo + '/' + FLEX).read())
    _, body, _ = find_fn(ftoks, 'generate_anonymous_flex_items')
    fps['flexbox::generate_anonymous_flex_items'] = norm_tokens(body)
    term = Pipe(variants, 'FlexItem').chain(fn_tail(parse_block(body)))
    w('Definition flex_generate_items %s (build : nat -> C -> S -> I) (child_ids : list C) : list I :=\n  %s.' % (ctx % 'I ', term))
    btoks = tokenize(open(repo + '/' + BLOCK).read())
    _, body, _ = find_fn(btoks, 'generate_item_list')
    fps['block::generate_item_list'] = norm_tokens(body)
    term = Pipe(variants, 'BlockItem').chain(fn_tail(parse_block(body)))
    w('Definition block_generate_items %s (build : nat -> C -> S -> I) (child_ids : list C) : list I :=\n  %s.' % (ctx % 'I ', term))
    gtoks = tokenize(open(repo + '/' + GRID).read())
    _, body, _ = find_fn(gtoks, 'compute_grid_layout')
    gblk = parse_block(body)
    c = find_let_closure(gblk, 'get_child_styles_iter')
    fps['grid::get_child_styles_iter'] = repr(c)
    if len(c[1]) != 1 or c[1][0] != ('pident', 'node'):
        raise Refuse('get_child_styles_iter parameters')
    term = Pipe(variants).chain(fn_tail(c[2]))
    w('Definition grid_estimate_children %s (child_ids : list C) : list S :=\n  %s.' % (ctx % '', term))
    c = find_let_closure(gblk, 'in_flow_children_iter')
    fps['grid::in_flow_children_iter'] = repr(c)
    if c[1]:
        raise Refuse('in_flow_children_iter parameters')
    term = Pipe(variants).chain(fn_tail(c[2]))
    w('Definition grid_in_flow_children %s (child_ids : list C) : list (nat * C * S) :=\n  %s.' % (ctx % '', term))
    # the estimate must be fed by get_child_styles_iter, the placement by in_flow_children_iter
    uses = find_all(gblk, lambda n: n[0] == 'call' and n[1][0] == 'path' and n[1][1][-1] == 'compute_grid_size_estimate')
    if len(uses) != 1:
        raise Refuse('compute_grid_size_estimate call')
    ids = set()
    idents_in(uses[0][2], ids)
    if 'child_styles_iter' not in ids:
        raise Refuse('compute_grid_size_estimate is not fed child_styles_iter')
    lets = [st for st in gblk[1] if st[0] == 'let' and st[1] == ('pident', 'child_styles_iter')]
    if len(lets) != 1 or lets[0][2] != ('call', ('path', ['get_child_styles_iter']), [('path', ['node'])]):
        raise Refuse('child_styles_iter is not get_child_styles_iter(node)')
    uses = find_all(gblk, lambda n: n[0] == 'call' and n[1][0] == 'path' and n[1][1][-1] == 'place_grid_items')
    if len(uses) != 1 or ('path', ['in_flow_children_iter']) not in uses[0][2]:
        raise Refuse('place_grid_items is not fed in_flow_children_iter')
    # --- block: per-item predicates
    _, body, _ = find_fn(btoks, 'determine_content_based_container_width')
    fps['block::determine_content_based_container_width'] = norm_tokens(body)
    term, _ = loop_visits(parse_block(body), variants)
    w('Definition block_content_width_visits %s : bool :=\n  %s.' % (ITEM_PARAMS, term))
    _, body, _ = find_fn(btoks, 'compute_inner')
    cblk = parse_block(body)
    lets = [st for st in cblk[1] if st[0] == 'let' and st[1] == ('pident', 'all_in_flow_children_can_be_collapsed_through')]
    if len(lets) != 1:
        raise Refuse('let all_in_flow_children_can_be_collapsed_through')
    e = lets[0][2]
    if not (e[0] == 'mcall' and e[2] == 'all' and e[1] == ('mcall', ('path', ['items']), 'iter', []) and len(e[3]) == 1
            and e[3][0][0] == 'closure' and len(e[3][0][1]) == 1 and e[3][0][1][0][0] == 'pident'):
        raise Refuse('all_in_flow_children_can_be_collapsed_through is not items.iter().all(|item| ..)')
    fps['block::all_in_flow_children_can_be_collapsed_through'] = repr(e)
    w('Definition block_all_collapsible_pred %s : bool :=\n  %s.' % (ITEM_PARAMS, Pred(variants, item_ident=e[3][0][1][0][1]).b(e[3][0][2])))
    # can_be_collapsed_through = !has_styles_preventing_being_collapsed_through && all_in_flow_children_can_be_collapsed_through
    lets = [st for st in cblk[1] if st[0] == 'let' and st[1] == ('pident', 'can_be_collapsed_through')]
    want = ('bin', '&&', ('un', '!', ('path', ['has_styles_preventing_being_collapsed_through'])),
            ('path', ['all_in_flow_children_can_be_collapsed_through']))
    if len(lets) != 1 or lets[0][2] != want:
        raise Refuse('can_be_collapsed_through is no longer !has_styles_preventing.. && all_in_flow_children..')
    _, body, _ = find_fn(btoks, 'perform_final_layout_on_in_flow_children')
    fps['block::perform_final_layout_on_in_flow_children'] = norm_tokens(body)
    pblk = parse_block(body)
    term, loop = loop_visits(pblk, variants)
    if term != 'true':
        raise Refuse('the in-flow loop skips items')
    lbody = loop[3]
    if len(lbody[1]) + (1 if lbody[2] is not None else 0) != 1:
        raise Refuse('the in-flow loop body is not a single if / else')
    ife = lbody[2] if lbody[2] is not None else lbody[1][0][1]
    if ife[0] != 'if' or ife[3] is None:
        raise Refuse('the in-flow loop body is not if / else')
    item = loop[1][1]
    w('Definition block_inflow_absolute_branch_cond %s : bool :=\n  %s.' % (ITEM_PARAMS, Pred(variants, item_ident=item).b(ife[1])))
    # the branch taken when the condition holds: only `item.<field> = ..` assignments, no call on `tree`, no other statement
    th = ife[2]
    if th[2] is not None and th[2][0] != 'assign':
        raise Refuse('absolute branch has a value')
    stmts = [s[1] for s in th[1]] + ([th[2]] if th[2] is not None else [])
    for s in stmts:
        if s[0] != 'assign' or s[1] != '=' or s[2][0] != 'field' or s[2][1] != ('path', [item]):
            raise Refuse('absolute branch of the in-flow loop: statement other than `item.<field> = ..`')
        used = set()
        idents_in(s[3], used)
        if 'tree' in used:
            raise Refuse('absolute branch of the in-flow loop uses `tree`')
    w('(* checked syntactically: the absolute branch of the in-flow loop consists of assignments to fields of `item`')
    w('   (%s) and does not mention `tree` *)' % ', '.join('item.' + s[2][2] for s in stmts))
    w('Definition block_inflow_absolute_branch_is_local : bool := true.')
    seen = tree_calls_on_item(loop[3], item, 'in-flow loop')
    _, body, _ = find_fn(btoks, 'determine_content_based_container_width')
    _, wloop = loop_visits(parse_block(body), variants)
    seen += tree_calls_on_item(wloop[3], wloop[1][1], 'content-based width loop')
    _, body, _ = find_fn(btoks, 'perform_absolute_layout_on_absolute_children')
    fps['block::perform_absolute_layout_on_absolute_children'] = norm_tokens(body)
    ablk = parse_block(body)
    term, aloop = loop_visits(ablk, variants)
    w('Definition block_absolute_pass_visits %s : bool :=\n  %s.' % (ITEM_PARAMS, term))
    seen_abs = tree_calls_on_item(aloop[3], aloop[1][1], 'absolute pass')
    outside = [c for c in find_all(ablk, lambda n: n[0] == 'mcall' and n[1] == ('path', ['tree']) and n[2] not in PURE_CALLS)]
    if len(outside) != len(seen_abs):
        raise Refuse('absolute pass: a tree call outside the item loop')
    w('(* checked syntactically: in the in-flow loop, the content-based-width loop and the absolute pass of block.rs every method')
    w('   call on `tree` is `calc` or has `item.node_id` as its node argument (%s | %s) *)' % (' '.join(seen), ' '.join(seen_abs)))
    w('Definition block_tree_calls_address_item_only : bool := true.')
    # step 5 of compute_inner: which children get the hidden layout
    fors = [st[1] for st in cblk[1] if st[0] == 'expr' and st[1][0] == 'for']
    if len(fors) != 1:
        raise Refuse('compute_inner: expected exactly one top-level for loop (hidden children)')
    hp, hit, hbody = fors[0][1], fors[0][2], fors[0][3]
    if hp[0] != 'pident' or hit[0] != 'range' or hit[1] != ('lit', '0'):
        raise Refuse('hidden loop header')
    order = hp[1]
    if len(hbody[1]) + (1 if hbody[2] is not None else 0) != 2 or hbody[1][0][0] != 'let' or hbody[1][0][1][0] != 'pident':
        raise Refuse('hidden loop body')
    child = hbody[1][0][1][1]
    if hbody[1][0][2] != ('mcall', ('path', ['tree']), 'get_child_id', [('path', ['node_id']), ('path', [order])]):
        raise Refuse('hidden loop: child is not tree.get_child_id(node, %s)' % order)
    hif = hbody[2] if hbody[2] is not None else hbody[1][1][1]
    if hif[0] != 'if' or hif[3] is not None:
        raise Refuse('hidden loop: if')
    fps['block::hidden_pass'] = repr(fors[0])
    w('Definition block_hidden_pass_visits (child_box_generation_mode : GBoxGenerationMode) (child_position : GPosition) : bool :=\n  %s.'
      % Pred(variants, child_ident=child).b(hif[1]))
    for c in find_all(hif[2], lambda n: n[0] == 'mcall' and n[1] == ('path', ['tree']) and n[2] not in PURE_CALLS):
        if c[2] not in ('perform_child_layout', 'set_unrounded_layout') or not c[3] or c[3][0] != ('path', [child]):
            raise Refuse('hidden loop: tree.%s' % c[2])
    flex_loops(ftoks, variants, w, fps)
    grid_loops(repo, gtoks, variants, w, fps)
    return '\n'.join(out) + '\n', fps


FLEX_NODE_CALLS = ('perform_child_layout', 'measure_child_size', 'set_unrounded_layout', 'compute_child_layout', 'get_flexbox_child_style')
# functions of flexbox.rs whose tree calls must address `<loop variable>.node` (a FlexItem)
FLEX_ITEM_FNS = ('determine_flex_base_size', 'determine_container_main_size', 'determine_hypothetical_cross_size',
                 'calculate_children_base_lines', 'determine_used_cross_size', 'calculate_flex_item')
CANONICAL_HIDDEN_ARGS = [('path', ['Size', 'NONE']), ('path', ['Size', 'NONE']), ('path', ['Size', 'MAX_CONTENT']),
                         ('path', ['SizingMode', 'InherentSize']), ('path', ['Line', 'FALSE'])]


def tree_calls(a, names):
    return find_all(a, lambda n: n[0] == 'mcall' and n[1] == ('path', ['tree']) and n[2] in names)


def flex_loops(ftoks, variants, w, fps):
    """compute_preliminary's hidden-children loop, the loop of perform_absolute_layout_on_absolute_children, and a scan of EVERY call on
    `tree` in flexbox.rs: which node it addresses (Model/FlexAlg.v turns exactly these into Query / SetLayout)."""
    # ---- the hidden loop
    _, body, _ = find_fn(ftoks, 'compute_preliminary')
    pblk = parse_block(body)
    fors = [st[1] for st in pblk[1] if st[0] == 'expr' and st[1][0] == 'for' and st[1][2][0] == 'range']
    if len(fors) != 1:
        raise Refuse('compute_preliminary: expected exactly one top-level `for .. in 0..` loop (hidden children), found %d' % len(fors))
    hp, hit, hbody = fors[0][1], fors[0][2], fors[0][3]
    if hp[0] != 'pident' or hit[1] != ('lit', '0'):
        raise Refuse('flex hidden loop header')
    order = hp[1]
    if len(hbody[1]) + (1 if hbody[2] is not None else 0) != 2 or hbody[1][0][0] != 'let' or hbody[1][0][1][0] != 'pident':
        raise Refuse('flex hidden loop body')
    child = hbody[1][0][1][1]
    if hbody[1][0][2] != ('mcall', ('path', ['tree']), 'get_child_id', [('path', ['node']), ('path', [order])]):
        raise Refuse('flex hidden loop: child is not tree.get_child_id(node, %s)' % order)
    hif = hbody[2] if hbody[2] is not None else hbody[1][1][1]
    if hif[0] != 'if' or hif[3] is not None:
        raise Refuse('flex hidden loop: if')
    fps['flexbox::hidden_pass'] = repr(fors[0])
    w('Definition flex_hidden_pass_visits (child_box_generation_mode : GBoxGenerationMode) (child_position : GPosition) : bool :=\n  %s.'
      % Pred(variants, child_ident=child).b(hif[1]))
    calls = tree_calls(hif[2], FLEX_NODE_CALLS)
    if [c[2] for c in calls] != ['perform_child_layout', 'set_unrounded_layout']:
        raise Refuse('flex hidden loop: expected perform_child_layout then set_unrounded_layout, found %s' % [c[2] for c in calls])
    for c in calls:
        if not c[3] or c[3][0] != ('path', [child]):
            raise Refuse('flex hidden loop: tree.%s is not addressed to the child' % c[2])
    if calls[0][3][1:] != CANONICAL_HIDDEN_ARGS:
        raise Refuse('flex hidden loop: perform_child_layout is not called with (NONE, NONE, MAX_CONTENT, InherentSize, FALSE)')
    if calls[1][3][1] != ('un', '&', ('call', ('path', ['Layout', 'with_order']), [('cast', ('path', [order]), 'u32')])):
        raise Refuse('flex hidden loop: the stored layout is not &Layout::with_order(%s as u32)' % order)
    w('(* checked syntactically: the body of that `if` is tree.perform_child_layout(child, Size::NONE, Size::NONE, Size::MAX_CONTENT,')
    w('   SizingMode::InherentSize, Line::FALSE) followed by tree.set_unrounded_layout(child, &Layout::with_order(order as u32)) *)')
    w('Definition flex_hidden_pass_is_canonical : bool := true.')
    # ---- the absolute pass
    _, body, _ = find_fn(ftoks, 'perform_absolute_layout_on_absolute_children')
    ablk = parse_block(body)
    afors = find_all(ablk, lambda n: n[0] == 'for')
    if len(afors) != 1:
        raise Refuse('flex absolute pass: expected exactly one for loop')
    ap, ait, abody = afors[0][1], afors[0][2], afors[0][3]
    if ap[0] != 'pident' or ait[0] != 'range' or ait[1] != ('lit', '0') or \
            ait[2] != ('mcall', ('path', ['tree']), 'child_count', [('path', ['node'])]):
        raise Refuse('flex absolute pass: loop header is not `for order in 0..tree.child_count(node)`')
    aorder = ap[1]
    st = abody[1]
    if len(st) < 3 or st[0][0] != 'let' or st[0][1][0] != 'pident' or \
            st[0][2] != ('mcall', ('path', ['tree']), 'get_child_id', [('path', ['node']), ('path', [aorder])]):
        raise Refuse('flex absolute pass: first statement is not `let child = tree.get_child_id(node, order)`')
    achild = st[0][1][1]
    if st[1][0] != 'let' or st[1][1][0] != 'pident' or \
            st[1][2] != ('mcall', ('path', ['tree']), 'get_flexbox_child_style', [('path', [achild])]):
        raise Refuse('flex absolute pass: second statement is not `let child_style = tree.get_flexbox_child_style(child)`')
    astyle = st[1][1][1]
    sk = st[2]
    if not (sk[0] == 'expr' and sk[1][0] == 'if' and sk[1][3] is None):
        raise Refuse('flex absolute pass: third statement is not `if .. { continue; }`')
    th = sk[1][2]
    if not (len(th[1]) == 1 and th[2] is None and th[1][0][0] == 'expr' and th[1][0][1][0] == 'continue'):
        raise Refuse('flex absolute pass: the skip branch is not `continue;`')
    fps['flexbox::absolute_pass_skip'] = repr(sk[1][1])
    w('Definition flex_absolute_pass_skips {S : Type} (position : S -> GPosition) (box_generation_mode : S -> GBoxGenerationMode) (%s : S) : bool :=\n  %s.'
      % (astyle, Pred(variants, style_idents=(astyle,)).b(sk[1][1])))
    for c in tree_calls(st[3:] + ([abody[2]] if abody[2] is not None else []), FLEX_NODE_CALLS):
        if not c[3] or c[3][0] != ('path', [achild]):
            raise Refuse('flex absolute pass: tree.%s is not addressed to the child' % c[2])
    acalls = [c[2] for c in tree_calls(st[3:], ('perform_child_layout', 'measure_child_size', 'set_unrounded_layout', 'compute_child_layout'))]
    if acalls != ['perform_child_layout', 'set_unrounded_layout']:
        raise Refuse('flex absolute pass: expected one perform_child_layout then one set_unrounded_layout per child, found %s' % acalls)
    # ---- every other call on `tree` that reaches a node: only in the item functions, addressed to `<item>.node`
    names = [ftoks[i + 1][1] for i in range(len(ftoks) - 1) if ftoks[i] == ('id', 'fn') and ftoks[i + 1][0] == 'id']
    seen = []
    for fn in names:
        try:
            _, body, _ = find_fn(ftoks, fn)
        except ParseError:
            continue
        calls = tree_calls(parse_block(body), FLEX_NODE_CALLS)
        if fn in ('compute_preliminary', 'perform_absolute_layout_on_absolute_children'):
            continue            # checked above (compute_preliminary has no other node call: see below)
        if fn == 'generate_anonymous_flex_items':
            continue            # the translated pipeline
        for c in calls:
            if fn not in FLEX_ITEM_FNS:
                raise Refuse('flexbox.rs: tree.%s in fn %s, which the resumption does not model' % (c[2], fn))
            a0 = c[3][0] if c[3] else None
            if not (a0 and a0[0] == 'field' and a0[1][0] == 'path' and len(a0[1][1]) == 1 and a0[2] == 'node'):
                raise Refuse('flexbox.rs: tree.%s in fn %s is not addressed to `<item>.node`' % (c[2], fn))
            seen.append('%s:%s' % (fn, c[2]))
    _, body, _ = find_fn(ftoks, 'compute_preliminary')
    pcalls = [c[2] for c in tree_calls(parse_block(body), FLEX_NODE_CALLS)]
    if pcalls != ['perform_child_layout', 'get_flexbox_child_style', 'set_unrounded_layout'] and \
            sorted(pcalls) != sorted(['get_flexbox_child_style', 'perform_child_layout', 'set_unrounded_layout']):
        raise Refuse('compute_preliminary: node calls outside the hidden loop: %s' % pcalls)
    fps['flexbox::tree_calls'] = ' '.join(seen)
    w('(* checked syntactically: every call of flexbox.rs on `tree` that addresses a node (%s) is' % ' '.join(FLEX_NODE_CALLS))
    w('   in the translated item pipeline, in the hidden loop, in the absolute pass (addressed to that loop\'s child), or in one of the item')
    w('   functions, addressed to `<item>.node`: %s *)' % ' '.join(seen))
    w('Definition flex_tree_calls_address_item_only : bool := true.')


GRID_FILES = ('src/compute/grid/mod.rs', 'src/compute/grid/track_sizing.rs', 'src/compute/grid/alignment.rs',
              'src/compute/grid/types/grid_item.rs', 'src/compute/grid/placement.rs', 'src/compute/grid/implicit_grid.rs',
              'src/compute/grid/explicit_grid.rs')
GRID_NODE_CALLS = ('perform_child_layout', 'measure_child_size', 'set_unrounded_layout', 'compute_child_layout', 'get_grid_child_style')
# function -> the first argument its node-addressing tree calls must have
GRID_CALL_SITES = {
    'resolve_item_baselines': ('field', ('path', ['item']), 'node'),                  # track_sizing.rs: PBaseline
    'min_content_contribution': ('field', ('path', ['self']), 'node'),                # grid_item.rs: PMeasure
    'max_content_contribution': ('field', ('path', ['self']), 'node'),
    'align_and_position_item': ('path', ['node']),                                    # alignment.rs: position_query_input / position_layout
}


def grid_loops(repo, gtoks, variants, w, fps):
    """compute_grid_layout's final loop over ALL children (hidden / absolute tests, the canonical hidden pair), and a scan of every call on
    `tree` in the grid sources: which node it addresses (Model/GridAlg.v turns exactly these into Query / SetLayout)."""
    _, body, _ = find_fn(gtoks, 'compute_grid_layout')
    gblk = parse_block(body)
    loops = [n for n in find_all(gblk, lambda n: n[0] == 'mcall' and n[2] == 'for_each') if n[1][0] == 'range']
    if len(loops) != 1:
        raise Refuse('compute_grid_layout: expected exactly one `(0..n).for_each(..)` loop (hidden and absolute children), found %d' % len(loops))
    lp = loops[0]
    if lp[1] != ('range', ('lit', '0'), ('mcall', ('path', ['tree']), 'child_count', [('path', ['node'])])):
        raise Refuse('grid final loop: the range is not 0..tree.child_count(node)')
    cl = lp[3][0] if len(lp[3]) == 1 else None
    if not cl or cl[0] != 'closure' or len(cl[1]) != 1 or cl[1][0][0] != 'pident' or cl[2][0] != 'block':
        raise Refuse('grid final loop: closure form')
    index = cl[1][0][1]
    st, tail = cl[2][1], cl[2][2]
    if len(st) != 3 or tail is None:
        raise Refuse('grid final loop: body is not `let child; let child_style; if hidden {..} if absolute {..}`')
    if st[0][0] != 'let' or st[0][1][0] != 'pident' or \
            st[0][2] != ('mcall', ('path', ['tree']), 'get_child_id', [('path', ['node']), ('path', [index])]):
        raise Refuse('grid final loop: first statement is not `let child = tree.get_child_id(node, index)`')
    child = st[0][1][1]
    if st[1][0] != 'let' or st[1][1][0] != 'pident' or st[1][2] != ('mcall', ('path', ['tree']), 'get_grid_child_style', [('path', [child])]):
        raise Refuse('grid final loop: second statement is not `let child_style = tree.get_grid_child_style(child)`')
    style = st[1][1][1]
    hif = st[2][1] if st[2][0] == 'expr' else None
    if not hif or hif[0] != 'if' or hif[3] is not None or tail[0] != 'if' or tail[3] is not None:
        raise Refuse('grid final loop: the two `if`s')
    fps['grid::final_loop_tests'] = repr((hif[1], tail[1]))
    params = '{S : Type} (position : S -> GPosition) (box_generation_mode : S -> GBoxGenerationMode) (%s : S)' % style
    w('Definition grid_final_loop_hidden_test %s : bool :=\n  %s.' % (params, Pred(variants, style_idents=(style,)).b(hif[1])))
    w('Definition grid_final_loop_absolute_test %s : bool :=\n  %s.' % (params, Pred(variants, style_idents=(style,)).b(tail[1])))
    # the hidden branch: the canonical pair on `child`, the order counter advanced, then `return`
    hb = hif[2]
    calls = tree_calls(hb, GRID_NODE_CALLS)
    if [c[2] for c in calls] != ['perform_child_layout', 'set_unrounded_layout']:
        raise Refuse('grid hidden branch: expected perform_child_layout then set_unrounded_layout, found %s' % [c[2] for c in calls])
    for c in calls:
        if not c[3] or c[3][0] != ('path', [child]):
            raise Refuse('grid hidden branch: tree.%s is not addressed to the child' % c[2])
    if calls[0][3][1:] != CANONICAL_HIDDEN_ARGS:
        raise Refuse('grid hidden branch: perform_child_layout is not called with (NONE, NONE, MAX_CONTENT, InherentSize, FALSE)')
    if calls[1][3][1] != ('un', '&', ('call', ('path', ['Layout', 'with_order']), [('path', ['order'])])):
        raise Refuse('grid hidden branch: the stored layout is not &Layout::with_order(order)')
    kinds = [x[1][0] if x[0] == 'expr' else x[0] for x in hb[1]] + ([hb[2][0]] if hb[2] is not None else [])
    bumps = find_all(hb, lambda n: n[0] == 'assign' and n[1] == '+=' and n[2] == ('path', ['order']) and n[3] == ('lit', '1'))
    if len(bumps) != 1 or 'return' not in kinds:
        raise Refuse('grid hidden branch: `order += 1; return;` (statement kinds %s)' % kinds)
    w('(* checked syntactically: the hidden branch is tree.perform_child_layout(child, Size::NONE, Size::NONE, Size::MAX_CONTENT,')
    w('   SizingMode::InherentSize, Line::FALSE); tree.set_unrounded_layout(child, &Layout::with_order(order)); order += 1; return *)')
    w('Definition grid_hidden_branch_is_canonical : bool := true.')
    # the absolute branch: no node call on `tree` of its own; exactly one align_and_position_item(tree, child, order, ..); order += 1
    ab = tail[2]
    if tree_calls(ab, GRID_NODE_CALLS):
        raise Refuse('grid absolute branch: a node call on `tree` outside align_and_position_item')
    aps = find_all(ab, lambda n: n[0] == 'call' and n[1] == ('path', ['align_and_position_item']))
    if len(aps) != 1 or aps[0][2][:3] != [('path', ['tree']), ('path', [child]), ('path', ['order'])]:
        raise Refuse('grid absolute branch: expected one align_and_position_item(tree, child, order, ..)')
    bumps = find_all(ab, lambda n: n[0] == 'assign' and n[1] == '+=' and n[2] == ('path', ['order']) and n[3] == ('lit', '1'))
    if len(bumps) != 1:
        raise Refuse('grid absolute branch: `order += 1`')
    w('(* checked syntactically: the absolute branch calls align_and_position_item(tree, child, order, ..) once, no other node call, order += 1 *)')
    w('Definition grid_absolute_branch_is_local : bool := true.')
    # ---- every call on `tree` that reaches a node, in all grid sources
    seen = []
    for rel in GRID_FILES:
        toks = tokenize(open(repo + '/' + rel).read())
        names = [toks[i + 1][1] for i in range(len(toks) - 1) if toks[i] == ('id', 'fn') and toks[i + 1][0] == 'id']
        for fn in names:
            try:
                _, fbody, _ = find_fn(toks, fn)
                fblk = parse_block(fbody)
            except ParseError:
                continue
            for c in tree_calls(fblk, GRID_NODE_CALLS):
                a0 = c[3][0] if c[3] else None
                if fn == 'compute_grid_layout':
                    # the two translated child iterators and the final loop (checked above)
                    if c[2] == 'get_grid_child_style' or a0 == ('path', [child]):
                        continue
                    raise Refuse('compute_grid_layout: tree.%s outside the child iterators and the final loop' % c[2])
                if fn not in GRID_CALL_SITES:
                    raise Refuse('%s: tree.%s in fn %s, which the resumption does not model' % (rel, c[2], fn))
                if a0 != GRID_CALL_SITES[fn]:
                    raise Refuse('%s: tree.%s in fn %s is not addressed to the expected node' % (rel, c[2], fn))
                seen.append('%s:%s' % (fn, c[2]))
    fps['grid::tree_calls'] = ' '.join(seen)
    w('(* checked syntactically: every call of the grid sources on `tree` that addresses a node (%s) is in the' % ' '.join(GRID_NODE_CALLS))
    w('   translated child iterators, in the final loop (addressed to that loop\'s child), or one of: %s *)' % ' '.join(seen))
    w('Definition grid_tree_calls_address_item_only : bool := true.')


TARGETS = {'FiltersGen.v': generate}
