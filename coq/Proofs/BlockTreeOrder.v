(* C10 for WHOLE TREES, the theorems: after ANY sequence of PerformLayout passes from a fresh tree of block containers and
   leaves (Model/BlockEngine.v, any preprocessing that keeps the run mode, any absolute-item routine that addresses only its
   item with PerformLayout queries -- in particular the real one, Model/BlockAbs.v abs_child_block), every evaluated block
   container satisfies `flow_fact` (Proofs/BlockTreeFlow.v).  Consequences, stated over the outputs the engine really computed:
     block_tree_fill_width          (any Num) an in-flow child with auto width, no min / max width, no aspect ratio, length margins,
                                    not a table was last laid out with known width = container inner width - margins, and its
                                    stored size is the size it returned
     block_tree_children_stacked    (XQ) under the premises of C10_order_no_overlap -- on the children's styles and on the
                                    outputs they REALLY returned (their final cache entries) -- in-flow children are in document
                                    order without vertical overlap *)
From Coq Require Import List Bool Arith ZArith QArith Lia Lqa Sorted.
From TV Require Import Num.Num Num.QNum Gen.BlockGen Model.Block Model.Engine.
From TV Require Import Model.FiltersBase Gen.FiltersGen Model.ItemFilters Proofs.ItemFiltersBase Proofs.ItemFiltersHiddenBlock Model.BlockAlg Proofs.BlockAlgBlind.
From TV Require Import Model.BlockEngine Model.BlockAbs Model.BlockTreeProps Proofs.EnginePost Proofs.BlockProofs Proofs.BlockTreeFlow.
From TV Require Proofs.LeafAxis.
Import ListNotations.
Close Scope Q_scope.

Section Generic.
  Context {T : Type} `{Num T}.
  Variable pre : BStyle T -> BIn T -> BIn T.
  Variable abs_child : @AbsChild T.
  Hypothesis pre_mode : forall s i, bi_mode (pre s i) = bi_mode i.
  Hypothesis abs_local : AbsChildLocalPL abs_child.

  Notation btree := (Engine.tree (BNode T) (BIn T) (ChildOut T) (BLayout T)).
  Notation style_of := (Engine.style_of (BNode T) (BIn T) (ChildOut T) (BLayout T)).
  Notation lay_of := (Engine.lay_of (BNode T) (BIn T) (ChildOut T) (BLayout T)).
  Notation is_absi a := (position_is_absolute (it_position (ai_item a))).

  (* the invariant *)
  Definition flow_inv : btree -> Prop :=
    TInv (BNode T) (BIn T) (ChildOut T) (BLayout T) bn_is_none (bl_fact bin_eqb pre).

  Lemma flow_inv_fresh k : flow_inv (bl_fresh k).
  Proof. unfold flow_inv, bl_fresh. apply tinv_fresh. Qed.

  Theorem flow_inv_memo f t i o t' : bi_mode i = PerformLayout -> bl_memo pre abs_child f t i = Some (o, t') -> flow_inv t -> flow_inv t'.
  Proof.
    intros Hm Hrun Hinv. unfold flow_inv, bl_memo in *.
    eapply (memo_tinv (BNode T) (BIn T) (ChildOut T) (BLayout T) bi_mode bin_eqb bn_is_none hidden_child_out zero_blay
                      (bl_algo pre abs_child) (bl_fact bin_eqb pre)); [|exact Hrun|exact Hm|exact Hinv].
    intros s st i0 sg Hm0. apply bl_algo_post; assumption.
  Qed.

  Lemma flow_inv_set_lay t l : flow_inv t -> flow_inv (Engine.set_lay _ _ _ _ t l).
  Proof. apply tinv_set_lay. Qed.

  Lemma flow_inv_subtree u t : subtree_of u t -> flow_inv t -> flow_inv u.
  Proof.
    induction 1 as [|s c l kids k Hin Hsub IH]; intros Hinv; [exact Hinv|].
    apply IH. inversion Hinv as [s0 c0 l0 k0 Hk _]; subst. rewrite Forall_forall in Hk. apply Hk. exact Hin.
  Qed.

  (* an evaluated, box-generating node with children: the fact about its children *)
  Lemma flow_inv_node s c l kids i0 o0 :
    flow_inv (Engine.Node _ _ _ _ s c l kids) -> Engine.final _ _ c = Some (i0, o0) -> bn_is_none s = false -> kids <> [] ->
    exists sg, agrees (BNode T) (BIn T) (ChildOut T) (BLayout T) bn_is_none kids sg /\
               flow_fact bin_eqb (bn_style s) (map bn_style (map style_of kids)) (pre (bn_style s) i0) sg o0.
  Proof.
    intros Hinv Hf Hnone Hk. inversion Hinv as [s0 c0 l0 k0 _ Hfact]; subst.
    destruct (Hfact i0 o0 Hf Hnone) as (sg & Hag & Hphi). exists sg. split; [exact Hag|].
    unfold bl_fact in Hphi. destruct kids as [|k1 kids]; [contradiction|]. cbn [map] in *. exact Hphi.
  Qed.

  Lemma combine_nth {A B} (l : list A) (l' : list B) k a b :
    nth_error l k = Some a -> nth_error l' k = Some b -> nth_error (combine l l') k = Some (a, b).
  Proof.
    revert l' k. induction l as [|x l IH]; intros [|y l'] [|k] Ha Hb; cbn in *; try discriminate.
    - injection Ha as ->. injection Hb as ->. reflexivity.
    - apply IH; assumption.
  Qed.
  Lemma nth_error_len {A B} (l : list A) (l' : list B) k a : length l' = length l -> nth_error l k = Some a -> exists b, nth_error l' k = Some b.
  Proof.
    intros Hlen Ha. destruct (nth_error l' k) as [b|] eqn:E; [exists b; reflexivity|].
    apply nth_error_None in E. assert (k < length l) by (apply nth_error_Some; congruence). lia.
  Qed.

  (* the record of the in-flow child at position j of an evaluated container *)
  Lemma kid_record s c l kids i0 o0 j tj :
    flow_inv (Engine.Node _ _ _ _ s c l kids) -> Engine.final _ _ c = Some (i0, o0) -> bn_is_none s = false ->
    nth_error kids j = Some tj -> bn_inflow (style_of tj) = true ->
    let inp := pre (bn_style s) i0 in
    let binp := mkInput (bi_known inp) (bi_parent inp) (bi_collapsible inp) in
    let items := block_alg_items (map bn_style (map style_of kids)) (block_node_inner_size (bn_style s) binp) in
    let P := block_params (bn_style s) binp (s_w (co_size o0)) in
    exists outs k a co r i',
      length outs = length items /\
      nth_error items k = Some a /\ ai_node a = j /\ ai_style a = bn_style (style_of tj) /\ is_absi a = false /\
      nth_error outs k = Some co /\
      nth_error (io_results (block_inflow P (combine (map ai_item items) outs))) k = Some r /\
      ir_inflow r = true /\ ir_size r = co_size co /\
      key_match (BIn T) bin_eqb i' (child_input P (ai_item a)) /\
      lay_of tj = inflow_layout (ai_item a) r co /\ last_entry tj = Some (i', co) /\
      (* ... and the same list `outs` serves every other in-flow child *)
      (forall k2 a2 co2 r2, nth_error items k2 = Some a2 -> nth_error outs k2 = Some co2 ->
         nth_error (io_results (block_inflow P (combine (map ai_item items) outs))) k2 = Some r2 -> is_absi a2 = false ->
         exists t2 i2, nth_error kids (ai_node a2) = Some t2 /\ bn_style (style_of t2) = ai_style a2 /\
                       lay_of t2 = inflow_layout (ai_item a2) r2 co2 /\ last_entry t2 = Some (i2, co2)).
  Proof.
    intros Hinv Hf Hnone Hj Hin. cbv zeta.
    assert (Hk : kids <> []) by (intros ->; destruct j; discriminate).
    destruct (flow_inv_node s c l kids i0 o0 Hinv Hf Hnone Hk) as (sg & Hag & outs & Hlen & Hrecs).
    set (inp := pre (bn_style s) i0) in *. set (binp := mkInput (bi_known inp) (bi_parent inp) (bi_collapsible inp)) in *.
    set (children := map bn_style (map style_of kids)) in *.
    set (items := block_alg_items children (block_node_inner_size (bn_style s) binp)) in *.
    set (P := block_params (bn_style s) binp (s_w (co_size o0))) in *.
    unfold bn_inflow in Hin. apply andb_prop in Hin. destruct Hin as [Hnn Hna].
    apply negb_true_iff in Hnn. apply negb_true_iff in Hna.
    assert (Hcj : nth_error children j = Some (bn_style (style_of tj))).
    { unfold children. rewrite !nth_error_map, Hj. reflexivity. }
    destruct (alg_items_complete children (block_node_inner_size (bn_style s) binp) j _ Hcj Hnn) as (k & a & Hka & Hnode).
    fold items in Hka.
    assert (Hina : In a items) by (eapply nth_error_In; exact Hka).
    destruct (alg_items_sound children _ a Hina) as (Hna' & _ & Hpos).
    rewrite Hnode, Hcj in Hna'. injection Hna' as Esty.
    assert (Habs : is_absi a = false) by (rewrite Hpos, <- Esty; exact Hna).
    destruct (nth_error_len items outs k a Hlen Hka) as [co Hco].
    assert (Hxs : nth_error (combine (map ai_item items) outs) k = Some (ai_item a, co)).
    { apply combine_nth; [rewrite nth_error_map, Hka; reflexivity|exact Hco]. }
    destruct (loop_nth P _ (init_state P) k _ _ Hxs) as [stk Hr]. rewrite <- io_results_eq in Hr.
    destruct (step_passes P stk (ai_item a) co Habs) as (Hrin & _ & _ & Hrsz & _).
    destruct (Hrecs k a co _ Hka Hco Hr Habs) as (i' & Hi' & Hsg).
    assert (Hobs : sg j = obs (BNode T) (BIn T) (ChildOut T) (BLayout T) tj).
    { apply Hag; [exact Hj|]. unfold bn_is_none. exact Hnn. }
    rewrite Hnode, Hobs in Hsg. unfold obs in Hsg. injection Hsg as Hlay Hfin.
    exists outs, k, a, co, (snd (inflow_step P stk (ai_item a) co)), i'.
    repeat match goal with |- _ /\ _ => split end; try assumption; try (symmetry; exact Esty).
    intros k2 a2 co2 r2 Hk2 Ho2 Hr2 Ha2.
    assert (Hin2 : In a2 items) by (eapply nth_error_In; exact Hk2).
    destruct (alg_items_sound children _ a2 Hin2) as (Hn2 & Hnone2 & Hpos2).
    unfold children in Hn2. rewrite !nth_error_map in Hn2.
    destruct (nth_error kids (ai_node a2)) as [t2|] eqn:Et2; [|discriminate]. cbn [option_map] in Hn2. injection Hn2 as Est2.
    destruct (Hrecs k2 a2 co2 r2 Hk2 Ho2 Hr2 Ha2) as (i2 & _ & Hsg2).
    assert (Hobs2 : sg (ai_node a2) = obs (BNode T) (BIn T) (ChildOut T) (BLayout T) t2).
    { apply Hag; [exact Et2|]. unfold bn_is_none. rewrite Est2. exact Hnone2. }
    rewrite Hobs2 in Hsg2. unfold obs in Hsg2. injection Hsg2 as Hlay2 Hfin2.
    exists t2, i2. repeat split; assumption.
  Qed.

  (* ---- clause 2 for whole trees *)
  Theorem block_tree_fill_width s c l kids i0 o0 j tj ml mr :
    flow_inv (Engine.Node _ _ _ _ s c l kids) -> Engine.final _ _ c = Some (i0, o0) -> bn_is_none s = false ->
    nth_error kids j = Some tj -> bn_inflow (style_of tj) = true ->
    let sj := bn_style (style_of tj) in
    st_is_table sj = false -> st_aspect_ratio sj = None ->
    s_w (st_size sj) = Auto -> s_w (st_min_size sj) = Auto -> s_w (st_max_size sj) = Auto ->
    r_left (st_margin sj) = Len ml -> r_right (st_margin sj) = Len mr ->
    let inp := pre (bn_style s) i0 in
    let binp := mkInput (bi_known inp) (bi_parent inp) (bi_collapsible inp) in
    let P := block_params (bn_style s) binp (s_w (co_size o0)) in
    exists i' iq co,
      last_entry tj = Some (i', co) /\ (i' = iq \/ bin_eqb i' iq = true) /\
      bi_mode iq = PerformLayout /\ s_w (bi_known iq) = Some (sub (inner_width P) (add ml mr)) /\
      bl_size (lay_of tj) = co_size co.
  Proof.
    intros Hinv Hf Hnone Hj Hin sj Htab Har Hsz Hmn Hmx Hml Hmr. cbv zeta.
    destruct (kid_record s c l kids i0 o0 j tj Hinv Hf Hnone Hj Hin) as
      (outs & k & a & co & r & i' & _ & Hka & _ & Esty & Habs & _ & _ & _ & Hrsz & Hkey & Hlay & Hlast & _).
    set (inp := pre (bn_style s) i0) in *. set (binp := mkInput (bi_known inp) (bi_parent inp) (bi_collapsible inp)) in *.
    set (P := block_params (bn_style s) binp (s_w (co_size o0))) in *.
    exists i', (child_input P (ai_item a)), co. split; [exact Hlast|]. split; [exact Hkey|]. split; [reflexivity|].
    split; [|rewrite Hlay; cbn [inflow_layout bl_size]; exact Hrsz].
    cbn [child_input bi_known].
    assert (Hit : ai_item a = generate_item (ai_style a) (block_node_inner_size (bn_style s) binp) (it_order (ai_item a))).
    { assert (Hina : In a (block_alg_items (map bn_style (map style_of kids)) (block_node_inner_size (bn_style s) binp)))
        by (eapply nth_error_In; exact Hka).
      rewrite alg_items_nf in Hina. unfold block_nf in Hina. apply in_map_iff in Hina. destruct Hina as [[o [c0 s0]] [E _]].
      cbn [fst snd] in E. subst a. unfold mk_aitem, ai_item, ai_style. cbn [fst snd generate_item it_order]. reflexivity. }
    fold sj in Esty.
    apply fill_width_known.
    - rewrite Hit. cbn [generate_item it_is_table]. rewrite Esty. exact Htab.
    - rewrite Hit. cbn [generate_item it_size]. rewrite Esty. unfold resolve_size_style, maybe_apply_aspect_ratio, size_maybe_resolve.
      rewrite Har, Hsz. reflexivity.
    - rewrite Hit. cbn [generate_item it_min_size]. rewrite Esty. unfold resolve_size_style, maybe_apply_aspect_ratio, size_maybe_resolve.
      rewrite Har, Hmn. reflexivity.
    - rewrite Hit. cbn [generate_item it_max_size]. rewrite Esty. unfold resolve_size_style, maybe_apply_aspect_ratio, size_maybe_resolve.
      rewrite Har, Hmx. reflexivity.
    - rewrite Hit. unfold item_margin. cbn [generate_item it_margin r_left]. rewrite Esty, Hml. reflexivity.
    - rewrite Hit. unfold item_margin. cbn [generate_item it_margin r_right]. rewrite Esty, Hmr. reflexivity.
  Qed.
End Generic.

(* ------------------------------------------------------------------------------------------------------------ *)
(** * Clause 1 for whole trees (exact rationals) *)

Section Order.
  Variable pre : BStyle XQ -> BIn XQ -> BIn XQ.
  Variable abs_child : @AbsChild XQ.
  Hypothesis pre_mode : forall s i, bi_mode (pre s i) = bi_mode i.
  Hypothesis abs_local : AbsChildLocalPL abs_child.

  Notation style_of := (Engine.style_of (BNode XQ) (BIn XQ) (ChildOut XQ) (BLayout XQ)).
  Notation lay_of := (Engine.lay_of (BNode XQ) (BIn XQ) (ChildOut XQ) (BLayout XQ)).
  Notation is_absi a := (position_is_absolute (it_position (ai_item a))).

  Lemma nice_margin_resolved d w : nice_margin d ->
    finite (o_unwrap (lpa_resolve_to_option d w) zero) /\ (0 <= val (o_unwrap (lpa_resolve_to_option d w) zero))%Q.
  Proof.
    destruct d as [v|p|]; cbn; [intros [Hf Hv]; split; assumption|contradiction|intros _; split; [exact I|apply Qle_refl]].
  Qed.

  Lemma finite_len_resolved d c : finite_len d -> finite (lpa_resolve_or_zero d c).
  Proof. destruct d as [v|p|]; cbn; try contradiction. intros Hf. exact Hf. Qed.

  Lemma item_of_style children nis a : In a (block_alg_items children nis) ->
    ai_item a = generate_item (ai_style a) nis (it_order (ai_item a)).
  Proof.
    intros Hina. rewrite alg_items_nf in Hina. unfold block_nf in Hina. apply in_map_iff in Hina. destruct Hina as [[o [c0 s0]] [E _]].
    cbn [fst snd] in E. subst a. unfold mk_aitem, ai_item, ai_style. cbn [fst snd generate_item it_order]. reflexivity.
  Qed.

  Theorem block_tree_children_stacked s c l kids i0 o0 :
    flow_inv pre (Engine.Node _ _ _ _ s c l kids) -> Engine.final _ _ c = Some (i0, o0) -> bn_is_none s = false ->
    top_edge_finite (bn_style s) -> Forall kid_order_ok kids -> kids_stacked kids.
  Proof.
    intros Hinv Hf Hnone [Hpt Hbt] Hkids i j ti tj Hij Hi Hj Hini Hinj.
    destruct (kid_record pre s c l kids i0 o0 i ti Hinv Hf Hnone Hi Hini) as
      (outs & ki & ai & coi & ri & i'i & Hlen & Hkai & Hnodei & _ & _ & Hcoi & Hri & Hrini & _ & _ & Hlayi & _ & Hall).
    destruct (kid_record pre s c l kids i0 o0 j tj Hinv Hf Hnone Hj Hinj) as
      (outs' & kj & aj & coj' & rj' & i'j & _ & Hkaj & Hnodej & _ & Habsj & _ & _ & _ & _ & _ & _ & _ & _).
    set (inp := pre (bn_style s) i0) in *. set (binp := mkInput (bi_known inp) (bi_parent inp) (bi_collapsible inp)) in *.
    set (children := map bn_style (map style_of kids)) in *.
    set (items := block_alg_items children (block_node_inner_size (bn_style s) binp)) in *.
    set (P := block_params (bn_style s) binp (s_w (co_size o0))) in *.
    set (xs := combine (map ai_item items) outs) in *.
    (* the record of j in the SAME run (same `outs`) *)
    destruct (nth_error_len items outs kj aj Hlen Hkaj) as [coj Hcoj].
    assert (Hxsj : nth_error xs kj = Some (ai_item aj, coj)).
    { apply combine_nth; [rewrite nth_error_map, Hkaj; reflexivity|exact Hcoj]. }
    destruct (loop_nth P _ (init_state P) kj _ _ Hxsj) as [stj Hrj]. rewrite <- io_results_eq in Hrj.
    destruct (step_passes P stj (ai_item aj) coj Habsj) as (Hrinj & _).
    destruct (Hall kj aj coj _ Hkaj Hcoj Hrj Habsj) as (t2 & i2 & Ht2 & _ & Hlayj & _).
    rewrite Hnodej, Hj in Ht2. injection Ht2 as <-.
    (* positions strictly increasing: k_i < k_j *)
    assert (Hk : (ki < kj)%nat).
    { apply (ss_nth_mono (map ai_node items) (alg_items_sorted children _) ki kj i j).
      - rewrite nth_error_map, Hkai. cbn. rewrite Hnodei. reflexivity.
      - rewrite nth_error_map, Hkaj. cbn. rewrite Hnodej. reflexivity.
      - exact Hij. }
    rewrite Hlayi, Hlayj. cbn [inflow_layout bl_y bl_size].
    apply (order_no_overlap P xs ki kj); try assumption.
    - (* fin_params *)
      unfold fin_params, P, block_params. cbn [p_rcbi]. unfold rect_add, scrollbar_gutter, rect_resolve_or_zero. cbn [r_top].
      apply LeafAxis.fin_add; [apply LeafAxis.fin_add; apply finite_len_resolved; assumption|exact I].
    - (* every pair of the run meets the premises *)
      apply Forall_forall. intros [it co] Hin. apply In_nth_error in Hin. destruct Hin as [k Hk0].
      assert (Hka : exists a, nth_error items k = Some a /\ ai_item a = it /\ nth_error outs k = Some co).
      { unfold xs in Hk0. clear - Hk0. revert k Hk0. generalize outs. induction items as [|a0 its IH]; intros [|o1 os] [|k] Hk0; cbn in *; try discriminate.
        - injection Hk0 as <- <-. exists a0. repeat split; reflexivity.
        - apply IH. exact Hk0. }
      destruct Hka as (a & Hka & <- & Hko). unfold nonneg_ok. cbn [fst snd].
      destruct (is_absi a) eqn:Ea; [left; reflexivity|right]. split; [reflexivity|].
      destruct (loop_nth P _ (init_state P) k _ _ Hk0) as [stk Hrk]. rewrite <- io_results_eq in Hrk.
      destruct (Hall k a co _ Hka Hko Hrk Ea) as (t3 & i3 & Ht2 & Est2 & _ & Hlast2).
      assert (Hina : In a items) by (eapply nth_error_In; exact Hka).
      destruct (alg_items_sound children _ a Hina) as (_ & Hnn & Hpos).
      assert (Hok : kid_order_ok t3) by (rewrite Forall_forall in Hkids; apply Hkids; eapply nth_error_In; exact Ht2).
      assert (Hinf : bn_inflow (style_of t3) = true).
      { unfold bn_inflow. rewrite Est2. rewrite Hnn. rewrite <- Hpos, Ea. reflexivity. }
      destruct (Hok Hinf) as [(Hmt & Hmb & Hit & Hib) Hout]. destruct (Hout i3 co Hlast2) as (Fh & Nh & Ft & Fb & Nt & Nb & Hct).
      rewrite Est2 in Hmt, Hmb, Hit, Hib.
      pose proof (item_of_style children _ a Hina) as Eit.
      assert (Emt : item_mt P (ai_item a) = o_unwrap (lpa_resolve_to_option (r_top (st_margin (ai_style a))) (p_outer_width P)) zero).
      { unfold item_mt, item_margin. rewrite Eit. cbn [generate_item it_margin r_top]. reflexivity. }
      assert (Emb : item_mb P (ai_item a) = o_unwrap (lpa_resolve_to_option (r_bottom (st_margin (ai_style a))) (p_outer_width P)) zero).
      { unfold item_mb, item_margin. rewrite Eit. cbn [generate_item it_margin r_bottom]. reflexivity. }
      assert (Eoff : item_off_y (ai_item a) = zero).
      { unfold item_off_y. rewrite Eit. cbn [generate_item it_inset]. rewrite Hit, Hib. reflexivity. }
      destruct (nice_margin_resolved _ (p_outer_width P) Hmt) as [Fmt Nmt]. destruct (nice_margin_resolved _ (p_outer_width P) Hmb) as [Fmb Nmb].
      split; [|split].
      + constructor; try assumption; [rewrite Emt; exact Fmt|rewrite Emb; exact Fmb|rewrite Eoff; exact I].
      + constructor; try assumption; [rewrite Emt; exact Nmt|rewrite Emb; exact Nmb|rewrite Eoff; cbn; reflexivity].
      + exact Hct.
  Qed.
End Order.
