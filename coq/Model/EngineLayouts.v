(* Engine skeleton, stored layouts: the cache-free LAYOUT-WRITING evaluation [plain_l] (what a pass over a tree
   without any cache entry does to the stored layouts), the interface hypotheses under which the stored layouts
   are history independent, and the coherence invariant [Coh] that ties the final-layout cache entries of a tree
   to the layouts stored below them.  Definitions only; theorems are in Proofs/EngineLayouts*.v.

   Companion of Model/Engine.v: [plain] there returns the OUTPUT of the cache-free evaluation of a skeleton,
   [plain_l] here additionally threads the stored layouts through (SetLayout writes a child's own layout,
   a display:none node / a hidden-mode input zeroes the whole subtree, exactly as [memo] does on a miss). *)
From Coq Require Import List Bool Arith Lia.
From TV Require Import Model.Engine.
Import ListNotations.

Section EngineLayouts.
  Variables (S In Out Lay : Type).
  Variable mode : In -> RunMode.
  Variable is_none : S -> bool.
  Variable hidden_out : Out.
  Variable zero_lay : Lay.
  Variable algo : S -> list S -> In -> Alg In Out Lay.

  (* ---- a tree without caches: style and stored layout of every node ---- *)
  Inductive st := STNode (s : S) (l : Lay) (kids : list st).
  Definition sstyle (x : st) : S := match x with STNode s _ _ => s end.
  Definition slay (x : st) : Lay := match x with STNode _ l _ => l end.
  Definition skids (x : st) : list st := match x with STNode _ _ k => k end.
  Definition sset (x : st) (l : Lay) : st := match x with STNode s _ k => STNode s l k end.

  (* forget the caches of a concrete tree *)
  Fixpoint strip (t : tree S In Out Lay) : st :=
    match t with Node _ _ _ _ s _ l kids => STNode s l (map strip kids) end.
  (* forget the layouts *)
  Fixpoint sk_of (x : st) : sk S := match x with STNode s _ kids => SNode S s (map sk_of kids) end.
  (* what compute_hidden_layout leaves: every stored layout of the subtree zero *)
  Fixpoint szero (x : st) : st := match x with STNode s _ kids => STNode s zero_lay (map szero kids) end.

  (* ---- cache-free evaluation that also writes layouts (mirrors run_memo / memo of Model/Engine.v) ---- *)
  Fixpoint run_plain_l (ev : st -> In -> option (Out * st)) (kids : list st) (a : Alg In Out Lay)
    : option (Out * list st) :=
    match a with
    | Ret _ _ _ o => Some (o, kids)
    | Query _ _ _ c i k =>
        match nth_error kids c with
        | Some x =>
            match ev x i with
            | Some (o, x') => run_plain_l ev (replace_nth c x' kids) (k o)
            | None => None
            end
        | None => None
        end
    | SetLayout _ _ _ c l k =>
        match nth_error kids c with
        | Some x => run_plain_l ev (replace_nth c (sset x l) kids) k
        | None => None
        end
    end.

  Fixpoint plain_l (fuel : nat) (x : st) (i : In) : option (Out * st) :=
    match fuel with
    | O => None
    | Datatypes.S f =>
        match x with
        | STNode s l kids =>
            match mode i with
            | PerformHiddenLayout => Some (hidden_out, szero x)
            | _ => if is_none s then Some (hidden_out, szero x)
                   else match run_plain_l (plain_l f) kids (algo s (map sstyle kids) i) with
                        | Some (o, kids') => Some (o, STNode s l kids')
                        | None => None
                        end
            end
        end
    end.

  (* ---- interface hypotheses on the algorithms (beside WFAlg / Visits of Proofs/EngineDirty.v and SizeOnly of
          Proofs/EngineNoScribble.v) ---- *)

  (* which child positions hold a display:none child *)
  Definition nones (sts : list S) (c : nat) : bool :=
    match nth_error sts c with Some s => is_none s | None => false end.

  (* HQ: a display:none child is never asked for its size (it only ever receives PerformLayout queries: the
     "hidden layout on hidden children" loops of the three container algorithms) *)
  Inductive NoHiddenSize (none : nat -> bool) : Alg In Out Lay -> Prop :=
  | NHS_ret o : NoHiddenSize none (Ret In Out Lay o)
  | NHS_query c i k :
      (mode i = ComputeSize -> none c = false) -> (forall o, NoHiddenSize none (k o)) ->
      NoHiddenSize none (Query In Out Lay c i k)
  | NHS_set c l k : NoHiddenSize none k -> NoHiddenSize none (SetLayout In Out Lay c l k).

  (* H3: [SetsLast none pending a]: on every path through the resumption each child in [pending] gets its layout
     stored (SetLayout) before the algorithm returns, and a display:none child is not queried again after its last
     SetLayout (a query makes it pending again): a miss on a display:none child zeroes its stored layout, a hit does not *)
  Inductive SetsLast (none : nat -> bool) : list nat -> Alg In Out Lay -> Prop :=
  | SL_ret o : SetsLast none [] (Ret In Out Lay o)
  | SL_query pending c i k :
      (forall o, SetsLast none (if none c then c :: pending else pending) (k o)) ->
      SetsLast none pending (Query In Out Lay c i k)
  | SL_set pending c l k :
      SetsLast none (remove Nat.eq_dec c pending) k -> SetsLast none pending (SetLayout In Out Lay c l k).

  (* ---- coherence of final-layout entries with the layouts stored below them ----
     a node holding a final-layout entry (j, o): the cache-free evaluation of the node with input j returns o and
     leaves the subtrees of its children (layouts) as they are; recursively *)
  Inductive Coh : tree S In Out Lay -> Prop :=
  | Coh_node s c l kids :
      (forall j o, final In Out c = Some (j, o) ->
         exists g r, plain_l g (STNode s l (map strip kids)) j = Some (o, r) /\ skids r = map strip kids) ->
      Forall Coh kids -> Coh (Node S In Out Lay s c l kids).
End EngineLayouts.
