(* C04 -- uniform scaling of the inputs of the flexbox main-axis kernel (Model/Flex.v: resolve_flexible_lengths,
   distribute_remaining_free_space, line_positions), over the exact instance XQ.  Definitions only.
   Lengths of a FlexItem: flex basis, inner flex basis, hypothetical inner / outer size, resolved minimum, max size,
   margins, inset, target sizes, violation, offset.  Dimensionless: flex_grow, flex_shrink.  Booleans (auto margins,
   frozen) are copied.  The relation `item_rel k c c'` says c' is c scaled by k up to the equality of rationals. *)
From Coq Require Import QArith List Bool ZArith.
From TV Require Import Num.Num Num.QNum Gen.FlexGen Model.Flex.
From TV Require Export Model.ScaleBase.
Import ListNotations.

Definition item_scale (k : Q) (c : FlexItem XQ) : FlexItem XQ :=
  mkItem (x_scale k (fi_basis c)) (x_scale k (fi_inner_basis c)) (x_scale k (fi_hyp_inner c)) (x_scale k (fi_hyp_outer c))
         (x_scale k (fi_min c)) (opt_scale k (fi_max c)) (fi_grow c) (fi_shrink c)
         (x_scale k (fi_margin_start c)) (x_scale k (fi_margin_end c)) (fi_margin_start_auto c) (fi_margin_end_auto c)
         (x_scale k (fi_inset c)) (fi_frozen c) (x_scale k (fi_target c)) (x_scale k (fi_outer_target c))
         (x_scale k (fi_violation c)) (x_scale k (fi_offset c)).

Definition item_rel (k : Q) (c c' : FlexItem XQ) : Prop :=
  sc k (fi_basis c) (fi_basis c') /\ sc k (fi_inner_basis c) (fi_inner_basis c') /\
  sc k (fi_hyp_inner c) (fi_hyp_inner c') /\ sc k (fi_hyp_outer c) (fi_hyp_outer c') /\
  sc k (fi_min c) (fi_min c') /\ op_rel (sc k) (fi_max c) (fi_max c') /\
  dl (fi_grow c) (fi_grow c') /\ dl (fi_shrink c) (fi_shrink c') /\
  sc k (fi_margin_start c) (fi_margin_start c') /\ sc k (fi_margin_end c) (fi_margin_end c') /\
  fi_margin_start_auto c' = fi_margin_start_auto c /\ fi_margin_end_auto c' = fi_margin_end_auto c /\
  sc k (fi_inset c) (fi_inset c') /\ fi_frozen c' = fi_frozen c /\
  sc k (fi_target c) (fi_target c') /\ sc k (fi_outer_target c) (fi_outer_target c') /\
  sc k (fi_violation c) (fi_violation c') /\ sc k (fi_offset c) (fi_offset c').

Definition items_rel (k : Q) : list (FlexItem XQ) -> list (FlexItem XQ) -> Prop := Forall2 (item_rel k).

(* the loop context of resolve_flexible_lengths: gap total, container inner main size, used flex factor, initial free
   space are lengths; growing / shrinking are equal *)
Definition ctx_rel (k : Q) (c c' : LoopCtx XQ) : Prop :=
  sc k (lc_total_gap c) (lc_total_gap c') /\ op_rel (sc k) (lc_inner_main c) (lc_inner_main c') /\
  sc k (lc_used_flex_factor c) (lc_used_flex_factor c') /\ sc k (lc_initial_free c) (lc_initial_free c') /\
  lc_growing c' = lc_growing c /\ lc_shrinking c' = lc_shrinking c.

(* (item, size.main returned by perform_child_layout): the child's size is an oracle value, scaled too *)
Definition placed_rel (k : Q) (p p' : FlexItem XQ * XQ) : Prop := item_rel k (fst p) (fst p') /\ sc k (snd p) (snd p').
Definition placed_scale (k : Q) (p : FlexItem XQ * XQ) : FlexItem XQ * XQ := (item_scale k (fst p), x_scale k (snd p)).
