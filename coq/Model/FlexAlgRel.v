(* Relations on the vocabulary of the flexbox resumption (Model/FlexAlg.v, Model/FlexAlgBase.v) over the exact instance XQ, extending
   Model/Scale.v (leaf records), Model/ScaleFlex.v (the main-axis kernel item) and Model/ScaleAbs.v (the absolute kernel).
   Definitions only.  `X_rel k x x'` = x' is x with every length scaled by k, up to the equality of rationals; at k = 1 it is "equal as
   numbers", the reading C12 uses.

     fstyle_rel k          every length of the Style scaled (C04)
     fstyle_wrel k         what the FLEX algorithm reads of a style (its own or a child's): every field except box_sizing / size / min_size /
                           max_size / flex_basis / padding / border / margin / aspect_ratio, and those only through the resolutions the
                           algorithm performs (compute_flexbox_layout's known dimensions, compute_constants, generate_anonymous_flex_items'
                           child_info, determine_flex_base_size's flex-basis, determine_used_cross_size's max_size, the absolute pass's
                           flex_resolve).  fstyle_rel k implies it (Proofs/FlexStyleRel.v); so does the content-box -> border-box rewrite of
                           an eligible style at k = 1 (Proofs/FlexBoxSizing.v)
     fin_rel / flay_rel    LayoutInput / stored Layout; the output relation is Model/Scale.v output_rel (all six fields)
     kconst_rel, ci_rel, benv_rel, cross_rel, cff_rel, witem_rel      the algorithm's intermediate records *)
From Coq Require Import QArith ZArith Bool List.
From TV Require Import Num.Num Num.QNum Model.Common Model.Leaf Gen.FlexGen Model.Flex Model.FlexLines Model.FlexBase Model.FlexContainer.
From TV Require Import Model.FiltersBase Gen.FiltersGen Model.ItemFilters Model.FlexAlgBase Model.FlexAlgAbs Model.FlexAlg Model.FlexAlgT.
From TV Require Import Model.Scale Model.ScaleFlex Model.Engine Model.EngineRel.
From TV Require Model.AbsPosBase Gen.AbsPosGen Model.ScaleAbs.
Import ListNotations.
Close Scope Z_scope.

(* ------------------------------------------------------------------------------------------------ interface records *)

Definition fstyle_rel (k : Q) (s s' : FStyle XQ) : Prop :=
  style_rel k (fs_core s) (fs_core s') /\ rc_rel (lpa_rel k) (fs_inset s) (fs_inset s') /\
  fs_row s' = fs_row s /\ fs_reverse s' = fs_reverse s /\ fs_wrap s' = fs_wrap s /\ fs_wrap_reverse s' = fs_wrap_reverse s /\
  fs_align_items s' = fs_align_items s /\ fs_align_self s' = fs_align_self s /\ fs_align_content s' = fs_align_content s /\
  fs_justify_content s' = fs_justify_content s /\ sz_rel (lp_rel k) (fs_gap s) (fs_gap s') /\
  lpa_rel k (fs_flex_basis s) (fs_flex_basis s') /\ dl (fs_grow s) (fs_grow s') /\ dl (fs_shrink s) (fs_shrink s').
Definition fstyle_scale (k : Q) (s : FStyle XQ) : FStyle XQ :=
  mkFStyle (style_scale k (fs_core s)) (rect_map (lpa_scale k) (fs_inset s)) (fs_row s) (fs_reverse s) (fs_wrap s) (fs_wrap_reverse s)
           (fs_align_items s) (fs_align_self s) (fs_align_content s) (fs_justify_content s) (size_map (lp_scale k) (fs_gap s))
           (dim_scale k (fs_flex_basis s)) (fs_grow s) (fs_shrink s).

Definition fin_rel (k : Q) (i i' : FIn XQ) : Prop :=
  qi_mode i' = qi_mode i /\ qi_sizing i' = qi_sizing i /\ qi_axis i' = qi_axis i /\
  sz_rel (op_rel (sc k)) (qi_known i) (qi_known i') /\ sz_rel (op_rel (sc k)) (qi_parent i) (qi_parent i') /\
  sz_rel (av_rel (sc k)) (qi_avail i) (qi_avail i') /\ qi_collapsible i' = qi_collapsible i.
Definition fin_scale (k : Q) (i : FIn XQ) : FIn XQ :=
  mkFIn (qi_mode i) (qi_sizing i) (qi_axis i) (osize_scale k (qi_known i)) (osize_scale k (qi_parent i)) (savail_scale k (qi_avail i))
        (qi_collapsible i).

Definition flay_rel (k : Q) (l l' : FLay XQ) : Prop :=
  fl_order l' = fl_order l /\ pt_rel (sc k) (fl_location l) (fl_location l') /\ sz_rel (sc k) (fl_size l) (fl_size l') /\
  sz_rel (sc k) (fl_content_size l) (fl_content_size l') /\ sz_rel (sc k) (fl_scrollbar_size l) (fl_scrollbar_size l') /\
  rc_rel (sc k) (fl_border l) (fl_border l') /\ rc_rel (sc k) (fl_padding l) (fl_padding l') /\ rc_rel (sc k) (fl_margin l) (fl_margin l').
Definition flay_scale (k : Q) (l : FLay XQ) : FLay XQ :=
  mkFLay (fl_order l) (point_scale k (fl_location l)) (size_scale k (fl_size l)) (size_scale k (fl_content_size l))
         (size_scale k (fl_scrollbar_size l)) (rect_scale k (fl_border l)) (rect_scale k (fl_padding l)) (rect_scale k (fl_margin l)).

(* ------------------------------------------------------------------------------------------------ the algorithm's records *)

Definition kconst_rel (k : Q) (c c' : Constants XQ) : Prop :=
  k_row c' = k_row c /\ k_reverse c' = k_reverse c /\ k_wrap c' = k_wrap c /\ k_wrap_reverse c' = k_wrap_reverse c /\
  sz_rel (op_rel (sc k)) (k_min c) (k_min c') /\ sz_rel (op_rel (sc k)) (k_max c) (k_max c') /\
  rc_rel (sc k) (k_margin c) (k_margin c') /\ rc_rel (sc k) (k_border c) (k_border c') /\ sz_rel (sc k) (k_gap c) (k_gap c') /\
  rc_rel (sc k) (k_inset c) (k_inset c') /\ k_align_items c' = k_align_items c /\ k_align_content c' = k_align_content c /\
  k_justify c' = k_justify c /\ sz_rel (op_rel (sc k)) (k_outer c) (k_outer c') /\ sz_rel (op_rel (sc k)) (k_inner c) (k_inner c').

Definition ci_rel (k : Q) (c c' : ChildInfo XQ) : Prop :=
  sz_rel (op_rel (sc k)) (ci_size c) (ci_size c') /\ sz_rel (op_rel (sc k)) (ci_min c) (ci_min c') /\
  sz_rel (op_rel (sc k)) (ci_max c) (ci_max c') /\ rc_rel (sc k) (ci_margin c) (ci_margin c') /\
  ci_margin_auto c' = ci_margin_auto c /\ rc_rel (sc k) (ci_padding c) (ci_padding c') /\ rc_rel (sc k) (ci_border c) (ci_border c') /\
  ci_align c' = ci_align c.

Definition benv_rel (k : Q) (e e' : BaseEnv XQ) : Prop :=
  av_rel (sc k) (be_cross_avail e) (be_cross_avail e') /\ sz_rel (op_rel (sc k)) (be_known e) (be_known e') /\
  sz_rel (op_rel (sc k)) (be_parent e) (be_parent e') /\ op_rel (sc k) (be_style_basis e) (be_style_basis e').

Definition cross_rel (k : Q) (x x' : Cross XQ) : Prop :=
  sc k (x_hyp_inner x) (x_hyp_inner x') /\ sc k (x_hyp_outer x) (x_hyp_outer x') /\ sc k (x_target x) (x_target x') /\
  sc k (x_outer_target x) (x_outer_target x') /\ sc k (x_margin_start x) (x_margin_start x') /\
  sc k (x_margin_end x) (x_margin_end x') /\ sc k (x_offset x) (x_offset x').

(* content_flex_fraction: a LENGTH when the content contribution exceeds the flex basis (diff / max(1, flex_grow)), a PURE NUMBER when it
   is below (diff / max(floor, flex_shrink * inner_flex_basis): length / length); never of the wrong sign for its kind *)
Definition cff_rel (k : Q) (c c' : XQ) : Prop :=
  (sc k c c' /\ ltb c zero = false) \/ (dl c c' /\ gtb c zero = false).

Definition ans_rel (k : Q) (a a' : @Ans XQ) : Prop := sz_rel (sc k) (fst a) (fst a') /\ op_rel (sc k) (snd a) (snd a').

(* what the flex algorithm reads of a style, up to scaling *)
(* `r`: the flex direction (is_row) of the container that reads the style as one of its CHILDREN's -- only the flex-basis resolution
   depends on it (the box-sizing adjustment of flex_basis is the MAIN-axis component of padding + border) *)
Definition fstyle_wrel (k : Q) (r : bool) (s s' : FStyle XQ) : Prop :=
  display (fs_core s') = display (fs_core s) /\ position (fs_core s') = position (fs_core s) /\
  overflow (fs_core s') = overflow (fs_core s) /\ sc k (scrollbar_width (fs_core s)) (scrollbar_width (fs_core s')) /\
  rc_rel (lpa_rel k) (fs_inset s) (fs_inset s') /\
  fs_row s' = fs_row s /\ fs_reverse s' = fs_reverse s /\ fs_wrap s' = fs_wrap s /\ fs_wrap_reverse s' = fs_wrap_reverse s /\
  fs_align_items s' = fs_align_items s /\ fs_align_self s' = fs_align_self s /\ fs_align_content s' = fs_align_content s /\
  fs_justify_content s' = fs_justify_content s /\ sz_rel (lp_rel k) (fs_gap s) (fs_gap s') /\
  dl (fs_grow s) (fs_grow s') /\ dl (fs_shrink s) (fs_shrink s') /\
  (* compute_flexbox_layout: the container's own size / min_size / max_size *)
  (forall kd kd' ps ps' sm, sz_rel (op_rel (sc k)) kd kd' -> sz_rel (op_rel (sc k)) ps ps' ->
     sz_rel (op_rel (sc k)) (styled_known_dimensions (to_cstyle s) kd ps sm) (styled_known_dimensions (to_cstyle s') kd' ps' sm)) /\
  (* compute_constants: min_size / max_size, margin / padding / border / gap *)
  (forall kd kd' ps ps', sz_rel (op_rel (sc k)) kd kd' -> sz_rel (op_rel (sc k)) ps ps' ->
     kconst_rel k (flex_constants s kd ps) (flex_constants s' kd' ps')) /\
  (* generate_anonymous_flex_items: a child's size / min_size / max_size / margin / padding / border *)
  (forall c c', kconst_rel k c c' -> ci_rel k (child_info c (to_child s)) (child_info c' (to_child s'))) /\
  (* determine_flex_base_size: a child's flex_basis *)
  (forall c c' av av' ci ci', k_row c = r -> kconst_rel k c c' -> sz_rel (av_rel (sc k)) av av' -> ci_rel k ci ci' ->
     benv_rel k (base_env c av (to_child s) ci) (base_env c' av' (to_child s') ci')) /\
  (* determine_used_cross_size: `size.cross.is_auto()`, max_size ignoring the aspect ratio *)
  (forall c c' lc lc' ci ci' fi fi' h h', kconst_rel k c c' -> sc k lc lc' -> ci_rel k ci ci' -> sc k h h' ->
     sc k (used_cross_size c lc (mkWork (to_child s) ci fi) h) (used_cross_size c' lc' (mkWork (to_child s') ci' fi') h')) /\
  (* perform_absolute_layout_on_absolute_children: the translated resolution of an absolute child's style *)
  (forall ac ac', ScaleAbs.flexc_rel k ac ac' ->
     ScaleAbs.absin_rel k (AbsPosGen.flex_resolve ac (abs_style s)) (AbsPosGen.flex_resolve ac' (abs_style s'))).

Section Items.
  Variable k : Q.
  Variable SR : FStyle XQ -> FStyle XQ -> Prop.           (* the relation between the styles of the two trees *)

  Definition witem_rel (w w' : @WItem XQ) : Prop :=
    w_node w' = w_node w /\ SR (w_style w) (w_style w') /\ ci_rel k (w_ci w) (w_ci w') /\ w_baseline_align w' = w_baseline_align w /\
    rc_rel (op_rel (sc k)) (w_inset w) (w_inset w') /\ item_rel k (w_fi w) (w_fi w') /\ cff_rel k (w_cff w) (w_cff w') /\
    cross_rel k (w_x w) (w_x w') /\ sc k (w_baseline w) (w_baseline w') /\ w_ask_baseline w' = w_ask_baseline w.
End Items.

(* ------------------------------------------------------------------------------------------------ running a resumption *)

(* a resumption fed by an oracle (child, input) -> output; the stored layouts are collected.  Used to REFUTE AlgRel: related
   resumptions fed by related oracles give related results (Proofs/FlexAlgRel.v alg_run_rel) *)
Section Run.
  Variables (In Out Lay : Type).
  Fixpoint alg_run (fuel : nat) (oracle : nat -> In -> Out) (a : Alg In Out Lay) : option (Out * list (nat * Lay)) :=
    match fuel with
    | O => None
    | S f =>
        match a with
        | Ret _ _ _ o => Some (o, [])
        | Query _ _ _ c i k => alg_run f oracle (k (oracle c i))
        | SetLayout _ _ _ c l k =>
            match alg_run f oracle k with Some (o, ls) => Some (o, (c, l) :: ls) | None => None end
        end
    end.
End Run.
