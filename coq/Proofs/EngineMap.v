(* Two instances of the engine skeleton (Model/Engine.v `memo`) over DIFFERENT style types whose algorithms agree through an embedding
   g : S1 -> S2 of the styles on the nodes of a class P (own style, children's styles) evaluate trees of that class in lockstep:
   same result, and the resulting tree of the second is the image of the resulting tree of the first (caches, stored layouts).
   The key functions only need to agree pointwise.  Used by Proofs/BlockFlexTaffy.v to tie Model/BlockFlexK.v to Model/TaffyEngine.v. *)
From Coq Require Import List Bool Arith Lia.
From TV Require Import Model.Engine Model.BlockFlexTaffy.
Import ListNotations.

Section EngineMap.
  Variables (S1 S2 In Out Lay : Type).
  Variable mode : In -> RunMode.
  Variables keq1 keq2 : In -> In -> bool.
  Variable none1 : S1 -> bool.
  Variable none2 : S2 -> bool.
  Variable hidden_out : Out.
  Variable zero_lay : Lay.
  Variable algo1 : S1 -> list S1 -> In -> Alg In Out Lay.
  Variable algo2 : S2 -> list S2 -> In -> Alg In Out Lay.
  Variable g : S1 -> S2.
  Variable P : S1 -> list S1 -> Prop.
  Hypothesis Hkey : forall a b, keq1 a b = keq2 a b.
  Hypothesis Hnone : forall s, none2 (g s) = none1 s.
  Hypothesis Halg : forall s st i, P s st -> none1 s = false -> algo2 (g s) (map g st) i = algo1 s st i.

  Notation tree1 := (tree S1 In Out Lay).
  Notation tree2 := (tree S2 In Out Lay).
  Notation tm := (tree_map S1 S2 In Out Lay g).
  Notation memo1 := (memo S1 In Out Lay mode keq1 none1 hidden_out zero_lay algo1).
  Notation memo2 := (memo S2 In Out Lay mode keq2 none2 hidden_out zero_lay algo2).
  Notation skel1 := (skel S1 In Out Lay).
  Notation good := (sk_good S1 P).

  Definition res_map (r : option (Out * tree1)) : option (Out * tree2) :=
    match r with Some (o, t) => Some (o, tm t) | None => None end.
  Definition kres_map (r : option (Out * list tree1)) : option (Out * list tree2) :=
    match r with Some (o, ts) => Some (o, map tm ts) | None => None end.

  Lemma tree1_ind (Q : tree1 -> Prop) :
    (forall s c l kids, Forall Q kids -> Q (Node S1 In Out Lay s c l kids)) -> forall t, Q t.
  Proof.
    intros HN. fix IH 1. intros [s c l kids]. apply HN.
    induction kids as [|k r IHr]; constructor; [apply IH|exact IHr].
  Qed.

  Lemma assoc_ext l i : assoc In Out keq1 l i = assoc In Out keq2 l i.
  Proof. induction l as [|[i' o] r IH]; cbn; [reflexivity|]. rewrite Hkey, IH. reflexivity. Qed.
  Lemma cget_ext c i : cget In Out mode keq1 c i = cget In Out mode keq2 c i.
  Proof.
    unfold cget. destruct (mode i); [|apply assoc_ext|reflexivity].
    destruct (final In Out c) as [[i' o]|]; [rewrite Hkey|]; reflexivity.
  Qed.

  Lemma tm_hide t : tm (hide S1 In Out Lay zero_lay t) = hide S2 In Out Lay zero_lay (tm t).
  Proof.
    induction t as [s c l kids IH] using tree1_ind. cbn. f_equal. rewrite !map_map.
    induction IH as [|k r Hk _ IHr]; cbn; [reflexivity|]. rewrite Hk, IHr. reflexivity.
  Qed.
  Lemma skel_hide1 t : skel1 (hide S1 In Out Lay zero_lay t) = skel1 t.
  Proof.
    induction t as [s c l kids IH] using tree1_ind. cbn. f_equal. rewrite map_map.
    induction IH as [|k r Hk _ IHr]; cbn; [reflexivity|]. rewrite Hk, IHr. reflexivity.
  Qed.
  Lemma tm_style t : style_of S2 In Out Lay (tm t) = g (style_of S1 In Out Lay t).
  Proof. destruct t; reflexivity. Qed.
  Lemma tm_set_lay t l : tm (set_lay S1 In Out Lay t l) = set_lay S2 In Out Lay (tm t) l.
  Proof. destruct t; reflexivity. Qed.
  Lemma skel_set_lay t l : skel1 (set_lay S1 In Out Lay t l) = skel1 t.
  Proof. destruct t; reflexivity. Qed.

  Lemma map_replace_nth {A B} (f : A -> B) n x l : map f (replace_nth n x l) = replace_nth n (f x) (map f l).
  Proof. unfold replace_nth. rewrite map_app, map_cons, firstn_map, skipn_map. reflexivity. Qed.
  Lemma map_replace_nth_same {A B} (f : A -> B) n x y l :
    nth_error l n = Some y -> f x = f y -> map f (replace_nth n x l) = map f l.
  Proof.
    revert l; induction n as [|n IH]; intros [|a l] Hn Hf; try discriminate; cbn in *.
    - injection Hn as ->. unfold replace_nth. cbn. rewrite Hf. reflexivity.
    - unfold replace_nth in *. cbn. f_equal. apply IH; assumption.
  Qed.

  (* the class as a Forall over the children *)
  Lemma good_node s kids : good (SNode S1 s kids) <-> P s (map (sstyle S1) kids) /\ Forall good kids.
  Proof.
    cbn. split; intros [HP Hk]; (split; [exact HP|]); clear HP.
    - induction kids as [|k r IH]; [constructor|]. destruct Hk as [Hk1 Hk2]. constructor; [exact Hk1|apply IH; exact Hk2].
    - induction Hk as [|k r Hk _ IH]; [exact I|split; assumption].
  Qed.
  Lemma map_sstyle_skel (kids : list tree1) : map (sstyle S1) (map skel1 kids) = map (style_of S1 In Out Lay) kids.
  Proof. rewrite map_map. apply map_ext. intros [s c l k]. reflexivity. Qed.

  Definition ev_map (ev1 : tree1 -> In -> option (Out * tree1)) (ev2 : tree2 -> In -> option (Out * tree2)) : Prop :=
    forall t i, good (skel1 t) ->
      ev2 (tm t) i = res_map (ev1 t i) /\ (forall o t', ev1 t i = Some (o, t') -> skel1 t' = skel1 t).

  Lemma run_memo_map ev1 ev2 : ev_map ev1 ev2 ->
    forall a kids, Forall good (map skel1 kids) ->
      run_memo S2 In Out Lay ev2 (map tm kids) a = kres_map (run_memo S1 In Out Lay ev1 kids a)
      /\ (forall o kids', run_memo S1 In Out Lay ev1 kids a = Some (o, kids') -> map skel1 kids' = map skel1 kids).
  Proof.
    intros Hev a. induction a as [o0|c i k IH|c l k IH]; intros kids Hg; cbn.
    - split; [reflexivity|]. intros o kids' E. injection E as _ <-. reflexivity.
    - rewrite nth_error_map. destruct (nth_error kids c) as [t|] eqn:En; cbn; [|split; [reflexivity|discriminate]].
      assert (Hgt : good (skel1 t)).
      { rewrite Forall_forall in Hg. apply Hg. apply in_map. eapply nth_error_In; eauto. }
      destruct (Hev t i Hgt) as [He Hs]. rewrite He.
      destruct (ev1 t i) as [[o1 t1]|] eqn:Ee; cbn; [|split; [reflexivity|discriminate]].
      assert (Hsk : map skel1 (replace_nth c t1 kids) = map skel1 kids).
      { eapply map_replace_nth_same; eauto. }
      rewrite <- map_replace_nth.
      destruct (IH o1 (replace_nth c t1 kids)) as [Hr Hk]; [rewrite Hsk; exact Hg|].
      split; [exact Hr|]. intros o kids' E. rewrite (Hk _ _ E). exact Hsk.
    - rewrite nth_error_map. destruct (nth_error kids c) as [t|] eqn:En; cbn; [|split; [reflexivity|discriminate]].
      assert (Hsk : map skel1 (replace_nth c (set_lay S1 In Out Lay t l) kids) = map skel1 kids).
      { eapply map_replace_nth_same; eauto. apply skel_set_lay. }
      rewrite <- tm_set_lay, <- map_replace_nth.
      destruct (IH (replace_nth c (set_lay S1 In Out Lay t l) kids)) as [Hr Hk]; [rewrite Hsk; exact Hg|].
      split; [exact Hr|]. intros o kids' E. rewrite (Hk _ _ E). exact Hsk.
  Qed.

  Lemma memo_map_aux fuel : ev_map (memo1 fuel) (memo2 fuel).
  Proof.
    induction fuel as [|f IH]; intros [s c l kids] i Hg; [split; [reflexivity|discriminate]|].
    cbn [skel] in Hg. apply good_node in Hg. destruct Hg as [HP Hkids]. rewrite map_sstyle_skel in HP.
    cbn [memo tree_map].
    assert (Hhide : map (hide S2 In Out Lay zero_lay) (map tm kids) = map tm (map (hide S1 In Out Lay zero_lay) kids)).
    { rewrite !map_map. apply map_ext. intros x. symmetry. apply tm_hide. }
    assert (Hskh : map skel1 (map (hide S1 In Out Lay zero_lay) kids) = map skel1 kids).
    { rewrite map_map. apply map_ext. intros x. apply skel_hide1. }
    assert (Hmode_hidden :
      Some (hidden_out, hide S2 In Out Lay zero_lay (Node S2 In Out Lay (g s) c l (map tm kids)))
      = res_map (Some (hidden_out, hide S1 In Out Lay zero_lay (Node S1 In Out Lay s c l kids)))
      /\ (forall o t', Some (hidden_out, hide S1 In Out Lay zero_lay (Node S1 In Out Lay s c l kids)) = Some (o, t') ->
                       skel1 t' = skel1 (Node S1 In Out Lay s c l kids))).
    { split.
      - cbn. rewrite Hhide. reflexivity.
      - intros o t' E. injection E as _ <-. cbn. rewrite Hskh. reflexivity. }
    assert (Hrest :
      match cget In Out mode keq2 c i with
      | Some o => Some (o, Node S2 In Out Lay (g s) c l (map tm kids))
      | None =>
          if none2 (g s) then Some (hidden_out, Node S2 In Out Lay (g s) (cstore In Out mode (cempty In Out) i hidden_out) zero_lay
                                                     (map (hide S2 In Out Lay zero_lay) (map tm kids)))
          else match run_memo S2 In Out Lay (memo2 f) (map tm kids) (algo2 (g s) (map (style_of S2 In Out Lay) (map tm kids)) i) with
               | Some (o, kids') => Some (o, Node S2 In Out Lay (g s) (cstore In Out mode c i o) l kids')
               | None => None
               end
      end
      = res_map
          match cget In Out mode keq1 c i with
          | Some o => Some (o, Node S1 In Out Lay s c l kids)
          | None =>
              if none1 s then Some (hidden_out, Node S1 In Out Lay s (cstore In Out mode (cempty In Out) i hidden_out) zero_lay
                                                     (map (hide S1 In Out Lay zero_lay) kids))
              else match run_memo S1 In Out Lay (memo1 f) kids (algo1 s (map (style_of S1 In Out Lay) kids) i) with
                   | Some (o, kids') => Some (o, Node S1 In Out Lay s (cstore In Out mode c i o) l kids')
                   | None => None
                   end
          end
      /\ (forall o t',
          match cget In Out mode keq1 c i with
          | Some o => Some (o, Node S1 In Out Lay s c l kids)
          | None =>
              if none1 s then Some (hidden_out, Node S1 In Out Lay s (cstore In Out mode (cempty In Out) i hidden_out) zero_lay
                                                     (map (hide S1 In Out Lay zero_lay) kids))
              else match run_memo S1 In Out Lay (memo1 f) kids (algo1 s (map (style_of S1 In Out Lay) kids) i) with
                   | Some (o, kids') => Some (o, Node S1 In Out Lay s (cstore In Out mode c i o) l kids')
                   | None => None
                   end
          end = Some (o, t') -> skel1 t' = skel1 (Node S1 In Out Lay s c l kids))).
    { rewrite <- cget_ext. destruct (cget In Out mode keq1 c i) as [o|].
      - split; [reflexivity|]. intros o' t' E. injection E as _ <-. reflexivity.
      - rewrite Hnone. destruct (none1 s) eqn:En.
        + split; [cbn; rewrite Hhide; reflexivity|]. intros o' t' E. injection E as _ <-. cbn. rewrite Hskh. reflexivity.
        + assert (Hst : map (style_of S2 In Out Lay) (map tm kids) = map g (map (style_of S1 In Out Lay) kids)).
          { rewrite !map_map. apply map_ext. intros x. apply tm_style. }
          rewrite Hst, (Halg _ _ i HP En).
          assert (Hgk : Forall good (map skel1 kids)) by exact Hkids.
          destruct (run_memo_map _ _ IH (algo1 s (map (style_of S1 In Out Lay) kids) i) kids Hgk) as [Hr Hk].
          rewrite Hr. destruct (run_memo S1 In Out Lay (memo1 f) kids _) as [[o kids']|] eqn:Er; cbn.
          * split; [reflexivity|]. intros o' t' E. injection E as _ <-. cbn. rewrite (Hk _ _ eq_refl). reflexivity.
          * split; [reflexivity|discriminate]. }
    destruct (mode i); [exact Hrest|exact Hrest|exact Hmode_hidden].
  Qed.

  (* the engines run in lockstep on every tree (any cache contents, any stored layouts) whose skeleton is in the class *)
  Theorem memo_map fuel t i : good (skel1 t) -> memo2 fuel (tm t) i = res_map (memo1 fuel t i).
  Proof. intros Hg. apply (memo_map_aux fuel t i Hg). Qed.

  Theorem memo_map_skel fuel t i o t' : good (skel1 t) -> memo1 fuel t i = Some (o, t') -> skel1 t' = skel1 t.
  Proof. intros Hg. apply (memo_map_aux fuel t i Hg). Qed.
End EngineMap.
