"""Shared by C05 and C06: the K family `vh c05 cases` (grid containers whose children are mostly display:none / absolute,
with definite lines; same C/R protocol and same model runner Model/PlacementRun.v as `vh c08 cases`) and the parsing of the
metamorphic oracles `vh c05|c06 oracle`."""
import re

from ..common import *
from ..stages import *
from . import _placement as P


def gen_k(binp, seed, n, kind, max_deaths=4):
    """(cases, impl, deaths): a case whose run killed / hung the process gets the result [0] (as a caught panic)."""
    cases, impl, deaths = [], [], []
    start = 0
    while start < n:
        lines, status = P.run_stream('%s c05 cases %d %d %d %d' % (binp, seed, n - start, start, kind), idle_timeout=3.0)
        k = 0
        pending = None
        for line in lines:
            if line.startswith('C '):
                pending = [int(x) for x in line.split()[1:]]
            elif line.startswith('R ') and pending is not None:
                cases.append(pending)
                impl.append([int(x) for x in line.split()[1:]])
                pending = None
                k += 1
        if pending is not None:
            cases.append(pending)
            impl.append([0])
            deaths.append({'case': pending, 'status': status})
            start += k + 1
            if len(deaths) >= max_deaths:
                break
        else:
            if status != 'ok':
                raise RuntimeError('vh c05 cases: %s after %d cases' % (status, start + k))
            start += k
            if k == 0:
                break
    return cases, impl, deaths


def placement_k(rep, pid, binp, seed, n, kind):
    """K: reported track counts and item areas of grid containers with hidden / absolute children vs Model.Placement.
    kind = 1 (display:none) or 2 (absolute): which skipped children make a case count as non-trivial for this property.
    Returns the list of disagreements (case, impl, model)."""
    try:
        cases, impl, deaths = gen_k(binp, seed, n, kind)
        model = P.model_eval(pid, cases)
    except RuntimeError as ex:
        rep.add_broken('correspondence', 'placement K (vh c05 cases)', str(ex)[-1500:])
        return []
    bad = diff_results(rep, 'grid containers with display:none / absolute children (track counts + item areas via detailed_layout_info) '
                            'vs Model.Placement.grid_placement_run', cases, impl, model)
    distinct = set(tuple(c) for c in cases)
    nontrivial = 0
    with_kind = 0
    for c in distinct:
        d = P.decode(list(c))
        ks = [p for k, p in d['children'] if k == kind]
        if ks:
            with_kind += 1
        if any(any(q[0] != 0 for q in p) for p in ks):
            nontrivial += 1
    rep.cov['k_cases'] = len(cases)
    rep.cov['k_cases_with_such_child'] = with_kind
    rep.cov['k_panics_or_deaths'] = sum(1 for a in impl if a == [0])
    rep.cov['distinct_nontrivial'] = nontrivial
    z = list(zip(cases, impl))
    rep.cov['samples'] = [{'case': c, 'described': P.describe(c), 'impl': a} for c, a in z[:2] + z[-2:]]
    return bad


def block_k(rep, pid, binp, seed, trees, p_absolute=300, p_hidden=250):
    """K3: block containers that have display:none / position:absolute children interleaved with in-flow ones (`vh c10 kcases3`:
    C10's K2 protocol on trees with p_absolute / p_hidden per mille absolute / hidden nodes; C06 runs it with absolute children only, C05 with
    hidden children only -- so that a defect of one property does not break the other's K -- and C10 with both): the container's own LayoutOutput (size, collapse-through,
    margin sets) and every in-flow child's stored layout + the known dimensions / available width passed to it, with the recorded
    child outputs as oracle values, vs Model.BlockRun.run_case2 -- i.e. vs generate_item_list + block_inflow + compute_inner's
    decisions, the definitions C06_block_inflow_abs_blind / C05_block_items_ignore_hidden are about."""
    rc, out = vh(binp, ['c10', 'kcases3', seed, trees, p_absolute, p_hidden], timeout=300)
    tags = [l.split()[1:] for l in out.split('\n') if l.startswith('T ')]
    cases, impl = parse_cr(out)
    if rc != 0 or not cases or len(tags) != len(cases):
        rep.add_broken('correspondence', 'vh c10 kcases3', 'harness failed: ' + out[-500:])
        return []
    try:
        model = run_model(pid + 'b', 'From TV Require Import Model.BlockRun.', 'run_case2', cases, scope='Z', elem='list Z')
    except RuntimeError as ex:
        rep.add_broken('correspondence', 'model evaluation (block K3)', str(ex)[-1500:])
        return []
    keep = [i for i, m in enumerate(model) if m != [-1]]
    kinds = []
    for i in keep:
        c = cases[i]
        kinds.append(''.join('H' if c[11 + 57 + 67 * k] == 3 else 'A' if c[11 + 57 + 67 * k + 6] == 1 else 'I' for k in range(c[10])))
    rep.cov['block_k_containers'] = len(keep)
    rep.cov['block_k_skipped_content_based_width'] = len(cases) - len(keep)
    rep.cov['block_k_with_absolute_child'] = sum(1 for s in kinds if 'A' in s)
    rep.cov['block_k_with_hidden_child'] = sum(1 for s in kinds if 'H' in s)
    rep.cov['block_k_with_both'] = sum(1 for s in kinds if 'A' in s and 'H' in s)
    rep.cov['block_k_absolute_between_in_flow'] = sum(1 for s in kinds if re.search('I[AH]*A[AH]*I', s))
    rep.cov['block_k_hidden_between_in_flow'] = sum(1 for s in kinds if re.search('I[AH]*H[AH]*I', s))
    rep.cov['block_k_child_patterns'] = len(set(kinds))
    bad = diff_results(rep, 'block containers with absolute / hidden children interleaved (recorded child outputs) vs Model.BlockRun.run_case2 over F32',
                       [cases[i] for i in keep], [impl[i] for i in keep], [model[i] for i in keep])
    return [(tags[cases.index(c)], c, a, b) for c, a, b in bad]


def parse_oracle(out):
    res = {'fail': [], 'known': [], 'panic': [], 'stat': {}, 'done': None}
    for l in out.split('\n'):
        if l.startswith('FAIL ') or l.startswith('KNOWN '):
            p = l.split(' ', 3)
            m = re.search(r'class=(\w+)', l)
            rec = {'idx': int(p[1]), 'class': m.group(1) if m else '?', 'line': l[:1200]}
            (res['fail'] if l.startswith('FAIL ') else res['known']).append(rec)
        elif l.startswith('PANIC '):
            res['panic'].append(l)
        elif l.startswith('STAT '):
            for kv in l.split()[1:]:
                k, v = kv.split('=')
                res['stat'][k] = int(v)
        elif l.startswith('DONE '):
            res['done'] = [int(x) for x in l.split()[1:]]
    return res


def run_oracle(rep, binp, prop, seed, start, n):
    rc, out = vh(binp, [prop, 'oracle', seed, start, n], timeout=900)
    res = parse_oracle(out)
    if res['done'] is None:
        rep.add_broken('search', 'vh %s oracle' % prop, out[-600:])
        return None
    for p in res['panic'][:3]:
        rep.add_broken('search', 'vh %s oracle: the harness itself panicked' % prop, p)
    return res


def contribution(start, end, e):
    """(min line, max line, span) that compute_grid_size_estimate reads off one axis of a child; placements are (tag, value) with
    tag 0 auto / 1 line / 2 span, as in the case encoding."""
    def oz(p):
        if p[0] == 1:
            if p[1] == 0:
                return (0, 0)
            return (1, p[1] - 1 if p[1] > 0 else p[1] + e + 1)
        return p
    s, t = oz(start), oz(end)
    if s[0] == 1 and t[0] == 1:
        return (s[1], s[1] + 1, 1) if s[1] == t[1] else (min(s[1], t[1]), max(s[1], t[1]), 1)
    if s[0] == 1:
        return (s[1], s[1] + (t[1] if t[0] == 2 else 1), 1)
    if t[0] == 1:
        return (t[1] - (s[1] if s[0] == 2 else 1), t[1], 1)
    if s[0] == 2:
        return (0, 0, s[1])
    if t[0] == 2:
        return (0, 0, t[1])
    return (0, 0, 1)


def harmless(p, ec, er):
    """the complement of the known class C06/grid-estimate-absolute for one child (p = 4 placements: row start/end, col start/end)"""
    for (a, b, e) in ((p[0], p[1], er), (p[2], p[3], ec)):
        mn, mx, sp = contribution(a, b, e)
        if mn < 0 or mx > e or sp < 1 or sp > max(e, 1):
            return False
    return True
