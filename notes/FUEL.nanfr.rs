use taffy::prelude::*;
fn main() {
    let mut t: TaffyTree<()> = TaffyTree::new();
    let child = t.new_leaf(Style { size: Size { width: length(50.0), height: length(20.0) }, ..Default::default() }).unwrap();
    let root = t.new_with_children(Style {
        display: Display::Grid,
        grid_template_columns: vec![fr(f32::NAN)],
        ..Default::default()
    }, &[child]).unwrap();
    eprintln!("start");
    t.compute_layout(root, Size { width: AvailableSpace::MaxContent, height: AvailableSpace::MaxContent }).unwrap();
    eprintln!("done {:?}", t.layout(root).unwrap().size);
}
