"""C04 -- layout is homogeneous under uniform scaling of all lengths (scale factors: powers of two).
P  Props/C04.v over exact rationals, k > 0: the primitive layer (+ - neg max min abs commute, comparisons invariant,
   len * factor, len / count, len / len), every generated MaybeMath / MaybeResolve / aspect-ratio table (Gen/MathGen.v),
   compute_leaf_layout and the one-node root layout (Model/Leaf.v, Model/Root.v), the three absolutely-positioned kernels
   incl. style resolution (Model/AbsPos.v over Gen/AbsPosGen.v); refuted: pixel rounding, is_roughly_equal, the grid
   THRESHOLD comparison, the flex intrinsic main-size step (Model/FlexFraction.v) with its two proved complements.
T  Gen/MathGen.v, Gen/AbsPosGen.v, Gen/RoundingGen.v, Gen/CacheGen.v are regenerated from /repo on every run: the table
   and abspos theorems are about the regenerated terms, so a source edit there re-proves or breaks them.
K  the kernels the theorems are about are tied to the code by the correspondences of C19 (Model/LeafRun.v: one-node trees
   and direct compute_leaf_layout calls) and C11 (Model/AbsPosRun.v), re-run here with a C04-specific seed over F32,
   bit for bit.
S  `vh c04 oracle`: random trees (all displays, measure functions, definite / min- / max-content available space) laid
   out from scratch as generated and with every absolute length multiplied by k in {1/8,1/4,1/2,2,4,16}; every f32 field
   of every node's unrounded layout must equal k * original bit for bit.  Mismatches are classified (harness/src/c04.rs):
   the two known findings (flex intrinsic shrink-factor floor; absolute grid thresholds) are reported as KNOWN-FINDING and
   rate-limited; anything else is a VIOLATION with replay {seed, idx, k}."""
from ..common import *
from ..stages import *

FLEX_ID = 'flex-intrinsic-shrink-factor-floor'
GRID_ID = 'grid-track-threshold-absolute'


def kernel_tie_leaf(rep, binp, seed, n):
    """C19's correspondence (leaf / root kernels of C04_leaf, C04_root_leaf) with our seed."""
    rc, out = vh(binp, ['c19', 'cases', seed, n])
    try:
        cases, impl = parse_cr(out)
    except RuntimeError as ex:
        cases, impl, out = [], [], out + str(ex)
    if rc != 0 or not cases:
        rep.add_broken('correspondence', 'vh c19 cases (leaf kernels)', 'harness failed: ' + out[-500:])
        return [], []
    try:
        with Lock('coq'):
            rcm, outm, _ = coq_make(['Model/LeafRun.vo'])
        if rcm != 0:
            raise RuntimeError(outm[-1500:])
        model = run_model('C04leaf', 'From TV Require Import Model.LeafRun.', 'run_case', cases, scope='Z', elem='list Z')
        bad = diff_results(rep, 'Model.Leaf / Model.Root over F32 vs compute_leaf_layout / one-node TaffyTree', cases, impl, model)
    except RuntimeError as ex:
        rep.add_broken('correspondence', 'model evaluation (leaf kernels)', str(ex)[-1500:])
        bad = []
    return cases, bad


def kernel_tie_abs(rep, binp, seed, n):
    """C11's correspondence (abs_block / abs_flex / abs_grid of C04_abs_*) with our seed."""
    rc, out = vh(binp, ['c11', 'cases', seed, n])
    try:
        cases, impl = parse_cr(out)
    except RuntimeError as ex:
        cases, impl, out = [], [], out + str(ex)
    if rc != 0 or not cases:
        rep.add_broken('correspondence', 'vh c11 cases (abspos kernels)', 'harness failed: ' + out[-500:])
        return [], []
    try:
        with Lock('coq'):
            rcm, outm, _ = coq_make(['Model/AbsPosRun.vo'])
        if rcm != 0:
            raise RuntimeError(outm[-1500:])
        model = run_model('C04abs', 'From TV Require Import Model.AbsPosRun.', 'run_case', [c + r[8:] for c, r in zip(cases, impl)],
                          scope='Z', elem='list Z')
        bad = diff_results(rep, 'Model.AbsPos.abs_{block,flex,grid}_style over F32 vs the implementation', cases, [r[:8] for r in impl], model)
    except RuntimeError as ex:
        rep.add_broken('correspondence', 'model evaluation (abspos kernels)', str(ex)[-1500:])
        bad = []
    return cases, bad


def parse_fail(line):
    """FAIL <idx> k=<k> class=<c> node=.. field=.. orig=.. scaled=.. expected=.. ..."""
    p = line.split()
    d = {'idx': int(p[1])}
    for kv in p[2:]:
        if '=' in kv:
            a, b = kv.split('=', 1)
            d[a] = b
    d['text'] = line[5:]
    return d


def run(rep, tier, seed, replay=None):
    trusted = [
        'hand models Model/Leaf.v, Model/Root.v, Model/Common.v, Model/AbsPos.v, Model/AbsPosBase.v: tied to the source by the C19 / C11 '
        'correspondences (re-run here) and fingerprints; Model/FlexFraction.v (12 lines of determine_container_main_size): tied by the '
        'replayed witnesses only',
        'theorems are over exact rationals (XQ); that scaling by a power of two is exact in binary32 away from overflow/underflow is '
        'not proved here (the oracle compares bit for bit and observes it)',
        'measure functions are pure and homogeneous (premise measure_homog; holds for the three measure functions of the harness)',
        'the flex / grid / block container algorithms as wholes, the cache and pixel rounding are outside the proved kernels: covered by '
        'the implementation-side oracle only',
        'classification of oracle mismatches into the two known findings is decided on the style tree (over-approximation, rate-limited)']
    res, changed = proof_stage(rep, 'C04', extra_trusted=trusted)
    if not res['compiled'] and 'Error' not in res.get('output', ''):
        log('[C04] proof build stopped without a Coq error; retrying once')
        rep.broken = [b for b in rep.broken if b['kind'] != 'proof']
        res, changed = proof_stage(rep, 'C04', extra_trusted=trusted)
    rc, out, binp, dt = build_harness('release')
    if rc != 0:
        rep.add_broken('build', 'harness', out[-1500:])
        return
    mine = [c for c in changed if c.startswith('gen_math:') or c.startswith('gen_abspos')]
    rep.cov['fingerprints_changed'] = mine
    big = tier == 'thorough' or bool(rep.broken) or bool(mine)
    kseed = (seed ^ 0xC04) & 0x7fffffff

    # ---- K: the kernels of the theorems vs the implementation (C19 / C11 correspondences, our seed)
    samples = []
    if not (replay and 'idx' in replay):
        lc, lbad = kernel_tie_leaf(rep, binp, kseed, 6000 if big else 700)
        ac, abad = kernel_tie_abs(rep, binp, kseed, 3000 if big else 450)
        rep.cov['kernel_tie'] = {'leaf_root_cases': len(lc), 'leaf_root_disagreements': len(lbad),
                                 'abspos_cases': len(ac), 'abspos_disagreements': len(abad), 'seed': kseed}
        if lc:
            samples.append({'kernel_tie_leaf_case': lc[0]})
        if ac:
            samples.append({'kernel_tie_abspos_case': ac[0]})

    # ---- S: the property on the implementation
    n = 2000000 if big else 150000
    fails, summary = [], {}
    if replay and 'idx' in replay:
        args = ['c04', 'one', replay.get('seed', seed), replay['idx']] + ([replay['k']] if 'k' in replay else [])
        rc, oout = vh(binp, args)
        fails = [parse_fail(l) for l in oout.split('\n') if l.startswith('FAIL ')]
        oseed = replay.get('seed', seed)
    else:
        oseed = seed
        rc, oout = vh(binp, ['c04', 'oracle', oseed, 0, n], timeout=1500)
        for l in oout.split('\n'):
            if l.startswith('FAIL '):
                fails.append(parse_fail(l))
            elif l.startswith('ORACLE '):
                summary = dict((kv.split('=')[0], int(kv.split('=')[1])) for kv in l.split()[1:])
        if rc != 0 or not summary:
            rep.add_broken('search', 'vh c04 oracle', oout[-500:])
        rep.cov['oracle'] = summary
        rep.cov['evaluations'] = rep.cov.get('evaluations', 0) + summary.get('cases', 0)
        rep.cov['distinct_nontrivial'] = summary.get('distinct_nontrivial', 0)
        if summary.get('cases'):
            rep.cov['exact_match_rate'] = round(summary.get('exact', 0) / summary['cases'], 6)

    def rp(f):
        return {'seed': oseed, 'idx': f['idx'], 'k': f.get('k'), 'class': f.get('class'), 'cmd': 'vh c04 show %d %d' % (oseed, f['idx']),
                'first_mismatch': f['text'][:400]}

    kf = {k['id']: k for k in known_findings('C04') if k.get('status') == 'known'}
    by = {}
    for f in fails:
        by.setdefault(f.get('class', 'unexplained'), []).append(f)
    for f in by.get('unexplained', [])[:3]:
        rep.add_violation('scaled layout differs from k * original: ' + f['text'][:300], rp(f))
    cases = summary.get('cases', 0)
    # known finding 1: flex intrinsic shrink-factor floor
    flex = by.get('flex-intrinsic-shrink', [])
    if flex:
        limit = 10 + 0.015 * summary.get('in_known_class', 0)
        if FLEX_ID not in kf:
            for f in flex[:3]:
                rep.add_violation('scaled layout differs from k * original: ' + f['text'][:300], rp(f))
        elif not replay and len(flex) > limit:
            f = max(flex, key=lambda x: float(x.get('max_abs', 0)))
            rep.add_violation('%d mismatches in the class of the known finding %s (%d cases in the class): more than it explains (limit %d); '
                              'largest: %s' % (len(flex), FLEX_ID, summary.get('in_known_class', 0), limit, f['text'][:300]), rp(f))
        else:
            rep.known.append('%s [%d of %d generated trees in the class (%d trees in all) mismatch; first: seed %d idx %d k=%s]'
                             % (kf[FLEX_ID]['line'].replace('known: property=C04 ', ''), len(flex), summary.get('in_known_class', 0), cases,
                                oseed, flex[0]['idx'], flex[0].get('k')))
    # known finding 2: absolute grid thresholds
    thr, amp = by.get('grid-threshold', []), by.get('grid-amplified', [])
    if thr or amp:
        lim_thr = 5 + 6e-4 * summary.get('with_grid', 0)
        lim_amp = 2 + 2e-5 * cases
        if GRID_ID not in kf:
            for f in (amp + thr)[:3]:
                rep.add_violation('scaled layout differs from k * original: ' + f['text'][:300], rp(f))
        elif not replay and (len(thr) > lim_thr or len(amp) > lim_amp):
            f = max(amp + thr, key=lambda x: float(x.get('max_abs', 0)))
            rep.add_violation('%d small and %d large mismatches in trees with grid containers (%d such trees): more than the absolute '
                              'track-sizing thresholds explain (limits %d / %d); largest: %s'
                              % (len(thr), len(amp), summary.get('with_grid', 0), lim_thr, lim_amp, f['text'][:300]), rp(f))
        else:
            first = (thr + amp)[0]
            rep.known.append('%s [%d within a few hundredths of a pixel, %d amplified, of %d generated trees with grid containers; first: '
                             'seed %d idx %d k=%s]' % (kf[GRID_ID]['line'].replace('known: property=C04 ', ''), len(thr), len(amp),
                                                     summary.get('with_grid', 0), oseed, first['idx'], first.get('k')))
    # the witnesses of C04_flex_intrinsic_refuted on the implementation: 0 and 1 must fail, the controls 2 and 3 must not
    rc, wout = vh(binp, ['c04', 'witness'])
    w = dict((int(a), int(b)) for a, b in re.findall(r'WITNESS (\d) .*fails=(\d)', wout))
    rep.cov['known_finding_witnesses'] = {'output': [l for l in wout.split('\n') if l.startswith('WITNESS')], 'fails': w}
    if len(w) != 4:
        rep.add_broken('search', 'vh c04 witness', wout[-500:])
    else:
        for c in (2, 3):
            if w[c]:
                rep.add_violation('control witness %d (flex_shrink * basis >= 1 at both scales: proved homogeneous in the model, '
                                  'C04_flex_intrinsic_floor_inactive) is not homogeneous on the implementation' % c,
                                  {'cmd': 'vh c04 witness', 'output': wout})
        if (w[0] or w[1]) and FLEX_ID in kf:
            if not flex:
                rep.known.append(kf[FLEX_ID]['line'].replace('known: property=C04 ', '') + ' [witness only]')
        elif w[0] or w[1]:
            rep.add_violation('flex intrinsic main size is not homogeneous (witness of C04_flex_intrinsic_refuted)', {'cmd': 'vh c04 witness', 'output': wout})
        elif FLEX_ID in kf:
            rep.cov.setdefault('stale_known_findings', []).append(FLEX_ID)
            log('[C04] known finding %s did not reproduce: the entry in known_findings.json is stale' % FLEX_ID)

    rep.cov['rule'] = ('oracle case = (seed, idx): a treegen tree (up to 12 / 20 nodes; idx mod 4 selects all displays / flex only / grid only / '
                       'block+flex; dyadic lengths in quarters below 2^9, dyadic percentages, flex factors in {0,1/2,1,2}, fr, aspect ratios, '
                       'absolute and hidden nodes, Fixed / Text / Echo measure contexts), an available space (definite / min-content / '
                       'max-content per axis) and k in {1/8,1/4,1/2,2,4,16}; both trees are built and laid out from scratch with rounding '
                       'disabled; all 20 f32 fields + order of every node are compared with k * original bit for bit (zeros of either sign '
                       'identified); distinct_nontrivial = distinct (printed style tree, available space, k) among trees with at least two '
                       'nodes, counted by the harness; kernel tie = C19 and C11 correspondence cases evaluated over F32 in Coq')
    if summary:
        rep.cov['input_distribution'] = {k: summary[k] for k in ('with_flex', 'with_grid', 'with_block', 'with_measure', 'in_known_class',
                                                                  'k8th', 'k4th', 'khalf', 'k2', 'k4', 'k16') if k in summary}
    # samples: actual oracle cases, printed by the harness
    if not replay:
        for idx in (0, 1):
            rc, sout = vh(binp, ['c04', 'show', oseed, idx])
            samples.append({'oracle_case': {'seed': oseed, 'idx': idx}, 'tree_and_layouts': sout.split('\n')[:14]})
    samples.append({'theorem': 'C04_leaf : forall k st i measure measure\', 0 < k -> measure_homog k measure measure\' -> result_rel (output_rel k) k '
                               '(compute_leaf_layout i st measure) (compute_leaf_layout (input_scale k i) (style_scale k st) measure\')'})
    samples.append({'theorem': 'C04_abs_flex : forall k c i measure measure\', 0 < k -> abs_measure_homog k measure measure\' -> absout_rel k '
                               '(abs_flex c i measure) (abs_flex (flexc_scale k c) (absin_scale k i) measure\')'})
    samples.append({'theorem': 'C04_flex_intrinsic_refuted : exists k cc fb ifb g s, 0 < k /\\ finite .. /\\ ~ sc k (item_target_size cc fb ifb g s) '
                               '(item_target_size (x_scale k cc) (x_scale k fb) (x_scale k ifb) g s)'})
    rep.cov['samples'] = samples
