(* GENERATED on every run by /verif/translator/gen_filters.py from src/style/mod.rs, src/compute/flexbox.rs, src/compute/block.rs, src/compute/grid/mod.rs -- do not edit. *)
From Coq Require Import Bool List.
From TV Require Import Model.FiltersBase.
Import ListNotations.
Inductive GDisplay := Display_Block | Display_Flex | Display_Grid | Display_None.
Definition GDisplay_eqb (a b : GDisplay) : bool := match a, b with Display_Block, Display_Block => true | Display_Flex, Display_Flex => true | Display_Grid, Display_Grid => true | Display_None, Display_None => true | _, _ => false end.
Inductive GBoxGenerationMode := BoxGenerationMode_Normal | BoxGenerationMode_None.
Definition GBoxGenerationMode_eqb (a b : GBoxGenerationMode) : bool := match a, b with BoxGenerationMode_Normal, BoxGenerationMode_Normal => true | BoxGenerationMode_None, BoxGenerationMode_None => true | _, _ => false end.
Inductive GPosition := Position_Relative | Position_Absolute.
Definition GPosition_eqb (a b : GPosition) : bool := match a, b with Position_Relative, Position_Relative => true | Position_Absolute, Position_Absolute => true | _, _ => false end.
Definition style_box_generation_mode (display : GDisplay) : GBoxGenerationMode :=
  match display with Display_None => BoxGenerationMode_None | _ => BoxGenerationMode_Normal end.
(* C: child handle (NodeId), S: child style, I: generated item; style_of = tree.get_<algo>_child_style(child),
   position = style.position(), box_generation_mode = style.box_generation_mode() *)
Definition flex_generate_items {C S I : Type} (style_of : C -> S) (position : S -> GPosition) (box_generation_mode : S -> GBoxGenerationMode) (build : nat -> C -> S -> I) (child_ids : list C) : list I :=
  (map (fun '(index, child, child_style) => (build index child child_style)) (filter (fun '(_, _, style) => (negb (GBoxGenerationMode_eqb (box_generation_mode style) BoxGenerationMode_None))) (filter (fun '(_, _, style) => (negb (GPosition_eqb (position style) Position_Absolute))) (map (fun '(index, child) => (index, child, (style_of child))) (g_enumerate child_ids))))).
Definition block_generate_items {C S I : Type} (style_of : C -> S) (position : S -> GPosition) (box_generation_mode : S -> GBoxGenerationMode) (build : nat -> C -> S -> I) (child_ids : list C) : list I :=
  (map (fun '(order, (child_node_id, child_style)) => (build order child_node_id child_style)) (g_enumerate (filter (fun '(_, style) => (negb (GBoxGenerationMode_eqb (box_generation_mode style) BoxGenerationMode_None))) (map (fun child_node_id => (child_node_id, (style_of child_node_id))) child_ids)))).
Definition grid_estimate_children {C S : Type} (style_of : C -> S) (position : S -> GPosition) (box_generation_mode : S -> GBoxGenerationMode) (child_ids : list C) : list S :=
  (filter (fun style => (negb (GBoxGenerationMode_eqb (box_generation_mode style) BoxGenerationMode_None))) (map (fun child_node => (style_of child_node)) child_ids)).
Definition grid_in_flow_children {C S : Type} (style_of : C -> S) (position : S -> GPosition) (box_generation_mode : S -> GBoxGenerationMode) (child_ids : list C) : list (nat * C * S) :=
  (filter (fun '(_, _, style) => (andb (negb (GBoxGenerationMode_eqb (box_generation_mode style) BoxGenerationMode_None)) (negb (GPosition_eqb (position style) Position_Absolute)))) (map (fun '(index, child_node) => (index, child_node, (style_of child_node))) (g_enumerate child_ids))).
Definition block_content_width_visits (item_position : GPosition) (item_can_be_collapsed_through : bool) : bool :=
  (negb (GPosition_eqb item_position Position_Absolute)).
Definition block_all_collapsible_pred (item_position : GPosition) (item_can_be_collapsed_through : bool) : bool :=
  (orb (GPosition_eqb item_position Position_Absolute) item_can_be_collapsed_through).
Definition block_inflow_absolute_branch_cond (item_position : GPosition) (item_can_be_collapsed_through : bool) : bool :=
  (GPosition_eqb item_position Position_Absolute).
(* checked syntactically: the absolute branch of the in-flow loop consists of assignments to fields of `item`
   (item.static_position) and does not mention `tree` *)
Definition block_inflow_absolute_branch_is_local : bool := true.
Definition block_absolute_pass_visits (item_position : GPosition) (item_can_be_collapsed_through : bool) : bool :=
  (GPosition_eqb item_position Position_Absolute).
(* checked syntactically: in the in-flow loop, the content-based-width loop and the absolute pass of block.rs every method
   call on `tree` is `calc` or has `item.node_id` as its node argument (perform_child_layout set_unrounded_layout perform_child_layout | get_block_child_style perform_child_layout set_unrounded_layout) *)
Definition block_tree_calls_address_item_only : bool := true.
Definition block_hidden_pass_visits (child_box_generation_mode : GBoxGenerationMode) (child_position : GPosition) : bool :=
  (GBoxGenerationMode_eqb child_box_generation_mode BoxGenerationMode_None).
Definition flex_hidden_pass_visits (child_box_generation_mode : GBoxGenerationMode) (child_position : GPosition) : bool :=
  (GBoxGenerationMode_eqb child_box_generation_mode BoxGenerationMode_None).
(* checked syntactically: the body of that `if` is tree.perform_child_layout(child, Size::NONE, Size::NONE, Size::MAX_CONTENT,
   SizingMode::InherentSize, Line::FALSE) followed by tree.set_unrounded_layout(child, &Layout::with_order(order as u32)) *)
Definition flex_hidden_pass_is_canonical : bool := true.
Definition flex_absolute_pass_skips {S : Type} (position : S -> GPosition) (box_generation_mode : S -> GBoxGenerationMode) (child_style : S) : bool :=
  (orb (GBoxGenerationMode_eqb (box_generation_mode child_style) BoxGenerationMode_None) (negb (GPosition_eqb (position child_style) Position_Absolute))).
(* checked syntactically: every call of flexbox.rs on `tree` that addresses a node (perform_child_layout measure_child_size set_unrounded_layout compute_child_layout get_flexbox_child_style) is
   in the translated item pipeline, in the hidden loop, in the absolute pass (addressed to that loop's child), or in one of the item
   functions, addressed to `<item>.node`: determine_flex_base_size:get_flexbox_child_style determine_flex_base_size:measure_child_size determine_flex_base_size:measure_child_size determine_container_main_size:measure_child_size determine_hypothetical_cross_size:measure_child_size calculate_children_base_lines:perform_child_layout determine_used_cross_size:get_flexbox_child_style calculate_flex_item:perform_child_layout calculate_flex_item:set_unrounded_layout *)
Definition flex_tree_calls_address_item_only : bool := true.
Definition grid_final_loop_hidden_test {S : Type} (position : S -> GPosition) (box_generation_mode : S -> GBoxGenerationMode) (child_style : S) : bool :=
  (GBoxGenerationMode_eqb (box_generation_mode child_style) BoxGenerationMode_None).
Definition grid_final_loop_absolute_test {S : Type} (position : S -> GPosition) (box_generation_mode : S -> GBoxGenerationMode) (child_style : S) : bool :=
  (GPosition_eqb (position child_style) Position_Absolute).
(* checked syntactically: the hidden branch is tree.perform_child_layout(child, Size::NONE, Size::NONE, Size::MAX_CONTENT,
   SizingMode::InherentSize, Line::FALSE); tree.set_unrounded_layout(child, &Layout::with_order(order)); order += 1; return *)
Definition grid_hidden_branch_is_canonical : bool := true.
(* checked syntactically: the absolute branch calls align_and_position_item(tree, child, order, ..) once, no other node call, order += 1 *)
Definition grid_absolute_branch_is_local : bool := true.
(* checked syntactically: every call of the grid sources on `tree` that addresses a node (perform_child_layout measure_child_size set_unrounded_layout compute_child_layout get_grid_child_style) is in the
   translated child iterators, in the final loop (addressed to that loop's child), or one of: resolve_item_baselines:perform_child_layout align_and_position_item:get_grid_child_style align_and_position_item:perform_child_layout align_and_position_item:set_unrounded_layout min_content_contribution:measure_child_size max_content_contribution:measure_child_size *)
Definition grid_tree_calls_address_item_only : bool := true.
