//! C07: flex lines -- order, no overlap, flexibility exhausted.
//!
//! `vh c07 cases <seed> <n>` / `vh c07 one <ints..>`: whole-API correspondence (K).  A single-line flex container
//! (row/column x reverse, definite size, gap, justify-content, padding/border) whose children are leaves with a
//! definite flex-basis or main size, min/max main sizes, grow/shrink in {0, 0.3, 1, 2.5}, length/auto margins,
//! main-axis padding/border, optional fixed measure, align-self: start and a definite cross size.
//!   C = dir justify size_main size_cross pms pme bms bme pcs pce bcs bce gap n  (19 ints per item)
//!       item = has_basis basis has_size size has_min min has_max max grow shrink ms_auto ms me_auto me ps pe bs be measure
//!   R = container main, container cross, then (location.main, size.main) per child -- unrounded, f32 bit patterns.
//! `vh c07 oracle <seed> <n>`: the two laws of the property as predicates on unrounded layouts of random trees.
//!
//! `vh c07 wcases <seed> <n>` / `vh c07 wone <ints..>`: second correspondence class (K2): multi-line containers.  A root flex
//! container (nowrap / wrap / wrap-reverse, any direction, justify-content, align-content, align-items, definite main size,
//! definite or auto cross size, optional min/max main size, padding/border, both gaps) whose children are leaves: flex-basis /
//! main size / aspect ratio + cross size / measured content (fixed or "echo" measure function) / nothing; min/max sizes on both
//! axes, grow/shrink, length/auto margins on both axes, padding/border on both axes, overflow hidden/clip, content-box,
//! align-self.
//!   C = dir wrap justify align_content align_items size_main has_cross size_cross has_min min_main has_max max_main
//!       pms pme bms bme pcs pce bcs bce gap_main gap_cross n   (23 ints), then 41 ints per child (see W_ITEM below)
//!   R = container main, cross; per child: location main, cross; size main, cross; margin main start/end, cross start/end.
use crate::rng::Rng;
use crate::treegen::{self, Ctx, GenCfg, NodeSpec};
use taffy::prelude::*;
use taffy::{BoxSizing, Overflow, Point, Rect};

const JUSTIFY: [AlignContent; 9] = [
    AlignContent::Start,
    AlignContent::End,
    AlignContent::FlexStart,
    AlignContent::FlexEnd,
    AlignContent::Center,
    AlignContent::Stretch,
    AlignContent::SpaceBetween,
    AlignContent::SpaceEvenly,
    AlignContent::SpaceAround,
];
const DIRS: [FlexDirection; 4] = [FlexDirection::Row, FlexDirection::Column, FlexDirection::RowReverse, FlexDirection::ColumnReverse];
const FACTORS: [f32; 4] = [0.0, 0.3, 1.0, 2.5];
const ITEM_INTS: usize = 19;
const WATCHDOG_SECS: u64 = 5;

fn is_row(d: FlexDirection) -> bool {
    matches!(d, FlexDirection::Row | FlexDirection::RowReverse)
}
fn is_reverse(d: FlexDirection) -> bool {
    matches!(d, FlexDirection::RowReverse | FlexDirection::ColumnReverse)
}

fn b(x: f32) -> i64 {
    x.to_bits() as i64
}
fn f(z: i64) -> f32 {
    f32::from_bits(z as u32)
}

/// main/cross -> Size / Rect in the absolute axes
fn size_mc<T>(row: bool, main: T, cross: T) -> Size<T> {
    if row {
        Size { width: main, height: cross }
    } else {
        Size { width: cross, height: main }
    }
}
fn rect_mc<T>(row: bool, ms: T, me: T, cs: T, ce: T) -> Rect<T> {
    if row {
        Rect { left: ms, right: me, top: cs, bottom: ce }
    } else {
        Rect { top: ms, bottom: me, left: cs, right: ce }
    }
}

/// Build the tree described by a C line, lay it out, return the R line.
fn run_case(c: &[i64]) -> Vec<i64> {
    let dir = DIRS[c[0] as usize];
    let row = is_row(dir);
    let justify = if c[1] < 0 { None } else { Some(JUSTIFY[c[1] as usize]) };
    let lp = |z: i64| LengthPercentage::length(f(z));
    let n = c[13] as usize;
    let mut t: TaffyTree<Ctx> = TaffyTree::new();
    t.disable_rounding();
    let mut kids = vec![];
    for i in 0..n {
        let it = &c[14 + i * ITEM_INTS..14 + (i + 1) * ITEM_INTS];
        let dim = |has: i64, z: i64| if has != 0 { Dimension::length(f(z)) } else { Dimension::auto() };
        let m = |auto: i64, z: i64| if auto != 0 { LengthPercentageAuto::auto() } else { LengthPercentageAuto::length(f(z)) };
        let zero = LengthPercentage::length(0.0);
        let style = Style {
            flex_basis: dim(it[0], it[1]),
            size: size_mc(row, dim(it[2], it[3]), Dimension::length(20.0)),
            min_size: size_mc(row, dim(it[4], it[5]), Dimension::auto()),
            max_size: size_mc(row, dim(it[6], it[7]), Dimension::auto()),
            flex_grow: f(it[8]),
            flex_shrink: f(it[9]),
            margin: rect_mc(row, m(it[10], it[11]), m(it[12], it[13]), LengthPercentageAuto::length(0.0), LengthPercentageAuto::length(0.0)),
            padding: rect_mc(row, lp(it[14]), lp(it[15]), zero, zero),
            border: rect_mc(row, lp(it[16]), lp(it[17]), zero, zero),
            align_self: Some(AlignSelf::Start),
            ..Default::default()
        };
        let meas = f(it[18]);
        // bit 0 of the measure is never used to mean "none": a leaf without measure function has content size 0 anyway;
        // keep both code paths alive by using a context only for non-zero content
        let id = if meas != 0.0 {
            t.new_leaf_with_context(style, Ctx::Fixed(if row { meas } else { 7.0 }, if row { 7.0 } else { meas })).unwrap()
        } else {
            t.new_leaf(style).unwrap()
        };
        kids.push(id);
    }
    let style = Style {
        display: Display::Flex,
        flex_direction: dir,
        flex_wrap: FlexWrap::NoWrap,
        justify_content: justify,
        size: size_mc(row, Dimension::length(f(c[2])), Dimension::length(f(c[3]))),
        padding: rect_mc(row, lp(c[4]), lp(c[5]), lp(c[8]), lp(c[9])),
        border: rect_mc(row, lp(c[6]), lp(c[7]), lp(c[10]), lp(c[11])),
        gap: size_mc(row, lp(c[12]), LengthPercentage::length(0.0)),
        ..Default::default()
    };
    let root = t.new_with_children(style, &kids).unwrap();
    treegen::compute(&mut t, root, Size::MAX_CONTENT);
    let main_sz = |s: Size<f32>| if row { s.width } else { s.height };
    let cross_sz = |s: Size<f32>| if row { s.height } else { s.width };
    let main_pt = |p: Point<f32>| if row { p.x } else { p.y };
    let rl = t.unrounded_layout(root);
    let mut r = vec![b(main_sz(rl.size)), b(cross_sz(rl.size))];
    for k in kids {
        let l = t.unrounded_layout(k);
        r.push(b(main_pt(l.location)));
        r.push(b(main_sz(l.size)));
    }
    r
}

fn len(rng: &mut Rng, tenths: bool, max: u64) -> f32 {
    if tenths {
        rng.below(max * 10) as f32 / 10.0
    } else {
        rng.below(max * 4) as f32 / 4.0
    }
}

fn gen_case(rng: &mut Rng) -> Vec<i64> {
    let tenths = rng.chance(1, 2);
    let dir = rng.below(4) as i64;
    let justify = if rng.chance(1, 4) { -1 } else { rng.below(9) as i64 };
    // (a childless node is laid out as a leaf, not as a flex container: n >= 1)
    let n = match rng.below(12) {
        0 | 1 | 2 => 1,
        3 | 4 => 2,
        5 | 6 | 7 => 3,
        8 | 9 => 4,
        10 => 5,
        _ => 6,
    } as usize;
    let mut c = vec![dir, justify, b(len(rng, tenths, 400)), b(len(rng, tenths, 100))];
    let pb = rng.chance(1, 2);
    for _ in 0..8 {
        c.push(b(if pb && rng.chance(2, 3) { len(rng, tenths, 10) } else { 0.0 }));
    }
    c.push(b(if rng.chance(1, 2) { len(rng, tenths, 12) } else { 0.0 }));
    c.push(n as i64);
    for _ in 0..n {
        let mut has_basis = rng.chance(1, 2);
        let has_size = rng.chance(1, 2);
        if !has_basis && !has_size {
            has_basis = true;
        }
        let small = rng.chance(1, 6);
        let mut dimv = |rng: &mut Rng| if small { len(rng, tenths, 3) } else { len(rng, tenths, 150) };
        c.push(has_basis as i64);
        c.push(if has_basis { b(dimv(rng)) } else { 0 });
        c.push(has_size as i64);
        c.push(if has_size { b(dimv(rng)) } else { 0 });
        let has_min = rng.chance(1, 3);
        c.push(has_min as i64);
        c.push(if has_min { b(len(rng, tenths, 120)) } else { 0 });
        let has_max = rng.chance(1, 3);
        c.push(has_max as i64);
        c.push(if has_max { b(len(rng, tenths, 160)) } else { 0 });
        c.push(b(*rng.pick(&FACTORS)));
        c.push(b(*rng.pick(&FACTORS)));
        let margins = rng.chance(1, 3);
        for _ in 0..2 {
            if margins && rng.chance(1, 4) {
                c.push(1);
                c.push(0);
            } else {
                c.push(0);
                c.push(b(if margins { len(rng, tenths, 20) } else { 0.0 }));
            }
        }
        let ipb = rng.chance(1, 4);
        for _ in 0..4 {
            c.push(b(if ipb && rng.chance(2, 3) { len(rng, tenths, 8) } else { 0.0 }));
        }
        c.push(b(if rng.chance(1, 2) { len(rng, tenths, 100) } else { 0.0 }));
    }
    c
}

/// hand-written corner cases first (item fields: basis size min max grow shrink margins pb measure)
fn corpus() -> Vec<Vec<i64>> {
    let item = |basis: Option<f32>, size: Option<f32>, min: Option<f32>, max: Option<f32>, g: f32, s: f32, ms: Option<f32>, me: Option<f32>, pbv: [f32; 4], meas: f32| {
        let o = |x: Option<f32>| vec![x.is_some() as i64, x.map(b).unwrap_or(0)];
        let mg = |x: Option<f32>| vec![x.is_none() as i64, x.map(b).unwrap_or(0)];
        let mut v = vec![];
        v.extend(o(basis));
        v.extend(o(size));
        v.extend(o(min));
        v.extend(o(max));
        v.push(b(g));
        v.push(b(s));
        v.extend(mg(ms));
        v.extend(mg(me));
        v.extend(pbv.iter().map(|x| b(*x)));
        v.push(b(meas));
        v
    };
    let plain = |basis: f32, g: f32, s: f32| item(Some(basis), None, None, None, g, s, Some(0.0), Some(0.0), [0.0; 4], 0.0);
    let cont = |dir: i64, jc: i64, main: f32, gap: f32, items: Vec<Vec<i64>>| {
        let mut c = vec![dir, jc, b(main), b(40.0)];
        c.extend([0i64; 8].iter().map(|_| b(0.0)));
        c.push(b(gap));
        c.push(items.len() as i64);
        for it in items {
            c.extend(it);
        }
        c
    };
    let mut v = vec![];
    for dir in 0..4 {
        for jc in -1..9 {
            // three fixed items, free space, gap
            v.push(cont(dir, jc, 100.0, 5.0, vec![plain(10.0, 0.0, 0.0), plain(20.0, 0.0, 0.0), plain(30.0, 0.0, 0.0)]));
            // overflowing (negative free space)
            v.push(cont(dir, jc, 50.0, 5.0, vec![plain(30.0, 0.0, 0.0), plain(30.0, 0.0, 0.0)]));
        }
        // grow with max violation, then redistribution
        v.push(cont(dir, 2, 100.0, 0.0, vec![
            item(Some(0.0), None, None, Some(10.0), 1.0, 1.0, Some(0.0), Some(0.0), [0.0; 4], 0.0),
            plain(0.0, 1.0, 1.0),
            item(Some(0.0), None, Some(50.0), None, 1.0, 1.0, Some(0.0), Some(0.0), [0.0; 4], 0.0),
        ]));
        // shrink with scaled factors and a min
        v.push(cont(dir, 2, 100.0, 10.0, vec![
            item(Some(80.0), None, Some(70.0), None, 0.0, 1.0, Some(0.0), Some(0.0), [0.0; 4], 0.0),
            plain(60.0, 0.0, 2.5),
            item(None, Some(40.0), None, None, 0.0, 1.0, Some(3.0), Some(4.0), [1.0, 2.0, 3.0, 4.0], 25.0),
        ]));
        // fractional factors: sum < 1
        v.push(cont(dir, 2, 100.0, 10.0, vec![plain(10.0, 0.3, 0.3), plain(20.0, 0.3, 0.3)]));
        v.push(cont(dir, 2, 20.0, 10.0, vec![plain(10.0, 0.3, 0.3), plain(20.0, 0.3, 0.3)]));
        // auto margins with a gap
        v.push(cont(dir, 4, 100.0, 10.0, vec![plain(20.0, 0.0, 0.0), item(Some(20.0), None, None, None, 0.0, 0.0, None, Some(0.0), [0.0; 4], 0.0)]));
        // witness of C07_exhausted_laid_out_sizes_refuted (finding pb-floor): explicit min/max below padding+border
        v.push(cont(dir, 2, 100.0, 0.0, vec![
            plain(100.0, 0.0, 1.0),
            item(Some(50.0), None, Some(5.0), Some(10.0), 0.0, 1.0, Some(0.0), Some(0.0), [20.0, 0.0, 0.0, 0.0], 0.0),
        ]));
        // min > max, zero basis, content-based automatic minimum
        v.push(cont(dir, 6, 100.0, 0.0, vec![
            item(Some(0.0), None, Some(30.0), Some(20.0), 1.0, 1.0, Some(0.0), Some(0.0), [0.0; 4], 0.0),
            item(None, Some(90.0), None, None, 0.0, 1.0, Some(0.0), Some(0.0), [0.0; 4], 60.0),
            item(Some(120.0), Some(10.0), None, Some(80.0), 2.5, 2.5, Some(0.0), Some(0.0), [2.0, 0.0, 0.0, 1.0], 5.0),
        ]));
    }
    // staircase lines: one freeze pass PER ITEM (10 and 12 items; grow factors 3^(n-1-i), each max a tenth below the item's share of
    // what is left when its turn comes, the last item unbounded).  The model's loop has one round per item, so an implementation that
    // stops distributing early disagrees bit for bit here.
    for (dir, n, w) in [(0i64, 10usize, 10000.0f64), (1, 12, 5000.0), (2, 12, 30000.0)] {
        let grow: Vec<f64> = (0..n).map(|i| 3f64.powi((n - 1 - i) as i32)).collect();
        let mut free = w;
        let mut items = vec![];
        for j in 0..n {
            let mx = if j + 1 < n {
                let g: f64 = grow[j..].iter().sum();
                let m = ((free * grow[j] / g * 0.9) * 4.0).round() / 4.0;
                free -= m;
                Some(m as f32)
            } else {
                None
            };
            items.push(item(Some(0.0), None, None, mx, grow[j] as f32, 1.0, Some(0.0), Some(0.0), [0.0; 4], 0.0));
        }
        v.push(cont(dir, 2, w as f32, 0.0, items));
    }
    v
}


// ------------------------------------------------------------------------------------------------ K2: multi-line containers

const ALIGN: [AlignItems; 6] = [AlignItems::Start, AlignItems::End, AlignItems::FlexStart, AlignItems::FlexEnd, AlignItems::Center, AlignItems::Stretch];
const W_HEAD: usize = 23;
/// has_basis basis  has_size_m size_m  has_size_c size_c  has_min_m min_m  has_max_m max_m  has_min_c min_c  has_max_c max_c
/// has_aspect aspect  grow shrink  ms_auto ms  me_auto me  cs_auto cs  ce_auto ce  pms pme bms bme pcs pce bcs bce
/// overflow_x overflow_y  box_sizing  align_self  ctx_kind ctx_a ctx_b
const W_ITEM: usize = 41;

fn run_wrap_case(c: &[i64]) -> Vec<i64> {
    let dir = DIRS[c[0] as usize];
    let row = is_row(dir);
    let wrap = match c[1] {
        0 => FlexWrap::NoWrap,
        1 => FlexWrap::Wrap,
        _ => FlexWrap::WrapReverse,
    };
    let content = |z: i64| if z < 0 { None } else { Some(JUSTIFY[z as usize]) };
    let align = |z: i64| if z < 0 { None } else { Some(ALIGN[z as usize]) };
    let lp = |z: i64| LengthPercentage::length(f(z));
    let dim = |has: i64, z: i64| if has != 0 { Dimension::length(f(z)) } else { Dimension::auto() };
    let lpa = |auto: i64, z: i64| if auto != 0 { LengthPercentageAuto::auto() } else { LengthPercentageAuto::length(f(z)) };
    let ov = |z: i64| match z {
        0 => Overflow::Visible,
        1 => Overflow::Clip,
        _ => Overflow::Hidden,
    };
    let n = c[22] as usize;
    let mut t: TaffyTree<Ctx> = TaffyTree::new();
    t.disable_rounding();
    let mut kids = vec![];
    for i in 0..n {
        let it = &c[W_HEAD + i * W_ITEM..W_HEAD + (i + 1) * W_ITEM];
        let style = Style {
            flex_basis: dim(it[0], it[1]),
            size: size_mc(row, dim(it[2], it[3]), dim(it[4], it[5])),
            min_size: size_mc(row, dim(it[6], it[7]), dim(it[10], it[11])),
            max_size: size_mc(row, dim(it[8], it[9]), dim(it[12], it[13])),
            aspect_ratio: if it[14] != 0 { Some(f(it[15])) } else { None },
            flex_grow: f(it[16]),
            flex_shrink: f(it[17]),
            margin: rect_mc(row, lpa(it[18], it[19]), lpa(it[20], it[21]), lpa(it[22], it[23]), lpa(it[24], it[25])),
            padding: rect_mc(row, lp(it[26]), lp(it[27]), lp(it[30]), lp(it[31])),
            border: rect_mc(row, lp(it[28]), lp(it[29]), lp(it[32]), lp(it[33])),
            overflow: Point { x: ov(it[34]), y: ov(it[35]) },
            box_sizing: if it[36] == 1 { BoxSizing::ContentBox } else { BoxSizing::BorderBox },
            align_self: align(it[37]),
            ..Default::default()
        };
        let id = match it[38] {
            1 => t.new_leaf_with_context(style, Ctx::Fixed(f(it[39]), f(it[40]))).unwrap(),
            3 => t.new_leaf_with_context(style, Ctx::Echo(f(it[39]))).unwrap(),
            _ => t.new_leaf(style).unwrap(),
        };
        kids.push(id);
    }
    let style = Style {
        display: Display::Flex,
        flex_direction: dir,
        flex_wrap: wrap,
        justify_content: content(c[2]),
        align_content: content(c[3]),
        align_items: align(c[4]),
        size: size_mc(row, Dimension::length(f(c[5])), dim(c[6], c[7])),
        min_size: size_mc(row, dim(c[8], c[9]), Dimension::auto()),
        max_size: size_mc(row, dim(c[10], c[11]), Dimension::auto()),
        padding: rect_mc(row, lp(c[12]), lp(c[13]), lp(c[16]), lp(c[17])),
        border: rect_mc(row, lp(c[14]), lp(c[15]), lp(c[18]), lp(c[19])),
        gap: size_mc(row, lp(c[20]), lp(c[21])),
        ..Default::default()
    };
    let root = t.new_with_children(style, &kids).unwrap();
    // The "echo" measure function answers a query with a known width differently from the query that produced that width, so the
    // cache's "known dimension equals the cached size" rule (lossy key, known finding of C01/C17) changes the result: such cases
    // run with the exact-key memo (hook), every other case with the real cache.
    let any_echo = (0..n).any(|i| c[W_HEAD + i * W_ITEM + 38] == 3);
    taffy::verif_hooks::set_exact_key(any_echo);
    treegen::compute(&mut t, root, Size::MAX_CONTENT);
    taffy::verif_hooks::set_exact_key(false);
    let main_sz = |s: Size<f32>| if row { s.width } else { s.height };
    let cross_sz = |s: Size<f32>| if row { s.height } else { s.width };
    let rl = t.unrounded_layout(root);
    let mut r = vec![b(main_sz(rl.size)), b(cross_sz(rl.size))];
    for k in kids {
        let l = t.unrounded_layout(k);
        let (lm, lc) = if row { (l.location.x, l.location.y) } else { (l.location.y, l.location.x) };
        let m = l.margin;
        let (ms, me, cs, ce) = if row { (m.left, m.right, m.top, m.bottom) } else { (m.top, m.bottom, m.left, m.right) };
        r.extend([b(lm), b(lc), b(main_sz(l.size)), b(cross_sz(l.size)), b(ms), b(me), b(cs), b(ce)]);
    }
    r
}

struct WItem {
    basis: Option<f32>,
    size_m: Option<f32>,
    size_c: Option<f32>,
    min_m: Option<f32>,
    max_m: Option<f32>,
    min_c: Option<f32>,
    max_c: Option<f32>,
    aspect: Option<f32>,
    grow: f32,
    shrink: f32,
    margin: [Option<f32>; 4], // main start, main end, cross start, cross end; None = auto
    pb: [f32; 8],             // pms pme bms bme pcs pce bcs bce
    overflow: [i64; 2],
    content_box: bool,
    align_self: i64,
    ctx: (i64, f32, f32),
}

impl WItem {
    fn plain(basis: f32) -> WItem {
        WItem {
            basis: Some(basis),
            size_m: None,
            size_c: Some(10.0),
            min_m: Some(0.0),
            max_m: None,
            min_c: None,
            max_c: None,
            aspect: None,
            grow: 0.0,
            shrink: 0.0,
            margin: [Some(0.0); 4],
            pb: [0.0; 8],
            overflow: [0, 0],
            content_box: false,
            align_self: -1,
            ctx: (0, 0.0, 0.0),
        }
    }
    fn enc(&self) -> Vec<i64> {
        let o = |x: Option<f32>| vec![x.is_some() as i64, x.map(b).unwrap_or(0)];
        let mg = |x: Option<f32>| vec![x.is_none() as i64, x.map(b).unwrap_or(0)];
        let mut v = vec![];
        for x in [self.basis, self.size_m, self.size_c, self.min_m, self.max_m, self.min_c, self.max_c, self.aspect] {
            v.extend(o(x));
        }
        v.push(b(self.grow));
        v.push(b(self.shrink));
        for x in self.margin {
            v.extend(mg(x));
        }
        v.extend(self.pb.iter().map(|x| b(*x)));
        v.extend(self.overflow);
        v.push(self.content_box as i64);
        v.push(self.align_self);
        v.push(self.ctx.0);
        v.push(b(self.ctx.1));
        v.push(b(self.ctx.2));
        assert_eq!(v.len(), W_ITEM);
        v
    }
}

struct WCont {
    dir: i64,
    wrap: i64,
    justify: i64,
    align_content: i64,
    align_items: i64,
    main: f32,
    cross: Option<f32>,
    min_m: Option<f32>,
    max_m: Option<f32>,
    pb: [f32; 8],
    gap_m: f32,
    gap_c: f32,
}

impl WCont {
    fn plain(dir: i64, wrap: i64, main: f32, gap_m: f32) -> WCont {
        WCont { dir, wrap, justify: -1, align_content: 0, align_items: 0, main, cross: Some(100.0), min_m: None, max_m: None, pb: [0.0; 8], gap_m, gap_c: 0.0 }
    }
    fn enc(&self, items: &[WItem]) -> Vec<i64> {
        let o = |x: Option<f32>| vec![x.is_some() as i64, x.map(b).unwrap_or(0)];
        let mut v = vec![self.dir, self.wrap, self.justify, self.align_content, self.align_items, b(self.main)];
        v.extend(o(self.cross));
        v.extend(o(self.min_m));
        v.extend(o(self.max_m));
        v.extend(self.pb.iter().map(|x| b(*x)));
        v.push(b(self.gap_m));
        v.push(b(self.gap_c));
        v.push(items.len() as i64);
        assert_eq!(v.len(), W_HEAD);
        for it in items {
            v.extend(it.enc());
        }
        v
    }
}

fn gen_wrap_case(rng: &mut Rng) -> Vec<i64> {
    let tenths = rng.chance(1, 3);
    let exact_fit = rng.chance(1, 4);
    let dir = rng.below(4) as i64;
    let wrap = match rng.below(8) {
        0 if !exact_fit => 0,
        1 | 2 => 2,
        _ => 1,
    };
    let n = if exact_fit { 2 + rng.below(7) as usize } else { 1 + rng.below(8) as usize };
    let mut ct = WCont::plain(dir, wrap, 0.0, 0.0);
    ct.justify = if rng.chance(1, 3) { -1 } else { rng.below(9) as i64 };
    ct.align_content = if rng.chance(1, 2) { 0 } else if rng.chance(1, 4) { -1 } else { rng.below(9) as i64 };
    ct.align_items = if exact_fit || rng.chance(3, 5) { 0 } else if rng.chance(1, 3) { -1 } else { rng.below(6) as i64 };
    ct.cross = if rng.chance(7, 10) { Some(len(rng, tenths, 250)) } else { None };
    if rng.chance(1, 2) {
        ct.gap_m = len(rng, tenths, 12);
    }
    if rng.chance(1, 2) {
        ct.gap_c = len(rng, tenths, 12);
    }
    if !exact_fit && rng.chance(1, 2) {
        for k in 0..8 {
            if rng.chance(2, 3) {
                ct.pb[k] = len(rng, tenths, 10);
            }
        }
    }
    let mut items = vec![];
    for _ in 0..n {
        let mut it = WItem::plain(0.0);
        let small = rng.chance(1, 6);
        let mut dimv = |rng: &mut Rng| if small { len(rng, tenths, 3) } else { len(rng, tenths, 120) };
        if exact_fit {
            // plain item: hypothetical outer size = flex basis (min 0, no max, no padding, no margin)
            it.basis = Some(if rng.chance(1, 8) { 0.0 } else { rng.below(60) as f32 });
            it.size_c = Some(1.0 + len(rng, tenths, 40));
            it.grow = *rng.pick(&FACTORS);
            it.shrink = *rng.pick(&FACTORS);
            items.push(it);
            continue;
        }
        let kind = rng.below(10);
        it.basis = None;
        it.min_m = None;
        match kind {
            0..=3 => {
                it.basis = Some(dimv(rng));
                if rng.chance(1, 3) {
                    it.size_m = Some(dimv(rng));
                }
            }
            4 | 5 => it.size_m = Some(dimv(rng)),
            _ => {}
        }
        it.size_c = if kind == 6 || rng.chance(7, 10) { Some(1.0 + len(rng, tenths, 60)) } else { None };
        if kind == 6 || rng.chance(1, 12) {
            it.aspect = Some(*rng.pick(&[0.5, 1.0, 2.0, 1.5]));
        }
        if rng.chance(1, 4) {
            it.min_m = Some(len(rng, tenths, 100));
        }
        if rng.chance(1, 4) {
            it.max_m = Some(len(rng, tenths, 140));
        }
        if rng.chance(1, 8) {
            it.min_c = Some(len(rng, tenths, 60));
        }
        if rng.chance(1, 8) {
            it.max_c = Some(len(rng, tenths, 80));
        }
        it.grow = *rng.pick(&FACTORS);
        it.shrink = *rng.pick(&FACTORS);
        if rng.chance(1, 3) {
            for k in 0..4 {
                let p_auto = if k < 2 { 5 } else { 8 };
                it.margin[k] = if rng.chance(1, p_auto) { None } else { Some(len(rng, tenths, if k < 2 { 15 } else { 10 })) };
            }
        }
        if rng.chance(1, 4) {
            for k in 0..8 {
                if rng.chance(2, 3) {
                    it.pb[k] = len(rng, tenths, 8);
                }
            }
        }
        if rng.chance(1, 6) {
            it.overflow = [rng.below(3) as i64, rng.below(3) as i64];
        }
        it.content_box = rng.chance(1, 8);
        it.align_self = if rng.chance(4, 5) { -1 } else { rng.below(6) as i64 };
        it.ctx = if kind == 7 || kind == 8 || rng.chance(1, 3) {
            (1, len(rng, tenths, 100), len(rng, tenths, 50))
        } else if rng.chance(1, 10) {
            (3, len(rng, tenths, 100), 0.0)
        } else {
            (0, 0.0, 0.0)
        };
        items.push(it);
    }
    if exact_fit {
        // the first k items fill the line exactly (when they are all plain): the break test must be `>`, not `>=`
        let k = if rng.chance(1, 6) { 1 } else { 2 + rng.below(n as u64 - 1) as usize };
        let sum: f32 = items[..k].iter().map(|it| it.basis.unwrap_or(it.size_m.unwrap_or(0.0))).sum::<f32>() + ct.gap_m * (k as f32 - 1.0);
        ct.main = sum;
    } else {
        ct.main = if rng.chance(1, 5) { len(rng, tenths, 60) } else { 20.0 + len(rng, tenths, 380) };
        if rng.chance(1, 8) {
            ct.min_m = Some(len(rng, tenths, 300));
        }
        if rng.chance(1, 8) {
            ct.max_m = Some(len(rng, tenths, 300));
        }
    }
    ct.enc(&items)
}

fn wrap_corpus() -> Vec<Vec<i64>> {
    let mut v = vec![];
    let p = WItem::plain;
    for dir in 0..4 {
        for wrap in 0..3 {
            // three lines: 40+40 | 40+40 | 40 in 100 with gap 10; 40+40+gap 10 = 90 <= 100, a third item would make 140
            v.push(WCont::plain(dir, wrap, 100.0, 10.0).enc(&[p(40.0), p(40.0), p(40.0), p(40.0), p(40.0)]));
            // exact fit: 30+30+30 + 2*5 = 100 = available: one line (the test is `>`), the 4th item wraps
            v.push(WCont::plain(dir, wrap, 100.0, 5.0).enc(&[p(30.0), p(30.0), p(30.0), p(30.0)]));
            // a single item wider than the container gets a line of its own; zero-sized items join a full line
            v.push(WCont::plain(dir, wrap, 50.0, 0.0).enc(&[p(80.0), p(50.0), p(0.0), p(0.0), p(10.0)]));
            // without the gap the first three would fit: 30+30+30 = 90 <= 95, with the gap 100 > 95
            v.push(WCont::plain(dir, wrap, 95.0, 5.0).enc(&[p(30.0), p(30.0), p(30.0)]));
        }
    }
    // growing and shrinking inside lines, different cross sizes, every align-content
    for ac in -1..9 {
        for wrap in 1..3 {
            let mut ct = WCont::plain(0, wrap, 100.0, 4.0);
            ct.align_content = ac;
            ct.gap_c = 3.0;
            ct.cross = Some(120.0);
            let mut a = p(50.0);
            a.grow = 1.0;
            a.size_c = Some(20.0);
            let mut bb = p(60.0);
            bb.shrink = 1.0;
            bb.size_c = Some(30.0);
            let mut cc = p(120.0);
            cc.shrink = 1.0;
            cc.min_m = None;
            cc.ctx = (1, 70.0, 9.0);
            cc.size_c = None;
            v.push(ct.enc(&[a, bb, cc, p(10.0)]));
        }
    }
    // flex base size cases: basis wins over size; size; aspect ratio * cross size; content; nothing -- in a wrapping row and column
    for dir in 0..2 {
        let mut a = p(30.0);
        a.size_m = Some(70.0);
        let mut s = p(0.0);
        s.basis = None;
        s.size_m = Some(45.0);
        s.min_m = None;
        let mut ar = p(0.0);
        ar.basis = None;
        ar.min_m = None;
        ar.aspect = Some(2.0);
        ar.size_c = Some(20.0);
        let mut ct_ = p(0.0);
        ct_.basis = None;
        ct_.min_m = None;
        ct_.size_c = None;
        ct_.ctx = (1, 33.0, 12.0);
        ct_.pb = [1.0, 2.0, 3.0, 4.0, 1.0, 1.0, 2.0, 2.0];
        let mut none = p(0.0);
        none.basis = None;
        none.min_m = None;
        let mut hid = p(0.0);
        hid.basis = None;
        hid.min_m = None;
        hid.size_m = Some(80.0);
        hid.shrink = 1.0;
        hid.overflow = [2, 2];
        hid.ctx = (1, 60.0, 5.0);
        let mut vis = p(0.0);
        vis.basis = None;
        vis.min_m = None;
        vis.size_m = Some(80.0);
        vis.shrink = 1.0;
        vis.ctx = (1, 60.0, 5.0);
        v.push(WCont::plain(dir, 1, 100.0, 0.0).enc(&[a, s, ar, ct_, none, hid, vis]));
        // pb-floor: max below padding+border: hypothetical size is floored by padding+border, the loop's clamp is not
        let mut x = p(50.0);
        x.min_m = Some(5.0);
        x.max_m = Some(10.0);
        x.shrink = 1.0;
        x.pb = [20.0, 0.0, 0.0, 0.0, 0.0, 0.0, 0.0, 0.0];
        let mut y = p(100.0);
        y.shrink = 1.0;
        v.push(WCont::plain(dir, 1, 100.0, 0.0).enc(&[y, x]));
    }
    v
}

// ------------------------------------------------------------------------------------------------ oracle

fn oracle_cfg(idx: u64) -> GenCfg {
    let mut cfg = GenCfg::default();
    cfg.displays = vec![Display::Flex, Display::Flex, Display::Flex, Display::Block, Display::Grid];
    cfg.negative_margins = false;
    cfg.insets = false;
    cfg.aspect = false;
    cfg.content_box = false;
    cfg.overflow = false;
    cfg.max_nodes = 14;
    cfg.max_children = 5;
    cfg.max_depth = 3;
    cfg.p_hidden = 40;
    cfg.p_absolute = 40;
    cfg.fractional = idx % 2 == 1;
    cfg.grid_lines = false;
    cfg
}

/// Staircase family: a single line that needs one freeze pass PER ITEM (random lines settle in two or three): flex-basis 0, grow
/// factors 3^(n-1-i), and max sizes chosen so that in pass j exactly item j exceeds its max (a tenth below its share of what is
/// left), the last item unbounded.  10 or 12 items, row or column, three scales.
fn staircase_case(rng: &mut Rng) -> (NodeSpec, Size<AvailableSpace>) {
    let n = *rng.pick(&[10usize, 12]);
    let w = *rng.pick(&[10000.0f64, 5000.0, 30000.0]);
    let row = rng.chance(1, 2);
    let grow: Vec<f64> = (0..n).map(|i| 3f64.powi((n - 1 - i) as i32)).collect();
    let mut free = w;
    let mut children = vec![];
    for j in 0..n {
        let mut s = Style { flex_basis: Dimension::length(0.0), flex_grow: grow[j] as f32, flex_shrink: 1.0, ..Default::default() };
        if j + 1 < n {
            let g: f64 = grow[j..].iter().sum();
            let m = ((free * grow[j] / g * 0.9) * 4.0).round() / 4.0;
            free -= m;
            if row {
                s.max_size.width = Dimension::length(m as f32);
            } else {
                s.max_size.height = Dimension::length(m as f32);
            }
        }
        children.push(NodeSpec::leaf(s));
    }
    let mut root = Style { display: Display::Flex, ..Default::default() };
    root.flex_direction = if row { FlexDirection::Row } else { FlexDirection::Column };
    root.size = if row { Size { width: Dimension::length(w as f32), height: Dimension::length(50.0) } } else { Size { width: Dimension::length(50.0), height: Dimension::length(w as f32) } };
    (NodeSpec { style: root, ctx: None, children }, Size::MAX_CONTENT)
}

fn oracle_case(seed: u64, idx: u64) -> (NodeSpec, Size<AvailableSpace>) {
    let mut rng = Rng::new(seed.wrapping_mul(0x9E37_79B9).wrapping_add(idx).wrapping_add(0xC07));
    if idx % 50 == 13 {
        return staircase_case(&mut rng);
    }
    let cfg = oracle_cfg(idx);
    let mut t = treegen::tree(&mut rng, &cfg);
    // two thirds of the cases: a flex root with a definite size and flex factors in {0, 1, 2, 2.5} below it;
    // idx % 3 == 1: single line; idx % 3 == 2: wrapping, children with definite flex bases (so that lines are computable)
    if idx % 3 != 0 {
        t.style.display = Display::Flex;
        t.style.size = Size { width: Dimension::length(treegen::len_value(&mut rng, &cfg, 300)), height: Dimension::length(treegen::len_value(&mut rng, &cfg, 300)) };
        let wrapping = idx % 3 == 2;
        t.style.flex_wrap = if wrapping { *rng.pick(&[FlexWrap::Wrap, FlexWrap::WrapReverse]) } else { FlexWrap::NoWrap };
        if wrapping {
            t.style.min_size = Size::auto();
            t.style.max_size = Size::auto();
            if rng.chance(2, 3) {
                t.style.padding = Rect::zero();
                t.style.border = Rect::zero();
            }
        }
        let row = is_row(t.style.flex_direction);
        for ch in t.children.iter_mut() {
            // per-axis overflow without scrollbar gutters (visible / clip / hidden, independently per axis): `hidden` on the
            // main axis makes the item a scroll container there, whose automatic minimum size is 0 instead of content-based
            if rng.chance(1, 4) {
                let o = [Overflow::Visible, Overflow::Clip, Overflow::Hidden];
                ch.style.overflow = Point { x: *rng.pick(&o), y: *rng.pick(&o) };
            }
            ch.style.flex_grow = *rng.pick(&[0.0, 0.0, 1.0, 2.0, 2.5]);
            ch.style.flex_shrink = *rng.pick(&[0.0, 1.0, 1.0, 2.0, 2.5]);
            if wrapping || rng.chance(1, 2) {
                ch.style.flex_basis = Dimension::length(treegen::len_value(&mut rng, &cfg, 150));
            }
            let needs_min = wrapping && !(ch.children.is_empty() && matches!(ch.ctx, None | Some(Ctx::Fixed(_, _))));
            if needs_min || rng.chance(1, 3) {
                let v = Dimension::length(treegen::len_value(&mut rng, &cfg, 120));
                if row {
                    ch.style.min_size.width = v;
                } else {
                    ch.style.min_size.height = v;
                }
            }
        }
    }
    let a = treegen::avail(&mut rng, &cfg);
    (t, a)
}

thread_local! {
    /// [containers with known lines, of which multi-line wrap, pairs compared, conservation evaluated, of which not exactly filled]
    static STATS: std::cell::RefCell<[u64; 5]> = std::cell::RefCell::new([0; 5]);
}
fn stat(i: usize, n: u64) {
    STATS.with(|s| s.borrow_mut()[i] += n);
}

struct Flat<'a> {
    spec: &'a NodeSpec,
    id: NodeId,
    hidden: bool, // the node or an ancestor is display:none
}

fn flatten<'a>(spec: &'a NodeSpec, ids: &[NodeId], pos: &mut usize, hidden: bool, out: &mut Vec<Flat<'a>>, kids_of: &mut Vec<Vec<usize>>) -> usize {
    let me = out.len();
    let h = hidden || spec.style.display == Display::None;
    out.push(Flat { spec, id: ids[*pos], hidden: h });
    kids_of.push(vec![]);
    *pos += 1;
    for c in &spec.children {
        let k = flatten(c, ids, pos, h, out, kids_of);
        kids_of[me].push(k);
    }
    me
}

fn resolve_len(d: Dimension, basis: Option<f32>) -> Option<f32> {
    d.into_option().or_else(|| {
        // percentage
        let raw = d.into_raw();
        if raw.tag() == taffy::CompactLength::PERCENT_TAG {
            basis.map(|bv| bv * raw.value())
        } else {
            None
        }
    })
}

/// What the oracle can know about one in-flow child from its style (main axis), given the container's inner main size.
struct ItemInfo {
    pb: f32,
    min: Option<f32>,      // style min, else the automatic minimum when it is computable (leaf with fixed content)
    min_explicit: bool,
    max: Option<f32>,
    hyp_outer: Option<f32>, // hypothetical outer main size when the flex base size is definite
}

fn item_info(nd: &Flat, l: &taffy::Layout, row: bool, inner_main: f32) -> ItemInfo {
    let s = &nd.spec.style;
    let ms = |r: Rect<f32>| if row { r.left } else { r.top };
    let me_ = |r: Rect<f32>| if row { r.right } else { r.bottom };
    let pick = |z: Size<Dimension>| if row { z.width } else { z.height };
    let pb = ms(l.padding) + me_(l.padding) + ms(l.border) + me_(l.border);
    let min_style = resolve_len(pick(s.min_size), Some(inner_main));
    let max = resolve_len(pick(s.max_size), Some(inner_main));
    let size_style = resolve_len(pick(s.size), Some(inner_main));
    let ov_main = if row { s.overflow.x } else { s.overflow.y };
    let min = match min_style {
        Some(m) => Some(m),
        // a scroll container on the main axis has automatic minimum size 0 (CSS Flexbox 4.5; Overflow::maybe_into_automatic_min_size)
        None if matches!(ov_main, Overflow::Hidden | Overflow::Scroll) => Some(0.0),
        None => {
            // (percentage padding/border of the item resolve to 0 while its content size is measured: not modelled here)
            let is_len = |c: taffy::CompactLength| c.tag() == taffy::CompactLength::LENGTH_TAG;
            let pb_lengths = [s.padding.left, s.padding.right, s.padding.top, s.padding.bottom, s.border.left, s.border.right, s.border.top, s.border.bottom]
                .iter()
                .all(|x| is_len(x.into_raw()));
            let content = match (&nd.spec.ctx, nd.spec.children.is_empty(), pb_lengths) {
                (None, true, true) => Some(0.0),
                (Some(Ctx::Fixed(w, h)), true, true) => Some(if row { *w } else { *h }),
                _ => None,
            };
            content.map(|cn| {
                let mut v = cn + pb;
                if let Some(sz) = size_style {
                    v = v.min(sz);
                }
                if let Some(mx) = max {
                    v = v.min(mx);
                }
                v.max(pb)
            })
        }
    };
    let basis = resolve_len(s.flex_basis, Some(inner_main)).or(size_style);
    let margin_of = |m: LengthPercentageAuto, resolved: f32| if m.is_auto() { 0.0 } else { resolved };
    let (m0, m1) = if row { (margin_of(s.margin.left, l.margin.left), margin_of(s.margin.right, l.margin.right)) } else { (margin_of(s.margin.top, l.margin.top), margin_of(s.margin.bottom, l.margin.bottom)) };
    let hyp_outer = match (basis, min) {
        (Some(bv), Some(m)) => {
            let fb = bv.max(pb);
            let lo = m.max(pb);
            let h = match max {
                Some(mx) => fb.min(mx).max(lo),
                None => fb.max(lo),
            };
            Some(h + (m0 + m1))
        }
        _ => None,
    };
    ItemInfo { pb, min, min_explicit: min_style.is_some(), max, hyp_outer }
}

/// The two laws on one laid-out flex container.  Returns (failure messages, lines known).
fn check_container(t: &TaffyTree<Ctx>, nodes: &[Flat], kids: &[usize], me: usize, tol: f32) -> Vec<String> {
    let mut fails = vec![];
    let st = &nodes[me].spec.style;
    let dir = st.flex_direction;
    let row = is_row(dir);
    let rev = is_reverse(dir);
    let wrap = st.flex_wrap != FlexWrap::NoWrap;
    let cl = t.unrounded_layout(nodes[me].id);
    let main_sz = |s: Size<f32>| if row { s.width } else { s.height };
    let main_pt = |p: Point<f32>| if row { p.x } else { p.y };
    let ms = |r: Rect<f32>| if row { r.left } else { r.top };
    let me_ = |r: Rect<f32>| if row { r.right } else { r.bottom };
    let cs = |r: Rect<f32>| if row { r.top } else { r.left };
    let ce = |r: Rect<f32>| if row { r.bottom } else { r.right };
    // in-flow children
    let flow: Vec<usize> = kids
        .iter()
        .copied()
        .filter(|k| nodes[*k].spec.style.display != Display::None && nodes[*k].spec.style.position != Position::Absolute)
        .collect();
    if flow.is_empty() {
        return fails;
    }
    let inner_main = main_sz(cl.size) - ms(cl.padding) - me_(cl.padding) - ms(cl.border) - me_(cl.border) - if row { cl.scrollbar_size.width } else { cl.scrollbar_size.height };
    let ls: Vec<&taffy::Layout> = flow.iter().map(|k| t.unrounded_layout(nodes[*k].id)).collect();
    // premises of the order law: non-negative content box and margins (gaps and margins are generated non-negative)
    let premises_ok = inner_main >= 0.0 && ls.iter().all(|l| ms(l.margin) >= 0.0 && me_(l.margin) >= 0.0 && cs(l.margin) >= 0.0 && ce(l.margin) >= 0.0 && main_sz(l.size) >= 0.0);
    if !premises_ok {
        return fails;
    }
    let is_len = |c: taffy::CompactLength| c.tag() == taffy::CompactLength::LENGTH_TAG;
    // the container's own padding/border must be lengths for `inner_main` to be the size the container itself used
    // (a percentage may be resolved against a different basis by the parent that reports it in Layout)
    let own_pb_lengths = is_len(st.padding.left.into_raw()) && is_len(st.padding.right.into_raw()) && is_len(st.padding.top.into_raw()) && is_len(st.padding.bottom.into_raw())
        && is_len(st.border.left.into_raw()) && is_len(st.border.right.into_raw()) && is_len(st.border.top.into_raw()) && is_len(st.border.bottom.into_raw());
    let style_main = if row { st.size.width } else { st.size.height };
    let definite_main = style_main.into_option().is_some();
    let gap_style = if row { st.gap.width } else { st.gap.height };
    let gap = match gap_style.into_raw().tag() {
        x if x == taffy::CompactLength::LENGTH_TAG => Some(gap_style.into_raw().value()),
        x if x == taffy::CompactLength::PERCENT_TAG => Some(gap_style.into_raw().value() * inner_main),
        _ => None,
    };
    let infos: Vec<ItemInfo> = flow.iter().zip(ls.iter()).map(|(k, l)| item_info(&nodes[*k], l, row, inner_main)).collect();
    // ---- lines (indices into `flow`): the whole list for nowrap; for wrap, collect_flex_lines replayed when every
    // hypothetical outer size is a function of the styles and no break decision is borderline; otherwise unknown
    let lines: Option<Vec<Vec<usize>>> = if !wrap {
        Some(vec![(0..flow.len()).collect()])
    } else {
        let cmin = if row { st.min_size.width } else { st.min_size.height };
        let cmax = if row { st.max_size.width } else { st.max_size.height };
        if !(own_pb_lengths && definite_main && cmin.is_auto() && cmax.is_auto()) || gap.is_none() || infos.iter().any(|i| i.hyp_outer.is_none()) {
            None
        } else {
            let g = gap.unwrap();
            let mut out: Vec<Vec<usize>> = vec![];
            let mut cur: Vec<usize> = vec![];
            let mut line_length = 0.0f32;
            let mut borderline = false;
            for j in 0..flow.len() {
                let contrib = infos[j].hyp_outer.unwrap() + if cur.is_empty() { 0.0 } else { g };
                let ll = line_length + contrib;
                if !cur.is_empty() && (ll - inner_main).abs() <= 1e-3 * inner_main.abs().max(1.0) {
                    borderline = true;
                }
                if ll > inner_main && !cur.is_empty() {
                    out.push(std::mem::take(&mut cur));
                    line_length = infos[j].hyp_outer.unwrap();
                    cur.push(j);
                } else {
                    line_length = ll;
                    cur.push(j);
                }
            }
            out.push(cur);
            if borderline {
                None
            } else {
                Some(out)
            }
        }
    };
    // margin boxes on the main axis, mirrored for *-reverse so that "document order" always means increasing coordinate
    let mbox = |l: &taffy::Layout| {
        let a = main_pt(l.location) - ms(l.margin);
        let z = main_pt(l.location) + main_sz(l.size) + me_(l.margin);
        if rev {
            (-z, -a)
        } else {
            (a, z)
        }
    };
    if !own_pb_lengths {
        return fails; // the true content box (and a percentage gap resolved against it) may be negative: premise unknown
    }
    if let Some(lines) = &lines {
        stat(0, 1);
        if lines.len() > 1 {
            stat(1, 1);
        }
        for line in lines {
            stat(2, line.len().saturating_sub(1) as u64);
            for w in line.windows(2) {
                let (i, j) = (w[0], w[1]);
                let (pa, pz) = mbox(ls[i]);
                let (a, _) = mbox(ls[j]);
                if a < pa - tol {
                    fails.push(format!("order: child {} starts at {} before child {} at {} on the same line", j, a, i, pa));
                } else if a < pz - tol {
                    fails.push(format!("overlap: margin box of child {} starts at {} inside that of child {} ending at {}", j, a, i, pz));
                }
            }
        }
    }
    // ---- conservation (single line, definite main size, factors 0 or >= 1 in the direction taken)
    if wrap || !definite_main || !own_pb_lengths || gap.is_none() {
        return fails;
    }
    let gap = gap.unwrap();
    let n = ls.len();
    let total: f32 = ls.iter().map(|l| main_sz(l.size) + ms(l.margin) + me_(l.margin)).sum::<f32>() + gap * (n as f32 - 1.0);
    let scale = inner_main.abs().max(total.abs()).max(1.0);
    stat(3, 1);
    if (total - inner_main).abs() <= 1e-3 * scale {
        return fails;
    }
    stat(4, 1);
    let growing = total < inner_main;
    let factor_of = |k: usize| if growing { nodes[k].spec.style.flex_grow } else { nodes[k].spec.style.flex_shrink };
    if flow.iter().any(|k| factor_of(*k) != 0.0 && factor_of(*k) < 1.0) {
        return fails; // premise: every non-zero factor in the direction taken is >= 1
    }
    if !growing && flow.iter().zip(infos.iter()).any(|(k, i)| factor_of(*k) != 0.0 && i.min.is_none()) {
        return fails; // content-dependent automatic minimum: outside the premises ("definite min sizes")
    }
    // known finding F-C07-pbfloor: the loop floors a clamped target at 0 instead of padding+border, so an item with an
    // explicit min-size below its padding+border is laid out larger than the size the line was balanced with
    // (same root cause when the item is a container, which is then laid out at the clamped target, below its padding+border:
    // the hypothetical size, floored by padding+border, and the loop's clamp disagree)
    // (also when the minimum is the automatic 0 of a scroll container: any minimum below padding+border lets the loop's target go below
    // the size the item is laid out with)
    let pb_floor = infos.iter().any(|i| i.min.map(|m| m < i.pb).unwrap_or(false) || i.max.map(|m| m < i.pb).unwrap_or(false));
    let tag = if pb_floor { " [known:pb-floor]" } else { "" };
    for (j, k) in flow.iter().enumerate() {
        let i = &infos[j];
        let size = main_sz(ls[j].size);
        let factor = factor_of(*k);
        if factor == 0.0 {
            continue;
        }
        if growing {
            match i.max {
                None => fails.push(format!("conservation: line under-filled ({} < {}) but child {} (grow {}) has no max size{}", total, inner_main, j, factor, tag)),
                Some(mx) => {
                    // frozen at its max: the clamped target is max(mx, min, 0) >= mx
                    let eff = mx;
                    if size < eff - 1e-3 * scale {
                        fails.push(format!("conservation: line under-filled ({} < {}) but child {} (grow {}) has size {} < max {}{}", total, inner_main, j, factor, size, eff, tag));
                    }
                }
            }
        } else {
            let eff = i.min.unwrap().max(i.pb).max(0.0);
            if size > eff + 1e-3 * scale {
                fails.push(format!("conservation: line over-filled ({} > {}) but child {} (shrink {}) has size {} > min {}{}", total, inner_main, j, factor, size, eff, tag));
            }
        }
    }
    fails
}

fn nth_subtree(spec: &NodeSpec, k: &mut usize) -> Option<NodeSpec> {
    if *k == 0 {
        return Some(spec.clone());
    }
    *k -= 1;
    for c in &spec.children {
        if let Some(r) = nth_subtree(c, k) {
            return Some(r);
        }
    }
    None
}

fn oracle_one(seed: u64, idx: u64, verbose: bool) -> (usize, Vec<String>) {
    oracle_sub(seed, idx, verbose, None)
}

/// `sub`: lay out only the subtree rooted at the given pre-order node index (debugging aid)
fn oracle_sub(seed: u64, idx: u64, verbose: bool, sub: Option<usize>) -> (usize, Vec<String>) {
    let (spec, a) = oracle_case(seed, idx);
    let (spec, a) = match sub {
        Some(k) => (nth_subtree(&spec, &mut { k }).unwrap(), Size::MAX_CONTENT),
        None => (spec, a),
    };
    let mut t: TaffyTree<Ctx> = TaffyTree::new();
    t.disable_rounding();
    let mut ids = vec![];
    let root = treegen::build(&mut t, &spec, &mut ids);
    treegen::compute(&mut t, root, a);
    let mut nodes = vec![];
    let mut kids_of = vec![];
    let mut pos = 0;
    flatten(&spec, &ids, &mut pos, false, &mut nodes, &mut kids_of);
    let mut fails = vec![];
    let mut checked = 0;
    for i in 0..nodes.len() {
        if nodes[i].hidden || nodes[i].spec.style.display != Display::Flex || kids_of[i].is_empty() {
            continue;
        }
        checked += 1;
        let fs = check_container(&t, &nodes, &kids_of[i], i, 1e-3);
        if fs.is_empty() {
            continue;
        }
        if i == 0 {
            for m in fs {
                fails.push(format!("node {}: {}", i, m));
            }
        } else {
            // A nested container's children keep the layout of whatever pass of the engine ran last (cached measurements of
            // the items may come from passes with other sizing modes: the engine's business, C02).  The flex algorithm itself
            // is confirmed by laying the container out on its own, as a root with the size it ended up with.
            let l = t.unrounded_layout(nodes[i].id);
            let mut alone = nodes[i].spec.clone();
            alone.style.size = Size { width: Dimension::length(l.size.width), height: Dimension::length(l.size.height) };
            alone.style.min_size = Size::auto();
            alone.style.max_size = Size::auto();
            alone.style.margin = Rect::zero();
            alone.style.position = Position::Relative;
            let mut t2: TaffyTree<Ctx> = TaffyTree::new();
            t2.disable_rounding();
            let mut ids2 = vec![];
            let root2 = treegen::build(&mut t2, &alone, &mut ids2);
            treegen::compute(&mut t2, root2, Size::MAX_CONTENT);
            let mut nodes2 = vec![];
            let mut kids2 = vec![];
            let mut pos2 = 0;
            flatten(&alone, &ids2, &mut pos2, false, &mut nodes2, &mut kids2);
            for m in check_container(&t2, &nodes2, &kids2[0], 0, 1e-3) {
                fails.push(format!("node {} (confirmed as a root of its final size): {}", i, m));
            }
        }
    }
    if verbose {
        println!("avail={:?}", a);
        for (i, nd) in nodes.iter().enumerate() {
            let l = t.unrounded_layout(nd.id);
            let s = &nd.spec.style;
            let d = |c: taffy::CompactLength| -> String {
                match c.tag() {
                    x if x == taffy::CompactLength::LENGTH_TAG => format!("{}", c.value()),
                    x if x == taffy::CompactLength::PERCENT_TAG => format!("{}%", c.value() * 100.0),
                    x if x == taffy::CompactLength::AUTO_TAG => "auto".to_string(),
                    x => format!("tag{}", x),
                }
            };
            let sz = |z: Size<Dimension>| format!("{}x{}", d(z.width.into_raw()), d(z.height.into_raw()));
            let ra = |r: Rect<LengthPercentageAuto>| format!("[l {} r {} t {} b {}]", d(r.left.into_raw()), d(r.right.into_raw()), d(r.top.into_raw()), d(r.bottom.into_raw()));
            let rl = |r: Rect<LengthPercentage>| format!("[l {} r {} t {} b {}]", d(r.left.into_raw()), d(r.right.into_raw()), d(r.top.into_raw()), d(r.bottom.into_raw()));
            println!(
                "node {} kids={:?} {:?} {:?} {:?} {:?} size={} min={} max={} basis={} grow={} shrink={} margin={} padding={} border={} gap={}x{} jc={:?} ai={:?} as={:?} ac={:?} ctx={:?}",
                i, kids_of[i], s.display, s.position, s.flex_direction, s.flex_wrap, sz(s.size), sz(s.min_size), sz(s.max_size), d(s.flex_basis.into_raw()), s.flex_grow, s.flex_shrink,
                ra(s.margin), rl(s.padding), rl(s.border), d(s.gap.width.into_raw()), d(s.gap.height.into_raw()), s.justify_content, s.align_items, s.align_self, s.align_content, nd.spec.ctx
            );
            let rf = |r: Rect<f32>| format!("[l {} r {} t {} b {}]", r.left, r.right, r.top, r.bottom);
            println!("   -> loc=({}, {}) size=({}, {}) margin={} padding={} border={}", l.location.x, l.location.y, l.size.width, l.size.height, rf(l.margin), rf(l.padding), rf(l.border));
        }
    }
    (checked, fails)
}

pub fn main(args: &[String]) {
    match args[0].as_str() {
        "cases" | "one" | "wcases" | "wone" => {
            // The layout runs in a worker thread; a case that does not return within the watchdog period is reported as
            // `R -2` (the freeze/violation loop of a broken implementation may never exit) and the process ends there.
            let wrapk = args[0].starts_with('w');
            let cs: Vec<Vec<i64>> = if args[0] == "one" || args[0] == "wone" {
                vec![args[1..].iter().map(|s| s.parse().unwrap()).collect()]
            } else {
                let seed: u64 = args[1].parse().unwrap();
                let n: u64 = args[2].parse().unwrap();
                let mut v = if wrapk { wrap_corpus() } else { corpus() };
                let mut rng = Rng::new(seed ^ if wrapk { 0xC07_2 } else { 0xC07 });
                for _ in 0..n {
                    v.push(if wrapk { gen_wrap_case(&mut rng) } else { gen_case(&mut rng) });
                }
                v
            };
            let (tx, rx) = std::sync::mpsc::channel::<(usize, Vec<i64>)>();
            let work = cs.clone();
            std::thread::spawn(move || {
                for (i, c) in work.iter().enumerate() {
                    let r = if wrapk { run_wrap_case(c) } else { run_case(c) };
                    if tx.send((i, r)).is_err() {
                        return;
                    }
                }
            });
            let fmt = |v: &[i64]| v.iter().map(|x| x.to_string()).collect::<Vec<_>>().join(" ");
            for (i, c) in cs.iter().enumerate() {
                match rx.recv_timeout(std::time::Duration::from_secs(WATCHDOG_SECS)) {
                    Ok((j, r)) => {
                        assert_eq!(i, j);
                        println!("C {}\nR {}", fmt(c), fmt(&r));
                    }
                    Err(_) => {
                        println!("C {}\nR -2", fmt(c));
                        println!("HANG {}", i);
                        use std::io::Write;
                        std::io::stdout().flush().unwrap();
                        std::process::exit(0);
                    }
                }
            }
        }
        "oracle" => {
            let seed: u64 = args[1].parse().unwrap();
            let n: u64 = args[2].parse().unwrap();
            let start: u64 = args.get(3).map(|s| s.parse().unwrap()).unwrap_or(0);
            let mut checked = 0;
            let mut nfail = 0;
            // worker thread + watchdog, as above: a tree whose layout does not return is a failure of its own
            let (tx, rx) = std::sync::mpsc::channel::<(u64, Option<(usize, Vec<String>, [u64; 5])>)>();
            std::thread::spawn(move || {
                for idx in start..start + n {
                    let r = std::panic::catch_unwind(|| oracle_one(seed, idx, false));
                    let st = STATS.with(|s| *s.borrow());
                    let msg = match r {
                        Ok((k, fails)) => Some((k, fails, st)),
                        Err(_) => None, // panics are C03's business
                    };
                    if tx.send((idx, msg)).is_err() {
                        return;
                    }
                }
            });
            let mut st = [0u64; 5];
            for idx in start..start + n {
                match rx.recv_timeout(std::time::Duration::from_secs(WATCHDOG_SECS)) {
                    Ok((_, Some((k, fails, s)))) => {
                        checked += k;
                        st = s;
                        if let Some(m) = fails.first() {
                            nfail += 1;
                            if nfail <= 20 {
                                println!("FAIL {} {}", idx, m);
                            }
                        }
                    }
                    Ok((_, None)) => {}
                    Err(_) => {
                        nfail += 1;
                        println!("FAIL {} hang: the layout of this tree does not return within {} s", idx, WATCHDOG_SECS);
                        break;
                    }
                }
            }
            println!(
                "ORACLE {} trees, {} flex containers, {} with known lines ({} multi-line), {} neighbour pairs, {} conservation checks ({} not exactly filled), {} failing trees",
                n, checked, st[0], st[1], st[2], st[3], st[4], nfail
            );
            use std::io::Write;
            std::io::stdout().flush().unwrap();
            std::process::exit(0);
        }
        "oracle-one" => {
            let seed: u64 = args[1].parse().unwrap();
            let idx: u64 = args[2].parse().unwrap();
            let sub: Option<usize> = args.get(3).map(|s| s.parse().unwrap());
            let (k, fails) = oracle_sub(seed, idx, true, sub);
            println!("checked {k}");
            for m in fails {
                println!("FAIL {} {}", idx, m);
            }
        }
        "probe" => {
            // gap + auto margin: container 100 wide, gap 10, two 20-wide items, the second with margin-left: auto
            let mut t: TaffyTree<Ctx> = TaffyTree::new();
            t.disable_rounding();
            let a = t.new_leaf(Style { size: Size::from_lengths(20.0, 20.0), ..Default::default() }).unwrap();
            let bb = t
                .new_leaf(Style {
                    size: Size::from_lengths(20.0, 20.0),
                    margin: Rect { left: LengthPercentageAuto::auto(), right: zero(), top: zero(), bottom: zero() },
                    ..Default::default()
                })
                .unwrap();
            let root = t
                .new_with_children(
                    Style { size: Size::from_lengths(100.0, 20.0), gap: Size { width: LengthPercentage::length(10.0), height: zero() }, ..Default::default() },
                    &[a, bb],
                )
                .unwrap();
            treegen::compute(&mut t, root, Size::MAX_CONTENT);
            println!("a.x={} b.x={} b.margin.left={}", t.unrounded_layout(a).location.x, t.unrounded_layout(bb).location.x, t.unrounded_layout(bb).margin.left);
            // witness of C07_inset_refuted (Props/C07.v): row container 100 wide, two 20-wide items, the first `position: relative; left: 30`.
            // The model puts them at x = 30 and x = 20: the first overlaps the second (by design: a relative inset shifts the box after
            // layout).  Replay only: the C07 oracle generates no relative insets (GenCfg.insets = false).
            let mut t: TaffyTree<Ctx> = TaffyTree::new();
            t.disable_rounding();
            let a = t
                .new_leaf(Style {
                    size: Size::from_lengths(20.0, 20.0),
                    position: Position::Relative,
                    inset: Rect { left: LengthPercentageAuto::length(30.0), right: LengthPercentageAuto::auto(), top: LengthPercentageAuto::auto(), bottom: LengthPercentageAuto::auto() },
                    ..Default::default()
                })
                .unwrap();
            let bb = t.new_leaf(Style { size: Size::from_lengths(20.0, 20.0), ..Default::default() }).unwrap();
            let root = t.new_with_children(Style { size: Size::from_lengths(100.0, 20.0), ..Default::default() }, &[a, bb]).unwrap();
            treegen::compute(&mut t, root, Size::MAX_CONTENT);
            println!("inset a.x={} a.w={} b.x={}", t.unrounded_layout(a).location.x, t.unrounded_layout(a).size.width, t.unrounded_layout(bb).location.x);
        }
        _ => {
            eprintln!("c07: unknown command");
            std::process::exit(2);
        }
    }
    let _ = Overflow::Visible;
}
