(* The block container algorithm (block.rs `compute_inner`) as a RESUMPTION over the engine interface of Model/Engine.v
   (`Alg`: Query a child / SetLayout on a child / Ret), so that the interface premises of the engine-level theorems of
   C05 / C06 (HiddenBlind, AbsBlind) can be stated -- and proved, Proofs/BlockAlgBlind.v -- for it.  Definitions only.

   Built from the pieces that are tied to the source elsewhere:
     item generation         Gen/FiltersGen.v `block_generate_items` (translated pipeline) + Model/Block.v `generate_item`
     container width         `determine_content_based_container_width` (block.rs l.358-391): one measuring query per in-flow item
                             without a definite width
     in-flow loop            Model/Block.v `inflow_step` -- literally the step function that C10's K1/K2 run against the
                             implementation -- with each child's LayoutOutput now the ANSWER to a query instead of an oracle value
     decisions               Model/Block.v block_params / block_outer_height / block_can_collapse_through / block_output_margins
     hidden children         step 5 of compute_inner: the canonical hidden query + `Layout::with_order(order)`
   Abstracted (a parameter `abs_child`): what `perform_absolute_layout_on_absolute_children` does for ONE absolute item.  It may
   be any traffic (queries / stored layouts) addressed to that item's own node, ending with its content-size contribution
   (`OnlyChild`); in the source every tree call of that function is on `item.node_id` (checked by the translator:
   Gen/FiltersGen.v `block_absolute_pass_addresses_item_only`).  `compute_block_layout`'s preprocessing of the known dimensions
   reads no child and is a parameter `pre` of the final algorithm. *)
From Coq Require Import ZArith Bool List.
From TV Require Import Num.Num Gen.BlockGen Model.Block Model.Engine Model.FiltersBase Gen.FiltersGen Model.ItemFilters.
Import ListNotations.

(* LayoutInput *)
Record BIn (T : Type) := mkBIn {
  bi_mode : RunMode;
  bi_inherent : bool;                     (* sizing_mode == InherentSize *)
  bi_known : BSize (option T);
  bi_parent : BSize (option T);
  bi_avail : BSize (Avail T);
  bi_collapsible : BLine bool;            (* vertical_margins_are_collapsible *)
}.
Arguments mkBIn {T}. Arguments bi_mode {T}. Arguments bi_inherent {T}. Arguments bi_known {T}. Arguments bi_parent {T}.
Arguments bi_avail {T}. Arguments bi_collapsible {T}.

(* Layout, as stored by set_unrounded_layout *)
Record BLayout (T : Type) := mkLay {
  bl_order : Z; bl_x : T; bl_y : T; bl_size : BSize T; bl_content_size : BSize T; bl_scrollbar : BSize T;
  bl_padding : BRect T; bl_border : BRect T; bl_margin : BRect T;
}.
Arguments mkLay {T}. Arguments bl_order {T}. Arguments bl_x {T}. Arguments bl_y {T}. Arguments bl_size {T}.
Arguments bl_content_size {T}. Arguments bl_scrollbar {T}. Arguments bl_padding {T}. Arguments bl_border {T}. Arguments bl_margin {T}.

Section BlockAlg.
  Context {T : Type} `{Num T}.

  Notation Alg := (Engine.Alg (BIn T) (ChildOut T) (BLayout T)).
  Notation Ret := (Engine.Ret (BIn T) (ChildOut T) (BLayout T)).
  Notation Query := (Engine.Query (BIn T) (ChildOut T) (BLayout T)).
  Notation SetLayout := (Engine.SetLayout (BIn T) (ChildOut T) (BLayout T)).

  (* an item with its node (position in the child list) and the child's style *)
  Definition AItem : Type := nat * BStyle T * Item T.
  Definition ai_node (a : AItem) : nat := fst (fst a).
  Definition ai_style (a : AItem) : BStyle T := snd (fst a).
  Definition ai_item (a : AItem) : Item T := snd a.

  Definition block_alg_items (children : list (BStyle T)) (node_inner_size : BSize (option T)) : list AItem :=
    block_generate_items (C := nat * BStyle T) snd bs_position bs_bgm
                         (fun order c st => (fst c, st, generate_item st node_inner_size (Z.of_nat order))) (g_enumerate children).

  (* LayoutOutput::from_outer_size *)
  Definition from_outer_size (s : BSize T) : ChildOut T := mkOut s sz_zero ms_ZERO ms_ZERO false.

  (* ---- determine_content_based_container_width *)
  Definition measure_input (avail_w : Avail T) (it : Item T) (known : BSize (option T)) : BIn T :=
    let xsum := h_sum (rect_resolve_or_zero (it_margin it) (avail_into_option avail_w)) in
    mkBIn PerformLayout true known sz_none (mkSize (avail_maybe_sub_f avail_w xsum) MinContent) (mkLine true true).

  Fixpoint content_width_alg (avail_w : Avail T) (items : list AItem) (mx : T) (k : T -> Alg) : Alg :=
    match items with
    | [] => k mx
    | a :: rest =>
        let it := ai_item a in
        if position_is_absolute (it_position it) then content_width_alg avail_w rest mx k
        else
          let known := sz_maybe_clamp (it_size it) (it_min_size it) (it_max_size it) in
          let continue_with := fun width => content_width_alg avail_w rest (fmax mx (fmax width (s_w (it_pb_sum it)))) k in
          match s_w known with
          | Some w => continue_with w
          | None =>
              Query (ai_node a) (measure_input avail_w it known)
                    (fun o => continue_with (add (s_w (co_size o))
                                                 (h_sum (rect_resolve_or_zero (it_margin it) (avail_into_option avail_w)))))
          end
    end.

  (* ---- perform_final_layout_on_in_flow_children *)
  Definition child_input (P : Params T) (it : Item T) : BIn T :=
    mkBIn PerformLayout true (item_known_dims P it) (mkSize (Some (p_outer_width P)) None)
          (mkSize (Definite (item_avail_w P it)) MinContent) (mkLine true true).

  Definition inflow_layout (it : Item T) (r : ItemResult T) (co : ChildOut T) : BLayout T :=
    mkLay (it_order it) (ir_x r) (ir_y r) (ir_size r) (co_content_size co) (ir_scrollbar r) (it_padding it) (it_border it) (ir_margin r).

  (* the output the absolute branch never looks at *)
  Definition no_out : ChildOut T := mkOut sz_zero sz_zero ms_ZERO ms_ZERO false.

  (* `acc` = the records so far, most recent first *)
  Fixpoint inflow_alg (P : Params T) (st : State T) (items : list AItem) (acc : list (AItem * ItemResult T))
           (k : State T -> list (AItem * ItemResult T) -> Alg) : Alg :=
    match items with
    | [] => k st (rev acc)
    | a :: rest =>
        let it := ai_item a in
        if position_is_absolute (it_position it) then
          let sr := inflow_step P st it no_out in
          inflow_alg P (fst sr) rest ((a, snd sr) :: acc) k
        else
          Query (ai_node a) (child_input P it)
                (fun co => let sr := inflow_step P st it co in
                           SetLayout (ai_node a) (inflow_layout it (snd sr) co)
                                     (inflow_alg P (fst sr) rest ((a, snd sr) :: acc) k))
    end.

  (* the tail of perform_final_layout_on_in_flow_children (= the tail of Model/Block.v block_inflow) *)
  Definition inflow_finish (P : Params T) (st : State T) (rs : list (ItemResult T)) : InflowOut T :=
    let last := s_active st in
    let bottom_off := if l_end (p_own_collapse P) then zero else ms_resolve last in
    let committed := add (s_committed st) (add (r_bottom (p_rcbi P)) bottom_off) in
    mkInflowOut rs (s_content st) (fmax zero committed) (s_first_set st) last.

  (* ---- perform_absolute_layout_on_absolute_children: one item = `abs_child`, any traffic addressed to that item's node *)
  Inductive OnlyChild (c : nat) (K : BSize T -> Alg) : Alg -> Prop :=
  | OC_done v : OnlyChild c K (K v)
  | OC_query i k : (forall o, OnlyChild c K (k o)) -> OnlyChild c K (Query c i k)
  | OC_set l a : OnlyChild c K a -> OnlyChild c K (SetLayout c l a).

  (* container style, the container's final outer size, the item with its record (static position), continuation taking the
     item's content-size contribution *)
  Definition AbsChild : Type := BStyle T -> BSize T -> AItem -> ItemResult T -> (BSize T -> Alg) -> Alg.
  Definition AbsChildLocal (abs_child : AbsChild) : Prop :=
    forall st sz a r K, OnlyChild (ai_node a) K (abs_child st sz a r K).

  Fixpoint abs_pass (abs_child : AbsChild) (st : BStyle T) (sz : BSize T) (rs : list (AItem * ItemResult T)) (content : BSize T)
           (k : BSize T -> Alg) : Alg :=
    match rs with
    | [] => k content
    | (a, r) :: rest =>
        if position_is_absolute (it_position (ai_item a)) then
          abs_child st sz a r (fun contribution => abs_pass abs_child st sz rest (sz_fmax content contribution) k)
        else abs_pass abs_child st sz rest content k
    end.

  (* ---- step 5: hidden layout of the display:none children; `flags` = which children are display:none *)
  Definition hidden_child_input : BIn T :=
    mkBIn PerformLayout true sz_none sz_none (mkSize MaxContent MaxContent) (mkLine false false).
  Definition with_order (order : nat) : BLayout T :=
    mkLay (Z.of_nat order) zero zero sz_zero sz_zero sz_zero rect_zero rect_zero rect_zero.

  Fixpoint hidden_pass (flags : list bool) (order : nat) (k : Alg) : Alg :=
    match flags with
    | [] => k
    | h :: rest =>
        if h then Query order hidden_child_input (fun _ => SetLayout order (with_order order) (hidden_pass rest (S order) k))
        else hidden_pass rest (S order) k
    end.

  (* ---- compute_inner *)
  Definition is_compute_size (m : RunMode) : bool := match m with ComputeSize => true | _ => false end.

  Definition block_inner_alg (abs_child : AbsChild) (st : BStyle T) (children : list (BStyle T)) (inp : BIn T) : Alg :=
    let binp := mkInput (bi_known inp) (bi_parent inp) (bi_collapsible inp) in
    let R := block_resolve st binp in
    let items := block_alg_items children (block_node_inner_size st binp) in
    let with_width (k : T -> Alg) : Alg :=
      match s_w (bi_known inp) with
      | Some w => k w
      | None =>
          let aw := avail_maybe_sub_f (s_w (bi_avail inp)) (h_sum (rs_cbi R)) in
          content_width_alg aw items zero
            (fun mx => k (fmax (f_maybe_clamp (add mx (h_sum (rs_cbi R))) (s_w (rs_min R)) (s_w (rs_max R))) (s_w (rs_pb_size R))))
      end in
    with_width (fun outer_w =>
      match is_compute_size (bi_mode inp), s_h (bi_known inp) with
      | true, Some h => Ret (from_outer_size (mkSize outer_w h))
      | _, _ =>
          let P := block_params st binp outer_w in
          inflow_alg P (init_state P) items []
            (fun stF ars =>
               let io := inflow_finish P stF (map snd ars) in
               let outer_h := block_outer_height st binp (io_height io) in
               let sz := mkSize outer_w outer_h in
               if is_compute_size (bi_mode inp) then Ret (from_outer_size sz)
               else
                 abs_pass abs_child st sz ars sz_zero
                   (fun abs_content =>
                      hidden_pass (map (s_hidden bs_bgm) children) 0
                        (Ret (mkOut sz (sz_fmax (io_content_size io) abs_content)
                                    (fst (block_output_margins st binp io)) (snd (block_output_margins st binp io))
                                    (block_can_collapse_through st binp (io_results io))))))
      end).

  (* compute_block_layout = compute_inner after a preprocessing of the input that reads the node's own style only *)
  Definition block_alg (pre : BStyle T -> BIn T -> BIn T) (abs_child : AbsChild) (st : BStyle T) (children : list (BStyle T))
             (inp : BIn T) : Alg :=
    block_inner_alg abs_child st children (pre st inp).

  (* ---- the classes of child styles and the equalities "up to what an absolute child may influence" *)
  Definition bs_visible_absolute (s : BStyle T) : bool := s_visible_absolute bs_position bs_bgm s.
  Definition bs_is_none (s : BStyle T) : bool := s_hidden bs_bgm s.
  (* LayoutOutput up to content_size *)
  Definition out_eq (a b : ChildOut T) : Prop :=
    co_size a = co_size b /\ co_top a = co_top b /\ co_bottom a = co_bottom b /\ co_ct a = co_ct b.
  (* Layout up to content_size *)
  Definition lay_eq (a b : BLayout T) : Prop :=
    bl_order a = bl_order b /\ bl_x a = bl_x b /\ bl_y a = bl_y b /\ bl_size a = bl_size b /\ bl_scrollbar a = bl_scrollbar b /\
    bl_padding a = bl_padding b /\ bl_border a = bl_border b /\ bl_margin a = bl_margin b.

  (* a bare display:none style (what the C05 oracle puts in place of a hidden subtree's root) *)
  Definition lpa_auto_rect : BRect (LPA T) := mkRect Auto Auto Auto Auto.
  Definition lpa_zero_rect : BRect (LPA T) := mkRect (Len zero) (Len zero) (Len zero) (Len zero).
  Definition bare_none_style : BStyle T :=
    mkStyle DNone false false OVisible OVisible zero PRelative lpa_auto_rect (mkSize Auto Auto) (mkSize Auto Auto) (mkSize Auto Auto)
            None lpa_zero_rect lpa_zero_rect lpa_zero_rect TAAuto.
  Definition hidden_view (s : BStyle T) : BStyle T := if bs_is_none s then bare_none_style else s.

  (* a concrete, deliberately simple absolute-item routine (one layout query, one stored layout) -- only used to show that the
     parameter can be instantiated; the real one is translated in Gen/AbsPosGen.v (C11) *)
  Definition abs_child_simple : AbsChild :=
    fun st sz a r K =>
      Query (ai_node a) (mkBIn PerformLayout false sz_none (mkSize (Some (s_w sz)) (Some (s_h sz)))
                               (mkSize (Definite (s_w sz)) (Definite (s_h sz))) (mkLine false false))
            (fun o => SetLayout (ai_node a)
                                (mkLay (it_order (ai_item a)) (ir_static_x r) (ir_static_y r) (co_size o) (co_content_size o)
                                       (ir_scrollbar r) (it_padding (ai_item a)) (it_border (ai_item a)) rect_zero)
                                (K (content_size_contribution (ir_static_x r) (ir_static_y r) (co_size o) (co_content_size o)
                                                              (it_overflow_x (ai_item a)) (it_overflow_y (ai_item a))))).
End BlockAlg.
