(* The interface hypotheses of the engine theorems of C01 / C15 for the COMPLETE engine's algorithm, Model/TaffyEngine.v `taffy_algo` with
   the real dispatch `taffy_dispatch` on (display, has_children), any mode-preserving block preprocessing (`block_pre`), an absolute-item
   routine of block containers that queries its item once in PerformLayout mode and then stores its layout (`abs_child_block`), and ANY
   leaf routine:

     taffy_algo_WF / _H1 / _H3 / _HQ   hold for every style, child list and input -- no premise is left (the grid algorithm's
                                       `grid_no_panic` is discharged by the total stand-in of Model/GridAlgTotal.v)
     taffy_algo_NS_partial             SizeOnly for a ComputeSize evaluation of a node that is not a block container and involves no
                                       baseline alignment (own align_items, the children's align_self)
   NS itself is refuted for block containers (C01_layouts_refuted_for_scribbling_algorithms: known finding computesize-scribble) and for
   flex rows / grids with baseline-aligned children (C01_flex_algorithm_NS_refuted, C01_grid_algorithm_NS_refuted). *)
From Coq Require Import ZArith Bool List Arith Lia.
From TV Require Import Model.Common Model.Leaf Model.FlexAlgBase Model.FlexAlg Model.EngineLift Model.BlockFlexEngine.
From TV Require Import Model.GridAlgBase Model.GridAlg Model.GridAlgTotal Model.TaffyEngine Model.TaffyRoot.
From TV Require Import Model.Engine Model.EngineLayouts Proofs.EngineDirty Proofs.EngineNoScribble Proofs.EngineIface.
From TV Require Import Proofs.BlockAlgIface Proofs.FlexAlgIface Proofs.GridAlgVisits Proofs.GridAlgTotal Proofs.BlockFlexEngine Proofs.TaffyEngine.
From TV Require Gen.BlockGen Model.Block Model.BlockAlg Model.BlockEngine Model.BlockAbs.
Import ListNotations.
Close Scope Z_scope.

Section TaffyIface.
  Context {T : Type} `{Num T}.
  Notation Out := (LayoutOutput T).
  Notation TS := (TStyle T).
  Notation tmode := (@qi_mode T).
  Notation WF := (WFAlg (FIn T) Out (FLay T) tmode).
  Notation Vis := (Visits (FIn T) Out (FLay T) tmode).
  Notation SL := (SetsLast (FIn T) Out (FLay T)).
  Notation NHS := (NoHiddenSize (FIn T) Out (FLay T) tmode).
  Notation SO := (SizeOnly (FIn T) Out (FLay T) tmode).
  Notation tnones := (nones TS t_is_none).

  Variable pre : Block.BStyle T -> BlockAlg.BIn T -> BlockAlg.BIn T.
  Variable abs_child : @BlockAlg.AbsChild T.
  Variable leaf : TS -> FIn T -> Out.
  Hypothesis pre_mode : forall s i, BlockAlg.bi_mode (pre s i) = BlockAlg.bi_mode i.
  Hypothesis abs_qs : AbsChildQS abs_child.

  (* ---- the three views of a child list agree on which children are display:none *)
  Lemma bnones_view (st : list TS) c :
    nones (Block.BStyle T) BlockAlg.bs_is_none (map to_bstyle (map ts_bf st)) c = tnones st c.
  Proof.
    rewrite (nones_comap (Block.BStyle T) (BFStyle T) to_bstyle BlockAlg.bs_is_none bf_is_none to_bstyle_is_none).
    apply (nones_comap (BFStyle T) TS ts_bf bf_is_none t_is_none). intros s. reflexivity.
  Qed.
  Lemma fnones_view (st : list TS) c : nones (FStyle T) f_is_none (map bf_flex (map ts_bf st)) c = tnones st c.
  Proof.
    rewrite (nones_comap (FStyle T) (BFStyle T) bf_flex f_is_none bf_is_none (fun s => eq_refl)).
    apply (nones_comap (BFStyle T) TS ts_bf bf_is_none t_is_none). intros s. reflexivity.
  Qed.
  Lemma gnones_view (st : list TS) c : nones (GStyle T) g_is_none (map to_gstyle st) c = tnones st c.
  Proof. apply (nones_comap (GStyle T) TS to_gstyle g_is_none t_is_none). intros s. reflexivity. Qed.

  (* ---- block containers: Model/BlockAlg.v behind `lift` and `style_comap` *)
  Lemma block_alg_t_unfold s st i :
    block_alg_t pre abs_child s st i =
    lift (BlockAlg.BIn T) (Block.ChildOut T) (BlockAlg.BLayout T) (FIn T) Out (FLay T) of_bin to_bout of_bout of_blay
         (BlockAlg.block_alg pre abs_child (to_bstyle (ts_bf s)) (map to_bstyle (map ts_bf st)) (to_bin i)).
  Proof. reflexivity. Qed.

  Lemma of_bin_mode (i : BlockAlg.BIn T) : qi_mode (of_bin i) = BlockAlg.bi_mode i.
  Proof. reflexivity. Qed.
  Lemma to_bin_mode (i : FIn T) : BlockAlg.bi_mode (to_bin i) = qi_mode i.
  Proof. reflexivity. Qed.

  Lemma block_alg_t_WF s st i : WF (block_alg_t pre abs_child s st i).
  Proof. rewrite block_alg_t_unfold. eapply WF_lift; [apply of_bin_mode|]. apply block_alg_WF. exact abs_qs. Qed.

  Lemma block_alg_t_HQ s st i : NHS (tnones st) (block_alg_t pre abs_child s st i).
  Proof.
    rewrite block_alg_t_unfold. eapply NHS_none_ext; [apply bnones_view|].
    eapply NHS_lift; [apply of_bin_mode|]. apply block_alg_HQ. exact abs_qs.
  Qed.

  Lemma block_alg_t_H1 s st i : qi_mode i = PerformLayout -> Vis (seq 0 (length st)) (block_alg_t pre abs_child s st i).
  Proof.
    intros Em. rewrite block_alg_t_unfold. eapply Vis_lift; [apply of_bin_mode|].
    replace (length st) with (length (map to_bstyle (map ts_bf st))) by (rewrite !map_length; reflexivity).
    apply block_alg_H1; [exact abs_qs|exact pre_mode|]. rewrite to_bin_mode. exact Em.
  Qed.

  Lemma block_alg_t_H3 s st i : qi_mode i = PerformLayout -> SL (tnones st) (seq 0 (length st)) (block_alg_t pre abs_child s st i).
  Proof.
    intros Em. rewrite block_alg_t_unfold. eapply SL_none_ext; [apply bnones_view|]. apply SL_lift.
    replace (length st) with (length (map to_bstyle (map ts_bf st))) by (rewrite !map_length; reflexivity).
    apply block_alg_H3; [exact abs_qs|exact pre_mode|]. rewrite to_bin_mode. exact Em.
  Qed.

  (* ---- flex containers *)
  Lemma flex_alg_t_unfold s st i : flex_alg_t s st i = flex_alg (bf_flex (ts_bf s)) (map bf_flex (map ts_bf st)) i.
  Proof. reflexivity. Qed.

  Lemma flex_alg_t_H1 s st i : qi_mode i = PerformLayout -> Vis (seq 0 (length st)) (flex_alg_t s st i).
  Proof.
    intros Em. rewrite flex_alg_t_unfold.
    replace (length st) with (length (map bf_flex (map ts_bf st))) by (rewrite !map_length; reflexivity). apply flex_alg_H1. exact Em.
  Qed.
  Lemma flex_alg_t_H3 s st i : qi_mode i = PerformLayout -> SL (tnones st) (seq 0 (length st)) (flex_alg_t s st i).
  Proof.
    intros Em. rewrite flex_alg_t_unfold. eapply SL_none_ext; [apply fnones_view|].
    replace (length st) with (length (map bf_flex (map ts_bf st))) by (rewrite !map_length; reflexivity). apply flex_alg_H3. exact Em.
  Qed.
  Lemma flex_alg_t_HQ s st i : NHS (tnones st) (flex_alg_t s st i).
  Proof. rewrite flex_alg_t_unfold. eapply NHS_none_ext; [apply fnones_view|]. apply flex_alg_HQ. Qed.

  (* ---- grid containers *)
  Lemma grid_alg_t_unfold s st i : grid_alg_t s st i = grid_alg_total (to_gstyle s) (map to_gstyle st) i.
  Proof. reflexivity. Qed.

  Lemma grid_alg_t_H1 s st i : qi_mode i = PerformLayout -> Vis (seq 0 (length st)) (grid_alg_t s st i).
  Proof.
    intros Em. rewrite grid_alg_t_unfold. replace (length st) with (length (map to_gstyle st)) by apply map_length.
    apply grid_alg_total_H1. exact Em.
  Qed.
  Lemma grid_alg_t_H3 s st i : qi_mode i = PerformLayout -> SL (tnones st) (seq 0 (length st)) (grid_alg_t s st i).
  Proof.
    intros Em. rewrite grid_alg_t_unfold. eapply SL_none_ext; [apply gnones_view|].
    replace (length st) with (length (map to_gstyle st)) by apply map_length. apply grid_alg_total_H3. exact Em.
  Qed.
  Lemma grid_alg_t_HQ s st i : NHS (tnones st) (grid_alg_t s st i).
  Proof. rewrite grid_alg_t_unfold. eapply NHS_none_ext; [apply gnones_view|]. apply grid_alg_total_HQ. Qed.

  (* ---- the dispatch: a leaf has no children *)
  Lemma dispatch_leaf (s : TS) n : taffy_dispatch s n = TKLeaf -> n = 0.
  Proof. destruct n as [|n]; [reflexivity|]. cbn. destruct (display (t_core s)); discriminate. Qed.

  Notation algo := (taffy_algo (taffy_dispatch (T := T)) pre abs_child leaf).

  Theorem taffy_algo_WF s st i : WF (algo s st i).
  Proof.
    unfold taffy_algo. destruct (taffy_dispatch s (length st));
      [apply block_alg_t_WF|rewrite flex_alg_t_unfold; apply flex_alg_WF|rewrite grid_alg_t_unfold; apply grid_alg_total_WF|apply WF_ret].
  Qed.

  Theorem taffy_algo_H1 s st i : qi_mode i = PerformLayout -> Vis (seq 0 (length st)) (algo s st i).
  Proof.
    intros Em. unfold taffy_algo. destruct (taffy_dispatch s (length st)) eqn:Ed;
      [apply block_alg_t_H1; exact Em|apply flex_alg_t_H1; exact Em|apply grid_alg_t_H1; exact Em|].
    rewrite (dispatch_leaf _ _ Ed). apply Vis_ret.
  Qed.

  Theorem taffy_algo_H3 s st i : qi_mode i = PerformLayout -> SL (tnones st) (seq 0 (length st)) (algo s st i).
  Proof.
    intros Em. unfold taffy_algo. destruct (taffy_dispatch s (length st)) eqn:Ed;
      [apply block_alg_t_H3; exact Em|apply flex_alg_t_H3; exact Em|apply grid_alg_t_H3; exact Em|].
    rewrite (dispatch_leaf _ _ Ed). apply SL_ret.
  Qed.

  Theorem taffy_algo_HQ s st i : NHS (tnones st) (algo s st i).
  Proof.
    unfold taffy_algo. destruct (taffy_dispatch s (length st));
      [apply block_alg_t_HQ|apply flex_alg_t_HQ|apply grid_alg_t_HQ|apply NHS_ret].
  Qed.

  (* ---- NS, the part that holds: nodes that are not block containers, without baseline alignment *)
  Theorem taffy_algo_NS_partial s st i :
    t_calm s = true -> Forall (fun c => t_calm c = true) st -> qi_mode i = ComputeSize -> SO (algo s st i).
  Proof.
    intros Hs Hst Em. unfold t_calm in Hs. apply andb_prop in Hs. destruct Hs as [Hs Hself]. apply andb_prop in Hs. destruct Hs as [Hd Hai].
    unfold taffy_algo, taffy_dispatch. destruct (length st) as [|n] eqn:El; [apply SO_ret|].
    assert (Hkids : Forall (fun c => fa_not_baseline (t_align_self c) = true) st).
    { eapply Forall_impl; [|exact Hst]. intros c Hc. unfold t_calm in Hc. apply andb_prop in Hc. apply Hc. }
    assert (Hflex : SO (flex_alg_t s st i)).
    { rewrite flex_alg_t_unfold. apply flex_alg_NS_partial; [|exact Em]. right. rewrite map_map. apply Forall_map.
      eapply Forall_impl; [|exact Hkids]. intros c Hc. unfold t_align_self in Hc. cbn beta.
      destruct (fs_align_self (bf_flex (ts_bf c))) as [a|]; cbn [opt_unwrap_or].
      - destruct a; try reflexivity. discriminate.
      - unfold container_align_items. unfold t_align_items in Hai. destruct (fs_align_items (bf_flex (ts_bf s))) as [a|]; cbn [opt_unwrap_or]; [|reflexivity].
        destruct a; try reflexivity. discriminate. }
    destruct (display (t_core s)); [discriminate|exact Hflex| |exact Hflex].
    rewrite grid_alg_t_unfold. apply grid_alg_total_NS_partial; [| |exact Em].
    - unfold not_baseline, to_gstyle. cbn [gs_align_items]. unfold t_align_items in Hai.
      destruct (fs_align_items (bf_flex (ts_bf s))) as [a|]; cbn [option_map]; [|discriminate]. destruct a; cbn; try discriminate.
    - apply Forall_map. eapply Forall_impl; [|exact Hkids]. intros c Hc. unfold not_baseline, to_gstyle. cbn [gs_align_self].
      unfold t_align_self in Hc. destruct (fs_align_self (bf_flex (ts_bf c))) as [a|]; cbn [option_map]; [|discriminate].
      destruct a; cbn; try discriminate.
  Qed.
End TaffyIface.

(* ---- the real instance *)
Section Real.
  Context {T : Type} `{Num T}.

  Lemma block_pre_mode (s : Block.BStyle T) (i : BlockAlg.BIn T) : BlockAlg.bi_mode (BlockEngine.block_pre s i) = BlockAlg.bi_mode i.
  Proof. reflexivity. Qed.

  Theorem real_algo_WF s st i : WFAlg (FIn T) (LayoutOutput T) (FLay T) qi_mode (real_algo s st i).
  Proof. apply taffy_algo_WF. apply abs_child_block_qs. Qed.
  Theorem real_algo_H1 s st i : qi_mode i = PerformLayout -> Visits (FIn T) (LayoutOutput T) (FLay T) qi_mode (seq 0 (length st)) (real_algo s st i).
  Proof. apply taffy_algo_H1; [apply block_pre_mode|apply abs_child_block_qs]. Qed.
  Theorem real_algo_H3 s st i : qi_mode i = PerformLayout ->
    SetsLast (FIn T) (LayoutOutput T) (FLay T) (nones (TStyle T) t_is_none st) (seq 0 (length st)) (real_algo s st i).
  Proof. apply taffy_algo_H3; [apply block_pre_mode|apply abs_child_block_qs]. Qed.
  Theorem real_algo_HQ s st i : NoHiddenSize (FIn T) (LayoutOutput T) (FLay T) qi_mode (nones (TStyle T) t_is_none st) (real_algo s st i).
  Proof. apply taffy_algo_HQ. apply abs_child_block_qs. Qed.
  Theorem real_algo_NS_partial s st i : t_calm s = true -> Forall (fun c => t_calm c = true) st -> qi_mode i = ComputeSize ->
    SizeOnly (FIn T) (LayoutOutput T) (FLay T) qi_mode (real_algo s st i).
  Proof. apply taffy_algo_NS_partial. Qed.

  (* ---- the engine on calm trees satisfies ALL FIVE hypotheses *)
  Notation CS := (CalmStyle (T := T)).
  Lemma calm_nones (st : list CS) c : nones (TStyle T) t_is_none (map calm_style st) c = nones CS calm_is_none st c.
  Proof. apply (nones_comap (TStyle T) CS calm_style t_is_none calm_is_none). intros s. reflexivity. Qed.

  Theorem calm_algo_WF (s : CS) st i : WFAlg (FIn T) (LayoutOutput T) (FLay T) qi_mode (calm_algo s st i).
  Proof. apply real_algo_WF. Qed.
  Theorem calm_algo_H1 (s : CS) st i : qi_mode i = PerformLayout ->
    Visits (FIn T) (LayoutOutput T) (FLay T) qi_mode (seq 0 (length st)) (calm_algo s st i).
  Proof.
    intros Em. unfold calm_algo, style_comap. replace (length st) with (length (map calm_style st)) by apply map_length.
    apply real_algo_H1. exact Em.
  Qed.
  Theorem calm_algo_H3 (s : CS) st i : qi_mode i = PerformLayout ->
    SetsLast (FIn T) (LayoutOutput T) (FLay T) (nones CS calm_is_none st) (seq 0 (length st)) (calm_algo s st i).
  Proof.
    intros Em. unfold calm_algo, style_comap. eapply SL_none_ext; [apply calm_nones|].
    replace (length st) with (length (map calm_style st)) by apply map_length. apply real_algo_H3. exact Em.
  Qed.
  Theorem calm_algo_HQ (s : CS) st i : NoHiddenSize (FIn T) (LayoutOutput T) (FLay T) qi_mode (nones CS calm_is_none st) (calm_algo s st i).
  Proof. unfold calm_algo, style_comap. eapply NHS_none_ext; [apply calm_nones|]. apply real_algo_HQ. Qed.
  Theorem calm_algo_NS (s : CS) st i : qi_mode i = ComputeSize -> SizeOnly (FIn T) (LayoutOutput T) (FLay T) qi_mode (calm_algo s st i).
  Proof.
    intros Em. unfold calm_algo, style_comap. apply real_algo_NS_partial; [exact (proj2_sig s)| |exact Em].
    apply Forall_map. apply Forall_forall. intros c _. exact (proj2_sig c).
  Qed.
End Real.
