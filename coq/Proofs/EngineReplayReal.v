(* The traced gmemo of Model/EngineReplayReal.v is `gmemo` plus a log: forgetting the events gives exactly `gmemo`, for every
   algorithm and EVERY cache behind the interface (in particular `memo_real`, the engine with the real cache). *)
From Coq Require Import List Bool Arith NArith Lia.
From TV Require Import Num.Num Model.Engine Model.EngineReal Model.EngineReplay Model.EngineReplayReal Proofs.EngineReplay.
Import ListNotations.

Section GTracedProofs.
  Variables (S In Out Lay : Type).
  Variable mode : In -> RunMode.
  Variable is_none : S -> bool.
  Variable hidden_out : Out.
  Variable zero_lay : Lay.
  Variable algo : S -> list S -> In -> Alg In Out Lay.
  Variable mcalls : S -> list S -> In -> N.
  Variable C : Type.
  Variable cget : C -> In -> option Out.
  Variable clossy : C -> In -> bool.
  Variable cstore : C -> In -> Out -> C.
  Variable cclear : C -> C.
  Notation tree := (gtree S Lay C).
  Notation ev_t := (event S In).

  Lemma grun_memo_traced_fst :
    forall (evt : tree -> In -> option (Out * tree * list ev_t)) (ev : tree -> In -> option (Out * tree)),
      (forall t i, forget_events (evt t i) = ev t i) ->
      forall a kids,
        forget_events (grun_memo_tr S In Out Lay C evt kids a) = grun_memo S In Out Lay C ev kids a.
  Proof.
    intros evt ev Hev. induction a as [o | c i k IH | c l k IH]; intros kids; simpl.
    - reflexivity.
    - destruct (nth_error kids c) as [t|]; [|reflexivity].
      rewrite <- (Hev t i). destruct (evt t i) as [[[o t'] e1]|]; simpl; [|reflexivity].
      rewrite <- (IH o (replace_nth c t' kids)).
      destruct (grun_memo_tr S In Out Lay C evt (replace_nth c t' kids) (k o)) as [[[o' ks] e2]|]; reflexivity.
    - destruct (nth_error kids c) as [t|]; [|reflexivity].
      rewrite <- (IH (replace_nth c (gset_lay S Lay C t l) kids)).
      destruct (grun_memo_tr S In Out Lay C evt (replace_nth c (gset_lay S Lay C t l) kids) k) as [[[o' ks] e2]|]; reflexivity.
  Qed.

  Theorem gmemo_traced_fst :
    forall fuel t i,
      forget_events (gmemo_tr S In Out Lay mode is_none hidden_out zero_lay algo mcalls C cget clossy cstore cclear fuel t i)
      = gmemo S In Out Lay mode is_none hidden_out zero_lay algo mcalls C cget clossy cstore cclear fuel t i.
  Proof.
    induction fuel as [|f IH]; intros t i; [reflexivity|].
    destruct t as [s c l n kids]. simpl.
    destruct (mode i); try reflexivity.
    - destruct (cget c i); [reflexivity|].
      destruct (is_none s); [reflexivity|].
      rewrite <- (grun_memo_traced_fst _ _ IH).
      destruct (grun_memo_tr S In Out Lay C _ kids _) as [[[o ks] e]|]; reflexivity.
    - destruct (cget c i); [reflexivity|].
      destruct (is_none s); [reflexivity|].
      rewrite <- (grun_memo_traced_fst _ _ IH).
      destruct (grun_memo_tr S In Out Lay C _ kids _) as [[[o ks] e]|]; reflexivity.
  Qed.
End GTracedProofs.
