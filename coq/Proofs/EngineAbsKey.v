(* Absolute blindness of the engine skeleton, KEYED (C06): the generalisation of Proofs/EngineAbs.v needed for grid containers.

   `key s` is the part of an out-of-flow child's style its parent MAY read (for a grid parent: grid_row / grid_column -- the implicit-grid
   size estimate reads them: known finding C06/grid-estimate-absolute).  AbsBlindK algo: on two child-style lists that agree except at
   out-of-flow positions, where both sides are out of flow AND HAVE THE SAME KEY, the two resumptions are bisimilar (ABis of
   Proofs/EngineAbs.v, unchanged).  Then (memo_asimK) two trees that are identical up to oeq/leq outside the subtrees of out-of-flow nodes
   -- which may be arbitrary as long as the out-of-flow nodes' keys agree -- stay so through any evaluation, and every node that is not
   itself out of flow returns oeq outputs.  With a constant key this is Proofs/EngineAbs.v; AbsBlind implies AbsBlindK for every key
   (AbsBlind_K).  The proofs are those of Proofs/EngineAbs.v with the key carried along. *)
From Coq Require Import List Bool Arith Lia.
From TV Require Import Model.Engine Proofs.EngineMemo Proofs.EngineBlind Proofs.EngineAbs.
Import ListNotations.

Section AbsBlindK.
  Variables (S In Out Lay : Type).
  Variable mode : In -> RunMode.
  Variable in_eqb : In -> In -> bool.
  Variable is_none : S -> bool.
  Variable hidden_out : Out.
  Variable zero_lay : Lay.
  Variable algo : S -> list S -> In -> Alg In Out Lay.

  Variable ab : S -> bool.                  (* out of flow: position:absolute *)
  Variable K : Type.
  Variable key : S -> K.                    (* what a parent may read of an out-of-flow child's style *)
  Variable oeq : Out -> Out -> Prop.        (* equal up to content_size *)
  Variable leq : Lay -> Lay -> Prop.        (* equal up to content_size and order *)
  Hypothesis oeq_refl : forall o, oeq o o.
  Hypothesis leq_refl : forall l, leq l l.

  Notation tree := (tree S In Out Lay).
  Notation Alg := (Alg In Out Lay).
  Notation cache := (cache In Out).
  Notation Node := (Node S In Out Lay).
  Notation memo := (memo S In Out Lay mode in_eqb is_none hidden_out zero_lay algo).
  Notation run_memo := (run_memo S In Out Lay).
  Notation hide := (hide S In Out Lay zero_lay).
  Notation cget := (cget In Out mode in_eqb).
  Notation cstore := (cstore In Out mode).
  Notation cempty := (cempty In Out).
  Notation style_of := (style_of S In Out Lay).
  Notation lay_of := (lay_of S In Out Lay).
  Notation set_lay := (set_lay S In Out Lay).
  Notation final := (final In Out).
  Notation meas := (meas In Out).

  (* ---------------------------------------------------------------------------- the interface hypothesis *)

  Notation ABis := (ABis In Out Lay oeq leq).
  Notation abmask := (abmask S ab).
  Definition arelK (a b : S) : Prop := a = b \/ (ab a = true /\ ab b = true /\ key a = key b).

  Definition AbsBlindK : Prop :=
    forall s st st' i, Forall2 arelK st st' -> ABis (abmask st) (algo s st i) (algo s st' i).

  (* the unkeyed hypothesis is the stronger one *)
  Lemma AbsBlind_K : AbsBlind S In Out Lay algo ab oeq leq -> AbsBlindK.
  Proof.
    intros HB s st st' i Hr. apply HB. clear -Hr. induction Hr as [|a b l l' Hab Hl IH]; constructor; [|exact IH].
    destruct Hab as [->|(A & B & _)]; [left; reflexivity|right; split; assumption].
  Qed.

  Lemma arel_ab a b : arelK a b -> ab a = ab b.
  Proof. intros [->|(E1 & E2 & _)]; congruence. Qed.

  Lemma abmask_rel st st' : Forall2 arelK st st' -> forall c, abmask st c = abmask st' c.
  Proof.
    intros H c. unfold abmask. pose proof (Forall2_nth_error_rel arelK st st' c H) as Hn.
    destruct (nth_error st c), (nth_error st' c); try contradiction; [apply arel_ab; exact Hn|reflexivity].
  Qed.

  (* ---------------------------------------------------------------------------- caches up to oeq *)

  Definition erel (x y : In * Out) : Prop := fst x = fst y /\ oeq (snd x) (snd y).
  Definition crel (c c' : cache) : Prop :=
    match final c, final c' with Some x, Some y => erel x y | None, None => True | _, _ => False end /\
    Forall2 erel (meas c) (meas c').

  Lemma crel_refl c : crel c c.
  Proof.
    split.
    - destruct (final c) as [[i o]|]; [split; [reflexivity|apply oeq_refl]|exact I].
    - induction (meas c) as [|[i o] l IH]; constructor; [split; [reflexivity|apply oeq_refl]|exact IH].
  Qed.

  Definition oorel (x y : option Out) : Prop :=
    match x, y with Some o, Some o' => oeq o o' | None, None => True | _, _ => False end.

  Lemma assoc_rel l l' i : Forall2 erel l l' -> oorel (assoc In Out in_eqb l i) (assoc In Out in_eqb l' i).
  Proof.
    intros H. induction H as [|[i1 o1] [i2 o2] l l' [Hi Ho] Hl IH]; cbn; [exact I|].
    cbn in Hi, Ho. subst i2. destruct (in_eqb i1 i); [exact Ho|exact IH].
  Qed.

  Lemma cget_rel c c' i : crel c c' -> oorel (cget c i) (cget c' i).
  Proof.
    intros [Hf Hm]. unfold Engine.cget. destruct (mode i).
    - destruct (final c) as [[i1 o1]|], (final c') as [[i2 o2]|]; try contradiction; [|exact I].
      destruct Hf as [Hi Ho]. cbn in Hi, Ho. subst i2. destruct (in_eqb i1 i); [exact Ho|exact I].
    - apply assoc_rel. exact Hm.
    - exact I.
  Qed.

  Lemma cstore_rel c c' i o o' : crel c c' -> oeq o o' -> crel (cstore c i o) (cstore c' i o').
  Proof.
    intros [Hf Hm] Ho. unfold Engine.cstore. destruct (mode i); split; cbn; try assumption.
    - split; [reflexivity|exact Ho].
    - constructor; [split; [reflexivity|exact Ho]|exact Hm].
  Qed.

  (* ---------------------------------------------------------------------------- trees up to out-of-flow subtrees *)

  Inductive asim : tree -> tree -> Prop :=
  | asim_abs s s' c c' l l' kids kids' :
      ab s = true -> ab s' = true -> key s = key s' -> asim (Node s c l kids) (Node s' c' l' kids')
  | asim_node s c c' l l' kids kids' :
      crel c c' -> leq l l' -> Forall2 asim kids kids' -> asim (Node s c l kids) (Node s c' l' kids').

  Lemma tree_ind5 (P : tree -> Prop) :
    (forall s c l kids, Forall P kids -> P (Node s c l kids)) -> forall t, P t.
  Proof.
    intros H. fix IH 1. intros [s c l kids]. apply H.
    induction kids as [|k kids IHk]; constructor; [apply IH | exact IHk].
  Qed.

  Lemma asim_refl t : asim t t.
  Proof.
    induction t as [s c l kids IH] using tree_ind5. apply asim_node; [apply crel_refl|apply leq_refl|].
    induction IH as [|x r Hx Hl IHl]; constructor; assumption.
  Qed.

  Lemma asim_arel a b : asim a b -> arelK (style_of a) (style_of b).
  Proof. intros H. destruct H; cbn; [right; repeat split; assumption|left; reflexivity]. Qed.

  Lemma Forall2_asim_arel kids kids' : Forall2 asim kids kids' -> Forall2 arelK (map style_of kids) (map style_of kids').
  Proof. intros H. induction H; cbn; constructor; [apply asim_arel; assumption|assumption]. Qed.

  Lemma asim_set_lay a b l l' : asim a b -> leq l l' -> asim (set_lay a l) (set_lay b l').
  Proof. intros H Hl. destruct H; cbn; [apply asim_abs; assumption|apply asim_node; assumption]. Qed.

  Lemma asim_hide : forall a b, asim a b -> asim (hide a) (hide b).
  Proof.
    induction a as [s c l kids IH] using tree_ind5. intros b H.
    inversion H as [s0 s' c0 c' l0 l' k0 kids' E E' Ek|s0 c0 c' l0 l' k0 kids' Hc Hl HK]; subst; cbn.
    - apply asim_abs; assumption.
    - apply asim_node; [apply crel_refl|apply leq_refl|]. clear H. induction HK as [|x y r r' Hxy Hr IHr]; cbn; constructor.
      + inversion IH; subst. auto.
      + apply IHr. inversion IH; subst. assumption.
  Qed.

  Lemma Forall2_asim_hide kids kids' : Forall2 asim kids kids' -> Forall2 asim (map hide kids) (map hide kids').
  Proof. intros H. induction H; cbn; constructor; [apply asim_hide; assumption|assumption]. Qed.

  (* an out-of-flow node on either side may be replaced by anything out of flow *)
  Lemma asim_swap_l a b a1 : asim a b -> ab (style_of a) = true -> style_of a1 = style_of a -> asim a1 b.
  Proof.
    intros H Ha Hs. pose proof (arel_ab _ _ (asim_arel _ _ H)) as Hab.
    assert (Hk : key (style_of a) = key (style_of b)) by (destruct (asim_arel _ _ H) as [->|(_ & _ & E)]; [reflexivity|exact E]).
    destruct a1 as [s1 c1 l1 k1], b as [s2 c2 l2 k2]. cbn in *. apply asim_abs; congruence.
  Qed.
  Lemma asim_swap_r a b b1 : asim a b -> ab (style_of b) = true -> style_of b1 = style_of b -> asim a b1.
  Proof.
    intros H Hb Hs. pose proof (arel_ab _ _ (asim_arel _ _ H)) as Hab.
    assert (Hk : key (style_of a) = key (style_of b)) by (destruct (asim_arel _ _ H) as [->|(_ & _ & E)]; [reflexivity|exact E]).
    destruct b1 as [s1 c1 l1 k1], a as [s2 c2 l2 k2]. cbn in *. apply asim_abs; congruence.
  Qed.

  (* ---------------------------------------------------------------------------- evaluation *)

  (* what the induction carries for a pair of evaluators (the two sides may have different fuel) *)
  Definition ev_asim (ev ev' : tree -> In -> option (Out * tree)) : Prop :=
    forall t t' i o t1 o' t1', asim t t' -> ev t i = Some (o, t1) -> ev' t' i = Some (o', t1') ->
      asim t1 t1' /\ (ab (style_of t) = false -> oeq o o').
  Definition keeps_style (ev : tree -> In -> option (Out * tree)) : Prop :=
    forall t i o t1, ev t i = Some (o, t1) -> style_of t1 = style_of t.

  Lemma map_style_replace' (kids : list tree) c t t1 :
    nth_error kids c = Some t -> style_of t1 = style_of t -> map style_of (replace_nth c t1 kids) = map style_of kids.
  Proof.
    intros En Hs. rewrite map_replace_nth, Hs. apply replace_nth_same. rewrite nth_error_map, En. reflexivity.
  Qed.

  Lemma run_memo_asim ev ev' : ev_asim ev ev' -> keeps_style ev -> keeps_style ev' ->
    forall st m a a', ABis m a a' -> (forall c, m c = abmask st c) ->
    forall kids kids' o k1 o' k1',
      Forall2 asim kids kids' -> map style_of kids = st ->
      run_memo ev kids a = Some (o, k1) -> run_memo ev' kids' a' = Some (o', k1') ->
      oeq o o' /\ Forall2 asim k1 k1'.
  Proof.
    intros Hev Hks Hks' st m a a' HB Hm.
    induction HB as [o0 o0' Ho|c i k k' Hc Hk IH|c l l' k k' Hc Hl Hk IH|c i k a' Hc Hk IH|c i a k' Hc Hk IH|c l k a' Hc Hk IH|c l a k' Hc Hk IH];
      intros kids kids' o k1 o' k1' HK Hst H H'.
    - cbn in H, H'. injection H as <- <-. injection H' as <- <-. split; assumption.
    - cbn in H, H'. pose proof (Forall2_nth_error_rel asim kids kids' c HK) as Hn.
      destruct (nth_error kids c) as [t|] eqn:En; [|discriminate].
      destruct (nth_error kids' c) as [t'|] eqn:En'; [|discriminate].
      destruct (ev t i) as [[o1 t1]|] eqn:Ee; [|discriminate].
      destruct (ev' t' i) as [[o1' t1']|] eqn:Ee'; [|discriminate].
      destruct (Hev _ _ _ _ _ _ _ Hn Ee Ee') as [Ht Ho].
      assert (Hab : ab (style_of t) = false).
      { rewrite Hm in Hc. unfold abmask in Hc. rewrite <- Hst, nth_error_map, En in Hc. exact Hc. }
      eapply (IH o1 o1' (Ho Hab)); [| |exact H|exact H'].
      + apply Forall2_replace_nth; assumption.
      + rewrite <- Hst. eapply map_style_replace'; [exact En|]. eapply Hks; exact Ee.
    - cbn in H, H'. pose proof (Forall2_nth_error_rel asim kids kids' c HK) as Hn.
      destruct (nth_error kids c) as [t|] eqn:En; [|discriminate].
      destruct (nth_error kids' c) as [t'|] eqn:En'; [|discriminate].
      eapply IH; [| |exact H|exact H'].
      + apply Forall2_replace_nth; [exact HK|]. apply asim_set_lay; assumption.
      + rewrite <- Hst. eapply map_style_replace'; [exact En|]. destruct t; reflexivity.
    - (* the left run talks to an out-of-flow child *)
      cbn in H. pose proof (Forall2_nth_error_rel asim kids kids' c HK) as Hn.
      destruct (nth_error kids c) as [t|] eqn:En; [|discriminate].
      destruct (nth_error kids' c) as [t'|] eqn:En'; [|contradiction].
      destruct (ev t i) as [[o1 t1]|] eqn:Ee; [|discriminate].
      assert (Hab : ab (style_of t) = true).
      { rewrite Hm in Hc. unfold abmask in Hc. rewrite <- Hst, nth_error_map, En in Hc. exact Hc. }
      pose proof (Hks _ _ _ _ Ee) as Hs1.
      eapply (IH o1); [| |exact H|exact H'].
      + rewrite <- (replace_nth_self c t' kids' En'). apply Forall2_replace_nth; [exact HK|].
        eapply asim_swap_l; eauto.
      + rewrite <- Hst. eapply map_style_replace'; eauto.
    - cbn in H'. pose proof (Forall2_nth_error_rel asim kids kids' c HK) as Hn.
      destruct (nth_error kids' c) as [t'|] eqn:En'; [|discriminate].
      destruct (nth_error kids c) as [t|] eqn:En; [|contradiction].
      destruct (ev' t' i) as [[o1' t1']|] eqn:Ee'; [|discriminate].
      assert (Hab : ab (style_of t) = true).
      { rewrite Hm in Hc. unfold abmask in Hc. rewrite <- Hst, nth_error_map, En in Hc. exact Hc. }
      assert (Hab' : ab (style_of t') = true) by (rewrite <- (arel_ab _ _ (asim_arel _ _ Hn)); exact Hab).
      pose proof (Hks' _ _ _ _ Ee') as Hs1.
      eapply (IH o1'); [|exact Hst|exact H|exact H'].
      rewrite <- (replace_nth_self c t kids En). apply Forall2_replace_nth; [exact HK|].
      eapply asim_swap_r; eauto.
    - cbn in H. pose proof (Forall2_nth_error_rel asim kids kids' c HK) as Hn.
      destruct (nth_error kids c) as [t|] eqn:En; [|discriminate].
      destruct (nth_error kids' c) as [t'|] eqn:En'; [|contradiction].
      assert (Hab : ab (style_of t) = true).
      { rewrite Hm in Hc. unfold abmask in Hc. rewrite <- Hst, nth_error_map, En in Hc. exact Hc. }
      eapply IH; [| |exact H|exact H'].
      + rewrite <- (replace_nth_self c t' kids' En'). apply Forall2_replace_nth; [exact HK|].
        eapply asim_swap_l; [exact Hn|exact Hab|destruct t; reflexivity].
      + rewrite <- Hst. eapply map_style_replace'; [exact En|destruct t; reflexivity].
    - cbn in H'. pose proof (Forall2_nth_error_rel asim kids kids' c HK) as Hn.
      destruct (nth_error kids' c) as [t'|] eqn:En'; [|discriminate].
      destruct (nth_error kids c) as [t|] eqn:En; [|contradiction].
      assert (Hab : ab (style_of t) = true).
      { rewrite Hm in Hc. unfold abmask in Hc. rewrite <- Hst, nth_error_map, En in Hc. exact Hc. }
      assert (Hab' : ab (style_of t') = true) by (rewrite <- (arel_ab _ _ (asim_arel _ _ Hn)); exact Hab).
      eapply IH; [|exact Hst|exact H|exact H'].
      rewrite <- (replace_nth_self c t kids En). apply Forall2_replace_nth; [exact HK|].
      eapply asim_swap_r; [exact Hn|exact Hab'|destruct t'; reflexivity].
  Qed.

  Lemma memo_keeps_style f : keeps_style (memo f).
  Proof.
    intros t i o t1. destruct f as [|f]; [discriminate|]. destruct t as [s c l kids]. cbn [Engine.memo].
    destruct (mode i).
    - destruct (cget c i); [intros H; injection H as <- <-; reflexivity|].
      destruct (is_none s); [intros H; injection H as <- <-; reflexivity|].
      destruct (run_memo _ _ _) as [[o1 k1]|]; [intros H; injection H as <- <-; reflexivity|discriminate].
    - destruct (cget c i); [intros H; injection H as <- <-; reflexivity|].
      destruct (is_none s); [intros H; injection H as <- <-; reflexivity|].
      destruct (run_memo _ _ _) as [[o1 k1]|]; [intros H; injection H as <- <-; reflexivity|discriminate].
    - intros H; injection H as <- <-; reflexivity.
  Qed.

  Theorem memo_asimK : AbsBlindK -> forall f f', ev_asim (memo f) (memo f').
  Proof.
    intros HB. induction f as [|f IH]; intros f' t t' i o t1 o' t1' H E E'; [discriminate|].
    destruct f' as [|f']; [discriminate|].
    destruct H as [s s' c c' l l' kids kids' Ea Ea' Ek|s c c' l l' kids kids' Hc Hl HK].
    - (* both out of flow: only the styles matter, and evaluation keeps them *)
      pose proof (memo_keeps_style _ _ _ _ _ E) as Hs. pose proof (memo_keeps_style _ _ _ _ _ E') as Hs'.
      split; [|cbn; congruence].
      destruct t1 as [s1 c1 l1 k1], t1' as [s2 c2 l2 k2]. cbn in Hs, Hs'. subst. apply asim_abs; assumption.
    - cbn [Engine.memo] in E, E'.
      assert (Hbody :
        match cget c i with
        | Some o0 => Some (o0, Node s c l kids)
        | None => if is_none s then Some (hidden_out, Node s (cstore cempty i hidden_out) zero_lay (map hide kids))
                  else match run_memo (memo f) kids (algo s (map style_of kids) i) with
                       | Some (o0, kids1) => Some (o0, Node s (cstore c i o0) l kids1)
                       | None => None end
        end = Some (o, t1) ->
        match cget c' i with
        | Some o0 => Some (o0, Node s c' l' kids')
        | None => if is_none s then Some (hidden_out, Node s (cstore cempty i hidden_out) zero_lay (map hide kids'))
                  else match run_memo (memo f') kids' (algo s (map style_of kids') i) with
                       | Some (o0, kids1) => Some (o0, Node s (cstore c' i o0) l' kids1)
                       | None => None end
        end = Some (o', t1') -> asim t1 t1' /\ oeq o o').
      { intros B B'. pose proof (cget_rel c c' i Hc) as Hg. unfold oorel in Hg.
        destruct (cget c i) as [o1|], (cget c' i) as [o1'|]; try contradiction.
        - injection B as <- <-. injection B' as <- <-. split; [apply asim_node; assumption|exact Hg].
        - destruct (is_none s).
          + injection B as <- <-. injection B' as <- <-. split; [|apply oeq_refl].
            apply asim_node; [apply crel_refl|apply leq_refl|apply Forall2_asim_hide; exact HK].
          + destruct (run_memo (memo f) kids _) as [[o1 k1]|] eqn:Er; [|discriminate].
            destruct (run_memo (memo f') kids' _) as [[o1' k1']|] eqn:Er'; [|discriminate].
            injection B as <- <-. injection B' as <- <-.
            pose proof (Forall2_asim_arel _ _ HK) as Hst.
            destruct (run_memo_asim (memo f) (memo f') (IH f') (memo_keeps_style f) (memo_keeps_style f')
                        (map style_of kids) (abmask (map style_of kids)) _ _ (HB s _ _ i Hst) (fun _ => eq_refl)
                        kids kids' o1 k1 o1' k1' HK eq_refl Er Er') as [Ho Hk1].
            split; [|exact Ho]. apply asim_node; [apply cstore_rel; assumption|exact Hl|exact Hk1]. }
      assert (Hhid : asim (hide (Node s c l kids)) (hide (Node s c' l' kids'))).
      { apply asim_hide. apply asim_node; assumption. }
      destruct (mode i).
      + destruct (Hbody E E') as [A1 A2]. split; [exact A1|intros _; exact A2].
      + destruct (Hbody E E') as [A1 A2]. split; [exact A1|intros _; exact A2].
      + injection E as <- <-. injection E' as <- <-. split; [exact Hhid|intros _; apply oeq_refl].
  Qed.

  (* pointwise: at a path with no out-of-flow node on it (end included), both trees have a node with leq stored layouts *)
  Fixpoint in_flow_path (t : tree) (p : list nat) : Prop :=
    ab (style_of t) = false /\
    match p with
    | [] => True
    | x :: p' => match nth_error (Engine.kids_of S In Out Lay t) x with Some ch => in_flow_path ch p' | None => False end
    end.

  Lemma asim_at : forall p t t' u, asim t t' -> in_flow_path t p -> Engine.subtree S In Out Lay t p = Some u ->
    exists u', Engine.subtree S In Out Lay t' p = Some u' /\ leq (lay_of u) (lay_of u') /\ style_of u' = style_of u.
  Proof.
    induction p as [|x p IH]; intros t t' u H Hv Hs.
    - cbn in Hs. injection Hs as <-. exists t'. split; [reflexivity|]. destruct Hv as [Hv _].
      destruct H as [s s' c c' l l' kids kids' Ea Ea' Ek|s c c' l l' kids kids' Hc Hl HK]; cbn in *; [congruence|].
      split; [exact Hl|reflexivity].
    - destruct Hv as [Hv Hv']. destruct H as [s s' c c' l l' kids kids' Ea Ea' Ek|s c c' l l' kids kids' Hc Hl HK]; cbn in *; [congruence|].
      pose proof (Forall2_nth_error_rel asim kids kids' x HK) as Hn.
      destruct (nth_error kids x) as [ch|] eqn:Ex; [|discriminate].
      destruct (nth_error kids' x) as [ch'|] eqn:Ex'; [|contradiction].
      eapply IH; eauto.
  Qed.
End AbsBlindK.

(* ---------------------------------------------------------------------------------------------- closure properties of AbsBlindK *)

Lemma AbsBlindK_dispatch2 (S In Out Lay K : Type) (sel : S -> bool) (a1 a2 : S -> list S -> In -> Alg In Out Lay) ab (key : S -> K) oeq leq :
  AbsBlindK S In Out Lay a1 ab K key oeq leq -> AbsBlindK S In Out Lay a2 ab K key oeq leq ->
  AbsBlindK S In Out Lay (fun s st i => if sel s then a1 s st i else a2 s st i) ab K key oeq leq.
Proof. intros H1 H2 s st st' i Hr. destruct (sel s); [apply H1|apply H2]; exact Hr. Qed.

Section StyleComapK.
  Variables (S1 S2 In Out Lay K : Type).
  Variable g : S2 -> S1.

  Lemma AbsBlindK_comap ab1 ab2 (key1 : S1 -> K) (key2 : S2 -> K) (oeq : Out -> Out -> Prop) (leq : Lay -> Lay -> Prop) algo :
    (forall s, ab1 (g s) = ab2 s) -> (forall s, key1 (g s) = key2 s) ->
    AbsBlindK S1 In Out Lay algo ab1 K key1 oeq leq ->
    AbsBlindK S2 In Out Lay (fun s st i => algo (g s) (map g st) i) ab2 K key2 oeq leq.
  Proof.
    intros Hab Hkey HB s st st' i Hr.
    assert (Hm : forall c, abmask S2 ab2 st c = abmask S1 ab1 (map g st) c).
    { intros c. unfold abmask. rewrite nth_error_map. destruct (nth_error st c); cbn; [rewrite Hab|]; reflexivity. }
    assert (Hr' : Forall2 (arelK S1 ab1 K key1) (map g st) (map g st')).
    { clear -Hr Hab Hkey. induction Hr as [|a b l l' Hab' Hl IH]; cbn; constructor; [|exact IH].
      destruct Hab' as [->|(A & B & C)]; [left; reflexivity|right; rewrite !Hab, !Hkey; repeat split; assumption]. }
    specialize (HB (g s) (map g st) (map g st') i Hr').
    clear -HB Hm. revert HB. generalize (algo (g s) (map g st) i), (algo (g s) (map g st') i). intros a a' HB.
    induction HB as [o o' Ho|c j k k' Hc Hk IH|c l l' k k' Hc Hl Hk IH|c j k a' Hc Hk IH|c j a k' Hc Hk IH|c l k a' Hc Hk IH|c l a k' Hc Hk IH].
    - apply AB_ret. exact Ho.
    - apply AB_query; [rewrite Hm; exact Hc|exact IH].
    - apply AB_set; [rewrite Hm; exact Hc|exact Hl|exact IH].
    - apply AB_query_l; [rewrite Hm; exact Hc|exact IH].
    - apply AB_query_r; [rewrite Hm; exact Hc|exact IH].
    - apply AB_set_l; [rewrite Hm; exact Hc|exact IH].
    - apply AB_set_r; [rewrite Hm; exact Hc|exact IH].
  Qed.
End StyleComapK.
