(* C11 -- absolutely positioned children: the three kernels abs_block / abs_flex / abs_grid.
   Each is the composition of GENERATED code (Gen/AbsPosGen.v, translated on every run from block.rs, flexbox.rs,
   grid/alignment.rs, grid/mod.rs) with the geometry of the container as its Layout reports it:

     Container = { size; border; padding; gutter }   gutter.x = scrollbar_size.width, gutter.y = scrollbar_size.height
     AbsIn     = the child's resolved insets / margins (None = auto) / style size / min / max / aspect ratio / alignment
     measure   = the oracle: what perform_child_layout returns for the known dimensions the kernel computed

   Hand-written here (and fingerprinted through the function bodies in gen_abspos.py): only how the callers build the
   arguments -- compute_inner's `absolute_position_area` is itself generated (block_abs_area); flexbox.rs
   compute_constants' `content_box_inset = padding + border; .right += gutter.x; .bottom += gutter.y`; grid/mod.rs'
   `container_alignment_styles = InBothAbsAxis { horizontal: justify_items, vertical: align_items }`, baseline shim 0.
   Definitions only. *)
From Coq Require Import ZArith NArith QArith Bool List.
From TV Require Import Num.Num Gen.AbsPosEnums Model.AbsPosBase Gen.AbsPosGen.

Section AbsPos.
  Context {T : Type} `{Num T}.

  Record Container := mkContainer {
    ct_size : Size T; ct_border : Rect T; ct_padding : Rect T; ct_gutter : Point T }.

  (* ---- block: perform_absolute_layout_on_absolute_children(tree, items, absolute_position_area, absolute_position_offset) *)
  Definition block_area (ct : Container) : Size T * Point T := block_abs_area (ct_size ct) (ct_border ct) (ct_gutter ct).
  Definition abs_block (ct : Container) (static_position : Point T) (i : AbsIn T) (measure : Size (option T) -> Size T) : AbsOut T :=
    block_child (fst (block_area ct)) (snd (block_area ct)) static_position i measure.
  Definition abs_block_place (ct : Container) (static_position : Point T) (i : AbsIn T) (measured : Size T) : AbsOut T :=
    block_place (fst (block_area ct)) (snd (block_area ct)) static_position i measured.
  Definition abs_block_style (ct : Container) (static_position : Point T) (st : AbsStyle T) measure : AbsOut T :=
    abs_block ct static_position (block_resolve (fst (block_area ct)) (snd (block_area ct)) st) measure.

  (* ---- flex: AlgoConstants as compute_constants + the main/cross size determination leave them *)
  Definition flex_constants (ct : Container) (dir : FlexDirection) (wrap_reverse : bool) (justify_content : option AlignContent)
      (align_items : AlignItems) : FlexConstants T :=
    let pb := rect_add (ct_padding ct) (ct_border ct) in
    let cbi := mkRect (r_left pb) (add (r_right pb) (p_x (ct_gutter ct))) (r_top pb) (add (r_bottom pb) (p_y (ct_gutter ct))) in
    mkFlexConstants (ct_size ct) (ct_border ct) (ct_gutter ct) cbi dir (fd_is_row dir) wrap_reverse justify_content align_items.
  Definition abs_flex (c : FlexConstants T) (i : AbsIn T) measure : AbsOut T := flex_child c i measure.
  Definition abs_flex_place (c : FlexConstants T) (i : AbsIn T) (measured : Size T) : AbsOut T := flex_place c i measured.
  Definition abs_flex_style (c : FlexConstants T) (st : AbsStyle T) measure : AbsOut T := flex_child c (flex_resolve c st) measure.

  (* ---- grid: align_and_position_item(tree, child, order, grid_area, container_alignment_styles, 0.0) with the area of a
     child whose grid lines are all auto *)
  Definition grid_area_of (ct : Container) : Rect T := grid_abs_area (ct_size ct) (ct_border ct) (ct_gutter ct).
  Definition abs_grid (ct : Container) (justify_items align_items : option AlignItems) (i : AbsIn T) measure : AbsOut T :=
    grid_child (grid_area_of ct) (mkInBoth justify_items align_items) zero i measure.
  Definition abs_grid_place (ct : Container) (justify_items align_items : option AlignItems) (i : AbsIn T) (measured : Size T) : AbsOut T :=
    grid_place (grid_area_of ct) (mkInBoth justify_items align_items) zero i measured.
  Definition abs_grid_style (ct : Container) (justify_items align_items : option AlignItems) (st : AbsStyle T) measure : AbsOut T :=
    abs_grid ct justify_items align_items (grid_resolve (grid_area_of ct) st) measure.

  (* ---- vocabulary of the statements (Props/C11.v) *)
  (* the padding box of the container with the scrollbar gutter excluded: [border_start, size - border_end - gutter] *)
  Definition pbox_start_x (ct : Container) : T := r_left (ct_border ct).
  Definition pbox_start_y (ct : Container) : T := r_top (ct_border ct).
  Definition pbox_end_x (ct : Container) : T := sub (sub (s_width (ct_size ct)) (r_right (ct_border ct))) (p_x (ct_gutter ct)).
  Definition pbox_end_y (ct : Container) : T := sub (sub (s_height (ct_size ct)) (r_bottom (ct_border ct))) (p_y (ct_gutter ct)).
  Definition pbox_w (ct : Container) : T := sub (pbox_end_x ct) (pbox_start_x ct).
  Definition pbox_h (ct : Container) : T := sub (pbox_end_y ct) (pbox_start_y ct).
  (* `size from insets`: padding-box extent minus insets and margins, not below zero, clamped (min wins over max) to
     [max(min, padding+border), max]; min = None means just the padding+border floor *)
  Definition eff_min (min0 : option T) (pb : T) : T := match min0 with Some m => fmax m pb | None => pb end.
  Definition inset_size (extent s e m_start m_end : T) (min0 max0 : option T) (pb : T) : T :=
    let raw := fmax (sub (sub (sub (sub extent s) e) m_start) m_end) zero in
    let capped := match max0 with Some mx => fmin raw mx | None => raw end in
    fmax capped (eff_min min0 pb).
End AbsPos.
