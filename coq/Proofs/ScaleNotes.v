(* C04 -- where homogeneity does NOT hold, as lemmas with witnesses:
   - pixel rounding (round(k x) <> k round(x)): why the property speaks of UNROUNDED output lengths;
   - AvailableSpace::is_roughly_equal compares a difference of lengths with the absolute f32::EPSILON (the cache
     compatibility test of C02 can therefore answer differently at another scale);
   - the absolute THRESHOLDs of grid track sizing: the loop condition `space_to_distribute > THRESHOLD` of
     distribute_space_up_to_limits, modelled as the one comparison it is. *)
From Coq Require Import QArith Qabs Lqa Bool List ZArith Lia.
From TV Require Import Num.Num Num.QNum Model.ScaleBase Proofs.ScalePrim Model.Rounding.
From TV Require Model.Cache.

(* ---- rounding *)
Lemma fround_not_homogeneous : exists k x, 0 < k /\ finite x /\ ~ sc k (fround x) (fround (x_scale k x)).
Proof. exists 2, (Fin (3#10)). repeat split; try exact I; try reflexivity. vm_compute. discriminate. Qed.

(* on the generated rounding pass: a root of width 0.3 rounds to width 0, the same root at twice the size (0.6) to 1 *)
Definition lay_w (w : XQ) : layout XQ :=
  mk_layout 0%Z zero zero w zero zero zero zero zero zero zero zero zero zero zero zero zero zero zero zero zero.
Lemma round_layout_not_homogeneous :
  exists k w, 0 < k /\ finite w /\
    ~ sc k (size_width (round_node zero zero (lay_w w))) (size_width (round_node zero zero (lay_w (x_scale k w)))).
Proof. exists 2, (Fin (3#10)). repeat split; try exact I; try reflexivity. vm_compute. discriminate. Qed.

(* ---- is_roughly_equal: |a - b| < EPSILON is not invariant *)
Lemma roughly_not_invariant :
  exists k a b, 0 < k /\ finite a /\ finite b /\
    Cache.roughly a b = true /\ Cache.roughly (x_scale k a) (x_scale k b) = false.
Proof. exists 4, (Fin 0), (Fin (1 # 16777216)). repeat split; try exact I; reflexivity. Qed.
(* ... but it IS invariant once the two values are equal or differ by at least EPSILON at both scales *)
Lemma roughly_invariant_far k a b :
  0 < k -> finite a -> finite b ->
  (xeq a b \/ (Cache.roughly a b = false /\ Cache.roughly (x_scale k a) (x_scale k b) = false)) ->
  Cache.roughly (x_scale k a) (x_scale k b) = Cache.roughly a b.
Proof.
  intros Hk Fa Fb [E | [E1 E2]]; [|congruence].
  destruct a as [p| | |], b as [q| | |]; cbn in Fa, Fb, E; try contradiction.
  unfold Cache.roughly, epsilon. cbn [ltb fabs sub of_Q QNum x_ltb x_abs x_sub x_add x_neg x_scale].
  assert (Z1 : Qabs (p + - q) == 0) by (rewrite E; setoid_replace (q + - q) with 0 by ring; reflexivity).
  assert (Z2 : Qabs (k * p + - (k * q)) == 0) by (rewrite E; setoid_replace (k * q + - (k * q)) with 0 by ring; reflexivity).
  assert (R : forall X, X == 0 -> negb (Qle_bool (1 # 8388608) X) = true).
  { intros X HX. destruct (Qle_bool (1 # 8388608) X) eqn:A; [|reflexivity]. apply Qle_bool_iff in A. rewrite HX in A.
    exfalso. revert A. unfold Qle; cbn; lia. }
  rewrite (R _ Z1), (R _ Z2). reflexivity.
Qed.

(* ---- grid THRESHOLD: `space > 0.01` decides whether another round of distribution happens *)
Definition above_threshold (threshold space : XQ) : bool := gtb space threshold.
Lemma threshold_not_invariant :
  exists k space, 0 < k /\ finite space /\
    above_threshold (Fin (1#100)) space = true /\ above_threshold (Fin (1#100)) (x_scale k space) = false.
Proof. exists (1#8), (Fin (1#16)). repeat split; try exact I; reflexivity. Qed.
(* the exact sense in which the threshold breaks homogeneity: scaling the lengths by k is the same as scaling the
   threshold by 1/k *)
Lemma threshold_exact k t t' space space' :
  0 < k -> sc k t t' -> sc k space space' -> above_threshold t' space' = above_threshold t space.
Proof. intros. unfold above_threshold. apply (sc_gtb k); assumption. Qed.
