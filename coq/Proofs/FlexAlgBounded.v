(* The flex resumption (Model/FlexAlg.v `flex_alg`) addresses only existing children -- a consequence of its shape
   (Proofs/FlexAlgShape.v flex_alg_shape = C05_flex_algorithm_shape): every event is addressed to an in-flow child, a box-generating
   absolute child or a display:none child OF THE CHILD LIST, i.e. to an index with `nth_error st c = Some _`.
   This is the premise `Bounded` of Proofs/EngineTotal.v `memo_total`.  Any `Num`. *)
From Coq Require Import ZArith QArith Bool List Lia.
From TV Require Import Num.QNum Model.Common Model.Leaf Gen.FlexGen Model.Flex Model.FlexLines Model.FlexBase Model.FlexContainer.
From TV Require Import Model.FiltersBase Gen.FiltersGen Model.ItemFilters Model.FlexAlgBase Model.FlexAlgAbs Model.FlexAlg.
From TV Require Import Proofs.FlexAlgStruct Proofs.FlexAlgShape Proofs.FlexAlgIface.
From TV Require Import Model.Engine.
From TV Require Proofs.EngineTotal.
Import ListNotations.
Close Scope Z_scope.
Close Scope Q_scope.

Section FlexBounded.
  Context {T : Type} `{Num T}.
  Notation Out := (LayoutOutput T).
  Notation FS := (FStyle T).
  Notation Alg := (Engine.Alg (FIn T) Out (FLay T)).
  Notation Bd := (EngineTotal.Bounded (FIn T) Out (FLay T)).

  Lemma Pre_bounded n (IN : nat -> Prop) BL (Tail : Alg -> Prop) a :
    (forall c, IN c -> c < n) -> (forall x, Tail x -> Bd n x) -> Pre IN BL Tail a -> Bd n a.
  Proof.
    intros Hin Ht. induction 1 as [a Ha|c i k Hc Hm Hk IH|c i k Hb Hc Hm Hs Hk IH].
    - apply Ht. exact Ha.
    - constructor; [apply Hin; exact Hc|exact IH].
    - constructor; [apply Hin; exact Hc|exact IH].
  Qed.

  Lemma QSL_bounded n qok lok (K : Alg -> Prop) L a :
    Forall (fun c => c < n) L -> (forall x, K x -> Bd n x) -> QSL qok lok K L a -> Bd n a.
  Proof.
    intros HL HK. induction 1 as [a Ha|c L i lay k Hq Hl Hk IH].
    - apply HK. exact Ha.
    - inversion HL as [|? ? Hc HL']; subst. constructor; [exact Hc|]. intros o. constructor; [exact Hc|]. apply IH. exact HL'.
  Qed.

  Lemma in_flow_lt (st : list FS) c : in_flow_at st c -> c < length st.
  Proof. intros (s & E & _). apply nth_error_Some. rewrite E. discriminate. Qed.
  Lemma abs_lt (st : list FS) c : abs_at st c -> c < length st.
  Proof. intros (s & E & _). apply nth_error_Some. rewrite E. discriminate. Qed.
  Lemma hidden_lt (st : list FS) c : hidden_at st c -> c < length st.
  Proof. intros (s & E & _). apply nth_error_Some. rewrite E. discriminate. Qed.

  Theorem flex_alg_bounded (s : FS) (st : list FS) (i : FIn T) : Bd (length st) (flex_alg s st i).
  Proof.
    eapply Pre_bounded; [apply in_flow_lt| |apply flex_alg_shape].
    intros a [[_ [o ->]]|[_ (walk & Hw & Hq)]]; [constructor|].
    eapply QSL_bounded; [| |exact Hq].
    - apply Forall_forall. intros c Hc. apply in_flow_lt. apply Hw. exact Hc.
    - intros x Hx. eapply QSL_bounded; [| |exact Hx].
      + apply Forall_forall. intros c Hc. apply abs_lt. apply abs_nodes_iff. exact Hc.
      + intros y Hy. apply QSLc_QSL in Hy. eapply QSL_bounded; [| |exact Hy].
        * apply Forall_forall. intros c Hc. apply hidden_lt. apply hidden_nodes_iff. exact Hc.
        * intros z [o ->]. constructor.
  Qed.
End FlexBounded.
