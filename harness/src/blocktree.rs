//! Whole-tree correspondence of the BLOCK ENGINE model (coq/Model/BlockEngine.v + BlockAbs.v + BlockRoot.v, runner
//! coq/Model/BlockEngineRun.v): random trees of display:block containers and leaves laid out through the public API
//! (`TaffyTree::compute_layout_with_measure`, rounding disabled) in exact-key mode (hook `set_exact_key`), every node's
//! unrounded layout printed as bit patterns.
//!
//! `vh blocktree cases <seed> <n> [start]`   per case: `C` = number of passes (1 or 2), the available space of each + the tree
//!                                 (pre-order; per node 54 style ints as `vh c10` encodes them, 3 ints of measure data, child
//!                                 count), `R` = after EVERY pass, 21 ints per node in pre-order
//!                                 (order, location, size, content_size, scrollbar_size, border, padding, margin),
//!                                 `L <d>` = number of Layout fields that differ when the same tree is laid out with the REAL cache
//!                                 key (the recorded lossy-cache-key finding; 0 = identical).  Last line: `SUMMARY ...`.
//! `vh blocktree case <seed> <idx>`           one case again, with the tree printed
//! `vh blocktree cases <seed> <n> <start> real`   the same cases laid out WITHOUT the exact-key hook (the cache users get): `R` = after
//!                                 every pass, per node in pre-order, the 21 layout ints, then the number of compute_cached_layout
//!                                 calls on the node in that pass, the number of those answered by the cache (event trace hook) and the
//!                                 number of measure-function calls for that node (counted by the measure closure, per NodeId);
//!                                 compared with Model/BlockEngineRealRun.run_case_real (Model/EngineReal.v `memo_real`)
//! `vh blocktree chains <n> [start]`          deterministic single-child chains of block containers (depth 1..16, 6 container
//!                                 style mixes, 2 measured leaves, 3 available spaces; idx < 576) in the `real` format; `Q` = total number
//!                                 of queries (chains with more than CHAIN_QUERY_LIMIT queries print `SKIP <idx> <queries>` instead)
//!
//! Generator (what the model covers): every node with children is display:block (or display:none); leaves are display
//! block / flex / grid / none; sizes, min/max sizes (lengths, percentages, auto), padding / border (lengths, percentages),
//! margins (lengths, percentages, negative, auto), insets on relative and absolute nodes, aspect ratio, both box-sizing values,
//! overflow + scrollbar width, text-align, item_is_table, position:absolute nodes, measure data None / Fixed / Text / Echo;
//! dyadic lengths for 3/4 of the cases, tenths for 1/4; available space definite / min-content / max-content per axis.
//! Excluded: flex and grid CONTAINERS (a flex / grid node with children), calc() values.
use crate::c10::{describe_tree, enc_style_core};
use crate::f32ops::canon;
use crate::rng::Rng;
use crate::treegen::{self, Ctx, GenCfg, NodeSpec};
use taffy::prelude::*;

pub fn bcase(seed: u64, idx: u64) -> (NodeSpec, Vec<Size<AvailableSpace>>) {
    let mut rng = Rng::new(seed.wrapping_mul(0x2545_F491).wrapping_add(idx).wrapping_add(0x0B10_C000));
    let mut cfg = GenCfg::default();
    cfg.displays = vec![Display::Block, Display::Block, Display::Block, Display::Flex, Display::Grid];
    cfg.max_nodes = 12;
    cfg.max_depth = 4;
    cfg.max_children = 4;
    cfg.fractional = idx % 4 == 3;
    cfg.p_absolute = if idx % 3 == 0 { 200 } else { 80 };
    cfg.p_hidden = if idx % 5 == 0 { 150 } else { 60 };
    cfg.grid_lines = false;
    cfg.grid_templates = false;
    cfg.gaps = false;
    cfg.wrap = false;
    let mut t = treegen::tree(&mut rng, &cfg);
    fn fix(rng: &mut Rng, cfg: &GenCfg, n: &mut NodeSpec, depth: usize) {
        if !n.children.is_empty() && n.style.display != Display::None {
            n.style.display = Display::Block;
        }
        // fields of the block algorithm treegen leaves at their defaults
        if rng.chance(1, 16) {
            n.style.item_is_table = true;
        }
        // margins are generated for a third of the nodes only: make vertical margins common below the root
        if depth > 0 && rng.chance(1, 3) {
            n.style.margin.top = treegen::lpa(rng, cfg, 20, true, true);
            n.style.margin.bottom = treegen::lpa(rng, cfg, 20, true, true);
        }
        // empty boxes (collapse-through)
        if depth > 0 && rng.chance(1, 8) {
            n.style.size.height = if rng.chance(1, 2) { Dimension::length(0.0) } else { Dimension::auto() };
            n.style.padding = Rect::zero();
            n.style.border = Rect::zero();
            n.style.min_size.height = Dimension::auto();
            if n.children.is_empty() && rng.chance(1, 2) {
                n.ctx = None;
            }
        }
        for c in n.children.iter_mut() {
            fix(rng, cfg, c, depth + 1);
        }
    }
    fix(&mut rng, &cfg, &mut t, 0);
    // the root: occasionally display:none or position:absolute (treegen never does that)
    if rng.chance(1, 40) {
        t.style.display = Display::None;
    }
    if rng.chance(1, 40) {
        t.style.position = Position::Absolute;
    }
    // one pass, or two passes over the same tree (the second under the same or another available space: cache hits across passes)
    let a = treegen::avail(&mut rng, &cfg);
    let mut passes = vec![a];
    if idx % 2 == 1 {
        let b = treegen::avail(&mut rng, &cfg);
        passes.push(if rng.chance(1, 4) { a } else if rng.chance(1, 3) { Size { width: a.width, height: b.height } } else { b });
    }
    (t, passes)
}

fn enc_avail(a: AvailableSpace, out: &mut Vec<u64>) {
    match a {
        AvailableSpace::Definite(v) => out.extend([0, canon(v)]),
        AvailableSpace::MinContent => out.extend([1, 0]),
        AvailableSpace::MaxContent => out.extend([2, 0]),
    }
}

fn enc_node(n: &NodeSpec, out: &mut Vec<u64>) {
    enc_style_core(&n.style, out);
    match &n.ctx {
        None => out.extend([0, 0, 0]),
        Some(Ctx::Fixed(w, h)) => out.extend([1, canon(*w), canon(*h)]),
        Some(Ctx::Text(k, unit)) => out.extend([2, *k as u64, canon(*unit)]),
        Some(Ctx::Echo(b)) => out.extend([3, canon(*b), 0]),
    }
    out.push(n.children.len() as u64);
    for c in &n.children {
        enc_node(c, out);
    }
}

/// all layouts in pre-order after every pass, 21 ints per node
fn lay_out(spec: &NodeSpec, passes: &[Size<AvailableSpace>], exact: bool) -> Vec<u64> {
    taffy::verif_hooks::set_exact_key(exact);
    let mut t: TaffyTree<Ctx> = TaffyTree::new();
    t.disable_rounding();
    let mut ids = vec![];
    let root = treegen::build(&mut t, spec, &mut ids);
    let mut r = vec![];
    for avail in passes {
        treegen::compute(&mut t, root, *avail);
        for id in &ids {
            let l = t.unrounded_layout(*id);
            let b = treegen::layout_bits(l);
            r.push(b[0] as u64);
            r.extend(b[1..].iter().map(|x| canon(f32::from_bits(*x))));
        }
    }
    taffy::verif_hooks::set_exact_key(false);
    r
}

/// REAL cache (no exact-key hook): layouts + per-node (queries, hits, measure calls) of every pass; second result = total queries
fn lay_out_real(spec: &NodeSpec, passes: &[Size<AvailableSpace>], query_limit: u64) -> Option<(Vec<u64>, u64)> {
    use std::cell::RefCell;
    use std::collections::HashMap;
    taffy::verif_hooks::set_exact_key(false);
    let mut t: TaffyTree<Ctx> = TaffyTree::new();
    t.disable_rounding();
    let mut ids = vec![];
    let root = treegen::build(&mut t, spec, &mut ids);
    let mut r = vec![];
    let mut total = 0u64;
    for avail in passes {
        let meas: RefCell<HashMap<NodeId, u64>> = RefCell::new(HashMap::new());
        taffy::verif_hooks::reset_queries();
        taffy::verif_hooks::set_query_limit(query_limit);
        taffy::verif_hooks::start_trace();
        let res = std::panic::catch_unwind(std::panic::AssertUnwindSafe(|| {
            t.compute_layout_with_measure(root, *avail, |known, av, id, ctx, _style| {
                *meas.borrow_mut().entry(id).or_insert(0) += 1;
                treegen::measure(known, av, ctx)
            })
            .unwrap();
        }));
        let trace = taffy::verif_hooks::take_trace();
        taffy::verif_hooks::set_query_limit(u64::MAX);
        if res.is_err() {
            return None;
        }
        let mut q: HashMap<NodeId, (u64, u64)> = HashMap::new();
        for ev in &trace {
            if let taffy::verif_hooks::Event::Query { node, hit, .. } = ev {
                let e = q.entry(*node).or_insert((0, 0));
                e.0 += 1;
                total += 1;
                if *hit {
                    e.1 += 1;
                }
            }
        }
        for id in &ids {
            let l = t.unrounded_layout(*id);
            let b = treegen::layout_bits(l);
            r.push(b[0] as u64);
            r.extend(b[1..].iter().map(|x| canon(f32::from_bits(*x))));
            let (nq, nh) = q.get(id).copied().unwrap_or((0, 0));
            r.extend([nq, nh, meas.borrow().get(id).copied().unwrap_or(0)]);
        }
    }
    Some((r, total))
}

fn enc_case(spec: &NodeSpec, passes: &[Size<AvailableSpace>]) -> Vec<u64> {
    let mut c: Vec<u64> = vec![passes.len() as u64];
    for avail in passes {
        enc_avail(avail.width, &mut c);
        enc_avail(avail.height, &mut c);
    }
    enc_node(spec, &mut c);
    c
}

/// `C` / `R` lines of the real-cache mode; third = number of layout fields differing from the exact-key run
pub fn lines_real(spec: &NodeSpec, passes: &[Size<AvailableSpace>]) -> (String, String, usize) {
    let c = enc_case(spec, passes);
    let exact = lay_out(spec, passes, true);
    let (real, _) = lay_out_real(spec, passes, u64::MAX).unwrap();
    let differ = exact.chunks(21).zip(real.chunks(24)).map(|(a, b)| a.iter().zip(b.iter()).filter(|(x, y)| x != y).count()).sum();
    let j = |v: &Vec<u64>| v.iter().map(|x| x.to_string()).collect::<Vec<_>>().join(" ");
    (format!("C {}", j(&c)), format!("R {}", j(&real)), differ)
}

pub const CHAIN_QUERY_LIMIT: u64 = 1500;
pub const NCHAINS: u64 = 576;

/// deterministic chain corpus: depth 1..16 block containers over one measured leaf
pub fn bchain(idx: u64) -> (NodeSpec, Vec<Size<AvailableSpace>>) {
    let depth = 1 + (idx % 16) as usize;
    let mix = (idx / 16) % 6;
    let which_leaf = (idx / 96) % 2;
    let which_avail = (idx / 192) % 3;
    let plain = Style { display: Display::Block, ..Default::default() };
    let fixed = Style { display: Display::Block, size: Size { width: length(200.0), height: auto() }, ..Default::default() };
    let padded = Style {
        display: Display::Block,
        padding: Rect { left: length(4.0), right: length(4.0), top: length(2.0), bottom: length(2.0) },
        margin: Rect { left: length(3.0), right: length(3.0), top: length(3.0), bottom: length(3.0) },
        min_size: Size { width: length(10.0), height: auto() },
        ..Default::default()
    };
    let capped = Style { display: Display::Block, max_size: Size { width: length(120.0), height: auto() }, ..Default::default() };
    let absolute = Style { display: Display::Block, position: Position::Absolute, ..Default::default() };
    let leaf = match which_leaf {
        0 => Style::default(),
        _ => Style { size: Size { width: length(50.0), height: auto() }, ..Default::default() },
    };
    let mut node = NodeSpec { style: leaf, ctx: Some(Ctx::Text(17, 8.0)), children: vec![] };
    for d in 0..depth {
        // d = 0 is the container directly above the leaf
        let st = match mix {
            0 => plain.clone(),
            1 => fixed.clone(),
            2 => padded.clone(),
            3 => if d % 2 == 0 { plain.clone() } else { fixed.clone() },
            4 => if d == depth / 2 && d + 1 < depth { absolute.clone() } else { plain.clone() },
            _ => capped.clone(),
        };
        node = NodeSpec { style: st, ctx: None, children: vec![node] };
    }
    let avail = match which_avail {
        0 => Size::MAX_CONTENT,
        1 => Size { width: AvailableSpace::Definite(300.0), height: AvailableSpace::Definite(200.0) },
        _ => Size { width: AvailableSpace::MinContent, height: AvailableSpace::MaxContent },
    };
    (node, vec![avail])
}

pub fn lines(spec: &NodeSpec, passes: &[Size<AvailableSpace>]) -> (String, String, usize) {
    let mut c: Vec<u64> = vec![passes.len() as u64];
    for avail in passes {
        enc_avail(avail.width, &mut c);
        enc_avail(avail.height, &mut c);
    }
    enc_node(spec, &mut c);
    let exact = lay_out(spec, passes, true);
    let real = lay_out(spec, passes, false);
    let differ = exact.iter().zip(real.iter()).filter(|(a, b)| a != b).count();
    let j = |v: &Vec<u64>| v.iter().map(|x| x.to_string()).collect::<Vec<_>>().join(" ");
    (format!("C {}", j(&c)), format!("R {}", j(&exact)), differ)
}

fn features(n: &NodeSpec, depth: usize, f: &mut [u64; 12]) {
    f[0] += 1;
    if !n.children.is_empty() {
        f[1] += 1;
    }
    if n.style.display == Display::None {
        f[2] += 1;
    }
    if n.style.position == Position::Absolute && depth > 0 {
        f[3] += 1;
    }
    if n.ctx.is_some() {
        f[4] += 1;
    }
    f[5] = f[5].max(depth as u64);
    for c in &n.children {
        features(c, depth + 1, f);
    }
}

pub fn main(args: &[String]) {
    let cmd = args.first().map(|s| s.as_str()).unwrap_or("");
    let num = |i: usize, d: u64| args.get(i).and_then(|s| s.parse::<u64>().ok()).unwrap_or(d);
    match cmd {
        "cases" => {
            let (seed, n, start) = (num(1, 1), num(2, 100), num(3, 0));
            let real = args.get(4).map(|s| s == "real").unwrap_or(false);
            let mut lossy = 0;
            let mut f = [0u64; 12];
            for idx in start..start + n {
                let (spec, passes) = bcase(seed, idx);
                let (c, r, d) = if real { lines_real(&spec, &passes) } else { lines(&spec, &passes) };
                println!("{c}\n{r}\nL {d}");
                if d > 0 {
                    lossy += 1;
                }
                features(&spec, 0, &mut f);
            }
            println!(
                "SUMMARY cases={} real_key_differs={} nodes={} containers={} hidden={} absolute={} measured={}",
                n, lossy, f[0], f[1], f[2], f[3], f[4]
            );
        }
        "chains" => {
            let (n, start) = (num(1, NCHAINS), num(2, 0));
            std::panic::set_hook(Box::new(|_| {}));
            for idx in start..(start + n).min(NCHAINS) {
                let (spec, passes) = bchain(idx);
                let j = |v: &Vec<u64>| v.iter().map(|x| x.to_string()).collect::<Vec<_>>().join(" ");
                match lay_out_real(&spec, &passes, CHAIN_QUERY_LIMIT) {
                    Some((r, q)) => println!("C {}\nR {}\nQ {} {}", j(&enc_case(&spec, &passes)), j(&r), idx, q),
                    None => println!("SKIP {} {}", idx, CHAIN_QUERY_LIMIT),
                }
            }
            println!("DONE");
        }
        "case" => {
            let (seed, idx) = (num(1, 1), num(2, 0));
            let (spec, passes) = bcase(seed, idx);
            let mut s = String::new();
            let mut k = 0;
            describe_tree(&spec, 0, &mut k, &mut s);
            for a in &passes {
                eprintln!("avail {}", treegen::avail_str(*a));
            }
            eprintln!("{}", s);
            let (c, r, d) = lines(&spec, &passes);
            println!("{c}\n{r}\nL {d}");
            let vals: Vec<u64> = r.split(' ').skip(1).map(|x| x.parse().unwrap()).collect();
            let k = spec.count();
            for (i, ch) in vals.chunks(21).enumerate() {
                let fl: Vec<f32> = ch[1..].iter().map(|b| f32::from_bits(*b as u32)).collect();
                eprintln!("pass {} node {}: order {} loc ({}, {}) size {}x{} content {}x{} sb {}x{} border {:?} padding {:?} margin {:?}",
                    i / k, i % k, ch[0], fl[0], fl[1], fl[2], fl[3], fl[4], fl[5], fl[6], fl[7], &fl[8..12], &fl[12..16], &fl[16..20]);
            }
        }
        _ => {
            eprintln!("usage: vh blocktree cases <seed> <n> [start] | case <seed> <idx>");
            std::process::exit(2);
        }
    }
}
