//! C01 search oracle: after every compute_layout in a random history, rebuild a fresh tree with the same shape, styles and
//! measure data, lay it out, and compare every Layout field (rounded and unrounded) bit-for-bit.
//! `vh c01 oracle <seed> <start> <n> <exact:0|1>`; lines `FAIL <idx> <step> <msg>`; `DONE <histories> <layouts> <ops applied>`.
use crate::hist::*;
use crate::rng::Rng;
use crate::treegen::*;

pub fn cfg() -> GenCfg {
    let mut c = GenCfg::default();
    c.max_nodes = 10;
    c
}

pub struct Outcome {
    pub fails: Vec<(usize, String)>,
    pub layouts: u64,
    pub ops: u64,
    pub trace: Vec<String>,
}

pub fn run_history(seed: u64, idx: u64, exact: bool, verbose: bool) -> Outcome {
    #[cfg(taffy_verif)]
    taffy::verif_hooks::set_exact_key(exact);
    let _ = exact;
    let mut rng = Rng::new(seed.wrapping_mul(0x9E37_79B9).wrapping_add(idx));
    let mut cfg = cfg();
    cfg.fractional = idx % 2 == 1;
    let spec = tree(&mut rng, &cfg);
    let (mut w, root) = World::new(&spec);
    let a0 = avail(&mut rng, &cfg);
    compute(&mut w.t, root, a0);
    let nops = 5 + rng.below(25);
    let mut out = Outcome { fails: vec![], layouts: 0, ops: 0, trace: vec![] };
    if verbose {
        out.trace.push(format!("initial tree: {:#?}\ninitial layout avail={:?}", spec, a0));
    }
    for step in 0..nops as usize {
        let op = gen_op(&mut rng, &cfg, &w);
        let applied = w.apply(&op);
        if verbose {
            out.trace.push(format!("step {step}: applied={applied} {:?}", op));
        }
        if !applied {
            continue;
        }
        out.ops += 1;
        if let Op::Layout(i, a) = &op {
            out.layouts += 1;
            let r = w.pool[*i].unwrap();
            let mut nodes = vec![];
            w.subtree(r, &mut nodes);
            let (mut ft, fids) = w.fresh_copy(r);
            compute(&mut ft, fids[0], *a);
            for (k, (n, f)) in nodes.iter().zip(fids.iter()).enumerate() {
                let inc = (layout_bits(w.t.layout(*n).unwrap()), layout_bits(w.t.unrounded_layout(*n)));
                let fre = (layout_bits(ft.layout(*f).unwrap()), layout_bits(ft.unrounded_layout(*f)));
                if inc != fre {
                    out.fails.push((
                        step,
                        format!(
                            "node#{k} of {} under root: incremental {:?} vs fresh {:?}",
                            nodes.len(),
                            w.t.unrounded_layout(*n),
                            ft.unrounded_layout(*f)
                        ),
                    ));
                    break;
                }
            }
            if !out.fails.is_empty() {
                break;
            }
        }
    }
    #[cfg(taffy_verif)]
    taffy::verif_hooks::set_exact_key(false);
    out
}

pub fn main(args: &[String]) {
    std::panic::set_hook(Box::new(|_| {}));
    match args[0].as_str() {
        "oracle" => {
            let seed: u64 = args[1].parse().unwrap();
            let start: u64 = args[2].parse().unwrap();
            let n: u64 = args[3].parse().unwrap();
            let exact = args.get(4).map(|s| s == "1").unwrap_or(false);
            let (mut layouts, mut ops) = (0, 0);
            for idx in start..start + n {
                match std::panic::catch_unwind(|| run_history(seed, idx, exact, false)) {
                    Ok(o) => {
                        layouts += o.layouts;
                        ops += o.ops;
                        for (step, m) in o.fails {
                            println!("FAIL {idx} {step} {}", m.replace('\n', " "));
                        }
                    }
                    Err(_) => println!("PANIC {idx}"),
                }
            }
            println!("DONE {n} {layouts} {ops}");
        }
        "one" => {
            let seed: u64 = args[1].parse().unwrap();
            let idx: u64 = args[2].parse().unwrap();
            let exact = args.get(3).map(|s| s == "1").unwrap_or(false);
            let o = run_history(seed, idx, exact, true);
            for l in o.trace {
                println!("{l}");
            }
            for (step, m) in o.fails {
                println!("FAIL {idx} {step} {m}");
            }
        }
        _ => std::process::exit(2),
    }
}
