(* C11 -- facts shared by the three kernels: finiteness vocabulary, exact-rational tactics, the clamp lemmas and the
   arithmetic of `size from insets`.  Everything is over XQ (Num/QNum.v). *)
From Coq Require Import ZArith NArith QArith Bool List Lia Lqa.
From TV Require Import Num.Num Num.QNum Gen.AbsPosEnums Model.AbsPosBase Gen.AbsPosGen Model.AbsPos.

(* ---- finite inputs *)
Definition fin_opt (o : option XQ) : Prop := match o with Some x => finite x | None => True end.
Definition fin_size (s : Size XQ) := finite (s_width s) /\ finite (s_height s).
Definition fin_osize (s : Size (option XQ)) := fin_opt (s_width s) /\ fin_opt (s_height s).
Definition fin_rect (r : Rect XQ) := finite (r_left r) /\ finite (r_right r) /\ finite (r_top r) /\ finite (r_bottom r).
Definition fin_orect (r : Rect (option XQ)) := fin_opt (r_left r) /\ fin_opt (r_right r) /\ fin_opt (r_top r) /\ fin_opt (r_bottom r).
Definition fin_point (p : Point XQ) := finite (p_x p) /\ finite (p_y p).
Definition fin_container (ct : @Container XQ) :=
  fin_size (ct_size ct) /\ fin_rect (ct_border ct) /\ fin_rect (ct_padding ct) /\ fin_point (ct_gutter ct).
Definition fin_in (i : AbsIn XQ) :=
  fin_orect (ai_margin i) /\ fin_orect (ai_inset i) /\ fin_size (ai_pb_sum i) /\ fin_osize (ai_size i) /\
  fin_osize (ai_min0 i) /\ fin_osize (ai_max i).
Ltac fin_unfold := unfold fin_container, fin_in, fin_size, fin_rect, fin_orect, fin_osize, fin_point in *.

Lemma qle_bool_false a b : Qle_bool a b = false -> b < a.
Proof. intro E. apply Qnot_le_lt. intro L. apply Qle_bool_iff in L. congruence. Qed.

(* turn every finite XQ variable into `Fin q` *)
Ltac fin_destruct :=
  repeat match goal with
  | H : _ /\ _ |- _ => destruct H
  | H : fin_opt (Some _) |- _ => cbn [fin_opt] in H
  | H : fin_opt None |- _ => clear H
  | H : finite ?x |- _ => is_var x; destruct x; cbn [finite] in H; try contradiction; clear H
  end.
Ltac xq := cbn; unfold x_max, x_min, x_is_nan, x_ltb; cbn.
(* case analysis on every rational comparison in the goal, pruning contradictory branches *)
Ltac qcases :=
  repeat match goal with
  | |- context [Qle_bool ?a ?b] =>
      let E := fresh "E" in
      destruct (Qle_bool a b) eqn:E;
      [apply Qle_bool_iff in E | apply qle_bool_false in E]; cbn [negb]; try (exfalso; lra)
  end.
Lemma Qdiv_inject1 x : x / inject_Z 1 == x.
Proof. unfold Qdiv. change (/ inject_Z 1) with 1. ring. Qed.
(* goals `xeq a b` / `finite a` over finite atoms *)
Ltac xq_arith := fin_destruct; xq; qcases; xq; qcases; cbn [xeq finite]; try exact I; rewrite ?Qdiv_inject1; try lra.

Lemma xeq_refl_fin x : finite x -> xeq x x.
Proof. destruct x; cbn; try contradiction. intros _. reflexivity. Qed.
Lemma xeq_fin_l x y : xeq x y -> finite y -> finite x.
Proof. destruct x, y; cbn; tauto. Qed.

(* ---- MaybeMath::maybe_clamp *)
Lemma clamp_OOO_some (x : XQ) mn mx : maybe_clamp_OOO (Some x) mn mx = Some (maybe_clamp_FOO x mn mx).
Proof. destruct mn, mx; reflexivity. Qed.
Lemma clamp_OOO_none (mn mx : option XQ) : maybe_clamp_OOO None mn mx = None.
Proof. reflexivity. Qed.
Lemma clamp_FOO_idem (x : XQ) mn mx : finite x -> fin_opt mn -> fin_opt mx ->
  maybe_clamp_FOO (maybe_clamp_FOO x mn mx) mn mx = maybe_clamp_FOO x mn mx.
Proof. intros Hx Hmn Hmx. destruct mn as [mn|], mx as [mx|]; fin_destruct; xq; qcases; xq; qcases; reflexivity. Qed.
Lemma clamp_FOO_fin (x : XQ) mn mx : finite x -> fin_opt mn -> fin_opt mx -> finite (maybe_clamp_FOO x mn mx).
Proof. intros Hx Hmn Hmx. destruct mn as [mn|], mx as [mx|]; xq_arith. Qed.

(* ---- the pieces of the closed form of the final size of one axis (block and flex; grid differs in the extent only) *)
(* effective minimum: `min.or(Some(padding_border)).maybe_max(padding_border)` *)
Definition bf_min (m : option XQ) (pb : XQ) : option XQ := maybe_max_OF (opt_or m (Some pb)) pb.
Definition raw_from_insets (extent : XQ) (ms me : option XQ) (s e : XQ) : XQ :=
  fmax (sub (sub (maybe_sub_FO (maybe_sub_FO extent ms) me) s) e) zero.
(* the value that is clamped: the style size, else the size from both insets, else the measured size *)
Definition axis_choice (extent : XQ) (sz s e ms me : option XQ) (measured : XQ) : XQ :=
  match sz with
  | Some w => w
  | None => match s, e with Some s, Some e => raw_from_insets extent ms me s e | _, _ => measured end
  end.

Lemma bf_min_eff m pb : finite pb -> bf_min m pb = Some (eff_min m pb).
Proof. intro Hp. destruct m; [reflexivity|]. fin_destruct. xq. qcases; reflexivity. Qed.
Lemma bf_min_fin m pb : fin_opt m -> finite pb -> fin_opt (bf_min m pb).
Proof. intros. rewrite bf_min_eff by assumption. destruct m; xq_arith. Qed.
Lemma raw_from_insets_fin extent ms me s e :
  finite extent -> fin_opt ms -> fin_opt me -> finite s -> finite e -> finite (raw_from_insets extent ms me s e).
Proof. intros. unfold raw_from_insets. destruct ms, me; xq_arith. Qed.
Lemma axis_choice_fin extent sz s e ms me measured :
  finite extent -> fin_opt sz -> fin_opt s -> fin_opt e -> fin_opt ms -> fin_opt me -> finite measured ->
  finite (axis_choice extent sz s e ms me measured).
Proof.
  intros. unfold axis_choice. destruct sz; [assumption|]. destruct s; [|assumption]. destruct e; [|assumption].
  apply raw_from_insets_fin; assumption.
Qed.

(* `size from insets` as the kernels compute it agrees with the statement's inset_size when the extents agree *)
Lemma clamp_inset_size extent extent' s e ms me mn0 mx pb :
  xeq extent extent' -> finite extent' -> finite s -> finite e -> finite ms -> finite me -> fin_opt mn0 -> fin_opt mx -> finite pb ->
  xeq (maybe_clamp_FOO (raw_from_insets extent (Some ms) (Some me) s e) (bf_min mn0 pb) mx)
      (inset_size extent' s e ms me mn0 mx pb).
Proof.
  intros Hx Hf. intros. pose proof (xeq_fin_l _ _ Hx Hf) as Hf'. rewrite bf_min_eff by assumption.
  unfold raw_from_insets, inset_size, eff_min.
  destruct mn0 as [mn0|], mx as [mx|]; fin_destruct; cbn [xeq] in Hx; xq; qcases; xq; qcases; cbn [xeq]; lra.
Qed.
