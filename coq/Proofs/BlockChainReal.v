(* The chain corpus of Model/BlockChainReal.v evaluated inside Coq over the bit-exact F32 instance: for every chain of 1..64 block
   containers (three style families, three available spaces) the real-cache engine measures the leaf at most twice and makes at most
   2 * depth + 1 compute_cached_layout calls.  By computation (vm_compute over 576 chains). *)
From Coq Require Import ZArith NArith Bool List Lia.
From TV Require Import Num.Num Num.F32 Model.EngineReal Model.BlockChainReal.
Import ListNotations.

Lemma chains_ok_64 : @chains_ok f32 _ 64 = true.
Proof. vm_cast_no_check (eq_refl true). Qed.

Lemma chain_ok_all mix k d : (1 <= d <= 64)%nat -> (k <= 2)%nat -> @chain_ok f32 _ mix d k = true.
Proof.
  intros Hd Hk. generalize chains_ok_64. unfold chains_ok. generalize (@chain_ok f32 _). intros F HA.
  rewrite forallb_forall in HA. assert (Hm : List.In mix all_mixes) by (destruct mix; cbn; auto).
  specialize (HA _ Hm). rewrite forallb_forall in HA.
  assert (Hk' : List.In k [0; 1; 2]%nat) by (destruct k as [|[|[|k]]]; cbn; auto; lia).
  specialize (HA _ Hk'). rewrite forallb_forall in HA. apply HA. apply in_seq. lia.
Qed.

Lemma chain_bound mix k d : (1 <= d <= 64)%nat -> (k <= 2)%nat ->
  exists m q, @chain_leaf_meas f32 _ mix d k = Some m /\ (m <= 2)%N /\
              @chain_queries f32 _ mix d k = Some q /\ (q <= 2 * N.of_nat d + 1)%N.
Proof.
  intros Hd Hk. pose proof (chain_ok_all mix k d Hd Hk) as HO. unfold chain_ok in HO.
  unfold chain_leaf_meas, chain_queries. destruct (chain_counts mix d k) as [ns|]; [|discriminate].
  apply andb_true_iff in HO. destruct HO as [A B]. apply N.leb_le in A. apply N.leb_le in B.
  cbn [option_map]. eexists. eexists. split; [reflexivity|]. split; [exact A|]. split; [reflexivity|exact B].
Qed.
