"""Translate the Option<f32> / AvailableSpace arithmetic tables of taffy into Gallina over the `Num` class:

  src/util/math.rs              the five concrete `impl MaybeMath<In, Out> for X` blocks (min/max/clamp/add/sub)
  src/util/resolve.rs           `MaybeResolve` / `ResolveOrZero` for LengthPercentage, LengthPercentageAuto, Dimension
  src/style/available_space.rs  into_option, maybe_set, map_definite_value, From<Option<f32>>, the enum's variant list
  src/geometry.rs               Size<Option<f32>>::maybe_apply_aspect_ratio

Every body is a `match` table (or `self.map(|v| ..)`) over Some/None/AvailableSpace variants with `min`/`max`/`+ - * /`
right-hand sides; they are rendered arm by arm (Rust and Coq both take the first matching arm; Coq additionally rejects
non-exhaustive or redundant tables).  Anything else is refused.  The generic lifts to Size / Rect, the remaining
geometry helpers and the hand-modelled functions of compute/leaf.rs, compute/mod.rs, tree/taffy_tree.rs are only
fingerprinted (Model/Common.v, Model/Leaf.v, Model/Root.v transcribe them by hand)."""
from rustparse import *


class Refuse(Exception):
    pass


def norm(toks):
    return ''.join(t[1] for t in toks)


def impls(toks):
    """All top-level `impl ... {` blocks: list of (normalised header, body token slice incl. braces)."""
    out = []
    i = 0
    depth = 0
    while i < len(toks):
        w = toks[i][1]
        if toks[i][0] == 'op' and w in '([{':
            depth += 1
        elif toks[i][0] == 'op' and w in ')]}':
            depth -= 1
        elif toks[i] == ('id', 'impl') and depth == 0:
            j = i
            while toks[j][1] != '{':
                j += 1
            e = match_brace(toks, j)
            out.append((norm(toks[i:j]), toks[j:e + 1]))
            i = e + 1
            continue
        i += 1
    return out


def the_impl(all_impls, header, src):
    hs = [b for h, b in all_impls if h == header]
    if len(hs) != 1:
        raise Refuse("%s: expected exactly one `%s`, found %d" % (src, header, len(hs)))
    return hs[0]


TYPES = {'Option<f32>': 'option T', 'f32': 'T', 'AvailableSpace': 'AvailableSpace T', 'Size<Option<f32>>': 'Size (option T)'}
SUFFIX = {('Option<f32>', 'Option<f32>'): 'oo', ('Option<f32>', 'f32'): 'of', ('f32', 'Option<f32>'): 'fo',
          ('AvailableSpace', 'f32'): 'af', ('AvailableSpace', 'Option<f32>'): 'ao'}
RESERVED = {'width', 'height'}      # projections of Types.Size: pattern binders of that name are renamed
NULLARY = {'MinContent', 'MaxContent'}


class R:
    """Render expression / pattern ASTs of rustparse as Gallina over `Num T`."""

    def __init__(self, env, self_type=None, value_name=None, resolve_fn=None):
        self.env = dict(env)
        self.self_type = self_type        # 'AvailableSpace' when `Self::X` means an AvailableSpace variant
        self.value_name = value_name      # what `self.0.value()` is called inside a tag arm
        self.resolve_fn = resolve_fn      # name of the generated maybe_resolve for `self.maybe_resolve(context, calc)`

    def variant(self, segs):
        if len(segs) == 2 and (segs[0] == 'AvailableSpace' or (segs[0] == 'Self' and self.self_type == 'AvailableSpace')):
            if segs[1] in NULLARY or segs[1] == 'Definite':
                return segs[1]
        return None

    def e(self, a):
        k = a[0]
        if k == 'lit':
            if a[1] in ('0.0', '0.'):
                return 'zero'
            if a[1] in ('1.0', '1.'):
                return 'one'
            raise Refuse("literal %s" % a[1])
        if k == 'path':
            segs = a[1]
            if len(segs) == 1 and segs[0] in self.env:
                return self.env[segs[0]]
            if segs == ['None']:
                return 'None'
            v = self.variant(segs)
            if v in NULLARY:
                return v
            raise Refuse("unknown name %s" % '::'.join(segs))
        if k == 'un' and a[1] == '&':
            return self.e(a[2])
        if k == 'bin':
            op = {'+': 'add', '-': 'sub', '*': 'mul', '/': 'div'}.get(a[1])
            if op is None:
                raise Refuse("binary operator %s" % a[1])
            return '(%s %s %s)' % (op, self.e(a[2]), self.e(a[3]))
        if k == 'call':
            f = a[1]
            if f[0] != 'path':
                raise Refuse("call of a non-path")
            args = [self.e(x) for x in a[2]]
            if f[1] == ['Some'] and len(args) == 1:
                return '(Some %s)' % args[0]
            if self.variant(f[1]) == 'Definite' and len(args) == 1:
                return '(Definite %s)' % args[0]
            if len(f[1]) == 1 and f[1][0] in self.env and len(args) == 1:
                return '(%s %s)' % (self.env[f[1][0]], args[0])
            raise Refuse("call of %s" % '::'.join(f[1]))
        if k == 'mcall':
            recv, nm, args = a[1], a[2], a[3]
            if nm == 'value' and not args and recv == ('field', ('path', ['self']), '0') and self.value_name:
                return self.value_name
            if nm in ('min', 'max') and len(args) == 1:
                return '(f%s %s %s)' % (nm, self.e(recv), self.e(args[0]))
            if nm == 'map' and len(args) == 1 and args[0][0] == 'closure' and len(args[0][1]) == 1:
                p = args[0][1][0]
                if p[0] != 'pident':
                    raise Refuse("closure parameter")
                inner = R(self.env, self.self_type, self.value_name, self.resolve_fn)
                inner.env[p[1]] = p[1]
                return '(option_map (fun %s => %s) %s)' % (p[1], inner.e(args[0][2]), self.e(recv))
            if nm == 'unwrap_or' and len(args) == 1:
                return '(match %s with Some x => x | None => %s end)' % (self.e(recv), self.e(args[0]))
            if nm == 'maybe_resolve' and self.resolve_fn and recv == ('path', ['self']) and len(args) == 2 \
                    and args[1] in (('path', ['calc']), ('un', '&', ('path', ['calc']))):
                return '(%s self %s)' % (self.resolve_fn, self.e(args[0]))
            raise Refuse("method %s" % nm)
        if k == 'field':
            if a[1] == ('path', ['self']) and a[2] in ('width', 'height') and 'self' in self.env:
                return '(%s %s)' % (a[2], self.env['self'])
            raise Refuse("field %s" % a[2])
        if k == 'struct':
            if a[1] == ['Size'] and a[3] is None and sorted(f for f, _ in a[2]) == ['height', 'width']:
                d = dict(a[2])
                return '(mkSize %s %s)' % (self.e(d['width']), self.e(d['height']))
            raise Refuse("struct literal %s" % '::'.join(a[1]))
        if k == 'match':
            return self.match(a)
        if k == 'block' and not a[1] and a[2] is not None:
            return self.e(a[2])
        raise Refuse("expression kind %s" % k)

    def pat(self, p, binds):
        k = p[0]
        if k == 'pwild':
            return '_'
        if k == 'pident':
            nm = p[1]
            if nm.startswith('_'):
                return '_'
            cn = nm + '_v' if nm in RESERVED else nm
            binds[nm] = cn
            return cn
        if k == 'ppath':
            if len(p[1]) == 1 and p[1][0].startswith('_'):
                return '_'
            if p[1] == ['None']:
                return 'None'
            v = self.variant(p[1])
            if v in NULLARY:
                return v
            raise Refuse("pattern %s" % '::'.join(p[1]))
        if k == 'pts' and len(p[2]) == 1:
            if p[1] == ['Some']:
                return '(Some %s)' % self.pat(p[2][0], binds)
            if self.variant(p[1]) == 'Definite':
                return '(Definite %s)' % self.pat(p[2][0], binds)
        raise Refuse("pattern kind %s" % k)

    def match(self, a):
        scrut, arms = a[1], a[2]
        scruts = scrut[1] if scrut[0] == 'tuple' else [scrut]
        n = len(scruts)
        lines = []
        for pt, guard, ex, attrs in arms:
            if guard is not None or attrs:
                raise Refuse("guarded / attributed match arm")
            binds = {}
            if pt[0] == 'pwild':
                ps = ['_'] * n
            elif n > 1:
                if pt[0] != 'ptuple' or len(pt[1]) != n:
                    raise Refuse("tuple pattern arity")
                ps = [self.pat(q, binds) for q in pt[1]]
            else:
                ps = [self.pat(pt, binds)]
            inner = R(self.env, self.self_type, self.value_name, self.resolve_fn)
            inner.env.update(binds)
            lines.append('  | %s => %s' % (', '.join(ps), inner.e(ex)))
        return '(match %s with\n%s\n  end)' % (', '.join(self.e(s) for s in scruts), '\n'.join(lines))


def body_expr(body):
    b = parse_block(body)
    if b[1] or b[2] is None:
        raise Refuse("function body is not a single expression")
    return b[2]


def read(repo, rel):
    return tokenize(open(repo + '/' + rel).read())


def generate(repo):
    out = []
    fps = {}
    w = out.append
    w('(* GENERATED on every run by /verif/translator/gen_math.py from src/util/math.rs, src/util/resolve.rs,')
    w('   src/style/available_space.rs, src/geometry.rs -- do not edit. *)')
    w('From Coq Require Import List.')
    w('From TV Require Import Num.Num Model.Types.')
    w('Section MathGen.')
    w('Context {T : Type} `{Num T}.')

    # ---------------------------------------------------------------- util/math.rs
    toks = read(repo, 'src/util/math.rs')
    allm = impls(toks)
    w('')
    w('(* ---- src/util/math.rs: MaybeMath.  Suffix = (type of self, type of the argument):')
    w('   oo Option/Option -> Option, of Option/f32 -> Option, fo f32/Option -> f32,')
    w('   af AvailableSpace/f32 -> AvailableSpace, ao AvailableSpace/Option -> AvailableSpace *)')
    for (selft, inn), suf in SUFFIX.items():
        outt = selft
        header = 'implMaybeMath<%s,%s>for%s' % (inn, outt, selft)
        body = the_impl(allm, header, 'math.rs')
        for fn in ['maybe_min', 'maybe_max', 'maybe_clamp', 'maybe_add', 'maybe_sub']:
            params, fbody, _ = find_fn(body, fn)
            fps['math::%s_%s' % (fn, suf)] = norm_tokens(fbody)
            names = param_names(params)
            if names[0] != 'self' or len(names) != (3 if fn == 'maybe_clamp' else 2):
                raise Refuse("%s: parameters %r" % (fn, names))
            r = R({n: n for n in names}, self_type=selft if selft == 'AvailableSpace' else None)
            sig = ' '.join('(%s : %s)' % (n, TYPES[selft if n == 'self' else inn]) for n in names)
            w('Definition %s_%s %s : %s :=\n  %s.' % (fn, suf, sig, TYPES[outt], r.e(body_expr(fbody))))
    gen = the_impl(allm, 'impl<In,Out,T:MaybeMath<In,Out>>MaybeMath<Size<In>,Size<Out>>forSize<T>', 'math.rs')
    fps['math::Size<T> lift'] = norm_tokens(gen)

    # ---------------------------------------------------------------- util/resolve.rs
    toks = read(repo, 'src/util/resolve.rs')
    allr = impls(toks)
    w('')
    w('(* ---- src/util/resolve.rs: MaybeResolve / ResolveOrZero (context = Option<f32>); the calc() arm is out of scope *)')
    kinds = [('LengthPercentage', 'lp', 'LengthPercentage T', {'LENGTH_TAG': 'LpLength', 'PERCENT_TAG': 'LpPercent'}),
             ('LengthPercentageAuto', 'lpa', 'LengthPercentageAuto T', {'AUTO_TAG': 'Auto', 'LENGTH_TAG': 'Length', 'PERCENT_TAG': 'Percent'}),
             ('Dimension', 'dim', 'Dimension T', {'AUTO_TAG': 'Auto', 'LENGTH_TAG': 'Length', 'PERCENT_TAG': 'Percent'})]
    for rty, suf, cty, ctors in kinds:
        body = the_impl(allr, 'implMaybeResolve<Option<f32>,Option<f32>>for%s' % rty, 'resolve.rs')
        params, fbody, _ = find_fn(body, 'maybe_resolve')
        fps['resolve::maybe_resolve_%s' % suf] = norm_tokens(fbody)
        if param_names(params) != ['self', 'context', 'calc']:
            raise Refuse("maybe_resolve parameters")
        m = body_expr(fbody)
        if m[0] != 'match' or m[1] != ('mcall', ('field', ('path', ['self']), '0'), 'tag', []):
            raise Refuse("maybe_resolve for %s is no longer `match self.0.tag()`" % rty)
        lines = []
        seen = []
        arms = list(m[2])
        # last arm: `_ => unreachable!()`; before it (feature calc): `_ if self.0.is_calc() => ...`
        last = arms.pop()
        if last[0] != ('pwild',) or last[1] is not None or last[2][0] != 'macro' or last[2][1] != 'unreachable':
            raise Refuse("maybe_resolve for %s: last arm is not `_ => unreachable!()`" % rty)
        if arms and arms[-1][0] == ('pwild',):
            calc = arms.pop()
            if calc[1] != ('mcall', ('field', ('path', ['self']), '0'), 'is_calc', []) or not any('feature = "calc"' in x for x in calc[3]):
                raise Refuse("maybe_resolve for %s: unexpected guarded wildcard arm" % rty)
        for pt, guard, ex, attrs in arms:
            if guard is not None or attrs or pt[0] != 'ppath' or len(pt[1]) != 2 or pt[1][0] != 'CompactLength' or pt[1][1] not in ctors:
                raise Refuse("maybe_resolve for %s: arm %r" % (rty, pt))
            tag = pt[1][1]
            seen.append(tag)
            r = R({'context': 'context'}, value_name='v')
            if ctors[tag] == 'Auto':
                lines.append('  | Auto => %s' % r.e(ex))
            else:
                lines.append('  | %s v => %s' % (ctors[tag], r.e(ex)))
        if sorted(seen) != sorted(ctors):
            raise Refuse("maybe_resolve for %s handles tags %r" % (rty, seen))
        w('Definition maybe_resolve_%s (self : %s) (context : option T) : option T :=\n  match self with\n%s\n  end.'
          % (suf, cty, '\n'.join(lines)))
        body = the_impl(allr, 'implResolveOrZero<Option<f32>,f32>for%s' % rty, 'resolve.rs')
        params, fbody, _ = find_fn(body, 'resolve_or_zero')
        fps['resolve::resolve_or_zero_%s' % suf] = norm_tokens(fbody)
        if param_names(params) != ['self', 'context', 'calc']:
            raise Refuse("resolve_or_zero parameters")
        r = R({'self': 'self', 'context': 'context'}, resolve_fn='maybe_resolve_%s' % suf)
        w('Definition resolve_or_zero_%s (self : %s) (context : option T) : T :=\n  %s.' % (suf, cty, r.e(body_expr(fbody))))
    for header, key in [('impl<T:MaybeResolve<Option<f32>,Option<f32>>>MaybeResolve<f32,Option<f32>>forT', 'f32 context'),
                        ('impl<In,Out,T:MaybeResolve<In,Out>>MaybeResolve<Size<In>,Size<Out>>forSize<T>', 'Size lift'),
                        ('impl<In,Out:TaffyZero,T:ResolveOrZero<In,Out>>ResolveOrZero<Size<In>,Size<Out>>forSize<T>', 'roz Size lift'),
                        ('impl<In:Copy,Out:TaffyZero,T:ResolveOrZero<In,Out>>ResolveOrZero<Size<In>,Rect<Out>>forRect<T>', 'roz Rect/Size'),
                        ('impl<Out:TaffyZero,T:ResolveOrZero<Option<f32>,Out>>ResolveOrZero<Option<f32>,Rect<Out>>forRect<T>', 'roz Rect/Option')]:
        fps['resolve::' + key] = norm_tokens(the_impl(allr, header, 'resolve.rs'))

    # ---------------------------------------------------------------- style/available_space.rs
    toks = read(repo, 'src/style/available_space.rs')
    i, b, e = find_block_after(toks, lambda t, i: seq_at(t, i, ['pub', 'enum', 'AvailableSpace']))
    variants = norm(toks[b:e + 1])
    if variants != '{Definite(f32),MinContent,MaxContent,}':
        raise Refuse("enum AvailableSpace changed: %s" % variants)
    alla = impls(toks)
    inh = the_impl(alla, 'implAvailableSpace', 'available_space.rs')
    w('')
    w('(* ---- src/style/available_space.rs *)')
    for fn, sig, ret, env in [
            ('into_option', '(self : AvailableSpace T)', 'option T', ['self']),
            ('maybe_set', '(self : AvailableSpace T) (value : option T)', 'AvailableSpace T', ['self', 'value']),
            ('map_definite_value', '(self : AvailableSpace T) (map_function : T -> T)', 'AvailableSpace T', ['self', 'map_function'])]:
        params, fbody, _ = find_fn(inh, fn)
        fps['available_space::' + fn] = norm_tokens(fbody)
        if param_names(params) != env:
            raise Refuse("%s parameters" % fn)
        r = R({n: n for n in env}, self_type='AvailableSpace')
        w('Definition avail_%s %s : %s :=\n  %s.' % (fn, sig, ret, r.e(body_expr(fbody))))
    fr = the_impl(alla, 'implFrom<Option<f32>>forAvailableSpace', 'available_space.rs')
    params, fbody, _ = find_fn(fr, 'from')
    fps['available_space::from_option'] = norm_tokens(fbody)
    if param_names(params) != ['option']:
        raise Refuse("From<Option<f32>> parameters")
    r = R({'option': 'o'}, self_type='AvailableSpace')
    w('Definition avail_from_option (o : option T) : AvailableSpace T :=\n  %s.' % r.e(body_expr(fbody)))
    fps['available_space::Size<AvailableSpace>'] = norm_tokens(the_impl(alla, 'implSize<AvailableSpace>', 'available_space.rs'))

    # ---------------------------------------------------------------- geometry.rs
    toks = read(repo, 'src/geometry.rs')
    allg = impls(toks)
    so = the_impl(allg, 'implSize<Option<f32>>', 'geometry.rs')
    params, fbody, _ = find_fn(so, 'maybe_apply_aspect_ratio')
    fps['geometry::maybe_apply_aspect_ratio'] = norm_tokens(fbody)
    if param_names(params) != ['self', 'aspect_ratio']:
        raise Refuse("maybe_apply_aspect_ratio parameters")
    r = R({'self': 'self', 'aspect_ratio': 'aspect_ratio'})
    w('')
    w('(* ---- src/geometry.rs *)')
    w('Definition maybe_apply_aspect_ratio (self : Size (option T)) (aspect_ratio : option T) : Size (option T) :=\n  %s.'
      % r.e(body_expr(fbody)))
    # hand-transcribed helpers of geometry.rs (Model/Common.v): fingerprints only
    for header, fns in [('impl<U,T:Add<U>>Add<Rect<U>>forRect<T>', ['add']),
                        ('impl<U,T:Add<U>>Add<Size<U>>forSize<T>', ['add']),
                        ('impl<T>Size<Option<T>>', ['unwrap_or', 'or'])]:
        blk = the_impl(allg, header, 'geometry.rs')
        for fn in fns:
            fps['geometry::%s::%s' % (header, fn)] = norm_tokens(find_fn(blk, fn)[1])
    for fn in ['horizontal_axis_sum', 'vertical_axis_sum', 'sum_axes', 'zip_map']:
        fps['geometry::' + fn] = norm_tokens(find_fn(toks, fn)[1])
    w('End MathGen.')

    # ---------------------------------------------------------------- hand-modelled functions (fingerprints only)
    for rel, fn, key in [('src/compute/leaf.rs', 'compute_leaf_layout', 'leaf::compute_leaf_layout'),
                         ('src/compute/mod.rs', 'compute_root_layout', 'compute::compute_root_layout'),
                         ('src/compute/mod.rs', 'compute_hidden_layout', 'compute::compute_hidden_layout'),
                         ('src/compute/mod.rs', 'compute_cached_layout', 'compute::compute_cached_layout'),
                         ('src/tree/taffy_tree.rs', 'compute_child_layout', 'taffy_tree::compute_child_layout'),
                         ('src/tree/traits.rs', 'perform_child_layout', 'traits::perform_child_layout')]:
        fps[key] = norm_tokens(find_fn(read(repo, rel), fn)[1])
    return '\n'.join(out) + '\n', fps


TARGETS = {'MathGen.v': generate}
