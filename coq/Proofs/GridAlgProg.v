(* The sizing phase of the grid resumption (Model/GridAlg.v, the free monad `Prog`): every program the phase is made of
     - addresses its queries to the nodes of the items it is given (`PGood`: so the in-flow guard of `run` never fires),
     - issues baseline layouts (PerformLayout queries) only when a baseline-aligned item exists,
     - hands back the items it was given, node for node (batches, caches) or up to a permutation (the sorts).
   One sweep over the monadic code; no arithmetic fact is used. *)
From Coq Require Import ZArith Bool List Lia Permutation.
From TV Require Import Model.Common Model.Leaf Gen.GridTracksGen Model.GridTracks Model.GridIntrinsic Model.GridAlgBase Model.GridAlg.
Import ListNotations.
Close Scope Z_scope.
Close Scope N_scope.

Section Prog.
  Context {T : Type} `{Num T}.
  Notation GItem := (@GItem T).
  Notation track := (track T).

  Variable N : nat -> Prop.        (* the nodes a program may address *)
  Variable bl : bool.              (* baseline layouts allowed *)

  Inductive PGood {A} (Q : A -> Prop) : Prog A -> Prop :=
  | PG_ret a : Q a -> PGood Q (PRet a)
  | PG_measure c kn pa av ax (k : T -> Prog A) : N c -> (forall v, PGood Q (k v)) -> PGood Q (PMeasure c kn pa av ax k)
  | PG_baseline c pa (k : T -> option T -> Prog A) : bl = true -> N c -> (forall h b, PGood Q (k h b)) -> PGood Q (PBaseline c pa k).

  Lemma PGood_bind {A B} (Q1 : A -> Prop) (Q2 : B -> Prop) p (f : A -> Prog B) :
    PGood Q1 p -> (forall a, Q1 a -> PGood Q2 (f a)) -> PGood Q2 (pbind p f).
  Proof.
    intros Hp Hf. induction Hp as [a Ha|c kn pa av ax k Hc Hk IH|c pa k Hb Hc Hk IH]; cbn [pbind].
    - apply Hf. exact Ha.
    - apply PG_measure; [exact Hc|]. intros v. apply IH.
    - apply PG_baseline; [exact Hb|exact Hc|]. intros h b. apply IH.
  Qed.

  Lemma PGood_weaken {A} (Q Q' : A -> Prop) p : PGood Q p -> (forall a, Q a -> Q' a) -> PGood Q' p.
  Proof.
    intros Hp HQ. induction Hp as [a Ha|c kn pa av ax k Hc Hk IH|c pa k Hb Hc Hk IH].
    - apply PG_ret. apply HQ. exact Ha.
    - apply PG_measure; [exact Hc|exact IH].
    - apply PG_baseline; [exact Hb|exact Hc|exact IH].
  Qed.

  Definition IOK (g : GItem) : Prop := N (g_node g).
  Definition same (g g' : GItem) : Prop := g_node g' = g_node g.

  Lemma same_IOK g g' : same g g' -> IOK g -> IOK g'.
  Proof. unfold same, IOK. intros ->. exact (fun x => x). Qed.

  Lemma Forall2_same_nodes l l' : Forall2 same l l' -> map g_node l' = map g_node l.
  Proof. induction 1 as [|x y l l' Hxy _ IH]; cbn; [reflexivity|]. rewrite Hxy, IH. reflexivity. Qed.

  Lemma nodes_IOK l l' : Permutation (map g_node l') (map g_node l) -> Forall IOK l -> Forall IOK l'.
  Proof.
    intros Hp Hl. apply Forall_forall. intros g Hg. unfold IOK.
    assert (Hin : In (g_node g) (map g_node l)) by (eapply Permutation_in; [exact Hp|apply in_map; exact Hg]).
    apply in_map_iff in Hin. destruct Hin as [g0 [E Hg0]]. rewrite <- E. rewrite Forall_forall in Hl. apply (Hl g0 Hg0).
  Qed.

  Lemma nodes_eq_IOK l l' : map g_node l' = map g_node l -> Forall IOK l -> Forall IOK l'.
  Proof. intros E. apply nodes_IOK. rewrite E. apply Permutation_refl. Qed.

  (* pmap_acc over items: the items come back node for node *)
  Lemma PGood_pmap_acc {S} (f : S -> GItem -> Prog (S * GItem)) :
    (forall s g, IOK g -> PGood (fun r => same g (snd r)) (f s g)) ->
    forall l s, Forall IOK l -> PGood (fun r => map g_node (snd r) = map g_node l) (pmap_acc f l s).
  Proof.
    intros Hf. induction l as [|g l IH]; intros s Hl; cbn [pmap_acc]; [apply PG_ret; reflexivity|].
    inversion Hl as [|? ? Hg Hl']; subst.
    eapply PGood_bind; [apply Hf; exact Hg|]. intros [s1 g1] Hr. cbn [snd] in Hr.
    eapply PGood_bind; [apply IH; exact Hl'|]. intros [s2 r2] Hr2. cbn [snd] in Hr2.
    apply PG_ret. cbn [snd map]. rewrite Hr, Hr2. reflexivity.
  Qed.

  (* ---- setters keep the node *)
  Lemma node_set_cache (g : GItem) c : g_node (set_cache g c) = g_node g. Proof. reflexivity. Qed.
  Lemma node_set_ic_avail (g : GItem) a : g_node (set_ic_avail g a) = g_node g. Proof. reflexivity. Qed.
  Lemma node_set_ic_min (g : GItem) ax v : g_node (set_ic_min g ax v) = g_node g. Proof. reflexivity. Qed.
  Lemma node_set_ic_max (g : GItem) ax v : g_node (set_ic_max g ax v) = g_node g. Proof. reflexivity. Qed.
  Lemma node_set_ic_minimum (g : GItem) ax v : g_node (set_ic_minimum g ax v) = g_node g. Proof. reflexivity. Qed.
  Lemma node_set_baseline (g : GItem) b : g_node (set_baseline g b) = g_node g. Proof. reflexivity. Qed.
  Lemma node_set_shim (g : GItem) s : g_node (set_shim g s) = g_node g. Proof. reflexivity. Qed.

  Lemma avail_cached_same ax inner fp ot oa g : same g (snd (avail_cached ax inner fp ot oa g)).
  Proof. unfold avail_cached, same. destruct (ic_avail (g_cache g)); reflexivity. Qed.

  Section Axis.
    Variable ax : GAxis.
    Variable inner : Size (option T).
    Variable avail : avail_space T.
    Variable fp : bool.
    Variable ot : list track.
    Variable oa : T.

    Lemma pg_min_cc g space : IOK g -> PGood (fun _ => True) (min_content_contribution ax inner g space).
    Proof. intros Hg. apply PG_measure; [exact Hg|]. intros v. apply PG_ret. exact I. Qed.
    Lemma pg_max_cc g space : IOK g -> PGood (fun _ => True) (max_content_contribution ax inner g space).
    Proof. intros Hg. apply PG_measure; [exact Hg|]. intros v. apply PG_ret. exact I. Qed.

    Lemma pg_min_cc_cached g space : IOK g -> PGood (fun r => same g (snd r)) (min_content_contribution_cached ax inner g space).
    Proof.
      intros Hg. unfold min_content_contribution_cached. destruct (get_ax (ic_min (g_cache g)) ax); [apply PG_ret; reflexivity|].
      eapply PGood_bind; [apply pg_min_cc; exact Hg|]. intros v _. apply PG_ret. reflexivity.
    Qed.
    Lemma pg_max_cc_cached g space : IOK g -> PGood (fun r => same g (snd r)) (max_content_contribution_cached ax inner g space).
    Proof.
      intros Hg. unfold max_content_contribution_cached. destruct (get_ax (ic_max (g_cache g)) ax); [apply PG_ret; reflexivity|].
      eapply PGood_bind; [apply pg_max_cc; exact Hg|]. intros v _. apply PG_ret. reflexivity.
    Qed.

    Lemma pg_minimum g tracks space : IOK g -> PGood (fun r => same g (snd r)) (minimum_contribution ax inner g tracks space).
    Proof.
      intros Hg. unfold minimum_contribution. cbv zeta.
      eapply PGood_bind with (Q1 := fun r => same g (snd r)).
      - destruct (opt_or _ _); [apply PG_ret; reflexivity|].
        destruct (_ && _); [|apply PG_ret; reflexivity].
        eapply PGood_bind; [apply pg_min_cc_cached; exact Hg|]. intros [mc g1] Hr. apply PG_ret. exact Hr.
      - intros [sz g1] Hr. apply PG_ret. exact Hr.
    Qed.
    Lemma pg_minimum_cached g tracks space : IOK g -> PGood (fun r => same g (snd r)) (minimum_contribution_cached ax inner g tracks space).
    Proof.
      intros Hg. unfold minimum_contribution_cached. destruct (get_ax (ic_minimum (g_cache g)) ax); [apply PG_ret; reflexivity|].
      eapply PGood_bind; [apply pg_minimum; exact Hg|]. intros [v g1] Hr. apply PG_ret. exact Hr.
    Qed.

    Lemma pg_m_min g : IOK g -> PGood (fun r => same g (snd r)) (m_min_content ax inner fp ot oa g).
    Proof.
      intros Hg. unfold m_min_content. pose proof (avail_cached_same ax inner fp ot oa g) as Hs.
      destruct (avail_cached ax inner fp ot oa g) as [space g0]. cbn [snd] in Hs.
      eapply PGood_bind; [apply pg_min_cc_cached; exact (same_IOK _ _ Hs Hg)|]. intros [v g1] Hr. apply PG_ret.
      cbn [snd] in *. unfold same in *. congruence.
    Qed.
    Lemma pg_m_max g : IOK g -> PGood (fun r => same g (snd r)) (m_max_content ax inner fp ot oa g).
    Proof.
      intros Hg. unfold m_max_content. pose proof (avail_cached_same ax inner fp ot oa g) as Hs.
      destruct (avail_cached ax inner fp ot oa g) as [space g0]. cbn [snd] in Hs.
      eapply PGood_bind; [apply pg_max_cc_cached; exact (same_IOK _ _ Hs Hg)|]. intros [v g1] Hr. apply PG_ret.
      cbn [snd] in *. unfold same in *. congruence.
    Qed.
    Lemma pg_m_minimum g tracks : IOK g -> PGood (fun r => same g (snd r)) (m_minimum ax inner fp ot oa g tracks).
    Proof.
      intros Hg. unfold m_minimum. pose proof (avail_cached_same ax inner fp ot oa g) as Hs.
      destruct (avail_cached ax inner fp ot oa g) as [space g0]. cbn [snd] in Hs.
      eapply PGood_bind; [apply pg_minimum_cached; exact (same_IOK _ _ Hs Hg)|]. intros [v g1] Hr. apply PG_ret.
      cbn [snd] in *. unfold same in *. congruence.
    Qed.

    Lemma pg_intrinsic_minimum_space g tracks limit : IOK g ->
      PGood (fun r => same g (snd r)) (m_intrinsic_minimum_space ax inner avail fp ot oa g tracks limit).
    Proof.
      intros Hg. unfold m_intrinsic_minimum_space. destruct (_ && _); [|apply pg_m_minimum; exact Hg].
      eapply PGood_bind; [apply pg_m_minimum; exact Hg|]. intros [a g1] Hr. cbn [snd] in Hr.
      eapply PGood_bind; [apply pg_m_min; exact (same_IOK _ _ Hr Hg)|]. intros [b g2] Hr2. cbn [snd] in Hr2.
      apply PG_ret. cbn [snd]. unfold same in *. congruence.
    Qed.

    (* a tactic for "contribution, then a pure update": bind one of the three m_* and return *)
    Ltac one_contribution Hg :=
      first [ eapply PGood_bind; [apply pg_m_min; exact Hg|]
            | eapply PGood_bind; [apply pg_m_max; exact Hg|]
            | eapply PGood_bind; [apply pg_intrinsic_minimum_space; exact Hg|] ];
      let v := fresh "v" in let g1 := fresh "g1" in let Hr := fresh "Hr" in
      intros [v g1] Hr; apply PG_ret; exact Hr.

    Lemma pg_span1_item tracks g : IOK g -> PGood (fun r => same g (snd r)) (m_span1_item ax inner avail fp ot oa tracks g).
    Proof.
      intros Hg. unfold m_span1_item. cbv zeta. destruct (nth_error tracks _) as [t|]; [|apply PG_ret; reflexivity].
      eapply PGood_bind with (Q1 := fun r => same g (snd r)).
      - destruct (minf t); try (apply PG_ret; reflexivity); try one_contribution Hg.
        destruct (GridIntrinsic.is_none _); [one_contribution Hg|apply PG_ret; reflexivity].
      - intros [nb g1] Hr. cbn [snd] in Hr. pose proof (same_IOK _ _ Hr Hg) as Hg1.
        eapply PGood_bind with (Q1 := fun r => same g (snd r)).
        + destruct (is_fit_content _).
          * eapply PGood_bind with (Q1 := fun r => same g (snd r)).
            -- destruct (negb _); [|apply PG_ret; exact Hr].
               eapply PGood_bind; [apply pg_m_min; exact Hg1|]. intros [v g2] Hr2. apply PG_ret. cbn [snd] in *. unfold same in *. congruence.
            -- intros [p1 g2] Hr2. cbn [snd] in Hr2.
               eapply PGood_bind; [apply pg_m_max; exact (same_IOK _ _ Hr2 Hg)|]. intros [mx g3] Hr3. apply PG_ret.
               cbn [snd] in *. unfold same in *. congruence.
          * destruct (_ || _).
            -- eapply PGood_bind; [apply pg_m_max; exact Hg1|]. intros [mx g2] Hr2. apply PG_ret. cbn [snd] in *. unfold same in *. congruence.
            -- destruct (is_intrinsic _); [|apply PG_ret; exact Hr].
               eapply PGood_bind; [apply pg_m_min; exact Hg1|]. intros [mn g2] Hr2. apply PG_ret. cbn [snd] in *. unfold same in *. congruence.
        + intros [t2 g2] Hr2. apply PG_ret. exact Hr2.
    Qed.

    Notation SameL l := (fun r : list track * list GItem => map g_node (snd r) = map g_node l).

    Lemma pg_span1_batch batch tracks : Forall IOK batch -> PGood (SameL batch) (m_span1_batch ax inner avail fp ot oa batch tracks).
    Proof.
      intros Hb. unfold m_span1_batch.
      eapply PGood_bind; [apply PGood_pmap_acc; [intros s g Hg; apply pg_span1_item; exact Hg|exact Hb]|].
      intros [ts b'] Hr. apply PG_ret. exact Hr.
    Qed.

    (* every step of the general batch is a pmap_acc of "one contribution (or none), then a pure update" followed by a flush *)
    Ltac step_proof Hb :=
      eapply PGood_bind;
      [ apply PGood_pmap_acc; [|exact Hb]
      | let ts := fresh "ts" in let b' := fresh "b" in let Hr := fresh "Hr" in intros [ts b'] Hr; apply PG_ret; exact Hr ].

    Section Batch.
      Variable is_flex use_ff : bool.

      Lemma pg_step_minimums batch tracks : Forall IOK batch ->
        PGood (SameL batch) (m_step_minimums ax inner avail fp ot oa is_flex use_ff batch tracks).
      Proof.
        intros Hb. unfold m_step_minimums. step_proof Hb. intros s g Hg.
        destruct (get_ax (g_xintr g) ax); [|apply PG_ret; reflexivity]. one_contribution Hg.
      Qed.
      Lemma pg_step_content_minimums batch tracks : Forall IOK batch ->
        PGood (SameL batch) (m_step_content_minimums ax inner fp ot oa is_flex use_ff batch tracks).
      Proof. intros Hb. unfold m_step_content_minimums. step_proof Hb. intros s g Hg. one_contribution Hg. Qed.
      Lemma pg_step_max_content_minimums batch tracks : Forall IOK batch ->
        PGood (SameL batch) (m_step_max_content_minimums ax inner avail fp ot oa is_flex use_ff batch tracks).
      Proof.
        intros Hb. unfold m_step_max_content_minimums. destruct avail; try (apply PG_ret; reflexivity).
        step_proof Hb. intros s g Hg. one_contribution Hg.
      Qed.
      Lemma pg_step_max_content_all batch tracks : Forall IOK batch ->
        PGood (SameL batch) (m_step_max_content_all ax inner fp ot oa is_flex use_ff batch tracks).
      Proof. intros Hb. unfold m_step_max_content_all. step_proof Hb. intros s g Hg. one_contribution Hg. Qed.
      Lemma pg_step_intrinsic_maximums batch tracks : Forall IOK batch ->
        PGood (SameL batch) (m_step_intrinsic_maximums ax inner fp ot oa batch tracks).
      Proof. intros Hb. unfold m_step_intrinsic_maximums. step_proof Hb. intros s g Hg. one_contribution Hg. Qed.
      Lemma pg_step_max_content_maximums batch tracks : Forall IOK batch ->
        PGood (SameL batch) (m_step_max_content_maximums ax inner fp ot oa batch tracks).
      Proof. intros Hb. unfold m_step_max_content_maximums. step_proof Hb. intros s g Hg. one_contribution Hg. Qed.

      Lemma pg_general_batch batch tracks : Forall IOK batch ->
        PGood (SameL batch) (m_general_batch ax inner avail fp ot oa is_flex use_ff batch tracks).
      Proof.
        intros Hb. unfold m_general_batch.
        eapply PGood_bind; [apply pg_step_minimums; exact Hb|]. intros [ts1 b1] E1. cbn [snd] in E1.
        pose proof (nodes_eq_IOK _ _ E1 Hb) as H1.
        eapply PGood_bind; [apply pg_step_content_minimums; exact H1|]. intros [ts2 b2] E2. cbn [snd] in E2.
        pose proof (nodes_eq_IOK _ _ E2 H1) as H2.
        eapply PGood_bind; [apply pg_step_max_content_minimums; exact H2|]. intros [ts3 b3] E3. cbn [snd] in E3.
        pose proof (nodes_eq_IOK _ _ E3 H2) as H3.
        eapply PGood_bind; [apply pg_step_max_content_all; exact H3|]. intros [ts4 b4] E4. cbn [snd] in E4.
        pose proof (nodes_eq_IOK _ _ E4 H3) as H4. cbv zeta.
        destruct is_flex; [apply PG_ret; cbn [snd]; congruence|].
        eapply PGood_bind; [apply pg_step_intrinsic_maximums; exact H4|]. intros [ts6 b6] E6. cbn [snd] in E6.
        pose proof (nodes_eq_IOK _ _ E6 H4) as H6.
        eapply PGood_weaken; [apply pg_step_max_content_maximums; exact H6|]. intros [ts7 b7] E7. cbn [snd] in *. congruence.
      Qed.
    End Batch.

    Lemma pg_process_batch ffs batch is_flex tracks : Forall IOK batch ->
      PGood (SameL batch) (m_process_batch ax inner avail fp ot oa ffs batch is_flex tracks).
    Proof.
      intros Hb. unfold m_process_batch. cbv zeta. destruct (_ && _); [apply pg_span1_batch; exact Hb|apply pg_general_batch; exact Hb].
    Qed.

    Lemma next_batch_gt {X} off (items : list (item X)) next fl : next_batch off items = Some (next, fl) -> off < next.
    Proof.
      unfold next_batch. destruct (nth_error items off); [|discriminate]. cbv zeta.
      destruct (Nat.leb _ off) eqn:E; [discriminate|]. intros Hn. injection Hn as <- _. apply Nat.leb_gt in E. exact E.
    Qed.

    Lemma in_firstn {X} (x : X) : forall n l, In x (firstn n l) -> In x l.
    Proof. induction n as [|n IH]; intros [|y l]; cbn; try tauto. intros [E|Hin]; [left; exact E|right; apply IH; exact Hin]. Qed.
    Lemma in_skipn {X} (x : X) : forall n l, In x (skipn n l) -> In x l.
    Proof. induction n as [|n IH]; intros [|y l]; cbn; try tauto. intros Hin. right. apply IH. exact Hin. Qed.

    Lemma firstn_skipn_mid {X} : forall off next (l : list X), off <= next ->
      firstn (next - off) (skipn off l) ++ skipn next l = skipn off l.
    Proof.
      induction off as [|off IH]; intros next l Hle.
      - rewrite Nat.sub_0_r. cbn [skipn]. apply firstn_skipn.
      - destruct next as [|next]; [lia|]. destruct l as [|x l]; [cbn; destruct (next - off); reflexivity|].
        cbn [skipn Nat.sub]. apply IH. lia.
    Qed.

    Lemma splice_nodes (items batch' : list GItem) off next : off <= next ->
      map g_node batch' = map g_node (firstn (next - off) (skipn off items)) ->
      map g_node (firstn off items ++ batch' ++ skipn next items) = map g_node items.
    Proof.
      intros Hle E. rewrite !map_app, E, <- !map_app. f_equal.
      rewrite firstn_skipn_mid by exact Hle. apply firstn_skipn.
    Qed.

    Lemma pg_batch_loop ffs : forall fuel off items tracks, Forall IOK items ->
      PGood (SameL items) (m_batch_loop ax inner avail fp ot oa fuel ffs off items tracks).
    Proof.
      induction fuel as [|f IH]; intros off items tracks Hi; cbn [m_batch_loop]; [apply PG_ret; reflexivity|].
      destruct (next_batch off (map (view ax) items)) as [[next is_flex]|] eqn:En; [|apply PG_ret; reflexivity].
      pose proof (next_batch_gt _ _ _ _ En) as Hlt. cbv zeta.
      assert (Hb : Forall IOK (firstn (next - off) (skipn off items))).
      { apply Forall_forall. intros g Hg. rewrite Forall_forall in Hi. apply Hi. apply in_firstn in Hg.
        eapply in_skipn. exact Hg. }
      eapply PGood_bind; [apply pg_process_batch; exact Hb|]. intros [ts b'] E. cbn [snd] in E.
      assert (En' : map g_node (firstn off items ++ b' ++ skipn next items) = map g_node items) by (apply splice_nodes; [lia|exact E]).
      destruct is_flex; [apply PG_ret; exact En'|].
      eapply PGood_weaken; [apply IH; exact (nodes_eq_IOK _ _ En' Hi)|]. intros [ts2 it2] E2. cbn [snd] in *. congruence.
    Qed.

    Lemma insert_by_perm {X} (lt : X -> X -> bool) x l : Permutation (insert_by lt x l) (x :: l).
    Proof.
      induction l as [|y l IH]; cbn [insert_by]; [apply Permutation_refl|]. destruct (lt x y); [apply Permutation_refl|].
      eapply perm_trans; [apply perm_skip; exact IH|apply perm_swap].
    Qed.
    Lemma sort_by_perm {X} (lt : X -> X -> bool) l : Permutation (sort_by lt l) l.
    Proof.
      unfold sort_by. assert (G : forall acc, Permutation (fold_left (fun a x => insert_by lt x a) l acc) (l ++ acc)).
      { induction l as [|x l IH]; intros acc; cbn [fold_left app]; [apply Permutation_refl|].
        eapply perm_trans; [apply IH|]. eapply perm_trans; [apply Permutation_app_head; apply insert_by_perm|].
        apply Permutation_sym. apply Permutation_middle. }
      specialize (G []). rewrite app_nil_r in G. exact G.
    Qed.

    Notation PermL l := (fun r : list track * list GItem => Permutation (map g_node (snd r)) (map g_node l)).

    Lemma pg_resolve_intrinsic items tracks : Forall IOK items ->
      PGood (PermL items) (m_resolve_intrinsic ax inner avail fp ot oa items tracks).
    Proof.
      intros Hi. unfold m_resolve_intrinsic. cbv zeta.
      set (sorted := sort_by _ items). assert (Hp : Permutation (map g_node sorted) (map g_node items)) by (apply Permutation_map; apply sort_by_perm).
      eapply PGood_bind; [apply pg_batch_loop; exact (nodes_IOK _ _ Hp Hi)|]. intros [ts it'] E. cbn [snd] in E.
      apply PG_ret. cbn [snd]. rewrite E. exact Hp.
    Qed.

    Lemma pg_flex_items avail_exp items : Forall IOK items ->
      PGood (fun r : list (nat * nat * T) * list GItem => map g_node (snd r) = map g_node items) (m_flex_items ax inner avail_exp items).
    Proof.
      intros Hi. unfold m_flex_items. destruct avail_exp; try (apply PG_ret; reflexivity).
      eapply PGood_bind; [apply PGood_pmap_acc; [|exact Hi]|intros [acc it'] E; apply PG_ret; exact E].
      intros s g Hg. destruct (get_ax (g_xflex g) ax); [|apply PG_ret; reflexivity].
      eapply PGood_bind; [apply pg_max_cc_cached; exact Hg|]. intros [v g1] Hr. apply PG_ret. exact Hr.
    Qed.
  End Axis.

  (* ---- baselines *)
  Lemma take_row_app start : forall l : list GItem, fst (take_row start l) ++ snd (take_row start l) = l.
  Proof.
    induction l as [|g l IH]; cbn [take_row]; [reflexivity|]. destruct (Z.eqb _ start); [|reflexivity].
    destruct (take_row start l) as [a b]. cbn [fst snd app] in *. rewrite IH. reflexivity.
  Qed.
  Lemma take_row_length start (l : list GItem) : length (snd (take_row start l)) <= length l.
  Proof.
    induction l as [|g l IH]; cbn [take_row]; [apply le_n|]. destruct (Z.eqb _ start); [|apply le_n].
    destruct (take_row start l) as [a b]. cbn [snd length] in *. lia.
  Qed.

  Lemma pg_baseline_row inner row : bl = true -> Forall IOK row ->
    PGood (fun r : list GItem => map g_node r = map g_node row) (m_baseline_row inner row).
  Proof.
    intros Hbl Hr. unfold m_baseline_row. destruct (Nat.leb _ 1); [apply PG_ret; reflexivity|].
    eapply PGood_bind with (Q1 := fun r : unit * list GItem => map g_node (snd r) = map g_node row).
    - apply PGood_pmap_acc; [|exact Hr]. intros s g Hg. apply PG_baseline; [exact Hbl|exact Hg|]. intros h b. apply PG_ret. reflexivity.
    - intros [u row1] E. cbn [snd] in E. apply PG_ret. rewrite map_map. cbn [g_node set_shim]. exact E.
  Qed.

  Lemma pg_baseline_rows inner : bl = true -> forall fuel l, Forall IOK l ->
    PGood (fun r : list GItem => map g_node r = map g_node l) (m_baseline_rows fuel inner l).
  Proof.
    intros Hbl. induction fuel as [|f IH]; intros l Hl; cbn [m_baseline_rows].
    - destruct l; apply PG_ret; reflexivity.
    - destruct l as [|g l0]; [apply PG_ret; reflexivity|].
      pose proof (take_row_app (PB.l_start (get_ax (g_line g) Block)) (g :: l0)) as Happ.
      destruct (take_row (PB.l_start (get_ax (g_line g) Block)) (g :: l0)) as [row rest]. cbn [fst snd] in Happ.
      assert (Hrow : Forall IOK row /\ Forall IOK rest) by (apply Forall_app; rewrite Happ; exact Hl). destruct Hrow as [Hrow Hrest].
      eapply PGood_bind; [apply pg_baseline_row; [exact Hbl|exact Hrow]|]. intros row' E1.
      eapply PGood_bind; [apply IH; exact Hrest|]. intros rest' E2. apply PG_ret.
      rewrite <- Happ, !map_app, E1, E2. reflexivity.
  Qed.

  Lemma pg_resolve_item_baselines inner items : bl = true -> Forall IOK items ->
    PGood (fun r : list GItem => Permutation (map g_node r) (map g_node items)) (m_resolve_item_baselines inner items).
  Proof.
    intros Hbl Hi. unfold m_resolve_item_baselines. cbv zeta. set (sorted := sort_by _ items).
    assert (Hp : Permutation (map g_node sorted) (map g_node items)) by (apply Permutation_map; apply sort_by_perm).
    eapply PGood_weaken; [apply pg_baseline_rows; [exact Hbl|exact (nodes_IOK _ _ Hp Hi)]|]. intros r E. cbn beta in E. rewrite E. exact Hp.
  Qed.

  (* ---- track_sizing_algorithm: the items of the state come back up to a permutation *)
  Definition SPerm (s s' : @SState T) : Prop := Permutation (map g_node (ss_items s')) (map g_node (ss_items s)).

  Lemma ss_items_set (s : @SState T) ax ts oa items : ss_items (ss_set s ax ts oa items) = items.
  Proof. destruct ax; reflexivity. Qed.

  Lemma pg_track_sizing ax mn mx al oal ga inner fp hb s : (hb = true -> bl = true) -> Forall IOK (ss_items s) ->
    PGood (SPerm s) (m_track_sizing ax mn mx al oal ga inner fp hb s).
  Proof.
    intros Hhb Hi. unfold m_track_sizing. cbv zeta.
    eapply PGood_bind with (Q1 := fun r : list GItem => Permutation (map g_node r) (map g_node (ss_items s))).
    - destruct hb; [apply pg_resolve_item_baselines; [apply Hhb; reflexivity|exact Hi]|apply PG_ret; apply Permutation_refl].
    - intros items1 P1. pose proof (nodes_IOK _ _ P1 Hi) as H1.
      destruct (forallb _ _); [apply PG_ret; unfold SPerm; rewrite ss_items_set; exact P1|].
      eapply PGood_bind; [apply pg_resolve_intrinsic; exact H1|]. intros [ts1 items2] P2. cbn [snd] in P2.
      pose proof (nodes_IOK _ _ P2 H1) as H2.
      eapply PGood_bind; [apply pg_flex_items; exact H2|]. intros [fi items3] E3. cbn [snd] in E3.
      apply PG_ret. unfold SPerm. rewrite ss_items_set, E3. eapply perm_trans; [exact P2|exact P1].
  Qed.

  (* ---- the re-run tests *)
  Lemma pg_rerun_any ax inner ot oa : forall items, Forall IOK items ->
    PGood (fun r : bool * list GItem => map g_node (snd r) = map g_node items) (m_rerun_any ax inner ot oa items).
  Proof.
    induction items as [|g r IH]; intros Hi; cbn [m_rerun_any]; [apply PG_ret; reflexivity|].
    inversion Hi as [|? ? Hg Hr]; subst. cbv zeta. destruct (width (g_xintr g)).
    - eapply PGood_bind; [apply pg_min_cc; exact Hg|]. intros v _.
      destruct (negb _); [apply PG_ret; reflexivity|].
      eapply PGood_bind; [apply IH; exact Hr|]. intros [b r'] E. cbn [snd] in E. apply PG_ret. cbn [snd map]. rewrite E. reflexivity.
    - eapply PGood_bind; [apply IH; exact Hr|]. intros [b r'] E. cbn [snd] in E. apply PG_ret. cbn [snd map]. rewrite E. reflexivity.
  Qed.

  Lemma map_node_clear ax (l : list GItem) : map g_node (map (clear_axis_caches ax) l) = map g_node l.
  Proof. rewrite map_map. reflexivity. Qed.
  Lemma map_node_reset (l : list GItem) : map g_node (map (fun g => set_ic_avail g None) l) = map g_node l.
  Proof. rewrite map_map. reflexivity. Qed.

  (* ---- steps 6-7 as a whole *)
  Lemma pg_size_grid st P inp s0 : (existsb (fun g => ai_is_baseline (g_align g)) (ss_items s0) = true -> bl = true) ->
    Forall IOK (ss_items s0) ->
    PGood (fun r : Sized * bool => SPerm s0 (z_state (fst r)) /\
                                   (gi_mode inp = Engine.PerformLayout -> snd r = true) /\ (gi_mode inp = Engine.ComputeSize -> snd r = false))
          (m_size_grid st P inp s0).
  Proof.
    intros Hb Hi. unfold m_size_grid. cbv zeta.
    set (hb := existsb _ (ss_items s0)) in *.
    eapply PGood_bind; [apply pg_track_sizing; [exact Hb|exact Hi]|]. intros s1 P1. unfold SPerm in P1.
    set (s1' := ss_set_items s1 _).
    assert (P1' : Permutation (map g_node (ss_items s1')) (map g_node (ss_items s0))).
    { unfold s1', ss_set_items. cbn [ss_items]. rewrite map_node_reset. exact P1. }
    pose proof (nodes_IOK _ _ P1' Hi) as H1.
    eapply PGood_bind; [apply pg_track_sizing; [discriminate|exact H1]|]. intros s2 P2. unfold SPerm in P2.
    assert (P2' : Permutation (map g_node (ss_items s2)) (map g_node (ss_items s0))) by (eapply perm_trans; [exact P2|exact P1']).
    pose proof (nodes_IOK _ _ P2' Hi) as H2.
    destruct (container_size P inp _ _) as [bb cb].
    destruct (gi_mode inp); try (apply PG_ret; split; [exact P2'|split; [discriminate|reflexivity]]).
    - (* PerformLayout *)
      set (s3 := mkSS _ _ _ _ (ss_items s2)).
      eapply PGood_bind with (Q1 := fun r : bool * SState => Permutation (map g_node (ss_items (snd r))) (map g_node (ss_items s0))).
      + destruct (_ && _).
        * apply PG_ret. cbn [snd ss_set_items ss_items]. rewrite map_node_clear. exact P2'.
        * eapply PGood_bind; [apply pg_rerun_any; exact H2|]. intros [b items'] E. cbn [snd] in E.
          apply PG_ret. cbn [snd ss_set_items ss_items]. rewrite E. exact P2'.
      + intros [rerun s4] P4. cbn [snd] in P4. pose proof (nodes_IOK _ _ P4 Hi) as H4.
        destruct rerun; [|apply PG_ret; split; [exact P4|split; [reflexivity|discriminate]]].
        eapply PGood_bind; [apply pg_track_sizing; [exact Hb|exact H4]|]. intros s5 P5. unfold SPerm in P5.
        assert (P5' : Permutation (map g_node (ss_items s5)) (map g_node (ss_items s0))) by (eapply perm_trans; [exact P5|exact P4]).
        pose proof (nodes_IOK _ _ P5' Hi) as H5.
        eapply PGood_bind with (Q1 := fun r : bool * SState => Permutation (map g_node (ss_items (snd r))) (map g_node (ss_items s0))).
        * destruct (_ && _).
          -- apply PG_ret. cbn [snd ss_set_items ss_items]. rewrite map_node_clear. exact P5'.
          -- eapply PGood_bind; [apply pg_rerun_any; exact H5|]. intros [b items'] E. cbn [snd] in E.
             apply PG_ret. cbn [snd ss_set_items ss_items]. rewrite E. exact P5'.
        * intros [rerun_r s6] P6. cbn [snd] in P6. pose proof (nodes_IOK _ _ P6 Hi) as H6.
          destruct rerun_r; [|apply PG_ret; split; [exact P6|split; [reflexivity|discriminate]]].
          eapply PGood_bind; [apply pg_track_sizing; [discriminate|exact H6]|]. intros s7 P7. unfold SPerm in P7.
          apply PG_ret. split; [cbn [fst z_state]; unfold SPerm; eapply perm_trans; [exact P7|exact P6]|split; [reflexivity|discriminate]].
    - (* PerformHiddenLayout: never handed to an algorithm; the model treats it like PerformLayout *)
      set (s3 := mkSS _ _ _ _ (ss_items s2)).
      eapply PGood_bind with (Q1 := fun r : bool * SState => Permutation (map g_node (ss_items (snd r))) (map g_node (ss_items s0))).
      + destruct (_ && _).
        * apply PG_ret. cbn [snd ss_set_items ss_items]. rewrite map_node_clear. exact P2'.
        * eapply PGood_bind; [apply pg_rerun_any; exact H2|]. intros [b items'] E. cbn [snd] in E.
          apply PG_ret. cbn [snd ss_set_items ss_items]. rewrite E. exact P2'.
      + intros [rerun s4] P4. cbn [snd] in P4. pose proof (nodes_IOK _ _ P4 Hi) as H4.
        destruct rerun; [|apply PG_ret; split; [exact P4|split; [reflexivity|discriminate]]].
        eapply PGood_bind; [apply pg_track_sizing; [exact Hb|exact H4]|]. intros s5 P5. unfold SPerm in P5.
        assert (P5' : Permutation (map g_node (ss_items s5)) (map g_node (ss_items s0))) by (eapply perm_trans; [exact P5|exact P4]).
        pose proof (nodes_IOK _ _ P5' Hi) as H5.
        eapply PGood_bind with (Q1 := fun r : bool * SState => Permutation (map g_node (ss_items (snd r))) (map g_node (ss_items s0))).
        * destruct (_ && _).
          -- apply PG_ret. cbn [snd ss_set_items ss_items]. rewrite map_node_clear. exact P5'.
          -- eapply PGood_bind; [apply pg_rerun_any; exact H5|]. intros [b items'] E. cbn [snd] in E.
             apply PG_ret. cbn [snd ss_set_items ss_items]. rewrite E. exact P5'.
        * intros [rerun_r s6] P6. cbn [snd] in P6. pose proof (nodes_IOK _ _ P6 Hi) as H6.
          destruct rerun_r; [|apply PG_ret; split; [exact P6|split; [reflexivity|discriminate]]].
          eapply PGood_bind; [apply pg_track_sizing; [discriminate|exact H6]|]. intros s7 P7. unfold SPerm in P7.
          apply PG_ret. split; [cbn [fst z_state]; unfold SPerm; eapply perm_trans; [exact P7|exact P6]|split; [reflexivity|discriminate]].
  Qed.
End Prog.

Arguments PGood {T} N bl {A} Q p.
