(* C01 -- incremental relayout equals a from-scratch layout.
   Engine-skeleton theorems: they hold for EVERY container/leaf algorithm (a resumption over the tree interface)
   satisfying the two interface hypotheses WF and H1 (validated against the implementation's event trace on every
   run), for the exact-key memo (the cfg(taffy_verif) hook; the real lossy key is a known finding).
   Proved at the level of the value a layout call returns (LayoutOutput of the root: size, baselines, margins)
   and of cache validity everywhere in the tree.  The per-node STORED layouts: refuted for algorithms that write layouts
   while answering a size query (C01_layouts_refuted_for_scribbling_algorithms, the known finding computesize-scribble),
   proved for algorithms that do not (C01_layouts_equal_fresh_for_nonscribbling_algorithms; hypotheses NS, HQ, H3). *)
From Coq Require Import List Bool Arith NArith.
From TV Require Import Model.Engine Model.EngineToy Proofs.EngineMemo Proofs.EngineDirty Proofs.EngineHistory
  Proofs.EngineScribble Proofs.EngineToyProofs Proofs.EngineNoScribble
  Model.EngineLayouts Model.EngineLayoutsToy Proofs.EngineLayoutsPlain Proofs.EngineLayoutsMemo Proofs.EngineLayoutsHistory
  Proofs.EngineLayoutsToy Model.EngineReplay Proofs.EngineReplay Proofs.EngineTotal.
From Coq Require Import ZArith.
From TV Require Import Num.Num Num.QNum.
From TV Require Model.Cache Model.EngineReal Proofs.EngineReal Model.EngineRealToy Model.BlockEngineRun Model.BlockEngineRealRun.
From TV Require Model.EngineReplayReal Proofs.EngineReplayReal.
From TV Require Num.F32 Model.Block Model.BlockAlg Model.BlockEngine Model.BlockEngineReal Model.TaffyKey Proofs.BlockEngineReal Proofs.TaffyKey.
Import ListNotations.

(* a memoised evaluation returns what the cache-free evaluation of the same skeleton returns, keeps every cache entry
   of every node valid, and leaves shape/styles untouched *)
Theorem C01_memo_sound :
  forall (S In Out Lay : Type) (mode : In -> RunMode) (in_eqb : In -> In -> bool) (is_none : S -> bool)
         (hidden_out : Out) (zero_lay : Lay) (algo : S -> list S -> In -> Alg In Out Lay),
    (forall a b, in_eqb a b = true -> a = b) ->
    forall f t i o t',
      Valid S In Out Lay mode is_none hidden_out algo t ->
      memo S In Out Lay mode in_eqb is_none hidden_out zero_lay algo f t i = Some (o, t') ->
      (exists f', plain S In Out Lay mode is_none hidden_out algo f' (skel S In Out Lay t) i = Some o) /\
      Valid S In Out Lay mode is_none hidden_out algo t' /\
      skel S In Out Lay t' = skel S In Out Lay t.
Proof. intros until algo. intros Hk f t i o t'. apply memo_sound. exact Hk. Qed.

(* after ANY history of mutators ("edit the node, then mark_dirty" with the early exit) at nodes without a display:none
   ancestor, interleaved with layout passes, a further layout returns exactly what a freshly built tree with the same
   shape, styles and measure data returns *)
Theorem C01_root_output_equals_fresh :
  forall (S In Out Lay : Type) (mode : In -> RunMode) (in_eqb : In -> In -> bool) (is_none : S -> bool)
         (hidden_out : Out) (zero_lay : Lay) (algo : S -> list S -> In -> Alg In Out Lay),
    (forall a b, in_eqb a b = true -> a = b) ->
    (forall s st i, WFAlg In Out Lay mode (algo s st i)) ->
    (forall s st i, mode i = PerformLayout -> Visits In Out Lay mode (seq 0 (length st)) (algo s st i)) ->
    forall t0 ops f f' i o o' t1 t2,
      Inv S In Out Lay mode is_none hidden_out algo t0 ->
      run_ok S In Out Lay mode in_eqb is_none hidden_out zero_lay algo t0 ops ->
      memo S In Out Lay mode in_eqb is_none hidden_out zero_lay algo f
           (run_ops S In Out Lay mode in_eqb is_none hidden_out zero_lay algo t0 ops) i = Some (o, t1) ->
      memo S In Out Lay mode in_eqb is_none hidden_out zero_lay algo f'
           (fresh S In Out Lay zero_lay (skel S In Out Lay (run_ops S In Out Lay mode in_eqb is_none hidden_out zero_lay algo t0 ops))) i
        = Some (o', t2) ->
      o = o'.
Proof. intros until algo. intros Hk HWF HH1. intros. eapply relayout_equals_fresh; eauto. Qed.

(* a freshly built tree satisfies the invariant the theorem starts from *)
Theorem C01_fresh_inv :
  forall (S In Out Lay : Type) (mode : In -> RunMode) (is_none : S -> bool) (hidden_out : Out) (zero_lay : Lay)
         (algo : S -> list S -> In -> Alg In Out Lay) k,
    Inv S In Out Lay mode is_none hidden_out algo (fresh S In Out Lay zero_lay k).
Proof. intros. apply Inv_fresh. Qed.

(* invalidating any node without changing anything never changes the result *)
Theorem C01_mark_dirty_noop :
  forall (S In Out Lay : Type) (mode : In -> RunMode) (in_eqb : In -> In -> bool) (is_none : S -> bool)
         (hidden_out : Out) (zero_lay : Lay) (algo : S -> list S -> In -> Alg In Out Lay),
    (forall a b, in_eqb a b = true -> a = b) ->
    (forall s st i, WFAlg In Out Lay mode (algo s st i)) ->
    (forall s st i, mode i = PerformLayout -> Visits In Out Lay mode (seq 0 (length st)) (algo s st i)) ->
    forall t p f f' i o o' t1 t2,
      Inv S In Out Lay mode is_none hidden_out algo t -> visible_path S In Out Lay is_none t p ->
      memo S In Out Lay mode in_eqb is_none hidden_out zero_lay algo f (mutate S In Out Lay t p (ENone S In Out Lay)) i = Some (o, t1) ->
      memo S In Out Lay mode in_eqb is_none hidden_out zero_lay algo f' t i = Some (o', t2) ->
      o = o'.
Proof. intros until algo. intros Hk HWF HH1. intros. eapply mark_dirty_is_harmless; eauto. Qed.

(* the stored per-node layouts are NOT history independent for algorithms that write child layouts in ComputeSize
   mode: three nodes, no mutation, two passes with different root inputs vs one fresh pass *)
Theorem C01_layouts_refuted_for_scribbling_algorithms :
  option_map leaf_lay (after [1%N; 3%N]) = Some (Some 3%N) /\
  option_map leaf_lay (after [3%N]) = Some (Some 2%N) /\
  option_map (skel TS TIn TOut TLay) (after [1%N; 3%N]) = option_map (skel TS TIn TOut TLay) (after [3%N]).
Proof.
  destruct scribble_witness as [A B]. destruct scribble_same_skeleton as [C D].
  split; [exact A|]. split; [exact B|]. rewrite C, D. reflexivity.
Qed.

(* the positive counterpart: an algorithm that, asked for a size, issues only size queries and stores no layout
   (NoScribble) leaves every stored layout of the subtree untouched when it answers a ComputeSize query (trees without
   display:none nodes: hidden layout zeroes layouts in every run mode). taffy's block algorithm is not such an algorithm:
   the harness counts its offending set_unrounded_layout calls on every traced pass (evidence key
   layouts_written_under_a_ComputeSize_query_in_those_traces) *)
Theorem C01_size_queries_write_no_layout_for_nonscribbling_algorithms :
  forall (S In Out Lay : Type) (mode : In -> RunMode) (in_eqb : In -> In -> bool) (is_none : S -> bool)
         (hidden_out : Out) (zero_lay : Lay) (algo : S -> list S -> In -> Alg In Out Lay),
    (forall s st i, mode i = ComputeSize -> SizeOnly In Out Lay mode (algo s st i)) ->
    forall f t i o t',
      mode i = ComputeSize -> NoNone S In Out Lay is_none t ->
      memo S In Out Lay mode in_eqb is_none hidden_out zero_lay algo f t i = Some (o, t') ->
      lays S In Out Lay t' = lays S In Out Lay t /\ NoNone S In Out Lay is_none t'.
Proof. intros until algo. intros HNS f t i o t' Hm HN H. eapply size_query_writes_no_layout; eauto. Qed.

(* ---- the positive layout-level theorem ----
   For every algorithm that is well behaved with respect to the stored layouts, with the exact-key memo:
     WF  never issues a hidden-mode query;
     H1  a PerformLayout evaluation PerformLayout-queries every child (Visits);
     H3  a PerformLayout evaluation stores every child's layout, and a display:none child is not queried again after its
         last SetLayout (SetsLast) -- a miss on a display:none child zeroes its stored layout, a hit does not: this is the
         `order` defect repaired in the three hidden-child loops (perform_child_layout first, set_unrounded_layout after);
     NS  a ComputeSize evaluation issues only ComputeSize queries and stores no layout (SizeOnly);
     HQ  a display:none child is never asked for its size (NoHiddenSize) -- a ComputeSize miss on it would zero a layout
         that a later PerformLayout hit on its parent no longer restores;
   after ANY history of mutators (at nodes with no display:none ancestor; attached subtrees coherent, e.g. freshly built)
   and PerformLayout passes starting from a tree satisfying the invariants (e.g. a freshly built one), a further
   PerformLayout pass returns the output AND stores, in every node strictly below the root, the layout that the same pass
   gives on a freshly built tree with the same shape, styles and measure data.  (The root's own stored layout is written by
   compute_root_layout, outside the engine skeleton.)
   taffy's block algorithm falsifies NS (perform_final_layout_on_in_flow_children runs, and calls set_unrounded_layout,
   while answering a ComputeSize query: known finding computesize-scribble), flexbox/grid/leaf satisfy it; so this theorem
   characterises exactly what that defect breaks: NS is the only hypothesis the implementation's traces violate. *)
Theorem C01_layouts_equal_fresh_for_nonscribbling_algorithms :
  forall (S In Out Lay : Type) (mode : In -> RunMode) (in_eqb : In -> In -> bool) (is_none : S -> bool)
         (hidden_out : Out) (zero_lay : Lay) (algo : S -> list S -> In -> Alg In Out Lay),
    (forall a b, in_eqb a b = true -> a = b) ->
    (forall s st i, WFAlg In Out Lay mode (algo s st i)) ->
    (forall s st i, mode i = PerformLayout -> Visits In Out Lay mode (seq 0 (length st)) (algo s st i)) ->
    (forall s st i, mode i = PerformLayout -> SetsLast In Out Lay (nones S is_none st) (seq 0 (length st)) (algo s st i)) ->
    (forall s st i, mode i = ComputeSize -> SizeOnly In Out Lay mode (algo s st i)) ->
    (forall s st i, NoHiddenSize In Out Lay mode (nones S is_none st) (algo s st i)) ->
    forall t0 ops f f' i o o' t1 t2,
      Inv S In Out Lay mode is_none hidden_out algo t0 ->
      Coh S In Out Lay mode is_none hidden_out zero_lay algo t0 ->
      run_ok_l S In Out Lay mode in_eqb is_none hidden_out zero_lay algo t0 ops ->
      mode i = PerformLayout ->
      memo S In Out Lay mode in_eqb is_none hidden_out zero_lay algo f
           (run_ops S In Out Lay mode in_eqb is_none hidden_out zero_lay algo t0 ops) i = Some (o, t1) ->
      memo S In Out Lay mode in_eqb is_none hidden_out zero_lay algo f'
           (fresh S In Out Lay zero_lay (skel S In Out Lay (run_ops S In Out Lay mode in_eqb is_none hidden_out zero_lay algo t0 ops))) i
        = Some (o', t2) ->
      o = o' /\ lkids Lay (lays S In Out Lay t1) = lkids Lay (lays S In Out Lay t2).
Proof.
  intros until algo. intros Hk HWF HH1 HH3 HNS HHQ t0 ops f f' i o o' t1 t2 HI HC Hok Hm M1 M2.
  destruct (relayout_layouts_equal_fresh S In Out Lay mode in_eqb is_none hidden_out zero_lay algo Hk HWF HH1 HH3 HNS HHQ
              t0 ops f f' i o o' t1 t2 HI HC Hok Hm M1 M2) as [Eo [El _]].
  split; assumption.
Qed.

(* one pass, from any valid coherent tree: the memoised PerformLayout evaluation leaves below the node what the cache-free
   layout-writing evaluation plain_l of the same (style + layout) tree leaves, and the tree stays coherent *)
Theorem C01_memo_layouts_sound :
  forall (S In Out Lay : Type) (mode : In -> RunMode) (in_eqb : In -> In -> bool) (is_none : S -> bool)
         (hidden_out : Out) (zero_lay : Lay) (algo : S -> list S -> In -> Alg In Out Lay),
    (forall a b, in_eqb a b = true -> a = b) ->
    (forall s st i, WFAlg In Out Lay mode (algo s st i)) ->
    (forall s st i, mode i = PerformLayout -> Visits In Out Lay mode (seq 0 (length st)) (algo s st i)) ->
    (forall s st i, mode i = PerformLayout -> SetsLast In Out Lay (nones S is_none st) (seq 0 (length st)) (algo s st i)) ->
    (forall s st i, mode i = ComputeSize -> SizeOnly In Out Lay mode (algo s st i)) ->
    (forall s st i, NoHiddenSize In Out Lay mode (nones S is_none st) (algo s st i)) ->
    forall f t i o t',
      mode i = PerformLayout ->
      Valid S In Out Lay mode is_none hidden_out algo t ->
      Coh S In Out Lay mode is_none hidden_out zero_lay algo t ->
      memo S In Out Lay mode in_eqb is_none hidden_out zero_lay algo f t i = Some (o, t') ->
      Coh S In Out Lay mode is_none hidden_out zero_lay algo t' /\
      exists g r, plain_l S In Out Lay mode is_none hidden_out zero_lay algo g (strip S In Out Lay t) i = Some (o, r) /\
                  skids S Lay r = map (strip S In Out Lay) (kids_of S In Out Lay t').
Proof.
  intros until algo. intros Hk HWF HH1 HH3 HNS HHQ f t i o t' Hm HV HC M.
  assert (Hm' : mode i <> PerformHiddenLayout) by congruence.
  assert (Hq : mode i = ComputeSize -> is_none (style_of S In Out Lay t) = false) by (intros E; congruence).
  destruct (memo_coh S In Out Lay mode in_eqb is_none hidden_out zero_lay algo Hk HWF HH1 HH3 HNS HHQ f t i o t' Hm' Hq HV HC M)
    as [HC' [_ Hex]].
  split; assumption.
Qed.

(* the layouts a cache-free PerformLayout evaluation leaves below a node depend only on the skeleton and the input,
   not on the layouts stored before *)
Theorem C01_plain_layouts_determined_by_skeleton :
  forall (S In Out Lay : Type) (mode : In -> RunMode) (is_none : S -> bool)
         (hidden_out : Out) (zero_lay : Lay) (algo : S -> list S -> In -> Alg In Out Lay),
    (forall s st i, WFAlg In Out Lay mode (algo s st i)) ->
    (forall s st i, mode i = PerformLayout -> Visits In Out Lay mode (seq 0 (length st)) (algo s st i)) ->
    (forall s st i, mode i = PerformLayout -> SetsLast In Out Lay (nones S is_none st) (seq 0 (length st)) (algo s st i)) ->
    (forall s st i, mode i = ComputeSize -> SizeOnly In Out Lay mode (algo s st i)) ->
    (forall s st i, NoHiddenSize In Out Lay mode (nones S is_none st) (algo s st i)) ->
    forall g g' x y i o1 r1 o2 r2,
      mode i = PerformLayout -> sk_of S Lay x = sk_of S Lay y ->
      plain_l S In Out Lay mode is_none hidden_out zero_lay algo g x i = Some (o1, r1) ->
      plain_l S In Out Lay mode is_none hidden_out zero_lay algo g' y i = Some (o2, r2) ->
      o1 = o2 /\ skids S Lay r1 = skids S Lay r2.
Proof. intros until algo. intros HWF HH1 HH3 HNS HHQ. intros. eapply plain_l_det; eauto. Qed.

(* a freshly built tree is coherent (it has no cache entry at all) *)
Theorem C01_fresh_coh :
  forall (S In Out Lay : Type) (mode : In -> RunMode) (is_none : S -> bool) (hidden_out : Out) (zero_lay : Lay)
         (algo : S -> list S -> In -> Alg In Out Lay) k,
    Coh S In Out Lay mode is_none hidden_out zero_lay algo (fresh S In Out Lay zero_lay k).
Proof. intros. apply Coh_fresh. Qed.

(* HQ cannot be dropped: an instance satisfying the exact key, WF, H1, H3 and NS whose middle node asks its display:none
   child for a size: the size query misses, zeroes the child's stored layout, and the parent's later PerformLayout hit
   does not restore it (no mutation; only the root input changes; same skeleton) *)
Theorem C01_layouts_refuted_when_hidden_children_are_sized :
  (forall s st i, WFAlg TIn TOut TLay t_mode (q_algo s st i)) /\
  (forall s st i, t_mode i = PerformLayout -> Visits TIn TOut TLay t_mode (seq 0 (length st)) (q_algo s st i)) /\
  (forall s st i, t_mode i = PerformLayout -> SetsLast TIn TOut TLay (nones TS t_is_none st) (seq 0 (length st)) (q_algo s st i)) /\
  (forall s st i, t_mode i = ComputeSize -> SizeOnly TIn TOut TLay t_mode (q_algo s st i)) /\
  option_map q_leaf_lay (q_after [1%N; 2%N]) = Some (Some 0%N) /\
  option_map q_leaf_lay (q_after [2%N]) = Some (Some 50%N) /\
  option_map (skel TS TIn TOut TLay) (q_after [1%N; 2%N]) = option_map (skel TS TIn TOut TLay) (q_after [2%N]).
Proof.
  split; [exact q_algo_WF|]. split; [exact q_algo_H1|]. split; [exact q_algo_H3|]. split; [exact q_algo_NS|]. exact hq_witness.
Qed.

(* the order requirement of H3 cannot be dropped (this is the repaired `order` defect): an instance satisfying the exact
   key, WF, H1, NS, HQ that stores every child's layout, but stores a display:none child's layout BEFORE querying it *)
Theorem C01_layouts_refuted_when_hidden_child_is_set_before_its_query :
  (forall s st i, WFAlg TIn TOut TLay t_mode (o_algo s st i)) /\
  (forall s st i, t_mode i = PerformLayout -> Visits TIn TOut TLay t_mode (seq 0 (length st)) (o_algo s st i)) /\
  (forall s st i, t_mode i = PerformLayout -> SetsLast TIn TOut TLay (fun _ => false) (seq 0 (length st)) (o_algo s st i)) /\
  (forall s st i, t_mode i = ComputeSize -> SizeOnly TIn TOut TLay t_mode (o_algo s st i)) /\
  (forall s st i, NoHiddenSize TIn TOut TLay t_mode (nones TS t_is_none st) (o_algo s st i)) /\
  option_map o_child_lay (o_after [1%N; 2%N]) = Some (Some 50%N) /\
  option_map o_child_lay (o_after [2%N]) = Some (Some 0%N) /\
  option_map (skel TS TIn TOut TLay) (o_after [1%N; 2%N]) = option_map (skel TS TIn TOut TLay) (o_after [2%N]).
Proof.
  split; [exact o_algo_WF|]. split; [exact o_algo_H1|]. split; [exact o_algo_sets_every_child|]. split; [exact o_algo_NS|].
  split; [exact o_algo_HQ|]. exact order_witness.
Qed.

(* the hypotheses of the layout-level theorem are satisfiable: the toy instance of Model/EngineLayoutsToy.v (children are
   queried in the parent's run mode, layouts are stored only in PerformLayout mode and after the query, display:none
   children get the hidden-child query + with_order only in PerformLayout mode), and a concrete well-formed history
   (display:none node, style change, attached subtree, three passes) on which both sides store non-trivial layouts *)
Example C01_layouts_hypotheses_satisfiable :
  (forall a b, t_in_eqb a b = true -> a = b) /\
  (forall s st i, WFAlg TIn TOut TLay t_mode (l_algo s st i)) /\
  (forall s st i, t_mode i = PerformLayout -> Visits TIn TOut TLay t_mode (seq 0 (length st)) (l_algo s st i)) /\
  (forall s st i, t_mode i = PerformLayout -> SetsLast TIn TOut TLay (nones TS t_is_none st) (seq 0 (length st)) (l_algo s st i)) /\
  (forall s st i, t_mode i = ComputeSize -> SizeOnly TIn TOut TLay t_mode (l_algo s st i)) /\
  (forall s st i, NoHiddenSize TIn TOut TLay t_mode (nones TS t_is_none st) (l_algo s st i)) /\
  Inv TS TIn TOut TLay t_mode t_is_none 0%N l_algo lx_tree /\
  Coh TS TIn TOut TLay t_mode t_is_none 0%N 0%N l_algo lx_tree /\
  run_ok_l TS TIn TOut TLay t_mode t_in_eqb t_is_none 0%N 0%N l_algo lx_tree lx_ops /\
  l_memo 8 lx_run (PerformLayout, 9%N) <> None /\
  l_memo 8 (fresh TS TIn TOut TLay 0%N (skel TS TIn TOut TLay lx_run)) (PerformLayout, 9%N) <> None.
Proof.
  split; [exact t_in_eqb_eq|]. split; [exact l_algo_WF|]. split; [exact l_algo_H1|]. split; [exact l_algo_H3|].
  split; [exact l_algo_NS|]. split; [exact l_algo_HQ|]. split; [apply Inv_fresh|]. split; [apply Coh_fresh|].
  split; [exact lx_run_ok|]. split; vm_compute; discriminate.
Qed.

(* the hypotheses are satisfiable: the toy instance, and a concrete well-formed history on it *)
Example C01_hypotheses_satisfiable :
  (forall a b, t_in_eqb a b = true -> a = b) /\
  (forall s st i, WFAlg TIn TOut TLay t_mode (t_algo' s st i)) /\
  (forall s st i, t_mode i = PerformLayout -> Visits TIn TOut TLay t_mode (seq 0 (length st)) (t_algo' s st i)) /\
  run_ok TS TIn TOut TLay t_mode t_in_eqb t_is_none 0%N 0%N t_algo' ex_tree ex_ops.
Proof. split; [exact t_in_eqb_eq|]. split; [exact t_algo_WF|]. split; [exact t_algo_H1|exact ex_run_ok]. Qed.

(* ... and a richer history on which nothing is vacuous (7 nodes; root 0 with child 0 = node 1, display:none, over node 3, and
   child 1 = node 2 over node 4): layout; node 1 is un-hidden (set_style); layout with another input; node 2's children are
   replaced by a freshly built 2-node subtree with a display:none leaf (set_children); mark_dirty below it; node 2 is restyled.
   The history satisfies run_ok; both of its layout passes SUCCEED (Some: `step` maps an out-of-fuel None to "tree unchanged",
   which would make a history trivially well behaved); the first pass changes the tree; the final tree has another skeleton than
   the initial one and is not the freshly built tree of its skeleton (node 1's subtree still holds valid cache entries, which
   the relayout hits); and the two evaluations C01_root_output_equals_fresh compares both succeed, with the same output *)
Definition hx_tree : ttree :=
  fresh TS TIn TOut TLay 0%N
    (SNode TS (0%N, false) [SNode TS (1%N, true) [SNode TS (3%N, false) []]; SNode TS (2%N, false) [SNode TS (4%N, false) []]]).
Definition hx_sub : ttree := fresh TS TIn TOut TLay 0%N (SNode TS (5%N, false) [SNode TS (6%N, true) []]).
Definition hx_ops : list (op TS TIn TOut TLay) :=
  [OLayout _ _ _ _ 8 (PerformLayout, 5%N);
   OMutate _ _ _ _ [0] (ESetStyle _ _ _ _ (1%N, false));
   OLayout _ _ _ _ 8 (PerformLayout, 9%N);
   OMutate _ _ _ _ [1] (ESetKids _ _ _ _ [hx_sub]);
   OMutate _ _ _ _ [1; 0] (ENone _ _ _ _);
   OMutate _ _ _ _ [1] (ESetStyle _ _ _ _ (7%N, false))].
Definition hx_step := step TS TIn TOut TLay t_mode t_in_eqb t_is_none 0%N 0%N t_algo'.
Definition hx_run : ttree := fold_left hx_step hx_ops hx_tree.
Definition hx_memo := memo TS TIn TOut TLay t_mode t_in_eqb t_is_none 0%N 0%N t_algo'.

Example C01_example_history_nontrivial :
  run_ok TS TIn TOut TLay t_mode t_in_eqb t_is_none 0%N 0%N t_algo' hx_tree hx_ops /\
  hx_memo 8 hx_tree (PerformLayout, 5%N) <> None /\
  hx_memo 8 (fold_left hx_step (firstn 2 hx_ops) hx_tree) (PerformLayout, 9%N) <> None /\
  hx_step hx_tree (OLayout _ _ _ _ 8 (PerformLayout, 5%N)) <> hx_tree /\
  skel TS TIn TOut TLay hx_run <> skel TS TIn TOut TLay hx_tree /\
  hx_run <> fresh TS TIn TOut TLay 0%N (skel TS TIn TOut TLay hx_run) /\
  exists o t1 t2, hx_memo 8 hx_run (PerformLayout, 9%N) = Some (o, t1) /\
                  hx_memo 8 (fresh TS TIn TOut TLay 0%N (skel TS TIn TOut TLay hx_run)) (PerformLayout, 9%N) = Some (o, t2).
Proof.
  split.
  { unfold hx_ops. cbn [run_ok]. unfold op_ok, edit_ok.
    repeat match goal with |- _ /\ _ => split end; try exact I; try reflexivity.
    - vm_compute. auto.
    - vm_compute. auto.
    - constructor; [apply Valid_fresh|constructor].
    - constructor; [apply (Inv_fresh TS TIn TOut TLay t_mode t_is_none 0%N 0%N t_algo')|constructor].
    - constructor; [apply (Inv_fresh TS TIn TOut TLay t_mode t_is_none 0%N 0%N t_algo')|constructor].
    - vm_compute. auto.
    - vm_compute. auto. }
  split; [vm_compute; discriminate|]. split; [vm_compute; discriminate|]. split; [vm_compute; discriminate|].
  split; [vm_compute; discriminate|]. split; [vm_compute; discriminate|].
  eexists; eexists; eexists. split; vm_compute; reflexivity.
Qed.

(* the premises `memo f t i = Some (o, t')` above are never false for lack of fuel: for every algorithm that addresses only
   children that exist (Bounded), fuel >= the height of the tree makes the memoised evaluation succeed, whatever the caches
   hold and whatever the key equality is.  None therefore means an out-of-range child index (a panic of the real code), and
   the runner of the dirty-flag correspondence (Model/EngineRun.v: fuel 64, toy algorithm, Bounded by t_algo_bounded)
   reports it as the marker -99 instead of a plausible result. *)
Theorem C01_memo_total :
  forall (S In Out Lay : Type) (mode : In -> RunMode) (in_eqb : In -> In -> bool) (is_none : S -> bool)
         (hidden_out : Out) (zero_lay : Lay) (algo : S -> list S -> In -> Alg In Out Lay),
    (forall s st i, Bounded In Out Lay (length st) (algo s st i)) ->
    forall f t i, height S In Out Lay t <= f ->
      exists o t', memo S In Out Lay mode in_eqb is_none hidden_out zero_lay algo f t i = Some (o, t').
Proof. intros until algo. intros HB f t i Hh. apply memo_total; assumption. Qed.

Example C01_toy_fuel_sufficient :
  (forall s st i, Bounded TIn TOut TLay (length st) (t_algo s st i)) /\
  (forall s st i, Bounded TIn TOut TLay (length st) (t_algo' s st i)) /\
  height TS TIn TOut TLay ex_run = 3 /\
  forall (t : ttree) i, height TS TIn TOut TLay t <= 64 -> exists o t', t_memo 64 t i = Some (o, t').
Proof.
  split; [exact t_algo_bounded|]. split; [exact t_algo'_bounded|]. split; [vm_compute; reflexivity|].
  intros t i. apply t_memo_total.
Qed.

(* the TRACED memo the event-level correspondence runs (Model/EngineReplay.v: the same recursion returning, in addition, the
   list of compute_cached_layout / compute_hidden_layout / set_unrounded_layout events the implementation's trace hook logs)
   IS the memo of the theorems above: forgetting the events gives Engine.memo, for every instance of the engine *)
Theorem C01_traced_memo_is_memo :
  forall (S In Out Lay : Type) (mode : In -> RunMode) (in_eqb : In -> In -> bool) (is_none : S -> bool)
         (hidden_out : Out) (zero_lay : Lay) (algo : S -> list S -> In -> Alg In Out Lay) fuel t i,
    option_map fst (memo_tr S In Out Lay mode in_eqb is_none hidden_out zero_lay algo fuel t i)
    = memo S In Out Lay mode in_eqb is_none hidden_out zero_lay algo fuel t i.
Proof. intros. apply memo_traced_fst. Qed.

(* and its log is bracketed by the Query / Return events of the node it was asked about; a hit logs nothing else and leaves
   the tree alone *)
Theorem C01_traced_memo_brackets :
  forall (S In Out Lay : Type) (mode : In -> RunMode) (in_eqb : In -> In -> bool) (is_none : S -> bool)
         (hidden_out : Out) (zero_lay : Lay) (algo : S -> list S -> In -> Alg In Out Lay) fuel t i o t' evs,
    mode i <> PerformHiddenLayout ->
    memo_tr S In Out Lay mode in_eqb is_none hidden_out zero_lay algo fuel t i = Some (o, t', evs) ->
    exists hit mid, evs = EQuery S In (style_of S In Out Lay t) i hit :: mid ++ [EReturn S In (style_of S In Out Lay t)]
                    /\ (hit = true -> mid = [] /\ t' = t).
Proof. intros. eapply memo_traced_brackets; eauto. Qed.

(* =========================================================================================================   The engine with the REAL cache (wave 6c; Model/EngineReal.v, notes/REALCACHE.md).
   `gmemo` is the recursion of `memo` written over a cache INTERFACE (get / store / clear + the ghost test `clossy`), with per-node
   counters; `memo_exact` is its instance with the exact-key cache above, `memo_real` its instance with src/tree/cache.rs (the
   lossy compatibility test and the nine slots of Model/Cache.v over the key projection (known_dimensions, available_space) of
   the input; every entry also keeps the COMPLETE input and output it was stored with, as ghost state).  `memo_real` with the block
   algorithm and the leaf kernel is what the whole-tree correspondence `vh blocktree cases .. real` runs against
   `TaffyTree::compute_layout_with_measure` WITHOUT the exact-key hook: layouts bit for bit, query / hit / measure counts exactly. *)
Module RealCache.
Import TV.Model.EngineReal TV.Proofs.EngineReal TV.Model.EngineRealToy.

(* the generalisation is conservative: the exact instance of the generic engine IS `memo` (trees embedded; counters forgotten),
   so every theorem above is a theorem about `memo_exact` *)
Theorem C01_exact_instance_is_memo :
  forall (S In Out Lay : Type) (mode : In -> RunMode) (in_eqb : In -> In -> bool) (is_none : S -> bool)
         (hidden_out : Out) (zero_lay : Lay) (algo : S -> list S -> In -> Alg In Out Lay) (mcalls : S -> list S -> In -> N) f t i,
    option_map (fun p => (fst p, forget S In Out Lay (snd p)))
               (memo_exact S In Out Lay mode in_eqb is_none hidden_out zero_lay algo mcalls f t i)
    = memo S In Out Lay mode in_eqb is_none hidden_out zero_lay algo f (forget S In Out Lay t) i.
Proof. intros. apply gmemo_exact_is_memo. Qed.

(* ANY cache behind the interface whose non-lossy hits return an entry that was stored for exactly the queried input (ghost view
   `centries`; `store` adds the stored pair, `clear` adds nothing): an evaluation during which NO LOSSY HIT occurs (the lossy-hit
   counters of the whole tree did not move) returns what the cache-free evaluation of the skeleton returns, keeps every ghost
   entry of every cache valid and leaves shape / styles untouched.  Displaced entries only cost re-evaluations. *)
Theorem C01_real_sound_when_no_lossy_hit :
  forall (S In Out Lay : Type) (mode : In -> RunMode) (is_none : S -> bool) (hidden_out : Out) (zero_lay : Lay)
         (algo : S -> list S -> In -> Alg In Out Lay) (mcalls : S -> list S -> In -> N)
         (C : Type) (cget : C -> In -> option Out) (clossy : C -> In -> bool) (cstore : C -> In -> Out -> C) (cclear : C -> C)
         (centries : C -> list (In * Out)),
    (forall c i o, cget c i = Some o -> clossy c i = false -> List.In (i, o) (centries c)) ->
    (forall c i o e, List.In e (centries (cstore c i o)) -> e = (i, o) \/ List.In e (centries c)) ->
    (forall c e, List.In e (centries (cclear c)) -> List.In e (centries c)) ->
    forall f t i o t',
      GValid S In Out Lay mode is_none hidden_out algo C centries t ->
      gmemo S In Out Lay mode is_none hidden_out zero_lay algo mcalls C cget clossy cstore cclear f t i = Some (o, t') ->
      sum_stats S Lay C n_lossy t' = sum_stats S Lay C n_lossy t ->
      (exists f', plain S In Out Lay mode is_none hidden_out algo f' (gskel S Lay C t) i = Some o) /\
      GValid S In Out Lay mode is_none hidden_out algo C centries t' /\
      gskel S Lay C t' = gskel S Lay C t.
Proof.
  intros until centries. intros Hg Hs Hc f t i o t' HV Hm HL.
  eapply (gmemo_sound_when_faithful S In Out Lay mode is_none hidden_out zero_lay algo mcalls C cget clossy cstore cclear centries Hg Hs Hc);
    [exact HV|exact Hm|]. rewrite !tl_sum. rewrite HL. apply N.le_refl.
Qed.

(* the real cache of src/tree/cache.rs: a `memo_real` evaluation without lossy hit returns the output the EXACT-KEY memo returns on
   any valid tree with the same skeleton (e.g. the freshly built one), and keeps the tree valid -- so the exact-key theorems
   (C01_memo_sound, C01_root_output_equals_fresh, ...) transfer to real-cache runs in the class the correspondence measures
   (`lossy_hits` of a case = 0: 66-71 % of the generated trees, recorded in the evidence).
   `_partial`: OUTPUTS only.  The stored layouts are not covered: without NS (which taffy's block algorithm falsifies) an exact-key
   hit may leave layouts that a real-cache re-evaluation rewrites, so "same layouts" needs the hypotheses of
   C01_layouts_equal_fresh_for_nonscribbling_algorithms ported to the interface (not done); on the generated trees the
   correspondence finds NO tree without lossy hit whose layouts differ from the exact-key run (evidence key
   trees_whose_layout_differs_from_the_exact_key_run / of_which_without_lossy_hit).
   Premises: `in_eqb` decides equality of complete inputs (as in C01_memo_sound); `is_outer o` only accepts outputs that
   `from_outer_size` reproduces from their size (a ComputeSize hit returns from_outer_size of the cached size). *)
Theorem C01_real_equals_exact_when_no_lossy_hit_partial :
  forall (T : Type) (NT : Num T) (S In Out Lay : Type) (mode : In -> RunMode) (is_none : S -> bool) (hidden_out : Out) (zero_lay : Lay)
         (algo : S -> list S -> In -> Alg In Out Lay) (mcalls : S -> list S -> In -> N)
         (key_of : In -> Cache.key T) (osize : Out -> Cache.size T) (from_outer : Cache.size T -> Out)
         (in_eqb : In -> In -> bool) (is_outer : Out -> bool),
    (forall a b, in_eqb a b = true -> a = b) ->
    (forall o, is_outer o = true -> from_outer (osize o) = o) ->
    forall f t i o t' fe te oe te',
      RValid S In Out Lay mode is_none hidden_out algo t ->
      memo_real S In Out Lay mode is_none hidden_out zero_lay algo mcalls key_of osize from_outer in_eqb is_outer f t i = Some (o, t') ->
      sum_stats S Lay (rcache In Out) n_lossy t' = sum_stats S Lay (rcache In Out) n_lossy t ->
      Valid S In Out Lay mode is_none hidden_out algo te ->
      skel S In Out Lay te = gskel S Lay (rcache In Out) t ->
      memo S In Out Lay mode in_eqb is_none hidden_out zero_lay algo fe te i = Some (oe, te') ->
      o = oe /\ RValid S In Out Lay mode is_none hidden_out algo t' /\ gskel S Lay (rcache In Out) t' = gskel S Lay (rcache In Out) t.
Proof.
  intros T NT S In Out Lay mode is_none hidden_out zero_lay algo mcalls key_of osize from_outer in_eqb is_outer He Ho.
  intros. eapply (@memo_real_equals_exact T NT); eauto.
Qed.

(* a freshly built real-cache tree satisfies the invariant the theorem starts from *)
Theorem C01_real_fresh_valid :
  forall (S In Out Lay : Type) (mode : In -> RunMode) (is_none : S -> bool) (hidden_out : Out) (zero_lay : Lay)
         (algo : S -> list S -> In -> Alg In Out Lay) k,
    RValid S In Out Lay mode is_none hidden_out algo (fresh_real S In Out Lay zero_lay k) /\
    gskel S Lay (rcache In Out) (fresh_real S In Out Lay zero_lay k) = k.
Proof. intros. apply RValid_fresh. Qed.

(* Wave 8a (second audit, finding 1): the INSTANCE the whole-tree correspondence of the block engine runs
   (Model/BlockEngineRealRun.v: `blr_memo f32_seqb block_pre abs_child_block`), with NO premise about the key left: the ghost comparison
   of complete inputs uses the representation equality of binary32 (Model/TaffyKey.v f32_seqb), which IS Leibniz equality
   (Proofs/BlockEngineReal.v bin_eqb_with_eq + TaffyKey.f32_seqb_eq), and `b_is_outer` accepts nothing.  The class "no lossy hit" the
   evidence counts (`trees_without_lossy_hit`) is counted with exactly this ghost.  With IEEE `==` (bin_eqb = bin_eqb_with eqb) the
   premise of the general theorem is FALSE: C01_bin_eqb_not_leibniz (+0 and -0). *)
Theorem C01_real_block_equals_exact_when_no_lossy_hit_partial :
  forall (pre : Block.BStyle F32.f32 -> BlockAlg.BIn F32.f32 -> BlockAlg.BIn F32.f32) (abs_child : @BlockAlg.AbsChild F32.f32)
         f (t : @BlockEngineReal.brtree F32.f32) i o t' fe te oe te',
    RValid _ _ _ _ BlockAlg.bi_mode BlockEngine.bn_is_none BlockEngine.hidden_child_out (BlockEngine.bl_algo pre abs_child) t ->
    BlockEngineReal.blr_memo TaffyKey.f32_seqb pre abs_child f t i = Some (o, t') ->
    sum_stats _ _ _ n_lossy t' = sum_stats _ _ _ n_lossy t ->
    Valid _ _ _ _ BlockAlg.bi_mode BlockEngine.bn_is_none BlockEngine.hidden_child_out (BlockEngine.bl_algo pre abs_child) te ->
    skel _ _ _ _ te = gskel _ _ _ t ->
    memo _ _ _ _ BlockAlg.bi_mode (BlockEngine.bin_eqb_with TaffyKey.f32_seqb) BlockEngine.bn_is_none BlockEngine.hidden_child_out
         BlockEngine.zero_blay (BlockEngine.bl_algo pre abs_child) fe te i = Some (oe, te') ->
    o = oe /\ RValid _ _ _ _ BlockAlg.bi_mode BlockEngine.bn_is_none BlockEngine.hidden_child_out (BlockEngine.bl_algo pre abs_child) t'
    /\ gskel _ _ _ t' = gskel _ _ _ t.
Proof.
  intros pre abs_child f t i o t' fe te oe te' HV Hm Hl HVe Hs He.
  eapply (@memo_real_equals_exact F32.f32 _); [| |exact HV|exact Hm|exact Hl|exact HVe|exact Hs|exact He].
  - apply TV.Proofs.BlockEngineReal.bin_eqb_with_eq. exact TV.Proofs.TaffyKey.f32_seqb_eq.
  - apply TV.Proofs.BlockEngineReal.b_is_outer_spec.
Qed.

(* the key that compares numbers as numbers is NOT an equality of inputs over binary32 (known width +0 vs -0) *)
Theorem C01_bin_eqb_not_leibniz :
  exists a b : BlockAlg.BIn F32.f32, BlockEngine.bin_eqb a b = true /\ a <> b /\ BlockEngine.bin_eqb_with TaffyKey.f32_seqb a b = false.
Proof.
  exists (BlockAlg.mkBIn PerformLayout true (Block.mkSize (Some (F32.f_of_bits 0)) None) Block.sz_none
                         (Block.mkSize Block.MaxContent Block.MaxContent) (Block.mkLine false false)),
         (BlockAlg.mkBIn PerformLayout true (Block.mkSize (Some (F32.f_of_bits 2147483648)) None) Block.sz_none
                         (Block.mkSize Block.MaxContent Block.MaxContent) (Block.mkLine false false)).
  split; [vm_compute; reflexivity|]. split; [|vm_compute; reflexivity].
  intros E. assert (H : BlockEngine.bin_eqb_with TaffyKey.f32_seqb
                          (BlockAlg.mkBIn PerformLayout true (Block.mkSize (Some (F32.f_of_bits 0)) None) Block.sz_none
                                          (Block.mkSize Block.MaxContent Block.MaxContent) (Block.mkLine false false))
                          (BlockAlg.mkBIn PerformLayout true (Block.mkSize (Some (F32.f_of_bits 2147483648)) None) Block.sz_none
                                          (Block.mkSize Block.MaxContent Block.MaxContent) (Block.mkLine false false)) = false)
    by (vm_compute; reflexivity).
  rewrite <- E in H. vm_compute in H. discriminate.
Qed.

(* non-vacuity, computed (Model/EngineRealToy.v: 6 nodes, one display:none subtree; the key forgets the lowest bit of the input
   number): the premises of the transfer theorem hold for the instance; two passes with the same root input produce no lossy hit
   and return what the exact-key memo returns on the fresh tree (24) *)
Example C01_real_transfer_example :
  (forall a b, t_in_eqb a b = true -> a = b) /\ (forall o, tr_is_outer o = true -> tr_from_outer (tr_osize o) = o) /\
  tr_passes (tr_fresh tr_k) [(PerformLayout, 4%N); (PerformLayout, 4%N)] = [Some (24%N, 0%N); Some (24%N, 0%N)] /\
  tx_fresh_out (PerformLayout, 4%N) = Some 24%N.
Proof.
  split; [exact t_in_eqb_eq|]. split; [|split; vm_compute; reflexivity].
  intros o _. unfold tr_from_outer, tr_osize, xq_of_N. cbn. rewrite Z.div_1_r. apply N2Z.id.
Qed.

(* ... and the premise "no lossy hit" cannot be dropped: the model witness of the known finding lossy-cache-key at the engine
   level.  Third pass with root input 5 = another complete input with the same (known_dimensions, available_space) as 4: the root's
   final-layout entry answers (one lossy hit is counted) with 24, where the exact-key memo / a fresh tree returns 28. *)
Theorem C01_real_lossy_hit_refuted :
  tr_passes (tr_fresh tr_k) [(PerformLayout, 4%N); (PerformLayout, 5%N)] = [Some (24%N, 0%N); Some (24%N, 1%N)] /\
  tx_fresh_out (PerformLayout, 5%N) = Some 28%N.
Proof. split; vm_compute; reflexivity. Qed.

(* the same finding on the model the correspondence runs, with taffy's own leaf algorithm over binary32 (a generated case,
   `vh blocktree case 2 649`, replayed on the implementation by every run of the correspondence that contains it): ONE node -- a leaf
   `size 92.5 x 195, min-width 157.75, padding-left / -top 12.5 %, measure Fixed(67.75, 18.5)` -- laid out under 182.25 x 169 and then
   under max-content x 85.5.  Both root queries carry the same known dimensions (157.75, 195), so the real cache answers the second
   from the first (1 lossy hit: the parent size differs, and the percentage padding resolves against it): content size
   93.53125 x 43.53125 is kept where the exact-key memo (and a fresh tree) computes 70.75 x 20.75.  Encoded input and outputs as the
   runners of the two correspondences print them (layout integers; the real-cache runner prefixes lossy hits and evaluations and
   appends queries / hits / measure calls per node). *)
Definition lossy_block_case : list Z :=
  [2; 0; 1127628800; 0; 1126760448; 2; 0; 0; 1118502912; 0; 0; 0; 0; 0; 0; 0; 2; 0; 2; 0; 2; 0; 2; 0; 0; 1119420416; 0; 1128464384; 0;
   1126023168; 0; 1101135872; 2; 0; 2; 0; 0; 0; 0; 0; 0; 0; 0; 0; 0; 0; 1; 1040187392; 0; 1077936128; 1; 1040187392; 0; 1074790400; 0;
   0; 0; 0; 0; 0; 0; 0; 3; 1; 1116176384; 1100218368; 0]%Z.
Theorem C01_real_lossy_hit_refuted_on_a_block_tree :
  TV.Model.BlockEngineRun.run_case lossy_block_case =
    ([0; 0; 0; 1126023168; 1128464384; 1119555584; 1110319104; 0; 0; 0; 0; 0; 0; 1102462976; 1077936128; 1102462976; 1074790400; 0; 0; 0; 0] ++
     [0; 0; 0; 1126023168; 1128464384; 1116569600; 1101398016; 0; 0; 0; 0; 0; 0; 0; 1077936128; 0; 1074790400; 0; 0; 0; 0])%Z /\
  TV.Model.BlockEngineRealRun.run_case_real lossy_block_case =
    ([1; 1] ++
     [0; 0; 0; 1126023168; 1128464384; 1119555584; 1110319104; 0; 0; 0; 0; 0; 0; 1102462976; 1077936128; 1102462976; 1074790400; 0; 0; 0; 0] ++ [1; 0; 1] ++
     [0; 0; 0; 1126023168; 1128464384; 1119555584; 1110319104; 0; 0; 0; 0; 0; 0; 0; 1077936128; 0; 1074790400; 0; 0; 0; 0] ++ [1; 1; 0])%Z.
Proof. split; vm_compute; reflexivity. Qed.
(* the TRACED engine the real-cache event-level correspondence runs (Model/EngineReplayReal.v `gmemo_tr`: `gmemo` returning, in addition,
   the events of the trace hook; notes/REALHIST.md) IS `gmemo`: forgetting the events gives `gmemo`, for every algorithm and every cache
   behind the interface -- in particular `memo_real`, the engine over the real cache *)
Theorem C01_real_traced_memo_is_gmemo :
  forall (S In Out Lay : Type) (mode : In -> RunMode) (is_none : S -> bool) (hidden_out : Out) (zero_lay : Lay)
         (algo : S -> list S -> In -> Alg In Out Lay) (mcalls : S -> list S -> In -> N)
         (C : Type) (cget : C -> In -> option Out) (clossy : C -> In -> bool) (cstore : C -> In -> Out -> C) (cclear : C -> C) fuel t i,
    option_map fst (TV.Model.EngineReplayReal.gmemo_tr S In Out Lay mode is_none hidden_out zero_lay algo mcalls C cget clossy cstore cclear fuel t i)
    = gmemo S In Out Lay mode is_none hidden_out zero_lay algo mcalls C cget clossy cstore cclear fuel t i.
Proof. intros. apply TV.Proofs.EngineReplayReal.gmemo_traced_fst. Qed.

Print Assumptions C01_exact_instance_is_memo.
Print Assumptions C01_real_traced_memo_is_gmemo.
Print Assumptions C01_real_sound_when_no_lossy_hit.
Print Assumptions C01_real_equals_exact_when_no_lossy_hit_partial.
Print Assumptions C01_real_fresh_valid.
Print Assumptions C01_real_block_equals_exact_when_no_lossy_hit_partial.
Print Assumptions C01_bin_eqb_not_leibniz.
Print Assumptions C01_real_lossy_hit_refuted.
Print Assumptions C01_real_lossy_hit_refuted_on_a_block_tree.
End RealCache.
(* ================================================================================================================================
   Wave 6: the engine theorems INSTANTIATED for the complete engine of taffy -- Model/TaffyRoot.v `real_algo` = Model/TaffyEngine.v
   `taffy_algo` with the real dispatch on (display, has_children), the block / flex / grid resumptions (block: `block_pre`, the real
   absolute routine `abs_child_block`; grid: Model/GridAlgTotal.v, `grid_alg` wherever the Rust code does not panic) and compute_leaf_layout
   with the node's measure function.  These are the definitions `vh taffytree` runs against TaffyTree::compute_layout_with_measure on whole
   random mixed trees, every stored layout of every node, bit for bit (notes/TAFFYTREE.md).

   Which interface hypotheses are now THEOREMS for all node kinds (no premise): WF, H1, H3, HQ.  Which is not: NS -- refuted for block
   containers (C01_layouts_refuted_for_scribbling_algorithms is the toy form; the block algorithm stores its in-flow children's layouts while
   sizing: known finding computesize-scribble) and for flex rows / grids with baseline-aligned children (C01_flex_algorithm_NS_refuted,
   C01_grid_algorithm_NS_refuted in Props/C05.v); proved for every other node (`t_calm`).  What stays a premise of the instantiated theorems:
   the EXACT memo key (`teq` = an exact equality of numbers; Model/TaffyKey.v gives the ones of binary32 and of the exact instance:
   C01_taffy_exact_keys) -- the real cache key is lossy (known finding). *)
From TV Require Model.Common Model.Leaf Model.FlexAlgBase Model.BlockFlexEngine Model.TaffyEngine Model.TaffyRoot Model.TaffyKey Model.TaffyExample.
From TV Require Proofs.TaffyIface Proofs.TaffyKey Proofs.TaffyC01 Num.Num Num.F32 Num.QNum.
From Coq Require ZArith.
Module TaffyInstance.
  Import ZArith.
  Import Num.Num Model.Common Model.Leaf Model.FlexAlgBase Model.BlockFlexEngine Model.TaffyEngine Model.TaffyRoot Model.TaffyKey.

  (* the interface hypotheses, for every style, child list and input; NS for calm nodes *)
  Theorem C01_taffy_algorithms_satisfy_interface :
    forall (T : Type) (N : Num T) (s : TStyle T) (st : list (TStyle T)) (i : FIn T),
      WFAlg (FIn T) (LayoutOutput T) (FLay T) qi_mode (real_algo s st i) /\
      (qi_mode i = Engine.PerformLayout -> Visits (FIn T) (LayoutOutput T) (FLay T) qi_mode (seq 0 (length st)) (real_algo s st i)) /\
      (qi_mode i = Engine.PerformLayout ->
       SetsLast (FIn T) (LayoutOutput T) (FLay T) (nones (TStyle T) t_is_none st) (seq 0 (length st)) (real_algo s st i)) /\
      NoHiddenSize (FIn T) (LayoutOutput T) (FLay T) qi_mode (nones (TStyle T) t_is_none st) (real_algo s st i) /\
      (t_calm s = true -> Forall (fun c => t_calm c = true) st -> qi_mode i = Engine.ComputeSize ->
       SizeOnly (FIn T) (LayoutOutput T) (FLay T) qi_mode (real_algo s st i)).
  Proof.
    intros T N s st i. split; [apply TaffyIface.real_algo_WF|]. split; [apply TaffyIface.real_algo_H1|].
    split; [apply TaffyIface.real_algo_H3|]. split; [apply TaffyIface.real_algo_HQ|apply TaffyIface.real_algo_NS_partial].
  Qed.
  Print Assumptions C01_taffy_algorithms_satisfy_interface.

  (* the representation equalities of binary32 (what the exact-key hook compares: the Debug string of the input) and of the exact
     instance make EXACT memo keys *)
  Theorem C01_taffy_exact_keys :
    (forall a b : FIn F32.f32, fin_eqb_with f32_seqb a b = true -> a = b) /\
    (forall a b : FIn QNum.XQ, fin_eqb_with xq_seqb a b = true -> a = b).
  Proof. split; [apply TaffyKey.fin_eqb_with_eq; exact TaffyKey.f32_seqb_eq|apply TaffyKey.fin_eqb_with_eq; exact TaffyKey.xq_seqb_eq]. Qed.
  Print Assumptions C01_taffy_exact_keys.

  (* C01_root_output_equals_fresh for the complete engine: after ANY history of mutators (at nodes without a display:none ancestor) and
     layout passes, a further evaluation of the root returns what the freshly built tree returns.  No premise about the algorithms. *)
  Theorem C01_taffy_engine_root_output_equals_fresh :
    forall (T : Type) (N : Num T) (teq : T -> T -> bool),
      (forall a b, teq a b = true -> a = b) ->
      forall t0 ops f f' i o o' t1 t2,
        Inv (TStyle T) (FIn T) (LayoutOutput T) (FLay T) qi_mode t_is_none output_HIDDEN real_algo t0 ->
        run_ok (TStyle T) (FIn T) (LayoutOutput T) (FLay T) qi_mode (fin_eqb_with teq) t_is_none output_HIDDEN (f_with_order 0) real_algo t0 ops ->
        memo (TStyle T) (FIn T) (LayoutOutput T) (FLay T) qi_mode (fin_eqb_with teq) t_is_none output_HIDDEN (f_with_order 0) real_algo f
             (run_ops (TStyle T) (FIn T) (LayoutOutput T) (FLay T) qi_mode (fin_eqb_with teq) t_is_none output_HIDDEN (f_with_order 0) real_algo t0 ops) i
          = Some (o, t1) ->
        memo (TStyle T) (FIn T) (LayoutOutput T) (FLay T) qi_mode (fin_eqb_with teq) t_is_none output_HIDDEN (f_with_order 0) real_algo f'
             (fresh (TStyle T) (FIn T) (LayoutOutput T) (FLay T) (f_with_order 0)
                    (skel (TStyle T) (FIn T) (LayoutOutput T) (FLay T)
                          (run_ops (TStyle T) (FIn T) (LayoutOutput T) (FLay T) qi_mode (fin_eqb_with teq) t_is_none output_HIDDEN (f_with_order 0) real_algo t0 ops))) i
          = Some (o', t2) ->
        o = o'.
  Proof. intros T N teq Hk. apply TaffyC01.taffy_root_output_equals_fresh. exact Hk. Qed.
  Print Assumptions C01_taffy_engine_root_output_equals_fresh.

  (* ... and with compute_root_layout on top (Model/TaffyRoot.v: the known dimensions of the root, the one query, the root's own Layout):
     the ROOT's stored layout after the history equals the one on the freshly built tree *)
  Theorem C01_taffy_compute_root_equals_fresh :
    forall (T : Type) (N : Num T) (teq : T -> T -> bool),
      (forall a b, teq a b = true -> a = b) ->
      forall t0 ops f f' avail r1 r2,
        Inv (TStyle T) (FIn T) (LayoutOutput T) (FLay T) qi_mode t_is_none output_HIDDEN real_algo t0 ->
        run_ok (TStyle T) (FIn T) (LayoutOutput T) (FLay T) qi_mode (fin_eqb_with teq) t_is_none output_HIDDEN (f_with_order 0) real_algo t0 ops ->
        real_compute_root teq f
          (run_ops (TStyle T) (FIn T) (LayoutOutput T) (FLay T) qi_mode (fin_eqb_with teq) t_is_none output_HIDDEN (f_with_order 0) real_algo t0 ops) avail
          = Some r1 ->
        real_compute_root teq f'
          (taffy_fresh (skel (TStyle T) (FIn T) (LayoutOutput T) (FLay T)
                             (run_ops (TStyle T) (FIn T) (LayoutOutput T) (FLay T) qi_mode (fin_eqb_with teq) t_is_none output_HIDDEN (f_with_order 0) real_algo t0 ops)))
          avail = Some r2 ->
        lay_of (TStyle T) (FIn T) (LayoutOutput T) (FLay T) r1 = lay_of (TStyle T) (FIn T) (LayoutOutput T) (FLay T) r2.
  Proof. intros T N teq Hk. apply TaffyC01.taffy_compute_root_equals_fresh. exact Hk. Qed.
  Print Assumptions C01_taffy_compute_root_equals_fresh.

  (* computed, on a mixed tree over the exact instance (Model/TaffyExample.v: block root over a flex row, a grid with a display:none and a
     measured child, an absolute leaf; history: layout, set_style on the flex container, mark_dirty below the grid, layout): the premises
     hold, both evaluations succeed and return the same non-trivial output (200 x 40), and the history's tree is not the fresh one (its
     root is clean) *)
  Example C01_taffy_engine_example :
    (forall a b, TaffyExample.x_eqb a b = true -> a = b) /\
    Inv (TStyle QNum.XQ) (FIn QNum.XQ) (LayoutOutput QNum.XQ) (FLay QNum.XQ) qi_mode t_is_none output_HIDDEN real_algo
        (taffy_fresh TaffyExample.ex_tree) /\
    run_ok (TStyle QNum.XQ) (FIn QNum.XQ) (LayoutOutput QNum.XQ) (FLay QNum.XQ) qi_mode TaffyExample.x_eqb t_is_none output_HIDDEN (f_with_order 0) real_algo
           (taffy_fresh TaffyExample.ex_tree) TaffyExample.ex_ops /\
    option_map fst (TaffyExample.ex_memo 8 TaffyExample.ex_run (TaffyExample.ex_input 210%Z)) =
    option_map fst (TaffyExample.ex_memo 8 (taffy_fresh (skel _ _ _ _ TaffyExample.ex_run)) (TaffyExample.ex_input 210%Z)) /\
    option_map (fun r => out_size (fst r)) (TaffyExample.ex_memo 8 TaffyExample.ex_run (TaffyExample.ex_input 210%Z)) =
    Some (mkSize (TaffyExample.xq 200%Z) (TaffyExample.xq 40%Z)) /\
    dirty _ _ _ _ TaffyExample.ex_run = false /\ dirty _ _ _ _ (taffy_fresh (skel _ _ _ _ TaffyExample.ex_run)) = true.
  Proof.
    split; [apply TaffyKey.fin_eqb_with_eq; exact TaffyKey.xq_seqb_eq|]. split; [apply Inv_fresh|].
    split; [vm_compute; repeat split|]. split; [vm_compute; reflexivity|]. split; [vm_compute; reflexivity|].
    split; vm_compute; reflexivity.
  Qed.

  (* C01_layouts_equal_fresh_for_nonscribbling_algorithms for the complete engine on CALM trees (Model/TaffyRoot.v `CalmStyle`: every node's
     display is flex, grid or none and neither align_items nor align_self is baseline -- the subtype, so every mutation of the history stays in
     the class): the stored layouts of every node below the root equal those of a fresh pass.  `_partial`: trees with block nodes or baseline
     alignment are excluded (there NS is refuted, and the statement with it: known finding computesize-scribble); the root's own layout is
     C01_taffy_compute_root_equals_fresh. *)
  Theorem C01_taffy_engine_layouts_equal_fresh_partial :
    forall (T : Type) (N : Num T) (teq : T -> T -> bool),
      (forall a b, teq a b = true -> a = b) ->
      forall t0 ops f f' i o o' t1 t2,
        Inv CalmStyle (FIn T) (LayoutOutput T) (FLay T) qi_mode calm_is_none output_HIDDEN calm_algo t0 ->
        Coh CalmStyle (FIn T) (LayoutOutput T) (FLay T) qi_mode calm_is_none output_HIDDEN (f_with_order 0) calm_algo t0 ->
        run_ok_l CalmStyle (FIn T) (LayoutOutput T) (FLay T) qi_mode (fin_eqb_with teq) calm_is_none output_HIDDEN (f_with_order 0) calm_algo t0 ops ->
        qi_mode i = Engine.PerformLayout ->
        memo CalmStyle (FIn T) (LayoutOutput T) (FLay T) qi_mode (fin_eqb_with teq) calm_is_none output_HIDDEN (f_with_order 0) calm_algo f
             (run_ops CalmStyle (FIn T) (LayoutOutput T) (FLay T) qi_mode (fin_eqb_with teq) calm_is_none output_HIDDEN (f_with_order 0) calm_algo t0 ops) i
          = Some (o, t1) ->
        memo CalmStyle (FIn T) (LayoutOutput T) (FLay T) qi_mode (fin_eqb_with teq) calm_is_none output_HIDDEN (f_with_order 0) calm_algo f'
             (fresh CalmStyle (FIn T) (LayoutOutput T) (FLay T) (f_with_order 0)
                    (skel CalmStyle (FIn T) (LayoutOutput T) (FLay T)
                          (run_ops CalmStyle (FIn T) (LayoutOutput T) (FLay T) qi_mode (fin_eqb_with teq) calm_is_none output_HIDDEN (f_with_order 0) calm_algo t0 ops))) i
          = Some (o', t2) ->
        o = o' /\ lkids (FLay T) (lays CalmStyle (FIn T) (LayoutOutput T) (FLay T) t1) = lkids (FLay T) (lays CalmStyle (FIn T) (LayoutOutput T) (FLay T) t2).
  Proof. intros T N teq Hk. apply TaffyC01.calm_layouts_equal_fresh. exact Hk. Qed.
  Print Assumptions C01_taffy_engine_layouts_equal_fresh_partial.

  (* computed, on a calm mixed tree (flex column over a grid with a display:none and a measured child and a flex row; history: layout,
     set_style on the inner flex container, mark_dirty below the grid, layout): the premises hold, both passes succeed with output 120 x 40,
     and a stored layout two levels down is non-trivial (the second child of the restyled flex container sits at y = 20) *)
  Example C01_taffy_engine_layouts_example :
    Inv CalmStyle (FIn QNum.XQ) (LayoutOutput QNum.XQ) (FLay QNum.XQ) qi_mode calm_is_none output_HIDDEN calm_algo
        (TaffyExample.calm_fresh TaffyExample.calm_tree) /\
    Coh CalmStyle (FIn QNum.XQ) (LayoutOutput QNum.XQ) (FLay QNum.XQ) qi_mode calm_is_none output_HIDDEN (f_with_order 0) calm_algo
        (TaffyExample.calm_fresh TaffyExample.calm_tree) /\
    run_ok_l CalmStyle (FIn QNum.XQ) (LayoutOutput QNum.XQ) (FLay QNum.XQ) qi_mode TaffyExample.x_eqb calm_is_none output_HIDDEN (f_with_order 0) calm_algo
             (TaffyExample.calm_fresh TaffyExample.calm_tree) TaffyExample.calm_ops /\
    qi_mode (TaffyExample.calm_input 100%Z) = Engine.PerformLayout /\
    option_map fst (TaffyExample.calm_memo 8 TaffyExample.calm_run (TaffyExample.calm_input 100%Z)) =
    option_map fst (TaffyExample.calm_memo 8 (TaffyExample.calm_fresh (skel _ _ _ _ TaffyExample.calm_run)) (TaffyExample.calm_input 100%Z)) /\
    option_map (fun r => out_size (fst r)) (TaffyExample.calm_memo 8 TaffyExample.calm_run (TaffyExample.calm_input 100%Z)) =
    Some (mkSize (TaffyExample.xq 120%Z) (TaffyExample.xq 40%Z)) /\
    option_map (fun r => option_map (fun k => option_map (fun g => fl_location (lay_of _ _ _ _ g)) (nth_error (kids_of _ _ _ _ k) 1))
                                    (nth_error (kids_of _ _ _ _ (snd r)) 1))
               (TaffyExample.calm_memo 8 TaffyExample.calm_run (TaffyExample.calm_input 100%Z))
    = Some (Some (Some (mkPoint (TaffyExample.xq 0%Z) (TaffyExample.xq 20%Z)))).
  Proof.
    split; [apply Inv_fresh|]. split; [apply Coh_fresh|]. split; [vm_compute; repeat split|]. split; [reflexivity|].
    split; [vm_compute; reflexivity|]. split; vm_compute; reflexivity.
  Qed.
End TaffyInstance.

(* Wave 7a: the transfer theorem of module RealCache INSTANTIATED for the complete engine under the real cache (Model/TaffyEngineReal.v
   `trl_memo` = memo_real over real_algo: the instance `vh taffytree cases .. real` compares with TaffyTree::compute_layout_with_measure
   WITHOUT the exact-key hook, layouts bit for bit and query / hit / measure counts exactly): an evaluation without lossy hit returns
   what the exact-key engine `real_memo teq` (the one C01_taffy_engine_* are about) returns.  Premise left: `teq` is an exact
   equality of numbers (C01_taffy_exact_keys: true of the representation equalities of binary32 and XQ); the premise "is_outer only
   accepts outputs from_outer_size reproduces" of the general theorem is PROVED here (Proofs/TaffyEngineReal.v t_is_outer_spec).
   `_partial` as the general theorem: outputs, not stored layouts. *)
From TV Require Model.TaffyEngineReal Proofs.TaffyEngineReal.
Module TaffyRealInstance.
  Import Num.Num Model.Common Model.Leaf Model.FlexAlgBase Model.BlockFlexEngine Model.TaffyEngine Model.TaffyRoot.
  Import TV.Model.EngineReal TV.Proofs.EngineReal TV.Model.TaffyEngineReal TV.Proofs.TaffyEngineReal.

  Theorem C01_real_taffy_equals_exact_when_no_lossy_hit_partial :
    forall (T : Type) (NT : Num T) (teq : T -> T -> bool),
      (forall a b, teq a b = true -> a = b) ->
      forall f (t : @trtree T) i o t' fe te oe te',
        RValid (TStyle T) (FIn T) (LayoutOutput T) (FLay T) qi_mode t_is_none output_HIDDEN real_algo t ->
        trl_memo teq f t i = Some (o, t') ->
        sum_stats (TStyle T) (FLay T) (rcache (FIn T) (LayoutOutput T)) n_lossy t'
        = sum_stats (TStyle T) (FLay T) (rcache (FIn T) (LayoutOutput T)) n_lossy t ->
        Valid (TStyle T) (FIn T) (LayoutOutput T) (FLay T) qi_mode t_is_none output_HIDDEN real_algo te ->
        skel (TStyle T) (FIn T) (LayoutOutput T) (FLay T) te = gskel (TStyle T) (FLay T) (rcache (FIn T) (LayoutOutput T)) t ->
        real_memo teq fe te i = Some (oe, te') ->
        o = oe /\ RValid (TStyle T) (FIn T) (LayoutOutput T) (FLay T) qi_mode t_is_none output_HIDDEN real_algo t'
        /\ gskel (TStyle T) (FLay T) (rcache (FIn T) (LayoutOutput T)) t' = gskel (TStyle T) (FLay T) (rcache (FIn T) (LayoutOutput T)) t.
  Proof.
    intros T NT teq Hteq f t i o t' fe te oe te' HV Hm Hl HVe Hs He.
    eapply (@memo_real_equals_exact T NT); [| |exact HV|exact Hm|exact Hl|exact HVe|exact Hs|exact He].
    - apply TaffyKey.fin_eqb_with_eq. exact Hteq.
    - apply t_is_outer_spec. exact Hteq.
  Qed.
  Print Assumptions C01_real_taffy_equals_exact_when_no_lossy_hit_partial.
End TaffyRealInstance.

(* Wave 8a: TOTALITY of the engines the whole-tree correspondences run.  C01_memo_total needs "the algorithm addresses only existing
   children" (Bounded); it was instantiated for the toy algorithms only, so every `... = Some ...` premise of the block / flex / grid /
   taffy engine theorems rested on computed examples.  Bounded is now a THEOREM for the real algorithms (Proofs/BlockAlgBounded.v: every
   Query / SetLayout of the block resumption addresses an item's node or the index of a display:none child; Proofs/FlexAlgBounded.v:
   from C05_flex_algorithm_shape; Proofs/GridAlgBounded.v: the argument of C05_grid_algorithm_shape replayed -- the shape itself only says
   "not display:none" for layout events -- incl. the panic stand-in), for every `Num`, every dispatch / preprocessing / leaf function and
   every absolute-item routine that addresses only its own node.  Hence: with fuel >= the height of the tree the complete engine, its
   compute_root_layout and any sequence of passes succeed, whatever the caches and stored layouts hold, for every key equality `teq`.
   The runners use fuel 64 and the harness generates trees of depth <= 64, so their fuel-exhaustion marker can never be printed.
   The real-cache engines (Model/EngineReal.v `gmemo` / `memo_real`) are covered by the same induction replayed over the cache interface
   (Proofs/EngineRealTotal.v): C01_real_cache_engine_total and its two instances below. *)
From TV Require Proofs.EngineTotal Proofs.TaffyTotal Proofs.BlockAbsLocal Model.BlockAlg Model.BlockEngine Model.BlockAbs.
From TV Require Model.EngineReal Proofs.EngineRealTotal Proofs.TaffyRealTotal Model.TaffyEngineReal Model.BlockEngineReal.
From TV Require Proofs.TaffyRealPassesTotal Model.BlockChainReal.
Module TaffyTotality.
  Import Num.Num Model.Common Model.Leaf Model.FlexAlgBase Model.BlockFlexEngine Model.TaffyEngine Model.TaffyRoot.

  Theorem C01_taffy_algorithms_address_existing_children :
    forall (T : Type) (N : Num T) (s : TStyle T) (st : list (TStyle T)) (i : FIn T),
      EngineTotal.Bounded (FIn T) (LayoutOutput T) (FLay T) (length st) (real_algo s st i).
  Proof. intros T N s st i. apply TaffyTotal.real_algo_bounded. Qed.
  Print Assumptions C01_taffy_algorithms_address_existing_children.

  Theorem C01_taffy_engine_total :
    forall (T : Type) (N : Num T) (teq : T -> T -> bool) (fuel : nat)
           (t : tree (TStyle T) (FIn T) (LayoutOutput T) (FLay T)) (i : FIn T),
      EngineTotal.height (TStyle T) (FIn T) (LayoutOutput T) (FLay T) t <= fuel ->
      exists o t', real_memo teq fuel t i = Some (o, t').
  Proof. intros T N teq fuel t i Hh. apply TaffyTotal.real_memo_total. exact Hh. Qed.
  Print Assumptions C01_taffy_engine_total.

  (* the same for every instance of the engine's parameters (the C05 / C06 engine theorems quantify over them) *)
  Theorem C01_taffy_engine_total_any_parameters :
    forall (T : Type) (N : Num T) (teq : T -> T -> bool) (disp : TStyle T -> nat -> TKind)
           (pre : Block.BStyle T -> BlockAlg.BIn T -> BlockAlg.BIn T) (abs_child : @BlockAlg.AbsChild T)
           (leaf : TStyle T -> FIn T -> LayoutOutput T),
      BlockAlg.AbsChildLocal abs_child ->
      forall (fuel : nat) (t : tree (TStyle T) (FIn T) (LayoutOutput T) (FLay T)) (i : FIn T),
        EngineTotal.height (TStyle T) (FIn T) (LayoutOutput T) (FLay T) t <= fuel ->
        exists o t', taffy_memo teq disp pre abs_child leaf fuel t i = Some (o, t').
  Proof. intros T N teq disp pre abs_child leaf Hloc fuel t i Hh. apply TaffyTotal.taffy_memo_total; assumption. Qed.
  Print Assumptions C01_taffy_engine_total_any_parameters.

  (* compute_root_layout, and TaffyTree::compute_layout called several times in a row on a fresh tree (what `vh taffytree cases` runs) *)
  Theorem C01_taffy_compute_root_total :
    forall (T : Type) (N : Num T) (teq : T -> T -> bool) (fuel : nat)
           (t : tree (TStyle T) (FIn T) (LayoutOutput T) (FLay T)) (avail : Size (AvailableSpace T)),
      EngineTotal.height (TStyle T) (FIn T) (LayoutOutput T) (FLay T) t <= fuel ->
      exists t', real_compute_root teq fuel t avail = Some t'.
  Proof. intros T N teq fuel t avail Hh. apply TaffyTotal.real_compute_root_total. exact Hh. Qed.
  Print Assumptions C01_taffy_compute_root_total.

  Theorem C01_taffy_layout_passes_total :
    forall (T : Type) (N : Num T) (teq : T -> T -> bool) (fuel : nat) (k : sk (TStyle T)) (avails : list (Size (AvailableSpace T))),
      EngineTotal.sheight (TStyle T) k <= fuel ->
      exists ls t', real_layout_passes teq fuel k avails = Some (ls, t').
  Proof. intros T N teq fuel k avails Hh. apply TaffyTotal.real_layout_passes_total. exact Hh. Qed.
  Print Assumptions C01_taffy_layout_passes_total.

  (* block containers + leaves (Model/BlockEngine.v, the engine of `vh blocktree`) *)
  Theorem C01_bl_engine_total :
    forall (T : Type) (N : Num T) (pre : Block.BStyle T -> BlockAlg.BIn T -> BlockAlg.BIn T) (fuel : nat)
           (t : tree (BlockEngine.BNode T) (BlockAlg.BIn T) (Block.ChildOut T) (BlockAlg.BLayout T)) (i : BlockAlg.BIn T),
      EngineTotal.height (BlockEngine.BNode T) (BlockAlg.BIn T) (Block.ChildOut T) (BlockAlg.BLayout T) t <= fuel ->
      exists o t', BlockEngine.bl_memo pre BlockAbs.abs_child_block fuel t i = Some (o, t').
  Proof. intros T N pre fuel t i Hh. apply TaffyTotal.bl_memo_total; [apply BlockAbsLocal.abs_child_block_local|exact Hh]. Qed.
  Print Assumptions C01_bl_engine_total.

  (* ... and the REAL-CACHE engines (Model/EngineReal.v `gmemo` over any cache implementation: Proofs/EngineRealTotal.v gmemo_total, the
     induction of C01_memo_total replayed): the complete engine `trl_memo` and the block engine `blr_memo` the real-cache whole-tree
     correspondences run -- every ghost equality, cache content, counters, stored layouts, input *)
  Theorem C01_real_cache_engine_total :
    forall (S In Out Lay : Type) (mode : In -> Engine.RunMode) (is_none : S -> bool) (hidden_out : Out) (zero_lay : Lay)
           (algo : S -> list S -> In -> Engine.Alg In Out Lay) (mcalls : S -> list S -> In -> N)
           (C : Type) (cget : C -> In -> option Out) (clossy : C -> In -> bool) (cstore : C -> In -> Out -> C) (cclear : C -> C),
      (forall s st i, EngineTotal.Bounded In Out Lay (length st) (algo s st i)) ->
      forall f t i, EngineRealTotal.gheight S Lay C t <= f ->
        exists o t', EngineReal.gmemo S In Out Lay mode is_none hidden_out zero_lay algo mcalls C cget clossy cstore cclear f t i = Some (o, t').
  Proof. intros until cclear. intros HB f t i Hh. apply EngineRealTotal.gmemo_total; assumption. Qed.
  Print Assumptions C01_real_cache_engine_total.

  Theorem C01_real_taffy_engine_total :
    forall (T : Type) (N : Num T) (teq : T -> T -> bool) (fuel : nat) (t : @TaffyEngineReal.trtree T) (i : FIn T),
      EngineRealTotal.gheight (TStyle T) (FLay T) (EngineReal.rcache (FIn T) (LayoutOutput T)) t <= fuel ->
      exists o t', TaffyEngineReal.trl_memo teq fuel t i = Some (o, t').
  Proof. intros T N teq fuel t i Hh. apply TaffyRealTotal.trl_memo_total. exact Hh. Qed.
  Print Assumptions C01_real_taffy_engine_total.

  Theorem C01_real_bl_engine_total :
    forall (T : Type) (N : Num T) (teq : T -> T -> bool) (pre : Block.BStyle T -> BlockAlg.BIn T -> BlockAlg.BIn T) (fuel : nat)
           (t : @BlockEngineReal.brtree T) (i : BlockAlg.BIn T),
      EngineRealTotal.gheight (BlockEngine.BNode T) (BlockAlg.BLayout T) (EngineReal.rcache (BlockAlg.BIn T) (Block.ChildOut T)) t <= fuel ->
      exists o t', BlockEngineReal.blr_memo teq pre BlockAbs.abs_child_block fuel t i = Some (o, t').
  Proof. intros T N teq pre fuel t i Hh. apply TaffyRealTotal.blr_memo_total; [apply BlockAbsLocal.abs_child_block_local|exact Hh]. Qed.
  Print Assumptions C01_real_bl_engine_total.

  (* wave 9a: the real-cache WRAPPERS are total too (Proofs/TaffyRealPassesTotal.v: a pass keeps the skeleton -- gmemo_skel, greset and
     set_unrounded_layout on the root do not change it -- hence the height): compute_root_layout and any sequence of passes of the complete
     engine (`trl_compute_root`, `trl_passes`, `trl_layout_passes`) and of the block engine (`blr_passes`, `blr_layout_passes`), for every
     ghost equality, cache content, counters and list of available spaces; fuel >= number of levels suffices *)
  Theorem C01_real_taffy_compute_root_total :
    forall (T : Type) (N : Num T) (teq : T -> T -> bool) (fuel : nat) (t : @TaffyEngineReal.trtree T) (avail : Size (AvailableSpace T)),
      EngineRealTotal.gheight (TStyle T) (FLay T) (EngineReal.rcache (FIn T) (LayoutOutput T)) t <= fuel ->
      exists t', TaffyEngineReal.trl_compute_root teq fuel t avail = Some t' /\
                 EngineRealTotal.gheight (TStyle T) (FLay T) (EngineReal.rcache (FIn T) (LayoutOutput T)) t'
                 = EngineRealTotal.gheight (TStyle T) (FLay T) (EngineReal.rcache (FIn T) (LayoutOutput T)) t.
  Proof. intros T N teq fuel t avail Hh. apply TaffyRealPassesTotal.trl_compute_root_total. exact Hh. Qed.
  Print Assumptions C01_real_taffy_compute_root_total.

  Theorem C01_real_taffy_passes_total :
    forall (T : Type) (N : Num T) (teq : T -> T -> bool) (fuel : nat) (t : @TaffyEngineReal.trtree T)
           (avails : list (Size (AvailableSpace T))),
      EngineRealTotal.gheight (TStyle T) (FLay T) (EngineReal.rcache (FIn T) (LayoutOutput T)) t <= fuel ->
      exists ls t', TaffyEngineReal.trl_passes teq fuel t avails = Some (ls, t').
  Proof. intros T N teq fuel t avails Hh. apply TaffyRealPassesTotal.trl_passes_total. exact Hh. Qed.
  Print Assumptions C01_real_taffy_passes_total.

  Theorem C01_real_taffy_layout_passes_total :
    forall (T : Type) (N : Num T) (teq : T -> T -> bool) (fuel : nat) (k : sk (TStyle T)) (avails : list (Size (AvailableSpace T))),
      EngineTotal.sheight (TStyle T) k <= fuel ->
      exists ls t', TaffyEngineReal.trl_layout_passes teq fuel k avails = Some (ls, t').
  Proof. intros T N teq fuel k avails Hh. apply TaffyRealPassesTotal.trl_layout_passes_total. exact Hh. Qed.
  Print Assumptions C01_real_taffy_layout_passes_total.

  Theorem C01_real_bl_passes_total :
    forall (T : Type) (N : Num T) (teq : T -> T -> bool) (pre : Block.BStyle T -> BlockAlg.BIn T -> BlockAlg.BIn T) (fuel : nat)
           (t : @BlockEngineReal.brtree T) (avails : list (Block.BSize (Block.Avail T))),
      EngineRealTotal.gheight (BlockEngine.BNode T) (BlockAlg.BLayout T) (EngineReal.rcache (BlockAlg.BIn T) (Block.ChildOut T)) t <= fuel ->
      exists ls, BlockEngineReal.blr_passes teq pre BlockAbs.abs_child_block fuel t avails = Some ls.
  Proof.
    intros T N teq pre fuel t avails Hh. apply TaffyRealPassesTotal.blr_passes_total; [apply BlockAbsLocal.abs_child_block_local|exact Hh].
  Qed.
  Print Assumptions C01_real_bl_passes_total.

  Theorem C01_real_bl_layout_passes_total :
    forall (T : Type) (N : Num T) (teq : T -> T -> bool) (pre : Block.BStyle T -> BlockAlg.BIn T -> BlockAlg.BIn T) (fuel : nat)
           (k : sk (BlockEngine.BNode T)) (avails : list (Block.BSize (Block.Avail T))),
      EngineTotal.sheight (BlockEngine.BNode T) k <= fuel ->
      exists ls, BlockEngineReal.blr_layout_passes teq pre BlockAbs.abs_child_block fuel k avails = Some ls.
  Proof.
    intros T N teq pre fuel k avails Hh.
    apply TaffyRealPassesTotal.blr_layout_passes_total; [apply BlockAbsLocal.abs_child_block_local|exact Hh].
  Qed.
  Print Assumptions C01_real_bl_layout_passes_total.

  (* the premises are satisfiable: the 10-node example tree has 3 levels, so two real-cache passes with fuel 3 succeed; the block chain
     of depth d of C16 (Model/BlockChainReal.v) has d + 1 levels, so the fuel `depth + 4` of `chain_counts` always suffices *)
  Example C01_real_passes_total_example :
    (exists ls t', TaffyEngineReal.trl_layout_passes TaffyKey.xq_seqb 3%nat TaffyExample.ex_tree
                     [mkSize MaxContent MaxContent; mkSize MinContent MaxContent] = Some (ls, t')) /\
    forall (T : Type) (N : Num T) (teq : T -> T -> bool) mix (d : nat) avails,
      exists ls, BlockEngineReal.blr_layout_passes teq BlockEngine.block_pre BlockAbs.abs_child_block (d + 4)
                   (BlockChainReal.chain mix d) avails = Some ls.
  Proof.
    split; [apply TaffyRealPassesTotal.trl_layout_passes_total; vm_compute; auto|].
    intros T N teq mix d avails. apply TaffyRealPassesTotal.chain_layout_passes_total.
  Qed.
  Print Assumptions C01_real_passes_total_example.

  (* the premise is satisfiable: the 10-node example tree of C01_taffy_engine_example (all container kinds) has 3 levels *)
  Example C01_taffy_engine_total_example :
    EngineTotal.sheight (TStyle QNum.XQ) TaffyExample.ex_tree = 3%nat /\
    exists ls t', real_layout_passes TaffyKey.xq_seqb 3%nat TaffyExample.ex_tree [] = Some (ls, t').
  Proof. split; [vm_compute; reflexivity|]. apply TaffyTotal.real_layout_passes_total. vm_compute. auto. Qed.
  Print Assumptions C01_taffy_engine_total_example.
End TaffyTotality.

Print Assumptions C01_memo_sound.
Print Assumptions C01_root_output_equals_fresh.
Print Assumptions C01_fresh_inv.
Print Assumptions C01_mark_dirty_noop.
Print Assumptions C01_layouts_refuted_for_scribbling_algorithms.
Print Assumptions C01_size_queries_write_no_layout_for_nonscribbling_algorithms.
Print Assumptions C01_layouts_equal_fresh_for_nonscribbling_algorithms.
Print Assumptions C01_memo_layouts_sound.
Print Assumptions C01_plain_layouts_determined_by_skeleton.
Print Assumptions C01_fresh_coh.
Print Assumptions C01_layouts_refuted_when_hidden_children_are_sized.
Print Assumptions C01_layouts_refuted_when_hidden_child_is_set_before_its_query.
Print Assumptions C01_traced_memo_is_memo.
Print Assumptions C01_traced_memo_brackets.
Print Assumptions C01_memo_total.

(* ---- the TRANSLATED compute_cached_layout (Gen/EngineGlueGen.v, regenerated from src/compute/mod.rs on every run: cache_get with the
   input's key, on a hit return it, else compute, cache_store under the SAME key, return) is the cache step of `memo`: one unfolding
   of `memo` is the hidden-mode guard, then the translated function around "the (Display::None, _) arm, else the algorithm".
   Instantiation (Model/EngineGlue.v): the node's own cache, keyed by the complete input ---- *)
From TV Require Gen.EngineGlueGen Model.EngineGlue Model.EngineGlueTables Proofs.EngineGlueProofs.

Theorem C01_translated_cached_layout_is_model :
  forall (S In Out Lay : Type) (mode : In -> RunMode) (in_eqb : In -> In -> bool) (is_none : S -> bool)
         (hidden_out : Out) (zero_lay : Lay) (algo : S -> list S -> In -> Alg In Out Lay) f t i,
    memo S In Out Lay mode in_eqb is_none hidden_out zero_lay algo (Datatypes.S f) t i =
    if EngineGlue.eg_is_hidden In mode i then Some (hidden_out, hide S In Out Lay zero_lay t)
    else EngineGlue.eg_swap S In Out Lay
           (EngineGlue.eg_cached_layout S In Out Lay mode in_eqb t i
              (EngineGlue.eg_uncached S In Out Lay is_none hidden_out zero_lay algo
                 (memo S In Out Lay mode in_eqb is_none hidden_out zero_lay algo f))).
Proof. intros. apply EngineGlueProofs.memo_is_translated_cached_layout. Qed.

(* the fields of the input the source passes to cache_get AND cache_store *)
Example C01_translated_cache_key_fields :
  EngineGlueGen.glue_cache_key_fields = EngineGlueTables.expected_cache_key_fields.
Proof. reflexivity. Qed.

Print Assumptions C01_translated_cached_layout_is_model.
