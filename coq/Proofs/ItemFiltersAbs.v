(* C06: the item lists of flex containers and the children handed to grid placement (pipelines GENERATED from the source,
   Gen/FiltersGen.v) do not depend on the styles of position:absolute children; block containers keep absolute children as
   (flagged) items.  As in Proofs/ItemFiltersHidden.v every proof steps the generated pipeline child by child with a case
   analysis on the enum values, so it depends neither on the spelling of the filters nor on the presence of the display:none
   filter (a change that breaks only C05 leaves these proofs intact). *)
From Coq Require Import ZArith Bool List Lia.
From TV Require Import Num.Num Gen.BlockGen Model.Block Model.FiltersBase Gen.FiltersGen Model.ItemFilters Proofs.ItemFiltersBase.
From TV Require Import Model.PlacementBase Gen.PlacementGen Model.Placement.
Import ListNotations.
Close Scope Z_scope.   (* opened by Model/Placement.v *)

Section Absolute.
  Context {C S I : Type}.
  Variable position : S -> GPosition.
  Variable bgm : S -> GBoxGenerationMode.
  Notation absolute := (s_absolute position).
  Notation visible_absolute := (s_visible_absolute position bgm).

  (* ---------------------------------------------------------------- flex *)

  Lemma flex_absolute_blind (f f' : C -> S) (build : nat -> C -> S -> I) cs : agree_except absolute f f' cs ->
    flex_generate_items f position bgm build cs = flex_generate_items f' position bgm build cs.
  Proof.
    intros Ha. unfold flex_generate_items, g_enumerate. generalize 0.
    induction Ha as [|c cs Hc Hl IH]; intros n; [reflexivity|].
    cbn [g_enumerate_from map]. destruct Hc as [E|[A B]].
    - rewrite <- E. destruct (position (f c)) eqn:Ep, (bgm (f c)) eqn:Eb;
        repeat (progress (cbn; rewrite ?Ep, ?Eb)); first [apply IH | f_equal; apply IH].
    - unfold s_absolute, g_is_absolute in A, B.
      destruct (position (f c)) eqn:Ep; cbn in A; try discriminate A.
      destruct (position (f' c)) eqn:Ep'; cbn in B; try discriminate B.
      destruct (bgm (f c)) eqn:Eb, (bgm (f' c)) eqn:Eb';
        repeat (progress (cbn; rewrite ?Ep, ?Eb, ?Ep', ?Eb')); apply IH.
  Qed.

  (* deleting the absolute children: the same items up to the index *)
  Lemma flex_delete_absolute (f : C -> S) (build : C -> S -> I) cs :
    flex_generate_items f position bgm (fun _ => build) (filter (fun c => negb (absolute (f c))) cs) =
    flex_generate_items f position bgm (fun _ => build) cs.
  Proof.
    unfold flex_generate_items, g_enumerate, s_absolute, g_is_absolute. generalize 0 at 1. generalize 0.
    induction cs as [|c cs IH]; intros n m; [reflexivity|].
    cbn [filter g_enumerate_from map].
    destruct (position (f c)) eqn:Ep, (bgm (f c)) eqn:Eb;
      repeat (progress (cbn; rewrite ?Ep, ?Eb)); first [apply IH | f_equal; apply IH].
  Qed.

  (* `order` is the child's index in the container's child list, `node` that child, and nothing else enters an item:
     every item is `build i c (f c)` for the i-th child c -- whatever the filters are *)
  Lemma flex_items_indexed (f : C -> S) (build : nat -> C -> S -> I) cs :
    Forall (fun it => exists i c, nth_error cs i = Some c /\ it = build i c (f c)) (flex_generate_items f position bgm build cs).
  Proof.
    enough (G : Forall (fun it => exists i c, 0 <= i /\ nth_error cs (i - 0) = Some c /\ it = build i c (f c))
                       (flex_generate_items f position bgm build cs)).
    { eapply Forall_impl; [|exact G]. intros it (i & c & _ & Hn & ->). exists i, c.
      rewrite Nat.sub_0_r in Hn. split; [exact Hn|reflexivity]. }
    unfold flex_generate_items, g_enumerate. generalize 0.
    induction cs as [|c cs IH]; intros n; [constructor|].
    cbn [g_enumerate_from map].
    destruct (position (f c)) eqn:Ep, (bgm (f c)) eqn:Eb; repeat (progress (cbn; rewrite ?Ep, ?Eb));
      try (apply Forall_cons; [exists n, c; split; [lia|split; [replace (n - n) with 0 by lia; reflexivity|reflexivity]]|]);
      (eapply Forall_impl; [|apply (IH (Datatypes.S n))]; intros it (i & c' & Hle & Hn & ->); exists i, c';
       split; [lia|split; [|reflexivity]]; replace (i - n) with (Datatypes.S (i - Datatypes.S n)) by lia; exact Hn).
  Qed.

  (* ---------------------------------------------------------------- block *)

  (* absolute children ARE items of a block container (flagged by their `position`): changing the style of a
     box-generating absolute child changes that one item and nothing else -- same length, same `order`s, same children *)
  Lemma block_absolute_flagged (f f' : C -> S) (build : nat -> C -> S -> I) cs : agree_except visible_absolute f f' cs ->
    Forall2 (fun x y => exists o c, x = build o c (f c) /\ y = build o c (f' c) /\
                                    (f c = f' c \/ (visible_absolute (f c) = true /\ visible_absolute (f' c) = true)))
            (block_generate_items f position bgm build cs) (block_generate_items f' position bgm build cs).
  Proof.
    intros Ha. unfold block_generate_items, g_enumerate. generalize 0.
    induction Ha as [|c cs Hc Hl IH]; intros n; [constructor|].
    cbn [map]. destruct Hc as [E|[A B]].
    - rewrite <- E. destruct (position (f c)) eqn:Ep, (bgm (f c)) eqn:Eb; repeat (progress (cbn; rewrite ?Ep, ?Eb));
        first [apply IH | apply Forall2_cons; [exists n, c; rewrite <- E; split; [reflexivity|split; [reflexivity|left; reflexivity]]|apply IH]].
    - pose proof A as A0. pose proof B as B0.
      unfold s_visible_absolute, s_hidden, s_absolute, g_is_none, g_is_absolute in A, B.
      destruct (bgm (f c)) eqn:Eb; cbn in A; try discriminate A.
      destruct (bgm (f' c)) eqn:Eb'; cbn in B; try discriminate B.
      destruct (position (f c)) eqn:Ep; cbn in A; try discriminate A.
      destruct (position (f' c)) eqn:Ep'; cbn in B; try discriminate B.
      repeat (progress (cbn; rewrite ?Ep, ?Eb, ?Ep', ?Eb')).
      apply Forall2_cons; [|apply IH]. exists n, c. split; [reflexivity|]. split; [reflexivity|]. right.
      unfold s_visible_absolute, s_hidden, s_absolute, g_is_none, g_is_absolute. rewrite Ep, Eb, Ep', Eb'. split; reflexivity.
  Qed.
End Absolute.

(* ---------------------------------------------------------------- grid *)

Lemma grid_in_flow_absolute_blind {C S : Type} (position : S -> GPosition) (bgm : S -> GBoxGenerationMode) (f f' : C -> S) cs :
  agree_except (s_absolute position) f f' cs ->
  grid_in_flow_children f position bgm cs = grid_in_flow_children f' position bgm cs.
Proof.
  intros Ha. unfold grid_in_flow_children, g_enumerate. generalize 0.
  induction Ha as [|c cs Hc Hl IH]; intros n; [reflexivity|].
  cbn [g_enumerate_from map]. destruct Hc as [E|[A B]].
  - rewrite <- E. destruct (position (f c)) eqn:Ep, (bgm (f c)) eqn:Eb;
      repeat (progress (cbn; rewrite ?Ep, ?Eb)); first [apply IH | f_equal; apply IH].
  - unfold s_absolute, g_is_absolute in A, B.
    destruct (position (f c)) eqn:Ep; cbn in A; try discriminate A.
    destruct (position (f' c)) eqn:Ep'; cbn in B; try discriminate B.
    destruct (bgm (f c)) eqn:Eb, (bgm (f' c)) eqn:Eb';
      repeat (progress (cbn; rewrite ?Ep, ?Eb, ?Ep', ?Eb')); apply IH.
Qed.

(* ------------------------------------------------------------------ Model/Block.v / Model/BlockTree.v / Model/BlockAlg.v:
   their per-item tests ARE the predicates found in the source *)

Section BlockTie.
  Context {T : Type}.

  Lemma inflow_branch_is_generated (it : Item T) ct :
    position_is_absolute (it_position it) = block_inflow_absolute_branch_cond (gpos (it_position it)) ct.
  Proof. destruct (it_position it); reflexivity. Qed.

  Lemma content_width_filter_is_generated (it : Item T) ct :
    negb (position_is_absolute (it_position it)) = block_content_width_visits (gpos (it_position it)) ct.
  Proof. destruct (it_position it); reflexivity. Qed.

  (* block_can_collapse_through tests `negb ir_inflow || ir_ct` on the records; ir_inflow = negb (position == Absolute) *)
  Lemma all_collapsible_is_generated (p : BPosition) ct :
    orb (negb (negb (position_is_absolute p))) ct = block_all_collapsible_pred (gpos p) ct.
  Proof. destruct p, ct; reflexivity. Qed.

  Lemma abs_pass_filter_is_generated (it : Item T) ct :
    position_is_absolute (it_position it) = block_absolute_pass_visits (gpos (it_position it)) ct.
  Proof. destruct (it_position it); reflexivity. Qed.

  Lemma absolute_branch_local : block_inflow_absolute_branch_is_local = true.
  Proof. reflexivity. Qed.

  Lemma tree_calls_local : block_tree_calls_address_item_only = true.
  Proof. reflexivity. Qed.
End BlockTie.

(* ------------------------------------------------------------------ Model/Placement.v: in_flow_children IS the generated
   iterator on child lists without display:none children (the C06 family of the placement K) *)

Lemma placement_in_flow_is_generated_no_hidden {C S} (position : S -> GPosition) (bgm : S -> GBoxGenerationMode) (style_of : C -> S)
      (placement : S -> child) (cs : list C) :
  Forall (fun c => bgm (style_of c) = BoxGenerationMode_Normal) cs ->
  in_flow_children (map (fun c => (kind_of (position (style_of c)) (bgm (style_of c)), placement (style_of c))) cs) =
  map (fun ics : nat * C * S => (Z.of_nat (fst (fst ics)), placement (snd ics))) (grid_in_flow_children style_of position bgm cs).
Proof.
  intros Hrel. unfold in_flow_children, grid_in_flow_children, g_enumerate.
  change (enumerate_from 0%Z) with (enumerate_from (A := child_kind * child) (Z.of_nat 0)). generalize 0.
  induction Hrel as [|c cs Hc Hl IH]; intros n; [reflexivity|].
  cbn [map enumerate_from g_enumerate_from]. replace (Z.of_nat n + 1)%Z with (Z.of_nat (Datatypes.S n)) by lia.
  unfold kind_of. rewrite Hc.
  destruct (position (style_of c)) eqn:Ep; repeat (progress (cbn -[Z.of_nat]; rewrite ?Hc, ?Ep));
    first [apply IH | f_equal; apply IH].
Qed.
