(* Flexbox, both axes, `Num`-generic, definitions only: the part of src/compute/flexbox.rs that feeds the main-axis kernel
   (Model/Flex.v) and collect_flex_lines (Model/FlexLines.v):

     compute_constants (the fields used below)                                  -> Constants / compute_constants
     generate_anonymous_flex_items (l.499-576)                                   -> ChildInfo / child_info
     determine_available_space (l.590-613)                                       -> determine_available_space
     determine_flex_base_size (l.643-828), one child                             -> flex_base (steps) / determine_flex_base_size

   A child is its style plus `ch_layout`, the function input |-> LayoutOutput.size its compute_child_layout computes (for a
   leaf: Model/Leaf.v compute_leaf_layout with the node's measure function, see leaf_child in Model/FlexRun.v); the cache
   is taken to be transparent.  Not modelled: calc(), relative insets (inset = auto), align-self: baseline, scrollbar gutters of the
   *container* (overflow of the container is visible).
   Hand transcription, statement by statement, same order of float operations; tied to the Rust by K (Model/FlexRun.v). *)
From Coq Require Import ZArith Bool List.
From TV Require Import Model.Common Model.Leaf Gen.FlexGen Model.Flex.
Import ListNotations.

Inductive AlignSelf := AS_Start | AS_End | AS_FlexStart | AS_FlexEnd | AS_Center | AS_Stretch.   (* Baseline: not modelled *)
Definition align_self_eqb (a b : AlignSelf) : bool :=
  match a, b with
  | AS_Start, AS_Start | AS_End, AS_End | AS_FlexStart, AS_FlexStart | AS_FlexEnd, AS_FlexEnd
  | AS_Center, AS_Center | AS_Stretch, AS_Stretch => true
  | _, _ => false
  end.

(* geometry.rs: main / cross projections (`dir.is_row()`) *)
Section Axes.
  Context {A : Type}.
  Definition s_main (row : bool) (s : Size A) : A := if row then width s else height s.
  Definition s_cross (row : bool) (s : Size A) : A := if row then height s else width s.
  Definition s_with_main (row : bool) (s : Size A) (v : A) : Size A := if row then mkSize v (height s) else mkSize (width s) v.
  Definition s_with_cross (row : bool) (s : Size A) (v : A) : Size A := if row then mkSize (width s) v else mkSize v (height s).
  Definition s_of_mc (row : bool) (m c : A) : Size A := if row then mkSize m c else mkSize c m.
  Definition r_main_start (row : bool) (r : Rect A) : A := if row then r_left r else r_top r.
  Definition r_main_end (row : bool) (r : Rect A) : A := if row then r_right r else r_bottom r.
  Definition r_cross_start (row : bool) (r : Rect A) : A := if row then r_top r else r_left r.
  Definition r_cross_end (row : bool) (r : Rect A) : A := if row then r_bottom r else r_right r.
End Axes.

Section FlexBase.
  Context {T : Type} `{Num T}.
  Local Open Scope num_scope.

  Definition main_axis_sum (row : bool) (r : Rect T) : T := if row then horizontal_axis_sum r else vertical_axis_sum r.
  Definition cross_axis_sum (row : bool) (r : Rect T) : T := if row then vertical_axis_sum r else horizontal_axis_sum r.

  (* ---- a child of the container *)
  Record Child := mkChild {
    ch_style : Style T;                          (* CoreStyle part (Model/Leaf.v) *)
    ch_flex_basis : Dimension T;
    ch_grow : T;
    ch_shrink : T;
    ch_align_self : option AlignSelf;
    ch_layout : LayoutInput T -> Size T;         (* compute_child_layout(inputs).size *)
  }.

  (* ---- the container *)
  Record ContainerStyle := mkCStyle {
    cs_row : bool; cs_reverse : bool;            (* flex_direction *)
    cs_wrap : bool; cs_wrap_reverse : bool;      (* flex_wrap: is_wrap = Wrap | WrapReverse *)
    cs_justify : option AlignContent;
    cs_align_content : option AlignContent;
    cs_align_items : option AlignSelf;
    cs_size : Size (Dimension T); cs_min : Size (Dimension T); cs_max : Size (Dimension T);
    cs_margin : Rect (LengthPercentageAuto T);
    cs_padding : Rect (LengthPercentage T); cs_border : Rect (LengthPercentage T);
    cs_gap : Size (LengthPercentage T);
    cs_box_sizing : BoxSizing; cs_aspect : option T;
  }.

  Record Constants := mkConstants {
    k_row : bool; k_reverse : bool; k_wrap : bool; k_wrap_reverse : bool;
    k_min : Size (option T); k_max : Size (option T);
    k_margin : Rect T; k_border : Rect T; k_gap : Size T;
    k_inset : Rect T;                              (* content_box_inset (no scrollbar gutter) *)
    k_align_items : AlignSelf; k_align_content : AlignContent; k_justify : option AlignContent;
    k_outer : Size (option T);                     (* node_outer_size *)
    k_inner : Size (option T);                     (* node_inner_size *)
  }.

  (* Size<LengthPercentage>::resolve_or_zero(Size<Option<f32>>) *)
  Definition size_resolve_or_zero_lp (s : Size (LengthPercentage T)) (ctx : Size (option T)) : Size T :=
    mkSize (resolve_or_zero_lp (width s) (width ctx)) (resolve_or_zero_lp (height s) (height ctx)).
  Definition size_or_zero (s : Size (option T)) : Size (option T) := size_or s (mkSize (Some zero) (Some zero)).

  Definition resolved_min_max (st_dim : Size (Dimension T)) (parent : Size (option T)) (aspect : option T) (adj : Size T)
    : Size (option T) :=
    size_maybe_add_of (maybe_apply_aspect_ratio (size_maybe_resolve_dim st_dim parent) aspect) adj.

  Definition compute_constants (s : ContainerStyle) (known_dimensions parent_size : Size (option T)) : Constants :=
    let margin := rect_resolve_or_zero_lpa (cs_margin s) (width parent_size) in
    let padding := rect_resolve_or_zero_lp (cs_padding s) (width parent_size) in
    let border := rect_resolve_or_zero_lp (cs_border s) (width parent_size) in
    let padding_border_sum := size_add (sum_axes padding) (sum_axes border) in
    let box_sizing_adjustment := match cs_box_sizing s with ContentBox => padding_border_sum | BorderBox => size_ZERO end in
    let align_items := opt_unwrap_or (cs_align_items s) AS_Stretch in
    let align_content := opt_unwrap_or (cs_align_content s) AC_Stretch in
    let content_box_inset := rect_add padding border in
    let node_outer_size := known_dimensions in
    let node_inner_size := size_maybe_sub_of node_outer_size (sum_axes content_box_inset) in
    let gap := size_resolve_or_zero_lp (cs_gap s) (size_or_zero node_inner_size) in
    mkConstants (cs_row s) (cs_reverse s) (cs_wrap s) (cs_wrap_reverse s)
                (resolved_min_max (cs_min s) parent_size (cs_aspect s) box_sizing_adjustment)
                (resolved_min_max (cs_max s) parent_size (cs_aspect s) box_sizing_adjustment)
                margin border gap content_box_inset align_items align_content (cs_justify s)
                node_outer_size node_inner_size.

  (* compute_flexbox_layout (l.164-223): the known dimensions handed to compute_preliminary *)
  Definition styled_known_dimensions (s : ContainerStyle) (known_dimensions parent_size : Size (option T))
             (sizing_mode : SizingMode) : Size (option T) :=
    let padding := rect_resolve_or_zero_lp (cs_padding s) (width parent_size) in
    let border := rect_resolve_or_zero_lp (cs_border s) (width parent_size) in
    let padding_border_sum := size_add (sum_axes padding) (sum_axes border) in
    let box_sizing_adjustment := match cs_box_sizing s with ContentBox => padding_border_sum | BorderBox => size_ZERO end in
    let min_size := resolved_min_max (cs_min s) parent_size (cs_aspect s) box_sizing_adjustment in
    let max_size := resolved_min_max (cs_max s) parent_size (cs_aspect s) box_sizing_adjustment in
    let clamped_style_size :=
      match sizing_mode with
      | InherentSize =>
          size_maybe_clamp_oo (resolved_min_max (cs_size s) parent_size (cs_aspect s) box_sizing_adjustment) min_size max_size
      | ContentSize => size_NONE
      end in
    let mmd (mn mx : option T) : option T :=
      match mn, mx with Some mn, Some mx => if mx <=? mn then Some mn else None | _, _ => None end in
    let min_max_definite_size := size_zip_map mmd min_size max_size in
    size_or known_dimensions (size_maybe_max_of (size_or min_max_definite_size clamped_style_size) padding_border_sum).

  (* ---- generate_anonymous_flex_items: what is resolved once per child *)
  Record ChildInfo := mkInfo {
    ci_size : Size (option T); ci_min : Size (option T); ci_max : Size (option T);
    ci_margin : Rect T; ci_margin_auto : Rect bool;
    ci_padding : Rect T; ci_border : Rect T;
    ci_align : AlignSelf;
  }.

  Definition lpa_is_auto (m : LengthPercentageAuto T) : bool := match m with Auto => true | _ => false end.

  Definition child_info (k : Constants) (c : Child) : ChildInfo :=
    let st := ch_style c in
    let inner_w := width (k_inner k) in
    let padding := rect_resolve_or_zero_lp (padding st) inner_w in
    let border := rect_resolve_or_zero_lp (border st) inner_w in
    let pb_sum := sum_axes (rect_add padding border) in
    let box_sizing_adjustment := match box_sizing st with ContentBox => pb_sum | BorderBox => size_ZERO end in
    mkInfo (resolved_min_max (size st) (k_inner k) (aspect_ratio st) box_sizing_adjustment)
           (resolved_min_max (min_size st) (k_inner k) (aspect_ratio st) box_sizing_adjustment)
           (resolved_min_max (max_size st) (k_inner k) (aspect_ratio st) box_sizing_adjustment)
           (rect_resolve_or_zero_lpa (margin st) inner_w)
           (rect_map lpa_is_auto (margin st))
           padding border
           (opt_unwrap_or (ch_align_self c) (k_align_items k)).

  (* ---- determine_available_space *)
  Definition determine_available_space (known_dimensions : Size (option T)) (outer : Size (AvailableSpace T)) (k : Constants)
    : Size (AvailableSpace T) :=
    mkSize
      (match width known_dimensions with
       | Some node_width => Definite (node_width - horizontal_axis_sum (k_inset k))
       | None => maybe_sub_af (maybe_sub_af (width outer) (horizontal_axis_sum (k_margin k))) (horizontal_axis_sum (k_inset k))
       end)
      (match height known_dimensions with
       | Some node_height => Definite (node_height - vertical_axis_sum (k_inset k))
       | None => maybe_sub_af (maybe_sub_af (height outer) (vertical_axis_sum (k_margin k))) (vertical_axis_sum (k_inset k))
       end).

  (* ---- determine_flex_base_size, one child.  The intermediate values are exposed for the theorems. *)
  Definition avail_is_min_content (a : AvailableSpace T) : bool := match a with MinContent => true | _ => false end.

  Definition child_query (known parent : Size (option T)) (avail : Size (AvailableSpace T)) : LayoutInput T :=
    mkInput ComputeSize ContentSize known parent avail.

  Record BaseEnv := mkBaseEnv {
    be_cross_avail : AvailableSpace T;            (* cross_axis_available_space *)
    be_known : Size (option T);                    (* child_known_dimensions *)
    be_parent : Size (option T);                   (* child_parent_size *)
    be_style_basis : option T;                     (* flex_basis style, resolved + box sizing adjustment *)
  }.

  Definition base_env (k : Constants) (available_space : Size (AvailableSpace T)) (c : Child) (ci : ChildInfo) : BaseEnv :=
    let row := k_row k in
    let cross_axis_parent_size := s_cross row (k_inner k) in
    let child_parent_size := s_of_mc row None cross_axis_parent_size in
    let cross_axis_margin_sum := cross_axis_sum row (k_margin k) in
    let child_min_cross := maybe_add_of (s_cross row (ci_min ci)) cross_axis_margin_sum in
    let child_max_cross := maybe_add_of (s_cross row (ci_max ci)) cross_axis_margin_sum in
    let cross_axis_available_space :=
      match s_cross row available_space with
      | Definite val => Definite (maybe_clamp_fo (opt_unwrap_or cross_axis_parent_size val) child_min_cross child_max_cross)
      | MinContent => match child_min_cross with Some mn => Definite mn | None => MinContent end
      | MaxContent => match child_max_cross with Some mx => Definite mx | None => MaxContent end
      end in
    let ckd := s_with_main row (ci_size ci) None in
    let ckd :=
      if align_self_eqb (ci_align ci) AS_Stretch && match s_cross row ckd with None => true | Some _ => false end
      then s_with_cross row ckd (maybe_sub_of (avail_into_option cross_axis_available_space) (cross_axis_sum row (ci_margin ci)))
      else ckd in
    let container_width := s_main row (k_inner k) in
    let st := ch_style c in
    let box_sizing_adjustment :=
      s_main row (match box_sizing st with
                  | ContentBox =>
                      sum_axes (rect_add (rect_resolve_or_zero_lp (padding st) container_width)
                                         (rect_resolve_or_zero_lp (border st) container_width))
                  | BorderBox => size_ZERO
                  end) in
    let flex_basis := maybe_add_of (maybe_resolve_dim (ch_flex_basis c) container_width) box_sizing_adjustment in
    mkBaseEnv cross_axis_available_space ckd child_parent_size flex_basis.

  (* the 'flex_basis block: A / B (definite flex basis, else definite main size incl. the aspect-ratio transfer made in
     child_info), else E (C is E; D is not implemented): the child's max-content (min-content under a min-content
     constraint) main size *)
  Definition flex_base_size (k : Constants) (available_space : Size (AvailableSpace T)) (c : Child) (ci : ChildInfo) (e : BaseEnv) : T :=
    let row := k_row k in
    match opt_or (be_style_basis e) (s_main row (ci_size ci)) with
    | Some flex_basis => flex_basis
    | None =>
        let main_avail := if avail_is_min_content (s_main row available_space) then MinContent else MaxContent in
        let child_available_space := s_of_mc row main_avail (be_cross_avail e) in
        s_main row (ch_layout c (child_query (be_known e) (be_parent e) child_available_space))
    end.

  (* Overflow::maybe_into_automatic_min_size *)
  Definition automatic_min_of_overflow (o : Overflow) : option T := if is_scroll_container o then Some zero else None.

  (* resolved_minimum_main_size (the min-content measurement is made whether or not it is used) *)
  Definition resolved_minimum_main_size (k : Constants) (c : Child) (ci : ChildInfo) (e : BaseEnv) : T :=
    let row := k_row k in
    let padding_border_axes_sums := sum_axes (rect_add (ci_padding ci) (ci_border ci)) in
    let ov := overflow (ch_style c) in
    let style_min_main_size :=
      s_main row (size_or (ci_min ci) (mkSize (automatic_min_of_overflow (px ov)) (automatic_min_of_overflow (py ov)))) in
    let min_content_main_size :=
      let child_available_space := s_with_cross row (mkSize MinContent MinContent) (be_cross_avail e) in
      s_main row (ch_layout c (child_query (be_known e) (be_parent e) child_available_space)) in
    let clamped_min_content_size :=
      maybe_min_fo (maybe_min_fo min_content_main_size (s_main row (ci_size ci))) (s_main row (ci_max ci)) in
    opt_unwrap_or style_min_main_size (fmax clamped_min_content_size (s_main row padding_border_axes_sums)).

  Definition determine_flex_base_size (k : Constants) (available_space : Size (AvailableSpace T)) (c : Child) (ci : ChildInfo)
    : FlexItem T :=
    let row := k_row k in
    let e := base_env k available_space c ci in
    let flex_basis := flex_base_size k available_space c ci e in
    let padding_border_sum := main_axis_sum row (ci_padding ci) + main_axis_sum row (ci_border ci) in
    let flex_basis := fmax flex_basis padding_border_sum in
    let inner_flex_basis := flex_basis - main_axis_sum row (ci_padding ci) - main_axis_sum row (ci_border ci) in
    let padding_border_axes_sums := sum_axes (rect_add (ci_padding ci) (ci_border ci)) in
    let resolved_minimum := resolved_minimum_main_size k c ci e in
    let hypothetical_inner_min_main := fmax resolved_minimum (s_main row padding_border_axes_sums) in
    let hypothetical_inner_size := maybe_clamp_fo flex_basis (Some hypothetical_inner_min_main) (s_main row (ci_max ci)) in
    let hypothetical_outer_size := hypothetical_inner_size + main_axis_sum row (ci_margin ci) in
    mkItem flex_basis inner_flex_basis hypothetical_inner_size hypothetical_outer_size resolved_minimum (s_main row (ci_max ci))
           (ch_grow c) (ch_shrink c)
           (r_main_start row (ci_margin ci)) (r_main_end row (ci_margin ci))
           (r_main_start row (ci_margin_auto ci)) (r_main_end row (ci_margin_auto ci))
           zero false zero zero zero zero.
End FlexBase.

Arguments Child T : clear implicits.
Arguments ContainerStyle T : clear implicits.
Arguments Constants T : clear implicits.
Arguments ChildInfo T : clear implicits.
Arguments BaseEnv T : clear implicits.
