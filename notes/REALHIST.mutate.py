"""Mutation experiments of notes/REALHIST.md section 5.  Usage: in a scratch worktree of /repo (git -C /repo worktree add --detach /tmp/x-repo HEAD),
`cd /tmp/x-repo && python3 <this file> <letter>` applies mutant <letter>; then `VERIF_REPO=/tmp/x-repo ./check C15`."""
import sys

def mut_A():
    p='src/tree/cache.rs'
    s=open(p).read()
    old='''                        && (known_dimensions.height.is_some()
                                || entry.available_space.height.is_roughly_equal(available_space.height))
                    })'''
    assert old in s
    s=s.replace(old,'''                })''')
    open(p,'w').write(s)


def mut_B():
    p='src/tree/cache.rs'
    s=open(p).read()
    old='return 1 + (available_space.height == MinContent) as usize;'
    assert old in s
    s=s.replace(old,'return 1 + (available_space.width == MinContent) as usize;')
    open(p,'w').write(s)


def mut_C():
    p='src/tree/cache.rs'
    s=open(p).read()
    old='''                    if (known_dimensions.width == entry.known_dimensions.width
                            || known_dimensions.width == Some(cached_size.width))'''
    assert old in s
    s=s.replace(old,'''                    if (known_dimensions.width == entry.known_dimensions.width)''')
    open(p,'w').write(s)


def mut_D():
    p='src/tree/cache.rs'
    s=open(p).read()
    old='for entry in self.measure_entries.iter().flatten() {'
    assert old in s
    s=s.replace(old,'for entry in self.measure_entries.iter().rev().flatten() {')
    open(p,'w').write(s)


def mut_E():
    p='src/tree/cache.rs'
    s=open(p).read()
    old='''            RunMode::PerformLayout => {
                    self.is_empty = false;
                    self.final_layout_entry'''
    assert old in s
    s=s.replace(old,'''            RunMode::PerformLayout => {
                    self.final_layout_entry''')
    open(p,'w').write(s)


def mut_F():
    p='src/tree/cache.rs'
    s=open(p).read()
    old='''            RunMode::PerformLayout => {
                    self.is_empty = false;
                    self.final_layout_entry = Some(CacheEntry { known_dimensions, available_space, content: layout_output })'''
    assert old in s
    s=s.replace(old,'''            RunMode::PerformLayout => {
                    self.is_empty = false;
                    if self.final_layout_entry.is_none() {
                        self.final_layout_entry = Some(CacheEntry { known_dimensions, available_space, content: layout_output })
                    }''')
    open(p,'w').write(s)


def mut_G():
    p='src/tree/cache.rs'
    s=open(p).read()
    old='''                            || entry.available_space.width.is_roughly_equal(available_space.width))
                            && (known_dimensions.height.is_some()
                                || entry.available_space.height.is_roughly_equal(available_space.height))
                    })'''
    assert old in s
    s=s.replace(old,'''                            || entry.available_space.width == available_space.width)
                            && (known_dimensions.height.is_some()
                                || entry.available_space.height == available_space.height)
                    })''')
    open(p,'w').write(s)


def mut_H():
    p='src/tree/taffy_tree.rs'
    s=open(p).read()
    old='''                ClearState::AlreadyEmpty => {
                        // Node was already marked as dirty.
                        // No need to visit ancestors
                        // as they should be marked as dirty already.
                    }'''
    assert old in s
    s=s.replace(old,'''                ClearState::AlreadyEmpty => {
                        if let Some(Some(node)) = parents.get(node_key) {
                            mark_dirty_recursive(nodes, parents, (*node).into());
                        }
                    }''')
    open(p,'w').write(s)


def mut_I():
    p='src/compute/mod.rs'
    s=open(p).read()
    old='''    tree.cache_clear(node);
        tree.set_unrounded_layout(node, &Layout::with_order(0));'''
    assert old in s
    s=s.replace(old,'''    tree.set_unrounded_layout(node, &Layout::with_order(0));''')
    open(p,'w').write(s)


if __name__ == '__main__':
    globals()['mut_' + sys.argv[1]]()
