(* The accessors of the TRANSLATED engine glue (Gen/EngineGlueGen.v, regenerated from src/compute/mod.rs, src/tree/taffy_tree.rs and
   src/tree/cache.rs on every run) instantiated with the trees of Model/Engine.v, so that the translated functions can be compared with
   the hand-written skeleton (`memo`, `mark_dirty`, `hide`) and with Model/TaffyEngine.v's dispatch.  Two views of "the tree":
     LOCAL   (compute_cached_layout, compute_child_layout): Tree = the subtree rooted at the node, Node = unit
     GLOBAL  (mark_dirty, compute_hidden_layout):           Tree = the whole tree, Node / Key = the path of the node; the parent
             of a path is `removelast`, the k-th child of p is p ++ [k]
   Definitions only; the theorems are in Proofs/EngineGlueProofs.v. *)
From Coq Require Import List Bool Arith.
From TV Require Import Num.Num Model.Engine Gen.EngineGlueGen.
Import ListNotations.

Section EngineGlue.
  Variables (S In Out Lay : Type).
  Variable mode : In -> RunMode.
  Variable in_eqb : In -> In -> bool.
  Variable is_none : S -> bool.
  Variable hidden_out : Out.
  Variable zero_lay : Lay.
  Notation tree := (tree S In Out Lay).
  Notation cache := (cache In Out).
  Notation Alg := (Alg In Out Lay).

  (* ---- LOCAL view ---- *)
  Definition eg_is_hidden (i : In) : bool := match mode i with PerformHiddenLayout => true | _ => false end.
  (* CacheTree::cache_get / cache_store of the node; the model's cache is keyed by the COMPLETE input (key_of = identity): which
     fields of it the real cache compares is inside `cget` (exact-key hook) resp. Model/EngineReal.v's `Real` instance *)
  Definition eg_cache_get (t : tree) (_ : unit) (i : In) : option Out := cget In Out mode in_eqb (cache_of S In Out Lay t) i.
  Definition eg_cache_store (t : tree) (_ : unit) (i : In) (o : Out) : tree :=
    set_cache S In Out Lay t (cstore In Out mode (cache_of S In Out Lay t) i o).
  Definition eg_hidden (t : tree) (_ : unit) : option (tree * Out) := Some (hide S In Out Lay zero_lay t, hidden_out).
  (* running a container / leaf algorithm on the node: its children are evaluated by `ev` *)
  Definition eg_run (algo : S -> list S -> In -> Alg) (ev : tree -> In -> option (Out * tree)) (t : tree) (_ : unit) (i : In)
    : option (tree * Out) :=
    match t with
    | Node _ _ _ _ s c l kids =>
        match run_memo S In Out Lay ev kids (algo s (map (style_of S In Out Lay) kids) i) with
        | Some (o, kids') => Some (Node S In Out Lay s c l kids', o)
        | None => None
        end
    end.
  (* what `memo` computes on a miss: the (Display::None, _) arm, else the algorithm *)
  Definition eg_uncached (algo : S -> list S -> In -> Alg) (ev : tree -> In -> option (Out * tree)) (t : tree) (u : unit) (i : In)
    : option (tree * Out) :=
    if is_none (style_of S In Out Lay t) then eg_hidden t u else eg_run algo ev t u i.
  Definition eg_swap (r : option (tree * Out)) : option (Out * tree) :=
    match r with Some (t, o) => Some (o, t) | None => None end.
  Definition eg_cached_layout (t : tree) (i : In) (f : tree -> unit -> In -> option (tree * Out)) : option (tree * Out) :=
    glue_compute_cached_layout tree unit In Out In (fun i => i) eg_cache_get eg_cache_store t tt i f.

  (* ---- GLOBAL view ---- *)
  (* the translated Cache::clear over the model cache; the field `is_empty` is DERIVED in the model (`is_empty` of the contents), so
     setting it is the identity *)
  Definition eg_cache_clear (c : cache) : cache * GClearState :=
    glue_cache_clear cache (is_empty In Out) (fun c _ => c)
                     (fun c => {| final := None; meas := meas In Out c |}) (fun c => {| final := final In Out c; meas := [] |}) c.
  Definition eg_nodes_mark_dirty (t : tree) (p : list nat) : tree * GClearState :=
    match subtree S In Out Lay t p with
    | Some u => let (c', r) := eg_cache_clear (cache_of S In Out Lay u) in
                (update S In Out Lay t p (fun n => set_cache S In Out Lay n c'), r)
    | None => (t, GCS_AlreadyEmpty)
    end.
  Definition eg_parents_get (p : list nat) : option (option (list nat)) :=
    match p with [] => Some None | _ :: _ => Some (Some (removelast p)) end.
  Definition eg_mark_dirty (fuel : nat) (t : tree) (p : list nat) : tree :=
    glue_mark_dirty tree (list nat) (list nat) eg_nodes_mark_dirty eg_parents_get (fun p => p) fuel t p.

  (* compute_hidden_layout at the node with path p; the recursive call `tree.compute_child_layout(child, LayoutInput::HIDDEN)` is
     `hide` of the child (the hidden-mode guard of compute_child_layout, `memo`'s first case) *)
  Definition eg_child_count (t : tree) (p : list nat) : nat :=
    match subtree S In Out Lay t p with Some u => length (kids_of S In Out Lay u) | None => 0 end.
  Definition eg_hidden_layout (t : tree) (p : list nat) : tree * Out :=
    glue_compute_hidden_layout tree (list nat) unit Out Lay
      (fun t p => update S In Out Lay t p (fun n => set_cache S In Out Lay n (cempty In Out)))
      (fun t p l => update S In Out Lay t p (fun n => set_lay S In Out Lay n l))
      eg_child_count
      (fun _ p k => p ++ [k])
      (fun _ => zero_lay) tt hidden_out
      (fun t q _ => (update S In Out Lay t q (hide S In Out Lay zero_lay), hidden_out))
      t p.
End EngineGlue.
