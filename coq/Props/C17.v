(* C17 -- the high-level tree and the documented low-level API agree.
   Two dispatchers over the same engine types and the same public building blocks (container functions [calgo], leaf
   function [lalgo], compute_hidden_layout, compute_cached_layout):
     memo      (Model/Engine.v)     TaffyView::compute_child_layout: hidden-mode short-circuit in front of the cache, then
                                    compute_cached_layout around match (display, has_children);
     memo_doc  (Model/EngineDoc.v)  the pattern of src/tree/traits.rs / examples/custom_tree_*.rs: compute_cached_layout
                                    around a dispatch on the user's node kind [kind_of], with an optional hidden-mode line
                                    [guard] inside the closure.
   The algorithms are shared code on both sides, hence arbitrary parameters; trees are arbitrary (any cache contents, any
   stored layouts), so the statements cover relayouts after any history, not only fresh trees.  The bit-level agreement
   of the real TaffyTree with a real user tree (layouts, rounding on/off) is the K/search part (harness/src/c17.rs).

   Not in this file (audit, wave 5c): compute_root_layout and round_layout are not part of the two dispatchers, so nothing here
   speaks about "rounded layouts" or "rounding on and off" -- the property's bit-identity of rounded layouts is checked on the
   implementation only (rounding is a function of the unrounded tree: C13_final_is_function_of_unrounded).  `memo_doc` is
   executed by no correspondence runner: it is tied to the K-checked `memo` only through C17_dispatch_equiv; the harness's
   custom tree (harness/src/c17.rs) is compared with TaffyTree directly. *)
From Coq Require Import List Bool Arith NArith.
From TV Require Import Model.Engine Model.EngineToy Model.EngineDoc Proofs.EngineMemo Proofs.EngineDirty Proofs.EngineDoc Proofs.EngineToyProofs.
Import ListNotations.

(* If the user's dispatcher (Hk) maps display:none to compute_hidden_layout, childless nodes to compute_leaf_layout and
   the others to their container function, AND (Hg) sends every hidden-mode input to compute_hidden_layout whatever the
   node, then it computes what TaffyView computes: same LayoutOutput, same tree afterwards (every node's cache and stored
   layout).  Same fuel suffices one way; the documented tree recurses through compute_child_layout below hidden nodes,
   so it needs more fuel the other way. *)
Theorem C17_dispatch_equiv :
  forall (S In Out Lay : Type) (mode : In -> RunMode) (in_eqb : In -> In -> bool) (is_none : S -> bool)
         (hidden_out : Out) (zero_lay : Lay) (hidden_in : In)
         (calgo : S -> list S -> In -> Alg In Out Lay) (lalgo : S -> In -> Out)
         (kind_of : S -> nat -> kind) (guard : In -> bool),
    mode hidden_in = PerformHiddenLayout ->
    (forall i, guard i = true <-> mode i = PerformHiddenLayout) ->
    (forall s n, kind_of s n = kind_taffy S is_none s n) ->
    forall t i r,
      (forall f, memo_doc S In Out Lay mode in_eqb hidden_out zero_lay hidden_in calgo lalgo kind_of guard f t i = Some r ->
                 memo S In Out Lay mode in_eqb is_none hidden_out zero_lay (taffy_algo S In Out Lay calgo lalgo) f t i = Some r) /\
      (forall f, memo S In Out Lay mode in_eqb is_none hidden_out zero_lay (taffy_algo S In Out Lay calgo lalgo) f t i = Some r ->
                 exists f', memo_doc S In Out Lay mode in_eqb hidden_out zero_lay hidden_in calgo lalgo kind_of guard f' t i = Some r).
Proof.
  intros until guard. intros Hh Hg Hk t i r. split; intros f H.
  - eapply doc_to_taffy; eauto.
  - eapply taffy_to_doc; eauto.
Qed.

(* the same without fuel bookkeeping: whenever both terminate they agree *)
Theorem C17_dispatch_same_result :
  forall (S In Out Lay : Type) (mode : In -> RunMode) (in_eqb : In -> In -> bool) (is_none : S -> bool)
         (hidden_out : Out) (zero_lay : Lay) (hidden_in : In)
         (calgo : S -> list S -> In -> Alg In Out Lay) (lalgo : S -> In -> Out)
         (kind_of : S -> nat -> kind) (guard : In -> bool),
    mode hidden_in = PerformHiddenLayout ->
    (forall i, guard i = true <-> mode i = PerformHiddenLayout) ->
    (forall s n, kind_of s n = kind_taffy S is_none s n) ->
    forall f f' t i r r',
      memo_doc S In Out Lay mode in_eqb hidden_out zero_lay hidden_in calgo lalgo kind_of guard f t i = Some r ->
      memo S In Out Lay mode in_eqb is_none hidden_out zero_lay (taffy_algo S In Out Lay calgo lalgo) f' t i = Some r' ->
      r = r'.
Proof. intros until guard. intros Hh Hg Hk. intros. eapply doc_equals_taffy; eauto. Qed.

(* The documentation-level trap.  A tree that follows the examples literally (no hidden-mode line: guard = fun _ => false)
   and maps display:none to compute_hidden_layout -- (Hk) holds, (Hg) does not -- diverges from TaffyView as soon as a
   display:none node has a container below it.  root > A > B (container) > C, laid out, then A set to display:none and
   laid out again.  TaffyView: B and C end with zero layouts and cleared caches.  Literal pattern: the hidden-mode query
   reaches B's container algorithm, so B keeps its old layout and its old cache entries and C receives a non-zero layout
   computed under a hidden-mode input.  With the hidden-mode line the two trees are identical again. *)
Theorem C17_hidden_dispatch_note :
  (forall s n, t_kind s n = kind_taffy TS t_is_none s n) /\
  (* TaffyView *)
  probe (trap_run toy_taffy) [0; 0] = Some (0%N, true) /\ probe (trap_run toy_taffy) [0; 0; 0] = Some (0%N, true) /\
  (* examples followed literally *)
  (exists l, probe (trap_run toy_literal) [0; 0] = Some (l, false) /\ l <> 0%N) /\
  (exists l, probe (trap_run toy_literal) [0; 0; 0] = Some (l, false) /\ l <> 0%N) /\
  (* with `if inputs.run_mode == PerformHiddenLayout { return compute_hidden_layout(..) }` *)
  trap_run toy_guarded = trap_run toy_taffy.
Proof.
  destruct trap_taffy as [_ [B C]]. destruct trap_literal as [_ [B' C']].
  split; [reflexivity|]. split; [exact B|]. split; [exact C|]. split; [exact B'|]. split; [exact C'|exact trap_guarded].
Qed.

(* The other side of the note: the examples exactly as written (no hidden-mode line at all) agree with TaffyView on every
   tree WITHOUT a display:none node and every non-hidden input, with the same fuel, provided the container functions never
   issue hidden-mode queries themselves (WF; trace-validated for the real algorithms on every run of ./check C01). *)
Theorem C17_literal_pattern_ok_without_display_none :
  forall (S In Out Lay : Type) (mode : In -> RunMode) (in_eqb : In -> In -> bool) (is_none : S -> bool)
         (hidden_out : Out) (zero_lay : Lay) (hidden_in : In)
         (calgo : S -> list S -> In -> Alg In Out Lay) (lalgo : S -> In -> Out) (kind_of : S -> nat -> kind),
    (forall s n, kind_of s n = kind_taffy S is_none s n) ->
    (forall s st i, WFAlg In Out Lay mode (calgo s st i)) ->
    forall f t i,
      NoNone S In Out Lay is_none t -> mode i <> PerformHiddenLayout ->
      memo_doc S In Out Lay mode in_eqb hidden_out zero_lay hidden_in calgo lalgo kind_of (fun _ => false) f t i =
      memo S In Out Lay mode in_eqb is_none hidden_out zero_lay (taffy_algo S In Out Lay calgo lalgo) f t i.
Proof.
  intros until kind_of. intros Hk HWF f t i HN Hm.
  exact (proj1 (literal_without_none S In Out Lay mode in_eqb is_none hidden_out zero_lay hidden_in calgo lalgo kind_of Hk HWF f t i HN Hm)).
Qed.

(* With an exact (full-input) key the memoised evaluation returns what the cache-free evaluation of the same shape, styles
   and measure data returns, keeps every cache entry valid and never changes the shape (= EngineMemo.memo_sound); on a
   freshly built tree in particular (= memo_agrees_with_fresh).
   PARTIAL (renamed in the audit, wave 5c).  The property says that with an exact memo the LAYOUTS equal the cache-free
   evaluation; this theorem is about the LayoutOutput a call returns (and cache validity), not about the layouts stored in the
   nodes.  For the stored layouts the statement is FALSE for algorithms that write layouts while answering a size query --
   C01_layouts_refuted_for_scribbling_algorithms, known finding C01/computesize-scribble (taffy's block algorithm) -- and proved
   for the others in C01_layouts_equal_fresh_for_nonscribbling_algorithms. *)
Theorem C17_memo_exact_partial :
  forall (S In Out Lay : Type) (mode : In -> RunMode) (in_eqb : In -> In -> bool) (is_none : S -> bool)
         (hidden_out : Out) (zero_lay : Lay) (algo : S -> list S -> In -> Alg In Out Lay),
    (forall a b, in_eqb a b = true -> a = b) ->
    (forall f t i o t',
       Valid S In Out Lay mode is_none hidden_out algo t ->
       memo S In Out Lay mode in_eqb is_none hidden_out zero_lay algo f t i = Some (o, t') ->
       (exists f', plain S In Out Lay mode is_none hidden_out algo f' (skel S In Out Lay t) i = Some o) /\
       Valid S In Out Lay mode is_none hidden_out algo t' /\ skel S In Out Lay t' = skel S In Out Lay t) /\
    (forall f f' t i o o' t1 t2,
       Valid S In Out Lay mode is_none hidden_out algo t ->
       memo S In Out Lay mode in_eqb is_none hidden_out zero_lay algo f t i = Some (o, t1) ->
       memo S In Out Lay mode in_eqb is_none hidden_out zero_lay algo f' (fresh S In Out Lay zero_lay (skel S In Out Lay t)) i = Some (o', t2) ->
       o = o') /\
    (forall k, Valid S In Out Lay mode is_none hidden_out algo (fresh S In Out Lay zero_lay k)).
Proof.
  intros until algo. intros Hkey. split; [|split].
  - intros. eapply memo_sound; eauto.
  - intros. eapply memo_agrees_with_fresh; eauto.
  - intros. apply Valid_fresh.
Qed.

(* ... and so does the documented tree: exact key + (Hg) + (Hk) => the user's tree returns the cache-free value.
   PARTIAL for the same reason: outputs, not stored layouts. *)
Theorem C17_doc_exact_partial :
  forall (S In Out Lay : Type) (mode : In -> RunMode) (in_eqb : In -> In -> bool) (is_none : S -> bool)
         (hidden_out : Out) (zero_lay : Lay) (hidden_in : In)
         (calgo : S -> list S -> In -> Alg In Out Lay) (lalgo : S -> In -> Out)
         (kind_of : S -> nat -> kind) (guard : In -> bool),
    mode hidden_in = PerformHiddenLayout ->
    (forall i, guard i = true <-> mode i = PerformHiddenLayout) ->
    (forall s n, kind_of s n = kind_taffy S is_none s n) ->
    (forall a b, in_eqb a b = true -> a = b) ->
    forall f t i o t',
      Valid S In Out Lay mode is_none hidden_out (taffy_algo S In Out Lay calgo lalgo) t ->
      memo_doc S In Out Lay mode in_eqb hidden_out zero_lay hidden_in calgo lalgo kind_of guard f t i = Some (o, t') ->
      (exists f', plain S In Out Lay mode is_none hidden_out (taffy_algo S In Out Lay calgo lalgo) f' (skel S In Out Lay t) i = Some o) /\
      Valid S In Out Lay mode is_none hidden_out (taffy_algo S In Out Lay calgo lalgo) t' /\
      skel S In Out Lay t' = skel S In Out Lay t.
Proof. intros until guard. intros Hh Hg Hk Hkey. intros. eapply doc_exact; eauto. Qed.

(* the premises are satisfiable: the toy instance with the hidden-mode line *)
Example C17_hypotheses_satisfiable :
  t_mode t_hidden_in = PerformHiddenLayout /\
  (forall i, t_guard i = true <-> t_mode i = PerformHiddenLayout) /\
  (forall s n, t_kind s n = kind_taffy TS t_is_none s n).
Proof. exact toy_hyps. Qed.

(* =====================================================================================================================
   Computed instances (audit, wave 5c): evaluations that return Some on multi-node trees. *)

(* C17_dispatch_equiv / _same_result: after a layout and set_style(display:none) on A (root > A > B > C), the documented tree
   with the hidden-mode line and TaffyView return the same result on the NON-fresh tree, the tree changes, and B and C go from
   the layouts 6 / 4 with filled caches to 0 with empty caches *)
Definition trap_t2 : option ttree :=
  match toy_taffy 8 trap_tree (PerformLayout, 5%N) with
  | Some (_, t1) => Some (t_mutate t1 [0] (ESetStyle TS TIn TOut TLay (1%N, true)))
  | None => None
  end.
Example C17_dispatch_example :
  exists t2 r, trap_t2 = Some t2 /\
    toy_guarded 8 t2 (PerformLayout, 5%N) = Some r /\ toy_taffy 8 t2 (PerformLayout, 5%N) = Some r /\
    fst r = 0%N /\ snd r <> t2 /\
    probe (Some t2) [0; 0] = Some (6%N, false) /\ probe (Some (snd r)) [0; 0] = Some (0%N, true) /\
    probe (Some t2) [0; 0; 0] = Some (4%N, false) /\ probe (Some (snd r)) [0; 0; 0] = Some (0%N, true).
Proof.
  eexists. eexists. split; [vm_compute; reflexivity|]. split; [vm_compute; reflexivity|]. split; [vm_compute; reflexivity|].
  vm_compute. repeat split; try reflexivity. discriminate.
Qed.
(* C17_literal_pattern_ok_without_display_none: its premises hold of the toy and of a 4-node tree without display:none node,
   and both sides evaluate to the same Some (output 6) *)
Example C17_literal_example :
  (forall s st i, WFAlg TIn TOut TLay t_mode (t_algo' s st i)) /\
  NoNone TS TIn TOut TLay t_is_none trap_tree /\
  exists r,
    memo_doc TS TIn TOut TLay t_mode t_in_eqb 0%N 0%N t_hidden_in t_algo' t_lalgo t_kind (fun _ => false) 8 trap_tree (PerformLayout, 5%N) = Some r /\
    memo TS TIn TOut TLay t_mode t_in_eqb t_is_none 0%N 0%N (taffy_algo TS TIn TOut TLay t_algo' t_lalgo) 8 trap_tree (PerformLayout, 5%N) = Some r /\
    fst r = 6%N.
Proof.
  split; [exact t_algo_WF|]. split.
  - unfold trap_tree, tleaf. repeat (constructor; [reflexivity|]); repeat constructor.
  - eexists. split; [vm_compute; reflexivity|]. split; vm_compute; reflexivity.
Qed.
(* C17_memo_exact_partial / C17_doc_exact_partial on a NON-fresh Valid tree: after a first pass the tree is Valid and differs
   from the fresh one; a size query on it succeeds on both dispatchers with the cache-free value 34 *)
Example C17_exact_example :
  (forall a b, t_in_eqb a b = true -> a = b) /\
  exists o1 t1, toy_taffy 8 trap_tree (PerformLayout, 5%N) = Some (o1, t1) /\
    Valid TS TIn TOut TLay t_mode t_is_none 0%N (taffy_algo TS TIn TOut TLay t_algo t_lalgo) t1 /\ t1 <> trap_tree /\
    exists o2 t2, toy_taffy 8 t1 (ComputeSize, 9%N) = Some (o2, t2) /\ toy_guarded 8 t1 (ComputeSize, 9%N) = Some (o2, t2) /\
      plain TS TIn TOut TLay t_mode t_is_none 0%N (taffy_algo TS TIn TOut TLay t_algo t_lalgo) 8
            (skel TS TIn TOut TLay t1) (ComputeSize, 9%N) = Some o2 /\ o2 = 34%N.
Proof.
  split; [exact t_in_eqb_eq|].
  destruct (toy_taffy 8 trap_tree (PerformLayout, 5%N)) as [[o1 t1]|] eqn:E; [|vm_compute in E; discriminate].
  exists o1, t1. split; [reflexivity|].
  destruct (memo_sound TS TIn TOut TLay t_mode t_in_eqb t_is_none 0%N 0%N (taffy_algo TS TIn TOut TLay t_algo t_lalgo) t_in_eqb_eq
              8 trap_tree (PerformLayout, 5%N) o1 t1 (Valid_fresh _ _ _ _ _ _ _ _ _
                 (SNode TS (0%N, false) [SNode TS (1%N, false) [SNode TS (2%N, false) [SNode TS (3%N, false) []]]])) E) as (_ & HV & _).
  split; [exact HV|]. vm_compute in E. injection E as <- <-. split; [discriminate|].
  eexists. eexists. split; [vm_compute; reflexivity|]. split; [vm_compute; reflexivity|]. split; vm_compute; reflexivity.
Qed.
(* the trap of C17_hidden_dispatch_note in the scenario `vh c17 trap` runs on the real code: a FRESH tree with A hidden from the
   start.  TaffyView and the guarded pattern zero B and C; the literal pattern zeroes B but leaves C with a non-zero layout
   computed under a hidden-mode input (real code: C = 20 x 20, B's cache empty) *)
Definition trap_tree_h : ttree :=
  TN (0%N, false) (cempty TIn TOut) 0%N [TN (1%N, true) (cempty TIn TOut) 0%N [TN (2%N, false) (cempty TIn TOut) 0%N [tleaf 3]]].
Definition fresh_run (ev : nat -> ttree -> TIn -> option (TOut * ttree)) : option ttree :=
  match ev 8 trap_tree_h (PerformLayout, 5%N) with Some (_, t) => Some t | None => None end.
Example C17_trap_fresh_scenario :
  probe (fresh_run toy_taffy) [0; 0] = Some (0%N, true) /\ probe (fresh_run toy_taffy) [0; 0; 0] = Some (0%N, true) /\
  fresh_run toy_guarded = fresh_run toy_taffy /\
  probe (fresh_run toy_literal) [0; 0] = Some (0%N, true) /\
  (exists l, probe (fresh_run toy_literal) [0; 0; 0] = Some (l, true) /\ l <> 0%N).
Proof. vm_compute. repeat split; try reflexivity. eexists. split; [reflexivity|discriminate]. Qed.

Print Assumptions C17_dispatch_equiv.
Print Assumptions C17_dispatch_same_result.
Print Assumptions C17_hidden_dispatch_note.
Print Assumptions C17_literal_pattern_ok_without_display_none.
Print Assumptions C17_memo_exact_partial.
Print Assumptions C17_doc_exact_partial.

(* ---- the TRANSLATED dispatch (Gen/EngineGlueGen.v, regenerated from src/tree/taffy_tree.rs TaffyView::compute_child_layout on every
   run): the match table on (display_mode, has_children), arm by arm in source order (Coq rejects a redundant or a missing arm; the
   generator refuses a guard, an unknown pattern or an unknown right-hand side), selects what the model selects -- `t_is_none` first
   (Engine.memo), then Model/TaffyEngine.v `taffy_dispatch` -- and the complete translated function (hidden-mode guard,
   compute_cached_layout around the dispatching closure) is one step of `taffy_memo` ---- *)
From TV Require Num.Num Model.Common Model.Leaf Model.FlexAlgBase Model.BlockFlexEngine Model.TaffyEngine.
From TV Require Gen.EngineGlueGen Model.EngineGlue Model.EngineGlueTables Model.EngineGlueTaffy Proofs.EngineGlueTaffy.

Theorem C17_translated_dispatch_is_model :
  forall (T : Type) (H : Num.Num T) (s : TaffyEngine.TStyle T) (n : nat),
    EngineGlueGen.glue_dispatch (EngineGlueTaffy.glue_display_of (Leaf.display (TaffyEngine.t_core s))) (EngineGlueGen.glue_has_children n) =
    EngineGlueTaffy.model_kind s n.
Proof. intros. apply EngineGlueTaffy.translated_dispatch_is_model. Qed.

Theorem C17_translated_child_layout_is_model :
  forall (T : Type) (H : Num.Num T) teq pre abs_child leaf f
         (t : Engine.tree (TaffyEngine.TStyle T) (FlexAlgBase.FIn T) (Leaf.LayoutOutput T) (FlexAlgBase.FLay T)) i,
    TaffyEngine.taffy_memo teq TaffyEngine.taffy_dispatch pre abs_child leaf (Datatypes.S f) t i =
    EngineGlue.eg_swap _ _ _ _
      (EngineGlueTaffy.tg_compute_child_layout teq pre abs_child leaf
         (TaffyEngine.taffy_memo teq TaffyEngine.taffy_dispatch pre abs_child leaf f) t i).
Proof. intros. apply EngineGlueTaffy.translated_child_layout_is_model. Qed.

(* the table as the source has it, and what it selects on all eight (display, has_children) pairs *)
Example C17_translated_dispatch_table :
  EngineGlueGen.glue_dispatch_arms = EngineGlueTables.expected_dispatch_arms /\
  map (fun d => (EngineGlueGen.glue_dispatch d true, EngineGlueGen.glue_dispatch d false))
      [EngineGlueGen.GD_Block; EngineGlueGen.GD_Flex; EngineGlueGen.GD_Grid; EngineGlueGen.GD_None] =
  [(EngineGlueGen.GK_block, EngineGlueGen.GK_leaf); (EngineGlueGen.GK_flex, EngineGlueGen.GK_leaf);
   (EngineGlueGen.GK_grid, EngineGlueGen.GK_leaf); (EngineGlueGen.GK_hidden, EngineGlueGen.GK_hidden)].
Proof. split; reflexivity. Qed.

Print Assumptions C17_translated_dispatch_is_model.
Print Assumptions C17_translated_child_layout_is_model.
