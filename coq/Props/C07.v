(* C07 -- flex lines: items stay ordered, never overlap, and flexibility is exhausted.
   Statements only; every proof is `exact <lemma>` (Proofs/FlexProofs.v) or a vm_compute witness.
   The definitions the statements are about: Model/Flex.v (hand transcription of resolve_flexible_lengths,
   distribute_remaining_free_space, calculate_layout_line/calculate_flex_item, tied to the Rust by bit-exact
   correspondence over F32) and Gen/FlexGen.v (compute_alignment_offset, apply_alignment_fallback, sum_axis_gaps:
   regenerated from the Rust source on every run).  All theorems are over the exact instance XQ with explicit
   finiteness premises; C07_loop_terminates has no premise at all (NaN and infinities included).

   Vocabulary (Proofs/FlexProofs.v): for an item c, qb = flex_basis, qib = inner_flex_basis, qh / qho = hypothetical inner /
   outer main size, qmin = resolved_minimum_main_size, qmaxo = max_size.main, qg / qs = flex_grow / flex_shrink,
   qm = margin.main_axis_sum, qt / qot = target / outer target main size; qcl c x = the loop's clamp
   max(max(min(x, max), min), 0); effmax mn m = max(max(m, mn), 0) (= m when mn <= m and 0 <= m),
   effmin mn = max(mn, 0) (= mn when 0 <= mn). *)
From Coq Require Import ZArith QArith Bool List Lia Lqa.
From TV Require Import Num.Num Num.QNum Model.Common Model.Leaf Gen.FlexGen Model.Flex Model.FlexLines Model.FlexBase
                       Model.FlexContainer Model.FlexRun Proofs.FlexQ Proofs.FlexProofs Proofs.FlexLinesProofs Proofs.FlexBaseProofs.
Import ListNotations.
Open Scope Q_scope.

(* ---- flexibility exhausted.  Premises per item (exh_prem): all fields finite, not yet frozen, hypothetical inner
   size = clamp(flex basis) (true whenever max_size >= padding+border), hypothetical outer = inner + margins.
   grow_ok / shrink_ok, required only in the direction taken: factor >= 0 and (factor = 0 or factor >= 1); shrinking also
   needs inner_flex_basis >= 0.  Conclusion: the loop returns (no fuel exhaustion), every item is frozen, the static
   fields are untouched, and either the outer targets plus gaps fill M exactly, or (growing) every item with a non-zero
   grow factor has a max size and sits at effmax, or (shrinking) every item with non-zero shrink factor and non-zero
   inner flex basis (i.e. non-zero scaled shrink factor) sits at effmin.
   PARTIAL (renamed in the audit, wave 5c).  Missing with respect to the property text: (1) the premise hyp_inner =
   clamp(flex basis) is not granted by the property; it holds for items built from styles exactly in `pb_class`
   (C07_hyp_is_clamped_basis) and fails for items whose max size is below padding + border (C07_hyp_is_clamped_basis_refuted);
   (2) the statement is about the loop's outer TARGET sizes; the sizes the items are then laid out at can differ
   (C07_exhausted_laid_out_sizes_refuted, known finding F-C07-pbfloor), so "the items' outer main sizes plus gaps fill the inner
   main size" is proved for targets only. *)
Theorem C07_exhausted_partial : forall (items : list Item) (gap M : XQ),
  finite gap -> finite M -> (forall c, In c items -> exh_prem c) ->
  let gaps := val (sum_axis_gaps gap (zlen items)) in
  let hyp_total := gaps + qsum qho items in
  (hyp_total < val M -> forall c, In c items -> grow_ok c) ->
  (val M < hyp_total -> forall c, In c items -> shrink_ok c) ->
  exists res, resolve_flexible_lengths items gap (Some M) = Some res /\ Forall2 static_eq items res /\
    (forall c, In c res -> fi_frozen c = true /\ item_fin c /\ qot c == qt c + qm c) /\
    (gaps + qsum qot res == val M \/
     (hyp_total < val M /\ forall c, In c res -> ~ qg c == 0 -> at_max c) \/
     (val M < hyp_total /\ forall c, In c res -> ~ qs c == 0 -> ~ qib c == 0 -> at_min c)).
Proof. exact exhausted. Qed.

(* the wording of the property ("sits at its min / max") for well-formed bounds *)
Theorem C07_effective_bounds : forall mn m, (mn <= m -> 0 <= m -> effmax mn m == m) /\ (0 <= mn -> effmin mn == mn).
Proof. intros mn m. unfold effmax, effmin. split; intros; qcases; lra. Qed.

(* ---- termination: the loop never runs out of its fuel (length items + 1), for arbitrary inputs over XQ -- every
   iteration freezes at least one unfrozen item (loop_body_decreases) or the all-frozen test exits *)
Theorem C07_loop_terminates : forall (items : list Item) (gap : XQ) (M : option XQ),
  exists res, resolve_flexible_lengths items gap M = Some res.
Proof. exact loop_terminates. Qed.

Theorem C07_every_iteration_freezes : forall k (items : list Item),
  forallb fi_frozen items = false -> (cnt (loop_body k items) < cnt items)%nat.
Proof. exact loop_body_decreases. Qed.

(* ---- order and no overlap, non-auto margins (oprem: margins finite, >= 0 and not auto, relative inset 0).
   `sizes` are the main sizes returned by the children's layout (any finite values >= 0).  For every pair i < j in document
   order: location_i + size_i + margin_end_i + margin_start_j + gap <= location_j; mirrored when the direction is
   reversed.  The margins are not changed by the alignment step.  Relative insets are excluded: see C07_inset_refuted. *)
Theorem C07_order_no_overlap : forall (items : list Item) (gap inner start : XQ) (jc : option AlignContent) (rv : bool)
                                      (sizes : list XQ),
  finite gap -> 0 <= val gap -> finite inner -> finite start ->
  (forall c, In c items -> oprem c) ->
  length sizes = length items -> (forall s, In s sizes -> finite s /\ 0 <= val s) ->
  let items' := distribute_remaining_free_space items gap inner jc rv in
  let pos := line_positions start rv (combine items' sizes) in
  Forall2 (fun c c' => fi_margin_start c' = fi_margin_start c /\ fi_margin_end c' = fi_margin_end c) items items' /\
  ForallOrdPairs (fun a b => if rv then sepR (val gap) b a else sepR (val gap) a b) (combine (combine items' sizes) pos).
Proof. exact order_no_overlap. Qed.

(* ---- auto margins absorbing positive free space: the margin boxes (with the resolved margins) still do not overlap,
   but only with separation 0 -- the gap is not inserted on such a line (C07_gap_dropped_with_auto_margins_refuted) *)
Theorem C07_order_no_overlap_auto_margins : forall (items : list Item) (gap inner start : XQ) (jc : option AlignContent)
                                                   (rv : bool) (sizes : list XQ),
  finite gap -> finite inner -> finite start ->
  (forall c, In c items -> aprem c) ->
  length sizes = length items -> (forall s, In s sizes -> finite s /\ 0 <= val s) ->
  let free := sub inner (add (sum_axis_gaps gap (zlen items)) (fsum (map fi_outer_target items))) in
  0 < val free -> (0 < count_auto items)%Z ->
  let items' := distribute_remaining_free_space items gap inner jc rv in
  let pos := line_positions start rv (combine items' sizes) in
  (forall c, In c items' -> 0 <= val (fi_margin_start c) /\ 0 <= val (fi_margin_end c)) /\
  ForallOrdPairs (fun a b => if rv then sepR 0 b a else sepR 0 a b) (combine (combine items' sizes) pos).
Proof. exact order_auto_margins. Qed.

(* ---- the justify-content table (regenerated from compute_alignment_offset on every run) has the CSS Box Alignment values:
   with non-negative free space f, gap g and n >= 2 items, the first item is offset by `first`, every further item by `next`
   (space-between: free/(n-1) between items; space-around: free/n between and half of it at both ends; space-evenly:
   free/(n+1) everywhere; flex-start/flex-end follow the direction).  The order law only needs next >= gap; this pins
   the rest of the table, so that an edit of one arm is noticed even when it cannot make items overlap. *)
Theorem C07_justify_offsets_spec : forall (f g : Q) (n : Z) (rv : bool), 0 <= f -> (2 <= n)%Z ->
  let first m := val (compute_alignment_offset (Fin f) n (Fin g) m rv true) in
  let next m := val (compute_alignment_offset (Fin f) n (Fin g) m rv false) in
  (first AC_Start == 0 /\ next AC_Start == g) /\
  (first AC_End == f /\ next AC_End == g) /\
  (first AC_FlexStart == (if rv then f else 0) /\ next AC_FlexStart == g) /\
  (first AC_FlexEnd == (if rv then 0 else f) /\ next AC_FlexEnd == g) /\
  (first AC_Center == f / 2 /\ next AC_Center == g) /\
  (first AC_Stretch == 0 /\ next AC_Stretch == g) /\
  (first AC_SpaceBetween == 0 /\ next AC_SpaceBetween == g + f / inject_Z (n - 1)) /\
  (first AC_SpaceAround == f / inject_Z n / 2 /\ next AC_SpaceAround == g + f / inject_Z n) /\
  (first AC_SpaceEvenly == f / inject_Z (n + 1) /\ next AC_SpaceEvenly == g + f / inject_Z (n + 1)).
Proof. exact justify_offsets_spec. Qed.

(* ---------------------------------------------------------------------------------------------- witnesses *)
Ltac qdec := first [exact I | reflexivity | (vm_compute; reflexivity) | (vm_compute; intro; discriminate)].
Definition fq (z : Z) : XQ := Fin (inject_Z z).
(* an item given by: basis, inner basis, hyp inner, hyp outer, min, max, grow, shrink, margins, auto flags, outer target *)
Definition wi (b ib h ho mn : Z) (mx : option Z) (g s ms me : Z) (msa mea : bool) (ot : Z) : Item :=
  mkItem (fq b) (fq ib) (fq h) (fq ho) (fq mn) (option_map fq mx) (fq g) (fq s) (fq ms) (fq me) msa mea (fq 0)
         false (fq 0) (fq ot) (fq 0) (fq 0).

(* ================================================================================================ flex lines
   collect_flex_lines (Model/FlexLines.v): `hyp c` = hypothetical outer main size of item c, `avail` the available main
   space, (mx, mn) the container's max / min main size (lines_available: with a max size the space is
   Definite(max(avail or max, min))).  Lines are lists of items in document order, in order of creation. *)

(* ---- the lines are a partition of the item list into consecutive runs, order preserved; no line is empty (unless there is
   no item at all: then nowrap / max-content give one empty line, wrap gives none).  Any number type: no arithmetic fact is used. *)
Theorem C07_lines_partition : forall {T : Type} `{Num T} {A : Type} (hyp : A -> T) (is_wrap : bool) (mx mn : option T)
                                     (avail : AvailableSpace T) (gap : T) (items : list A),
  let lines := collect_flex_lines hyp is_wrap mx mn avail gap items in
  concat lines = items /\
  (items <> [] -> Forall (fun l => l <> []) lines) /\
  (items = [] -> lines = [] \/ lines = [[]]).
Proof. intros. apply lines_partition. Qed.

(* ---- a line with more than one item fits: sum of hypothetical outer sizes + gaps between them <= available space *)
Theorem C07_lines_fit : forall {A : Type} (hyp : A -> XQ) (mx mn : option XQ) (avail : AvailableSpace XQ) (gap : XQ)
                               (items : list A) (a : XQ),
  finite gap -> finite a -> (forall c, In c items -> finite (hyp c)) ->
  lines_available mx mn avail = Definite a ->
  forall line, In line (collect_flex_lines hyp true mx mn avail gap items) -> (2 <= length line)%nat ->
    qsum (fun c => val (hyp c)) line + val (sum_axis_gaps gap (zlen line)) <= val a.
Proof. intros A hyp. exact (lines_fit hyp). Qed.

(* a single-item line may overflow: one item of 150 in 100 *)
Example C07_lines_single_item_may_overflow :
  collect_flex_lines (fun x : XQ => x) true None None (Definite (fq 100)) (fq 0) [fq 150; fq 30] = [[fq 150]; [fq 30]].
Proof. vm_compute. reflexivity. Qed.

(* ---- greedy: no line could have taken the first item of the next line *)
Theorem C07_lines_greedy : forall {A : Type} (hyp : A -> XQ) (mx mn : option XQ) (avail : AvailableSpace XQ) (gap : XQ)
                                  (items : list A) (a : XQ),
  finite gap -> finite a -> (forall c, In c items -> finite (hyp c)) ->
  lines_available mx mn avail = Definite a ->
  forall pre l1 c l2 post, collect_flex_lines hyp true mx mn avail gap items = pre ++ l1 :: (c :: l2) :: post ->
    l1 <> [] /\ val a < qsum (fun c => val (hyp c)) l1 + val (sum_axis_gaps gap (zlen l1)) + val gap + val (hyp c).
Proof. intros A hyp. exact (lines_greedy hyp). Qed.

(* the same two laws for any number type, as the loop's own tests on its running `line_length` (IEEE `>`: never true on NaN) *)
Theorem C07_lines_tests_any_num : forall {T : Type} `{Num T} {A : Type} (hyp : A -> T) (mx mn : option T)
                                         (avail : AvailableSpace T) (gap : T) (items : list A) (a : T),
  lines_available mx mn avail = Definite a ->
  let lines := collect_flex_lines hyp true mx mn avail gap items in
  (forall line, In line lines -> (2 <= length line)%nat -> gtb (line_length hyp gap line) a = false) /\
  (forall pre l1 c l2 post, lines = pre ++ l1 :: (c :: l2) :: post -> gtb (line_length hyp gap (l1 ++ [c])) a = true).
Proof.
  intros T N A hyp mx mn avail gap items a E. cbn zeta.
  pose proof (definite_lines_spec hyp mx mn avail gap items a E) as S. split.
  - exact (lines_spec_fit hyp a gap items _ S).
  - exact (lines_spec_greedy hyp a gap items _ S).
Qed.

(* ---- single line: nowrap; wrap under a max-content constraint; wrap when everything fits (non-negative sizes and gap).
   Under a min-content constraint every item gets a line of its own. *)
Theorem C07_nowrap_single_line : forall {T : Type} `{Num T} {A : Type} (hyp : A -> T) mx mn avail gap (items : list A),
  collect_flex_lines hyp false mx mn avail gap items = [items].
Proof. intros. apply nowrap_single_line. Qed.

Theorem C07_max_content_single_line : forall {T : Type} `{Num T} {A : Type} (hyp : A -> T) mx mn avail gap (items : list A),
  lines_available mx mn avail = MaxContent -> collect_flex_lines hyp true mx mn avail gap items = [items].
Proof. intros. apply max_content_single_line. assumption. Qed.

Theorem C07_min_content_one_item_per_line : forall {T : Type} `{Num T} {A : Type} (hyp : A -> T) mx mn avail gap (items : list A),
  lines_available mx mn avail = MinContent -> collect_flex_lines hyp true mx mn avail gap items = map (fun c => [c]) items.
Proof. intros. apply min_content_one_item_per_line. assumption. Qed.

Theorem C07_wrap_single_line_when_fits : forall {A : Type} (hyp : A -> XQ) mx mn avail (gap : XQ) (items : list A) (a : XQ),
  finite gap -> finite a -> 0 <= val gap -> (forall c, In c items -> finite (hyp c) /\ 0 <= val (hyp c)) ->
  lines_available mx mn avail = Definite a -> items <> [] ->
  qsum (fun c => val (hyp c)) items + val (sum_axis_gaps gap (zlen items)) <= val a ->
  collect_flex_lines hyp true mx mn avail gap items = [items].
Proof. intros A hyp. exact (wrap_single_line_when_fits hyp). Qed.

(* ================================================================================================ flex base size
   determine_flex_base_size (Model/FlexBase.v) for one child c of a container with constants k; ci = what
   generate_anonymous_flex_items resolved (child_info k c); the child's own layout is the function ch_layout c. *)

(* ---- case order: A definite flex-basis; else B / "definite main size" (the aspect-ratio transfer was made when the size was
   resolved); else (C = E, D not implemented) the child's measured size under max-content (min-content when the container is
   itself measured under min-content).  Then the result is floored by padding+border (C07_hyp_is_clamped_basis). *)
Theorem C07_flex_base_size_cases : forall {T : Type} `{Num T} (k : Constants T) avail (c : Child T) (ci : ChildInfo T),
  let e := base_env k avail c ci in
  let row := k_row k in
  (forall b, be_style_basis e = Some b -> flex_base_size k avail c ci e = b) /\
  (forall s, be_style_basis e = None -> s_main row (ci_size ci) = Some s -> flex_base_size k avail c ci e = s) /\
  (be_style_basis e = None -> s_main row (ci_size ci) = None ->
   flex_base_size k avail c ci e =
     s_main row (ch_layout c (mkInput ComputeSize ContentSize (be_known e) (be_parent e)
                                      (s_of_mc row (if avail_is_min_content (s_main row avail) then MinContent else MaxContent)
                                               (be_cross_avail e))))) /\
  (ch_flex_basis c = Auto -> be_style_basis e = None).
Proof.
  intros T N k avail c ci. cbn zeta. split; [|split; [|split]].
  - apply base_case_A.
  - apply base_case_B.
  - apply base_case_E.
  - apply style_basis_auto.
Qed.

(* B: aspect ratio r, auto main size, cross size v (border-box): the resolved main size is v * r in a row, v / r in a column *)
Theorem C07_aspect_ratio_basis : forall {T : Type} `{Num T} (k : Constants T) (c : Child T) (r v : T),
  aspect_ratio (ch_style c) = Some r -> box_sizing (ch_style c) = BorderBox ->
  s_main (k_row k) (size (ch_style c)) = Auto -> s_cross (k_row k) (size (ch_style c)) = Length v ->
  s_main (k_row k) (ci_size (child_info k c)) = Some (add (if k_row k then mul v r else div v r) zero).
Proof. intros. apply aspect_ratio_main_size; assumption. Qed.

(* the resolved minimum main size: explicit min-size; 0 for a scroll container in the main axis; else the automatic minimum
   max(min(min-content size, specified size, max size), padding+border) *)
Theorem C07_automatic_minimum : forall {T : Type} `{Num T} (k : Constants T) avail (c : Child T) (ci : ChildInfo T),
  let e := base_env k avail c ci in
  let row := k_row k in
  let ov := if row then px (overflow (ch_style c)) else py (overflow (ch_style c)) in
  (forall m, s_main row (ci_min ci) = Some m -> resolved_minimum_main_size k c ci e = m) /\
  (s_main row (ci_min ci) = None -> is_scroll_container ov = true -> resolved_minimum_main_size k c ci e = zero) /\
  (s_main row (ci_min ci) = None -> is_scroll_container ov = false ->
   resolved_minimum_main_size k c ci e =
     fmax (maybe_min_fo
             (maybe_min_fo
                (s_main row (ch_layout c (mkInput ComputeSize ContentSize (be_known e) (be_parent e)
                                                  (s_with_cross row (mkSize MinContent MinContent) (be_cross_avail e)))))
                (s_main row (ci_size ci)))
             (s_main row (ci_max ci)))
          (s_main row (sum_axes (rect_add (ci_padding ci) (ci_border ci))))).
Proof.
  intros T N k avail c ci. cbn zeta. split; [|split].
  - apply resolved_min_explicit.
  - apply resolved_min_scroll_container.
  - apply resolved_min_automatic.
Qed.

(* ---- the hypothetical inner main size is the loop's clamp of the flex base size.
   base_fin: the measured / resolved quantities of the child are finite, padding and border are not negative.
   pb_class: no max size, or padding+border <= max size, or padding+border <= resolved minimum size.
   Conclusion: exh_prem it -- exactly the per-item premise of C07_exhausted (all fields finite, not frozen,
   hyp_inner == max(max(min(flex_basis, max), min), 0), hyp_outer == hyp_inner + margins) -- and
   flex_basis == max(flex base size, padding+border), inner_flex_basis == flex_basis - padding - border. *)
Theorem C07_hyp_is_clamped_basis : forall (k : Constants XQ) avail (c : Child XQ) (ci : ChildInfo XQ),
  base_fin k avail c ci -> pb_class k avail c ci ->
  let it := determine_flex_base_size k avail c ci in
  exh_prem it /\
  qb it == qmx (val (flex_base_size k avail c ci (base_env k avail c ci))) (qpb (k_row k) ci) /\
  qib it == qb it - qpb (k_row k) ci /\
  qmin it = val (resolved_minimum_main_size k c ci (base_env k avail c ci)).
Proof. exact hyp_is_clamped_basis. Qed.

(* outside pb_class the equation is false (finding F-C07-pbfloor): flex-basis 50, min 5, max 10, padding-start 20 in a row 100
   wide: the hypothetical size is floored by padding+border (20), the loop's clamp of the basis is max(min(50,10),5,0) = 10 *)
Definition w_zero_rect_lpa : Rect (LengthPercentageAuto XQ) := mkRect (Length (fq 0)) (Length (fq 0)) (Length (fq 0)) (Length (fq 0)).
Definition w_rect_lp (l : Z) : Rect (LengthPercentage XQ) := mkRect (LpLength (fq l)) (LpLength (fq 0)) (LpLength (fq 0)) (LpLength (fq 0)).
Definition w_row_container (wrap : bool) (main gap : Z) : ContainerStyle XQ :=
  mkCStyle true false wrap false None (Some AC_Start) (Some AS_Start)
           (mkSize (Length (fq main)) (Length (fq 100))) (mkSize Auto Auto) (mkSize Auto Auto)
           w_zero_rect_lpa (w_rect_lp 0) (w_rect_lp 0) (mkSize (LpLength (fq gap)) (LpLength (fq 0))) BorderBox None.
(* a child that is laid out at whatever size it is told (ch_layout: the known dimensions, 0 where unknown) *)
Definition w_leaf (basis : Z) (mn mx : Dimension XQ) (pad_left : Z) (shrink : Z) : Child XQ :=
  mkChild (Leaf.mkStyle DFlex Relative BorderBox (mkPoint Visible Visible) (fq 0)
                        (mkSize Auto (Length (fq 20))) (mkSize mn Auto) (mkSize mx Auto) None
                        w_zero_rect_lpa (w_rect_lp pad_left) (w_rect_lp 0))
          (Length (fq basis)) (fq 0) (fq shrink) None
          (fun inp => mkSize (opt_unwrap_or (width (known_dimensions inp)) (fq 0)) (opt_unwrap_or (height (known_dimensions inp)) (fq 0))).
Definition w_k (wrap : bool) (main gap : Z) : Constants XQ :=
  compute_constants (w_row_container wrap main gap) (mkSize (Some (fq main)) (Some (fq 100))) (mkSize None None).
Definition w_avail (main : Z) : Size (AvailableSpace XQ) := mkSize (Definite (fq main)) (Definite (fq 100)).

Theorem C07_hyp_is_clamped_basis_refuted :
  exists (k : Constants XQ) avail (c : Child XQ),
    let ci := child_info k c in
    let it := determine_flex_base_size k avail c ci in
    base_fin k avail c ci /\ ~ pb_class k avail c ci /\
    qb it == 50 /\ qmin it == 5 /\ qmaxo it = Some (inject_Z 10) /\ qcl it (qb it) == 10 /\ qh it == 20.
Proof.
  exists (w_k false 100 0), (w_avail 100), (w_leaf 50 (Length (fq 5)) (Length (fq 10)) 20 1).
  cbn zeta. split; [|split].
  - unfold base_fin, fin_rect, nonneg_rect. vm_compute. repeat split; try exact I; intro; discriminate.
  - unfold pb_class. vm_compute. intros [H|H]; apply H; reflexivity.
  - vm_compute. repeat split; reflexivity.
Qed.

(* ---- C07_exhausted_partial with that premise discharged: items built from the children's styles by
   determine_flex_base_size.  Still PARTIAL: target sizes, items in pb_class only (see C07_exhausted_partial) *)
Theorem C07_exhausted_from_styles_partial : forall (k : Constants XQ) avail (children : list (Child XQ)) (gap M : XQ),
  let items := map (fun c => determine_flex_base_size k avail c (child_info k c)) children in
  finite gap -> finite M ->
  (forall c, In c children -> base_fin k avail c (child_info k c) /\ pb_class k avail c (child_info k c)) ->
  let gaps := val (sum_axis_gaps gap (zlen items)) in
  let hyp_total := gaps + qsum qho items in
  (hyp_total < val M -> forall c, In c items -> grow_ok c) ->
  (val M < hyp_total -> forall c, In c items -> shrink_ok c) ->
  exists res, resolve_flexible_lengths items gap (Some M) = Some res /\ Forall2 static_eq items res /\
    (forall c, In c res -> fi_frozen c = true /\ item_fin c /\ qot c == qt c + qm c) /\
    (gaps + qsum qot res == val M \/
     (hyp_total < val M /\ forall c, In c res -> ~ qg c == 0 -> at_max c) \/
     (val M < hyp_total /\ forall c, In c res -> ~ qs c == 0 -> ~ qib c == 0 -> at_min c)).
Proof. exact exhausted_from_styles. Qed.

(* ================================================================================================ multi-line containers
   main_axis_lines k avail items (Model/FlexContainer.v) = collect_flex_lines, then resolve_flexible_lengths on every line:
   what compute_preliminary (the function the correspondence check K2 runs) uses for steps 5-6. *)

(* ---- the lines hold the container's children in document order; no line is empty; within every line the order law of
   C07_order_no_overlap holds (premises on the items of that line, as there) *)
Theorem C07_order_no_overlap_lines : forall (k : Constants XQ) avail (items : list (Work XQ)) lines,
  main_axis_lines k avail items = Some lines ->
  concat (map (map w_child) lines) = map w_child items /\
  (items <> [] -> Forall (fun l => l <> []) lines) /\
  forall ln, In ln lines -> forall (inner start : XQ) (sizes : list XQ),
    let gap := s_main (k_row k) (k_gap k) in
    finite gap -> 0 <= val gap -> finite inner -> finite start ->
    (forall w, In w ln -> oprem (w_item w)) ->
    length sizes = length ln -> (forall s, In s sizes -> finite s /\ 0 <= val s) ->
    let its := map w_item ln in
    let items' := distribute_remaining_free_space its gap inner (k_justify k) (k_reverse k) in
    let pos := line_positions start (k_reverse k) (combine items' sizes) in
    Forall2 (fun c c' => fi_margin_start c' = fi_margin_start c /\ fi_margin_end c' = fi_margin_end c) its items' /\
    ForallOrdPairs (fun a b => if k_reverse k then sepR (val gap) b a else sepR (val gap) a b) (combine (combine items' sizes) pos).
Proof. exact order_no_overlap_lines. Qed.

(* the lines are those of collect_flex_lines, item by item, with only the non-static fields (target sizes, frozen, violation) changed *)
Theorem C07_main_axis_lines_are_collected_lines : forall (k : Constants XQ) avail (items : list (Work XQ)) lines,
  main_axis_lines k avail items = Some lines ->
  let row := k_row k in
  Forall2 (Forall2 same_work)
          (collect_flex_lines w_hyp_outer (k_wrap k) (s_main row (k_max k)) (s_main row (k_min k)) (s_main row avail)
                              (s_main row (k_gap k)) items)
          lines.
Proof. exact main_axis_lines_spec. Qed.

(* ---- across lines, cross axis: final_layout_pass walks the lines (creation order; reversed for wrap-reverse) with the
   accumulator total_offset_cross (line_starts); with the offsets of align_flex_lines_per_align_content the line boxes
   [start + offset, start + offset + cross_size] are stacked in walking order, separated by at least the cross gap.
   css = the lines' cross sizes in walking order (>= 0: they are folds of max from 0.0). *)
Theorem C07_lines_cross_stacked : forall (free gap total : XQ) (mode : AlignContent) (rv : bool) (css : list XQ),
  finite free -> finite gap -> 0 <= val gap -> finite total ->
  (forall c, In c css -> finite c /\ 0 <= val c) ->
  let n := zlen css in
  let offs := map_first (fun _ : XQ => compute_alignment_offset free n gap mode rv true)
                        (fun _ : XQ => compute_alignment_offset free n gap mode rv false) css in
  let l := combine offs css in
  ForallOrdPairs (fun a b => val (snd a) + val (fst (fst a)) + val (snd (fst a)) + val gap <= val (snd b) + val (fst (fst b)))
                 (combine l (line_starts total l)).
Proof. exact lines_cross_stacked. Qed.

(* non-vacuity: five 40-wide children in a wrapping row 100 wide with gap 10 (40+10+40 = 90 <= 100 < 140): lines of 2, 2, 1;
   x = 0, 50 on every line; the lines at y = 0, 20, 40 (children 20 high, align-content: start) *)
Definition ex_wrap_children : list (Child XQ) := repeat (w_leaf 40 (Length (fq 0)) Auto 0 0) 5.
Example C07_example_wrap :
  option_map (fun '(sz, lines) => (Qred (val (width sz)), map (map (fun p => (Qred (val (p_loc_main p)), Qred (val (p_loc_cross p))))) lines))
             (compute_flexbox_layout (w_row_container true 100 10) (mkSize None None) (mkSize None None)
                                     (mkSize MaxContent MaxContent) InherentSize ex_wrap_children)
  = Some (100, [[(0, 0); (50, 0)]; [(0, 20); (50, 20)]; [(0, 40)]]).
Proof. vm_compute. reflexivity. Qed.

(* FINDING (not a violation of the no-overlap law): on a line where auto margins absorb the free space the gap is not
   inserted between the items.  100 wide, gap 10, two 20-wide items, the second with margin-start: auto:
   CSS puts the second item at 80; the model (and taffy: `vh c07 probe`) puts it at 70. *)
Definition w_auto_items : list Item :=
  [wi 20 20 20 20 0 None 0 0 0 0 false false 20; wi 20 20 20 20 0 None 0 0 0 0 true false 20].
Theorem C07_gap_dropped_with_auto_margins_refuted :
  (forall c, In c w_auto_items -> aprem c) /\
  let items' := distribute_remaining_free_space w_auto_items (fq 10) (fq 100) None false in
  let pos := line_positions (fq 0) false (combine items' [fq 20; fq 20]) in
  exists a b, combine (combine items' [fq 20; fq 20]) pos = [a; b] /\ ~ sepR 10 a b /\ map val pos = [0; 70].
Proof.
  split.
  - intros c [<-|[<-|[]]]; unfold aprem; cbn; repeat split; qdec.
  - vm_compute. do 2 eexists. split; [reflexivity|]. split; [|reflexivity]. intro H. vm_compute in H. apply H. reflexivity.
Qed.

(* the statement of C07_order_no_overlap is false by design once a relative inset is present (it is added to the location
   but not to the accumulator): the premise `inset = 0` cannot be dropped.  Two 20-wide items, the first shifted by 30.
   The property text does not exclude relatively positioned items, so this is a restriction of the DOMAIN of
   C07_order_no_overlap (and of the oracle, whose generator produces no relative insets); the witness is replayed on the
   implementation by `vh c07 probe` on every run (evidence key inset_witness: x = 30 and x = 20, as here). *)
Definition w_inset_items : list Item :=
  [mkItem (fq 20) (fq 20) (fq 20) (fq 20) (fq 0) None (fq 0) (fq 0) (fq 0) (fq 0) false false (fq 30)
          false (fq 20) (fq 20) (fq 0) (fq 0);
   wi 20 20 20 20 0 None 0 0 0 0 false false 20].
Theorem C07_inset_refuted :
  let items' := distribute_remaining_free_space w_inset_items (fq 0) (fq 100) None false in
  let pos := line_positions (fq 0) false (combine items' [fq 20; fq 20]) in
  exists a b, combine (combine items' [fq 20; fq 20]) pos = [a; b] /\ ~ sepR 0 a b.
Proof.
  vm_compute. do 2 eexists. split; [reflexivity|]. intro H. vm_compute in H. apply H. reflexivity.
Qed.

(* FINDING F-C07-pbfloor (a corner of the property that taffy violates): step 4d of the loop floors the clamped
   border-box target at 0 instead of padding+border, while the item is then laid out at max(target, padding+border).
   Whole-container model (Model/FlexRun.v, the function the correspondence check runs over F32), row 100 wide:
   A = {flex-basis 100, shrink 1}, B = {flex-basis 50, shrink 1, min 5, max 10, padding-start 20}.
   The loop balances the line with B = 10 (A = 90), B is laid out 20 wide: the line is over-filled (110 > 100) although
   A (shrink factor 1, inner basis 100) is far above its minimum 0. *)
Definition w_pb_container : Container XQ :=
  mkContainer false None (fq 100) (fq 40) (fq 0) (fq 0) (fq 0) (fq 0) (fq 0) (fq 0) (fq 0) (fq 0) (fq 0).
Definition w_pb_styles : list (ItemStyle XQ) :=
  [mkStyle (Some (fq 100)) None None None (fq 0) (fq 1) false (fq 0) false (fq 0) (fq 0) (fq 0) (fq 0) (fq 0) (fq 0);
   mkStyle (Some (fq 50)) None (Some (fq 5)) (Some (fq 10)) (fq 0) (fq 1) false (fq 0) false (fq 0) (fq 20) (fq 0) (fq 0) (fq 0) (fq 0)].
Theorem C07_exhausted_laid_out_sizes_refuted :
  exists cm cc la sa lb sb,
    layout_flex_container w_pb_container w_pb_styles = Some (cm, cc, [(la, sa); (lb, sb)]) /\
    val cm == 100 /\ val sa == 90 /\ val sb == 20 /\ val cm < val sa + val sb /\ 0 < val sa.
Proof.
  vm_compute. do 6 eexists. split; [reflexivity|]. vm_compute. repeat split; intro; discriminate.
Qed.

(* ---------------------------------------------------------------------------------------------- non-vacuity *)
(* growing, three rounds: A hits its max 10 (negative total violation), then C its min 50 (positive), then B takes the rest *)
Definition ex_grow_items : list Item :=
  [wi 0 0 0 0 0 (Some 10%Z) 1 1 0 0 false false 0; wi 0 0 0 0 0 None 1 1 0 0 false false 0; wi 0 0 50 50 50 None 1 1 0 0 false false 0].
Example C07_example_grow :
  (forall c, In c ex_grow_items -> exh_prem c /\ grow_ok c) /\
  val (sum_axis_gaps (fq 0) (zlen ex_grow_items)) + qsum qho ex_grow_items < 100 /\
  option_map (map (fun c => (val (fi_target c), fi_frozen c))) (resolve_flexible_lengths ex_grow_items (fq 0) (Some (fq 100)))
    = Some [(10, true); (40, true); (50, true)].
Proof.
  split; [|split].
  - intros c [<-|[<-|[<-|[]]]]; unfold exh_prem, grow_ok, item_fin; cbn; repeat split; try qdec; first [left; qdec | right; qdec].
  - vm_compute. reflexivity.
  - vm_compute. reflexivity.
Qed.

(* shrinking with scaled factors: 80 (min 70, shrink 1) and 60 (shrink 2) in 100 with a gap of 10 *)
Definition ex_shrink_items : list Item :=
  [wi 80 80 80 80 70 None 0 1 0 0 false false 0; wi 60 60 60 60 0 None 0 2 0 0 false false 0].
Example C07_example_shrink :
  (forall c, In c ex_shrink_items -> exh_prem c /\ shrink_ok c) /\
  100 < val (sum_axis_gaps (fq 10) (zlen ex_shrink_items)) + qsum qho ex_shrink_items /\
  option_map (map (fun c => (Qred (val (fi_target c)), fi_frozen c))) (resolve_flexible_lengths ex_shrink_items (fq 10) (Some (fq 100)))
    = Some [(70, true); (20, true)].
Proof.
  split; [|split].
  - intros c [<-|[<-|[]]]; unfold exh_prem, shrink_ok, item_fin; cbn; repeat split; try qdec; first [left; qdec | right; qdec].
  - vm_compute. reflexivity.
  - vm_compute. reflexivity.
Qed.

(* order: three items, space-evenly, reversed *)
Definition ex_order_items : list Item :=
  [wi 10 10 10 10 0 None 0 0 1 2 false false 13; wi 20 20 20 20 0 None 0 0 0 0 false false 20; wi 30 30 30 30 0 None 0 0 3 0 false false 33].
Example C07_example_order :
  (forall c, In c ex_order_items -> oprem c) /\
  map (fun x => Qred (val x))
      (line_positions (fq 0) true (combine (distribute_remaining_free_space ex_order_items (fq 5) (fq 100) (Some AC_SpaceEvenly) true)
                                           [fq 10; fq 20; fq 30]))
    = [82; 50; 9].
Proof.
  split.
  - intros c [<-|[<-|[<-|[]]]]; unfold oprem; cbn; repeat split; qdec.
  - vm_compute. reflexivity.
Qed.


(* ---------------------------------------------------------------------------------------------------------------------
   Computed instances of the premises (audit, wave 5c) *)

(* C07_lines_fit / _greedy / _tests_any_num: lines of 2, 2 and 1 items; the container's max size overrides MaxContent *)
Example C07_example_lines :
  lines_available (Some (fq 100)) (Some (fq 30)) (@MaxContent XQ) = Definite (fq 100) /\
  collect_flex_lines (fun x : XQ => x) true (Some (fq 100)) (Some (fq 30)) MaxContent (fq 10) [fq 40; fq 40; fq 45; fq 45; fq 40]
  = [[fq 40; fq 40]; [fq 45; fq 45]; [fq 40]].
Proof. vm_compute. split; reflexivity. Qed.
(* C07_wrap_single_line_when_fits *)
Example C07_example_wrap_fits :
  lines_available None None (Definite (fq 100)) = Definite (fq 100) /\
  qsum (fun c => val ((fun x : XQ => x) c)) [fq 40; fq 50] + val (sum_axis_gaps (fq 10) (zlen [fq 40; fq 50])) <= 100 /\
  collect_flex_lines (fun x : XQ => x) true None None (Definite (fq 100)) (fq 10) [fq 40; fq 50] = [[fq 40; fq 50]].
Proof. vm_compute. repeat split; try reflexivity. intro; discriminate. Qed.
(* C07_order_no_overlap_auto_margins: 3 items, gap 5, inner 100, free space 20, two auto margins of 10 each *)
Definition ex_auto_items : list Item :=
  [wi 20 20 20 20 0 None 0 0 1 2 false false 23; wi 30 30 30 30 0 None 0 0 0 3 true false 33; wi 10 10 10 10 0 None 0 0 4 0 false true 14].
Example C07_example_auto_margins :
  (forall c, In c ex_auto_items -> aprem c) /\
  0 < val (sub (fq 100) (add (sum_axis_gaps (fq 5) (zlen ex_auto_items)) (fsum (map fi_outer_target ex_auto_items)))) /\
  (0 < count_auto ex_auto_items)%Z /\
  let items' := distribute_remaining_free_space ex_auto_items (fq 5) (fq 100) (Some AC_Center) false in
  map (fun c => (Qred (val (fi_margin_start c)), Qred (val (fi_margin_end c)))) items' = [(1, 2); (10, 3); (4, 10)] /\
  map (fun x => Qred (val x)) (line_positions (fq 0) false (combine items' [fq 20; fq 30; fq 10])) = [1; 33; 70].
Proof.
  split; [|split; [|split]].
  - intros c [<-|[<-|[<-|[]]]]; unfold aprem; cbn; repeat split; qdec.
  - vm_compute. reflexivity.
  - reflexivity.
  - vm_compute. split; reflexivity.
Qed.
(* C07_every_iteration_freezes: 3 -> 2 -> 1 unfrozen items *)
Example C07_example_iteration_freezes :
  let k := mkCtx (fq 0) (Some (fq 100)) (fq 50) (fq 50) true false in
  let items := map (freeze_inflexible false true false) ex_grow_items in
  forallb fi_frozen items = false /\ cnt items = 3%nat /\ cnt (loop_body k items) = 2%nat /\ cnt (loop_body k (loop_body k items)) = 1%nat.
Proof. vm_compute. repeat split; reflexivity. Qed.
(* C07_hyp_is_clamped_basis / C07_exhausted_from_styles_partial: row 120, gap 5; A{basis 80, min 70, shrink 1}
   B{basis 60, max 55, padding 20 (<= max: pb_class through the Some branch), shrink 2} C{basis 10, shrink 0}; two rounds of the
   loop; B ends at 30 >= its padding *)
Definition ex_style_children : list (Child XQ) :=
  [w_leaf 80 (Length (fq 70)) Auto 0 1; w_leaf 60 (Length (fq 0)) (Length (fq 55)) 20 2; w_leaf 10 (Length (fq 0)) Auto 0 0].
Definition ex_k := w_k false 120 5.
Definition ex_style_items := map (fun c => determine_flex_base_size ex_k (w_avail 120) c (child_info ex_k c)) ex_style_children.
Example C07_example_from_styles :
  (forall c, In c ex_style_children -> base_fin ex_k (w_avail 120) c (child_info ex_k c) /\ pb_class ex_k (w_avail 120) c (child_info ex_k c)) /\
  (forall c, In c ex_style_items -> shrink_ok c) /\
  120 < val (sum_axis_gaps (fq 5) (zlen ex_style_items)) + qsum qho ex_style_items /\
  map (fun c => (Qred (qb c), Qred (qib c), Qred (qh c))) ex_style_items = [(80, 80, 80); (60, 40, 55); (10, 10, 10)] /\
  option_map (map (fun c => (Qred (val (fi_target c)), fi_frozen c))) (resolve_flexible_lengths ex_style_items (fq 5) (Some (fq 120)))
    = Some [(70, true); (30, true); (10, true)].
Proof.
  split; [|split; [|split; [|split]]].
  - intros c [<-|[<-|[<-|[]]]]; (split; [unfold base_fin, fin_rect, nonneg_rect; vm_compute; repeat split; try exact I; intro; discriminate
                                         | unfold pb_class; vm_compute; try exact I; left; intro; discriminate]).
  - intros c [<-|[<-|[<-|[]]]]; unfold shrink_ok; vm_compute; repeat split; try (intro; discriminate); first [left; reflexivity | right; intro; discriminate].
  - vm_compute. reflexivity.
  - vm_compute. reflexivity.
  - vm_compute. reflexivity.
Qed.
(* C07_order_no_overlap_lines / C07_main_axis_lines_are_collected_lines: main_axis_lines = Some, lines of 2, 2, 1 *)
Definition ex_wrap_k := w_k true 100 10.
Definition ex_wrap_items : list (Work XQ) :=
  map (fun c => let ci := child_info ex_wrap_k c in mkWork c ci (determine_flex_base_size ex_wrap_k (w_avail 100) c ci)) ex_wrap_children.
Example C07_example_main_axis_lines :
  option_map (map (map (fun w => (Qred (val (fi_target (w_item w))), fi_frozen (w_item w))))) (main_axis_lines ex_wrap_k (w_avail 100) ex_wrap_items)
  = Some [[(40, true); (40, true)]; [(40, true); (40, true)]; [(40, true)]].
Proof. vm_compute. reflexivity. Qed.
(* C07_flex_base_size_cases B and E, C07_aspect_ratio_basis (20 * 3/2 = 30), C07_automatic_minimum third case *)
Definition w_aspect_leaf : Child XQ :=
  mkChild (Leaf.mkStyle DFlex Relative BorderBox (mkPoint Visible Visible) (fq 0)
                        (mkSize Auto (Length (fq 20))) (mkSize Auto Auto) (mkSize Auto Auto) (Some (Fin (3 # 2)))
                        w_zero_rect_lpa (w_rect_lp 0) (w_rect_lp 0))
          Auto (fq 0) (fq 1) None
          (fun inp => mkSize (opt_unwrap_or (width (known_dimensions inp)) (fq 7)) (opt_unwrap_or (height (known_dimensions inp)) (fq 0))).
Definition w_content_leaf : Child XQ :=
  mkChild (Leaf.mkStyle DFlex Relative BorderBox (mkPoint Visible Visible) (fq 0)
                        (mkSize Auto (Length (fq 20))) (mkSize Auto Auto) (mkSize Auto Auto) None
                        w_zero_rect_lpa (w_rect_lp 0) (w_rect_lp 0))
          Auto (fq 0) (fq 1) None
          (fun inp => mkSize (opt_unwrap_or (width (known_dimensions inp)) (fq 7)) (opt_unwrap_or (height (known_dimensions inp)) (fq 0))).
Example C07_example_base_size_cases :
  let k := w_k false 100 0 in
  let avail := w_avail 100 in
  let ca := w_aspect_leaf in let cia := child_info k ca in let ea := base_env k avail ca cia in
  let cc := w_content_leaf in let cic := child_info k cc in let ec := base_env k avail cc cic in
  be_style_basis ea = None /\ option_map (fun x => Qred (val x)) (s_main (k_row k) (ci_size cia)) = Some 30 /\
  Qred (val (flex_base_size k avail ca cia ea)) = 30 /\
  be_style_basis ec = None /\ s_main (k_row k) (ci_size cic) = None /\ Qred (val (flex_base_size k avail cc cic ec)) = 7 /\
  Qred (val (resolved_minimum_main_size k ca cia ea)) = 7 /\ Qred (val (resolved_minimum_main_size k cc cic ec)) = 7.
Proof. vm_compute. repeat split; reflexivity. Qed.

Print Assumptions C07_exhausted_partial.
Print Assumptions C07_effective_bounds.
Print Assumptions C07_loop_terminates.
Print Assumptions C07_every_iteration_freezes.
Print Assumptions C07_order_no_overlap.
Print Assumptions C07_order_no_overlap_auto_margins.
Print Assumptions C07_justify_offsets_spec.
Print Assumptions C07_gap_dropped_with_auto_margins_refuted.
Print Assumptions C07_inset_refuted.
Print Assumptions C07_exhausted_laid_out_sizes_refuted.
Print Assumptions C07_lines_partition.
Print Assumptions C07_lines_fit.
Print Assumptions C07_lines_greedy.
Print Assumptions C07_lines_tests_any_num.
Print Assumptions C07_nowrap_single_line.
Print Assumptions C07_max_content_single_line.
Print Assumptions C07_min_content_one_item_per_line.
Print Assumptions C07_wrap_single_line_when_fits.
Print Assumptions C07_flex_base_size_cases.
Print Assumptions C07_aspect_ratio_basis.
Print Assumptions C07_automatic_minimum.
Print Assumptions C07_hyp_is_clamped_basis.
Print Assumptions C07_hyp_is_clamped_basis_refuted.
Print Assumptions C07_exhausted_from_styles_partial.
Print Assumptions C07_order_no_overlap_lines.
Print Assumptions C07_main_axis_lines_are_collected_lines.
Print Assumptions C07_lines_cross_stacked.
