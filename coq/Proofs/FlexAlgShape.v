(* THE SHAPE OF THE FLEX RESUMPTION (Model/FlexAlg.v `flex_alg`), for every container style, child-style list and input:

     Pre (in-flow children) BL
         ( ComputeSize:           Ret
         | any other run mode:    QSL walk (QSL (absolute children) (QSL (display:none children) Ret)) )

   i.e. measuring queries (ComputeSize) -- and, only if BL = "the container is a row and some child is baseline-aligned", layout
   queries (PerformLayout / ContentSize: calculate_children_base_lines) -- all addressed to in-flow children; then, unless the run mode is
   ComputeSize: one PerformLayout query + one stored layout for each node of `walk`, a list with exactly the in-flow children as members;
   the same for each box-generating absolute child; the canonical hidden query + `Layout::with_order(i)` for each display:none child; Ret.
   No arithmetic fact is used. *)
From Coq Require Import ZArith Bool List Lia.
From TV Require Import Model.Common Model.Leaf Gen.FlexGen Model.Flex Model.FlexLines Model.FlexBase Model.FlexContainer.
From TV Require Import Model.FiltersBase Gen.FiltersGen Model.ItemFilters Model.FlexAlgBase Model.FlexAlgAbs Model.FlexAlg.
From TV Require Import Proofs.FlexAlgStruct.
From TV Require Model.Engine.
Import ListNotations.
Close Scope Z_scope.

Section FlexShape.
  Context {T : Type} `{Num T}.
  Notation Out := (LayoutOutput T).
  Notation Alg := (Engine.Alg (FIn T) Out (FLay T)).
  Notation Ret := (Engine.Ret (FIn T) Out (FLay T)).
  Notation W := (@WItem T).
  Notation FS := (FStyle T).

  (* baseline queries are possible: a row with a baseline-aligned child *)
  Definition flex_BL (s : FS) (st : list FS) : Prop :=
    fs_row s = true /\
    exists sc, In sc st /\ falign_is_baseline (opt_unwrap_or (fs_align_self sc) (container_align_items s)) = true.

  Definition q_layout (_ : nat) (i : FIn T) : Prop := qi_mode i = Engine.PerformLayout.
  Definition q_hidden (_ : nat) (i : FIn T) : Prop := i = hidden_child_input.
  Definition l_any (_ : nat) (_ : FLay T) : Prop := True.
  Definition l_with_order (c : nat) (l : FLay T) : Prop := l = f_with_order c.

  Definition flex_tail (st : list FS) (mode : Engine.RunMode) (a : Alg) : Prop :=
    (mode = Engine.ComputeSize /\ IsRet a) \/
    (mode <> Engine.ComputeSize /\
     exists walk, (forall c, In c walk <-> in_flow_at st c) /\
       QSL q_layout l_any (QSL q_layout l_any (QSLc q_hidden l_with_order IsRet (hidden_nodes st)) (abs_nodes st)) walk a).

  (* what is known of the work items at every point of the algorithm *)
  Definition GoodItems (s : FS) (st : list FS) (ws : list W) : Prop :=
    (forall c, In c (map w_node ws) <-> in_flow_at st c) /\
    Forall (fun kb => snd kb = true ->
                      exists sc, In sc st /\ falign_is_baseline (opt_unwrap_or (fs_align_self sc) (container_align_items s)) = true)
           (map w_key ws).

  Lemma good_keys s st (ws ws' : list W) : map w_key ws' = map w_key ws -> GoodItems s st ws -> GoodItems s st ws'.
  Proof. intros E [A B]. split; [rewrite (keys_nodes ws ws' E); exact A|rewrite E; exact B]. Qed.

  Lemma good_in s st (ws : list W) : GoodItems s st ws -> Forall (fun w => in_flow_at st (w_node w)) ws.
  Proof. intros [A _]. apply Forall_forall. intros w Hw. apply A. apply in_map. exact Hw. Qed.

  Lemma good_baseline s st (ws : list W) w : GoodItems s st ws -> In w ws -> w_baseline_align w = true ->
    exists sc, In sc st /\ falign_is_baseline (opt_unwrap_or (fs_align_self sc) (container_align_items s)) = true.
  Proof.
    intros [_ B] Hw E. rewrite Forall_forall in B. apply (B (w_key w)); [apply in_map; exact Hw|exact E].
  Qed.

  Lemma flex_items_good s k (st : list FS) : GoodItems s st (flex_items k (container_align_items s) st).
  Proof.
    unfold flex_items. rewrite (flex_generate_items_nf (@f_position T) (@f_bgm T)). split.
    - intros c. rewrite map_map. cbn [mk_witem w_node]. rewrite <- item_nodes_iff. unfold item_nodes. reflexivity.
    - rewrite map_map. apply Forall_forall. intros kb Hin. apply in_map_iff in Hin. destruct Hin as [[i sc] [<- Hin]].
      cbn [w_key mk_witem w_node w_baseline_align fst snd]. intros E. exists sc. split; [|exact E].
      unfold in_flow_enum in Hin. apply filter_In in Hin. destruct Hin as [Hin _].
      apply (In_enumerate_from_iff st 0 i sc) in Hin. destruct Hin as [_ Hn]. eapply nth_error_In. exact Hn.
  Qed.

  (* ------------------------------------------------------------------ steps 6 .. end *)

  Lemma flex_after_main_size_shape s st inp k av lens om im (ws : list W) :
    k_row k = fs_row s -> GoodItems s st ws ->
    Pre (in_flow_at st) (flex_BL s st) (flex_tail st (qi_mode inp))
        (flex_after_main_size s (abs_children st) (hidden_flags st) inp k av lens om im ws).
  Proof.
    intros Hrow Hg. unfold flex_after_main_size.
    set (ws1 := per_line lens (fun _ => resolve_line k) ws).
    assert (G1 : GoodItems s st ws1).
    { eapply good_keys; [|exact Hg]. apply map_per_line. intros _ ln. apply keys_resolve_line. }
    apply qmap_pre; [apply key_hyp_cross_upd|apply (good_in s st); exact G1| |].
    { apply Forall_forall. intros w _. apply hyp_cross_asks_modes. }
    intros ws2 E2. assert (G2 : GoodItems s st ws2) by (eapply good_keys; eassumption).
    set (ws3 := per_line lens (fun _ => mark_baseline_line k) ws2).
    assert (G3 : GoodItems s st ws3).
    { eapply good_keys; [|exact G2]. apply map_per_line. intros _ ln. apply keys_mark_baseline_line. }
    assert (M3 : Forall (fun w => w_ask_baseline w = true -> k_row k = true /\ w_baseline_align w = true) ws3).
    { apply Forall_per_line. intros _ ln. apply mark_baseline_line_spec. }
    apply qmap_pre; [apply key_baseline_upd|apply (good_in s st); exact G3| |].
    { apply Forall_forall. intros w Hw. apply baseline_asks_modes. intros Ea.
      rewrite Forall_forall in M3. destruct (M3 w Hw Ea) as [Er Eb]. split; [rewrite <- Hrow; exact Er|].
      eapply good_baseline; eassumption. }
    intros ws4 E4. assert (G4 : GoodItems s st ws4) by (eapply good_keys; eassumption).
    cbv zeta.
    set (cs := handle_align_content_stretch k (qi_known inp) (calc_cross_sizes k (qi_known inp) (regroup lens ws4))).
    set (ws5 := per_line lens (fun i0 => map (used_cross_upd k (nth_or cs i0))) ws4).
    assert (G5 : GoodItems s st ws5).
    { eapply good_keys; [|exact G4]. apply map_per_line. intros i0 ln. apply keys_map_used_cross. }
    set (ws6 := per_line lens (fun _ => distribute_line k im) ws5).
    assert (G6 : GoodItems s st ws6).
    { eapply good_keys; [|exact G5]. apply map_per_line. intros _ ln. apply keys_distribute_line. }
    set (ws7 := per_line lens (fun i0 ln => map (cross_margins_upd k (nth_or cs i0) (max_baseline_of ln)) ln) ws6).
    assert (G7 : GoodItems s st ws7).
    { eapply good_keys; [|exact G6]. apply map_per_line. intros i0 ln. apply keys_map_cross_margins. }
    destruct (container_cross_size k (scrollbar_gutter s) (qi_known inp) cs) as [[outer_cross inner_cross] total].
    apply Pre_tail. unfold flex_tail.
    destruct (qi_mode inp) eqn:Em; cbn [is_compute_size].
    2:{ left. split; [reflexivity|]. eexists. reflexivity. }
    all: right; split; [discriminate|].
    all: match goal with
         | |- context [qsloop wk_node _ _ _ ?wl _ _] => exists (map wk_node wl)
         end.
    all: split;
      [intros c; rewrite final_walk_nodes, concat_regroup; apply G7|].
    all: apply qsloop_qsl; [intros; reflexivity|intros; exact I|].
    all: intros fin; apply (qsloop_qsl (X := nat * FS) fst); [intros; reflexivity|intros; exact I|].
    all: intros ac; apply hidden_pass_qsl; eexists; reflexivity.
  Qed.

  (* ------------------------------------------------------------------ compute_preliminary *)

  Lemma k_row_flex_constants (s : FS) kd ps : k_row (flex_constants s kd ps) = fs_row s.
  Proof. reflexivity. Qed.
  Lemma k_row_with_main_size (s : FS) k om im : k_row (with_main_size s k om im) = k_row k.
  Proof. reflexivity. Qed.

  Lemma flex_preliminary_shape s st inp :
    Pre (in_flow_at st) (flex_BL s st) (flex_tail st (qi_mode inp)) (flex_preliminary s st inp).
  Proof.
    unfold flex_preliminary, flex_core.
    set (k := flex_constants s (qi_known inp) (qi_parent inp)).
    set (av := determine_available_space (qi_known inp) (qi_avail inp) k).
    pose proof (flex_items_good s k st) as G0.
    apply qmap_pre; [apply key_base_upd|apply (good_in s st); exact G0| |].
    { apply Forall_forall. intros w _. apply base_asks_modes. }
    intros ws1 E1. assert (G1 : GoodItems s st ws1) by (eapply good_keys; eassumption).
    cbv zeta.
    destruct (s_main (k_row k) (k_inner k)) as [inner|].
    - apply flex_after_main_size_shape; [apply k_row_flex_constants|exact G1].
    - destruct (main_branch k av) as [a| |].
      + destruct (finish_main_size k (scrollbar_gutter s) _) as [om im].
        apply flex_after_main_size_shape; [rewrite k_row_with_main_size; apply k_row_flex_constants|exact G1].
      + destruct (finish_main_size k (scrollbar_gutter s) _) as [om im].
        apply flex_after_main_size_shape; [rewrite k_row_with_main_size; apply k_row_flex_constants|exact G1].
      + apply qmap_pre; [apply key_intrinsic_upd|apply (good_in s st); exact G1| |].
        { apply Forall_forall. intros w _. apply intrinsic_asks_modes. }
        intros ws2 E2. assert (G2 : GoodItems s st ws2) by (eapply good_keys; eassumption).
        destruct (finish_main_size k (scrollbar_gutter s) _) as [om im].
        apply flex_after_main_size_shape; [rewrite k_row_with_main_size; apply k_row_flex_constants|exact G2].
  Qed.

  (* ------------------------------------------------------------------ compute_flexbox_layout *)

  Theorem flex_alg_shape (s : FS) (st : list FS) (inp : FIn T) :
    Pre (in_flow_at st) (flex_BL s st) (flex_tail st (qi_mode inp)) (flex_alg s st inp).
  Proof.
    unfold flex_alg.
    set (kd := styled_known_dimensions (to_cstyle s) (qi_known inp) (qi_parent inp) (qi_sizing inp)).
    pose proof (flex_preliminary_shape s st
                  (mkFIn (qi_mode inp) (qi_sizing inp) (qi_axis inp) kd (qi_parent inp) (qi_avail inp) (qi_collapsible inp))) as P.
    cbn [qi_mode] in P.
    destruct (is_compute_size (qi_mode inp)) eqn:Ec; [|exact P].
    destruct (width kd); [|exact P]. destruct (height kd); [|exact P].
    apply Pre_tail. left. split; [|eexists; reflexivity].
    destruct (qi_mode inp); try discriminate. reflexivity.
  Qed.
End FlexShape.
