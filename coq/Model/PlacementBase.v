(* Types and CHECKED machine arithmetic shared by the generated placement tables (Gen/PlacementGen.v) and the
   hand-written placement model (Model/Placement.v).

   Every Rust integer is a Z.  An operation that would panic in a debug build (overflow checks on) and wrap in a
   release build returns [Err Overflow]; an explicit panic!/assert!/unwrap on None returns [Err Panic] /
   [Err OutOfBounds]; `as` casts never fail in Rust and are modelled as the exact wrapping conversion. *)
From Coq Require Import ZArith Bool List.
Import ListNotations.
Open Scope Z_scope.

Inductive err := Overflow | OutOfBounds | NegativeExpansion | OutOfFuel | Panic.
Inductive res (A : Type) := Ok (a : A) | Err (e : err).
Arguments Ok {A} a.
Arguments Err {A} e.

Definition bind {A B} (x : res A) (f : A -> res B) : res B :=
  match x with Ok a => f a | Err e => Err e end.
Notation "'do' x <- e ; f" := (bind e (fun x => f)) (at level 200, x name, e at level 100, f at level 200).
Notation "'do' ' p <- e ; f" := (bind e (fun p => f)) (at level 200, p pattern, e at level 100, f at level 200).

(* ranges of the machine types *)
Definition i16_min := -32768.
Definition i16_max := 32767.
Definition u16_max := 65535.
Definition usize_max := 18446744073709551615.

Definition in_i16 (x : Z) : bool := (i16_min <=? x) && (x <=? i16_max).
Definition in_u16 (x : Z) : bool := (0 <=? x) && (x <=? u16_max).
Definition in_usize (x : Z) : bool := (0 <=? x) && (x <=? usize_max).

Definition chk_i16 (x : Z) : res Z := if in_i16 x then Ok x else Err Overflow.
Definition chk_u16 (x : Z) : res Z := if in_u16 x then Ok x else Err Overflow.
Definition chk_usize (x : Z) : res Z := if in_usize x then Ok x else Err Overflow.

Definition i16_add a b := chk_i16 (a + b).
Definition i16_sub a b := chk_i16 (a - b).
Definition i16_neg a := chk_i16 (- a).
Definition u16_add a b := chk_u16 (a + b).
Definition u16_sub a b := chk_u16 (a - b).
Definition usize_add a b := chk_usize (a + b).
Definition usize_mul a b := chk_usize (a * b).

(* `as` casts: exact two's-complement conversions, total *)
Definition u16_as_i16 (x : Z) : Z := if x <? 32768 then x else x - 65536.
Definition i16_as_u16 (x : Z) : Z := x mod 65536.
Definition i16_as_usize (x : Z) : Z := x mod 18446744073709551616.
Definition u16_as_usize (x : Z) : Z := x.
Definition usize_as_i16 (x : Z) : Z := u16_as_i16 (x mod 65536).
Definition usize_as_u16 (x : Z) : Z := x mod 65536.
Definition i16_unsigned_abs (x : Z) : Z := Z.abs x.

(* OriginZeroLine(i16) + u16 / - u16 / += u16  (coordinates.rs: `self.0 + rhs as i16`) *)
Definition ozl_add_u16 (l rhs : Z) : res Z := i16_add l (u16_as_i16 rhs).
Definition ozl_sub_u16 (l rhs : Z) : res Z := i16_sub l (u16_as_i16 rhs).

(* style enums *)
Inductive GP := Auto | Line (l : Z) | Span (s : Z).
Record Ln (A : Type) := mkLn { l_start : A; l_end : A }.
Arguments mkLn {A} l_start l_end.
Arguments l_start {A} l.
Arguments l_end {A} l.

Inductive axis := Horizontal | Vertical.
Definition other_axis (a : axis) : axis := match a with Horizontal => Vertical | Vertical => Horizontal end.
Inductive flow := FRow | FColumn | FRowDense | FColumnDense.
Inductive cell := Unoccupied | DefinitelyPlaced | AutoPlaced.

Definition cell_eqb (a b : cell) : bool :=
  match a, b with
  | Unoccupied, Unoccupied | DefinitelyPlaced, DefinitelyPlaced | AutoPlaced, AutoPlaced => true
  | _, _ => false
  end.

Record TrackCounts := mkTC { tc_neg : Z; tc_explicit : Z; tc_pos : Z }.
