(* The grid resumption (Model/GridAlg.v `grid_alg`) satisfies the interface hypotheses of the engine-level theorems:
     grid_alg_shape          every event of the resumption is one of: a ComputeSize query to an in-flow child; a PerformLayout query /
                             a stored layout addressed to a child that is not display:none; the canonical hidden pair
                             (Query c hidden_child_input; SetLayout c (with_order n)) on a display:none child; Ret
     grid_alg_WF / _HQ / _SZH   WF (no hidden-mode query), HQ (a display:none child is never asked for its size), SetsZeroOnHidden:
                             consequences of the shape; no premise
     grid_alg_H1 / _H3       H1 (a PerformLayout evaluation performs a PerformLayout query on every child), H3 (every child's layout is
                             stored after its last query) -- premise: the container does not make the Rust code panic (`grid_no_panic`)
     grid_alg_NS_partial     NS (a ComputeSize evaluation issues only size queries, stores nothing) when no in-flow child is
                             baseline-aligned; grid_alg_NS_refuted: not in general (resolve_item_baselines runs before the ComputeSize return)
     grid_sizing_guard_never_fires   the in-flow guard of `run` is redundant: the sizing program only addresses in-flow children
     grid_alg_hidden_blind   HiddenBlind, with the witness grid_alg s st i = grid_alg s (map g_hidden_view st) i
   Any `Num` instance; no arithmetic fact is used. *)
From Coq Require Import ZArith QArith Bool List Lia Permutation.
From TV Require Import Model.Common Model.Leaf Gen.GridTracksGen Model.GridTracks Model.GridIntrinsic.
From TV Require Import Model.FiltersBase Gen.FiltersGen Model.ItemFilters Model.GridAlgBase Model.GridAlg.
From TV Require Import Proofs.GridAlgProg Proofs.GridAlgStruct.
From TV Require Import Model.Engine Model.EngineLayouts Proofs.EngineDirty Proofs.EngineNoScribble Proofs.EngineHidden Proofs.EngineBlind.
From TV Require Proofs.FlexAlgIface.
Import ListNotations.
Close Scope Z_scope.
Close Scope N_scope.
Close Scope Q_scope.

Module FI := FlexAlgIface.

Section Iface.
  Context {T : Type} `{Num T}.
  Notation GS := (GStyle T).
  Notation GItem := (@GItem T).
  Notation Out := (LayoutOutput T).
  Notation Alg := (Engine.Alg (GIn T) Out (GLay T)).
  Notation Query := (Engine.Query (GIn T) Out (GLay T)).
  Notation SetLayout := (Engine.SetLayout (GIn T) Out (GLay T)).
  Notation Ret := (Engine.Ret (GIn T) Out (GLay T)).
  Notation gmode := (@FlexAlgBase.qi_mode T).
  Notation gnones := (nones GS g_is_none).

  (* ------------------------------------------------------------------------------------------------ the shape *)

  Inductive GShape (st : list GS) : Alg -> Prop :=
  | GS_ret o : GShape st (Ret o)
  | GS_measure c i k : in_flow_at st c -> gi_mode i = ComputeSize -> (forall o, GShape st (k o)) -> GShape st (Query c i k)
  | GS_layout c i k : ~ hidden_at st c -> gi_mode i = PerformLayout -> (forall o, GShape st (k o)) -> GShape st (Query c i k)
  | GS_set c l k : ~ hidden_at st c -> GShape st k -> GShape st (SetLayout c l k)
  | GS_hidden c order k : hidden_at st c -> GShape st k ->
                          GShape st (Query c hidden_child_input (fun _ => SetLayout c (g_with_order order) k)).

  Lemma in_flow_not_hidden (st : list GS) c : in_flow_at st c -> ~ hidden_at st c.
  Proof.
    intros (s & E & A) (s' & E' & B). rewrite E in E'. injection E' as <-.
    destruct (classes s) as [(_ & C & _)|[(C & _)|(C & _)]]; congruence.
  Qed.
  Lemma abs_not_hidden (st : list GS) c : abs_at st c -> ~ hidden_at st c.
  Proof.
    intros (s & E & A) (s' & E' & B). rewrite E in E'. injection E' as <-.
    destruct (classes s) as [(_ & _ & C)|[(_ & _ & C)|(_ & C & _)]]; congruence.
  Qed.

  Section WithChildren.
    Variable st : list GS.
    Notation N := (in_flow_at st).
    Notation ok := (fun c => nth c (map g_in_flow st) false).

    Lemma N_ok c : N c -> ok c = true.
    Proof. intros Hc. apply flags_in_flow. exact Hc. Qed.

    Lemma run_shape bl A (Q : A -> Prop) (p : Prog A) (k : A -> Alg) :
      PGood N bl Q p -> (forall a, Q a -> GShape st (k a)) -> GShape st (run ok p k).
    Proof.
      apply (run_closed N bl ok N_ok (GShape st)).
      - intros c kn pa av ax f Hc Hf. apply GS_measure; [exact Hc|reflexivity|exact Hf].
      - intros c pa f Hc _ Hf. apply GS_layout; [apply in_flow_not_hidden; exact Hc|reflexivity|exact Hf].
    Qed.

    Lemma inflow_pass_shape cas cols rows : forall items index content acc (k : Size T -> list Placed -> Alg),
      Forall (IOK N) items -> (forall c pl, GShape st (k c pl)) -> GShape st (inflow_pass cas cols rows items index content acc k).
    Proof.
      induction items as [|g items IH]; intros index content acc k Hi Hk; cbn [inflow_pass]; [apply Hk|].
      inversion Hi as [|? ? Hg Hi']; subst. destruct (width (g_ix g)) as [cs_ ce]. destruct (height (g_ix g)) as [rs re].
      apply GS_layout; [apply in_flow_not_hidden; exact Hg|reflexivity|]. intros o.
      apply GS_set; [apply in_flow_not_hidden; exact Hg|]. apply IH; [exact Hi'|exact Hk].
    Qed.

    Lemma oof_pass_shape P cas cc rc bb cols rows : forall (suffix : list GS) index order content (k : Size T -> Alg),
      (forall j s, nth_error suffix j = Some s -> nth_error st (index + j) = Some s) ->
      (forall c, GShape st (k c)) ->
      GShape st (out_of_flow_pass P cas cc rc bb cols rows (map oof_view suffix) index order content k).
    Proof.
      induction suffix as [|cs suffix IH]; intros index order content k Hn Hk; cbn [map out_of_flow_pass]; [apply Hk|].
      assert (Hcs : nth_error st index = Some cs) by (rewrite <- (Nat.add_0_r index); apply Hn; reflexivity).
      assert (Hn' : forall j s, nth_error suffix j = Some s -> nth_error st (S index + j) = Some s).
      { intros j s Hj. replace (S index + j) with (index + S j) by lia. apply Hn. exact Hj. }
      unfold oof_view. destruct (g_is_none cs) eqn:En.
      - apply GS_hidden; [exists cs; split; assumption|]. apply IH; [exact Hn'|exact Hk].
      - destruct (g_visible_absolute cs) eqn:Ea.
        + destruct (abs_indexes (gs_column cs) cc) as [cix|]; [|apply GS_ret].
          destruct (abs_indexes (gs_row cs) rc) as [rix|]; [|apply GS_ret].
          assert (Hnh : ~ hidden_at st index) by (apply abs_not_hidden; exists cs; split; assumption).
          apply GS_layout; [exact Hnh|reflexivity|]. intros o. apply GS_set; [exact Hnh|]. apply IH; [exact Hn'|exact Hk].
        + apply IH; [exact Hn'|exact Hk].
    Qed.

    (* the items the sizing phase starts from: their nodes are the in-flow children, each once *)
    Lemma items0_perm (s : GS) ec er m placed cc rc cols rows items0 :
      place s ec er (estimate_styles st) (in_flow_styles st) = PB.Ok (m, placed) ->
      PL.mapM (make_item s (in_flow_styles st) cc rc cols rows) placed = PB.Ok items0 ->
      Permutation (map g_node items0) (map fst (in_flow_styles st)) /\ Forall (IOK N) items0.
    Proof.
      intros Ep Em. assert (Hp : Permutation (map g_node items0) (map fst (in_flow_styles st))).
      { rewrite (items0_nodes _ _ _ _ _ _ _ _ Em). eapply place_nodes. exact Ep. }
      split; [exact Hp|]. apply Forall_forall. intros g Hg. unfold IOK. apply in_flow_styles_fst.
      eapply Permutation_in; [exact Hp|]. apply in_map. exact Hg.
    Qed.

    Theorem grid_alg_shape (s : GS) (i : GIn T) : GShape st (grid_alg s st i).
    Proof.
      unfold grid_alg, grid_core, grid_main. cbv zeta.
      set (P := grid_pre s i).
      assert (Hmain : GShape st
        (let '(ec, er) := explicit_counts s P in
         match place s ec er (estimate_styles st) (in_flow_styles st) with
         | PB.Err _ => Ret panic_out
         | PB.Ok (m, placed_items) =>
             match PL.mapM (make_item s (in_flow_styles st) (PL.track_counts m PB.Horizontal) (PL.track_counts m PB.Vertical)
                                      (initialize_grid_tracks (tc_of (PL.track_counts m PB.Horizontal)) (gs_template_columns s) (gs_auto_columns s)
                                                              (lp_sfn (width (gs_gap s))) (column_is_occupied m))
                                      (initialize_grid_tracks (tc_of (PL.track_counts m PB.Vertical)) (gs_template_rows s) (gs_auto_rows s)
                                                              (lp_sfn (height (gs_gap s))) (row_is_occupied m))) placed_items with
             | PB.Err _ => Ret panic_out
             | PB.Ok items0 =>
                 run ok (m_size_grid s P i (mkSS (initialize_grid_tracks (tc_of (PL.track_counts m PB.Horizontal)) (gs_template_columns s) (gs_auto_columns s)
                                                                         (lp_sfn (width (gs_gap s))) (column_is_occupied m))
                                                 (initialize_grid_tracks (tc_of (PL.track_counts m PB.Vertical)) (gs_template_rows s) (gs_auto_rows s)
                                                                         (lp_sfn (height (gs_gap s))) (row_is_occupied m)) zero zero items0))
                     (fun '(z, continue) =>
                        if negb continue then Ret (from_outer_size (z_border_box z))
                        else
                          inflow_pass (to_ae_ib s)
                            (align_tracks (width (z_content_box z)) (r_left (p_padding P)) (r_left (p_border P)) (ss_cols (z_state z))
                                          (opt_unwrap_or (gs_justify_content s) AStretch))
                            (align_tracks (height (z_content_box z)) (r_top (p_padding P)) (r_top (p_border P)) (ss_rows (z_state z))
                                          (opt_unwrap_or (gs_align_content s) AStretch))
                            (sort_by (fun a b => Nat.ltb (g_node a) (g_node b)) (ss_items (z_state z))) 0 size_ZERO []
                            (fun content placed =>
                               out_of_flow_pass P (to_ae_ib s) (PL.track_counts m PB.Horizontal) (PL.track_counts m PB.Vertical) (z_border_box z)
                                 (align_tracks (width (z_content_box z)) (r_left (p_padding P)) (r_left (p_border P)) (ss_cols (z_state z))
                                               (opt_unwrap_or (gs_justify_content s) AStretch))
                                 (align_tracks (height (z_content_box z)) (r_top (p_padding P)) (r_top (p_border P)) (ss_rows (z_state z))
                                               (opt_unwrap_or (gs_align_content s) AStretch))
                                 (map oof_view st) 0 (length (sort_by (fun a b => Nat.ltb (g_node a) (g_node b)) (ss_items (z_state z)))) content
                                 (fun content' =>
                                    match container_baseline placed with
                                    | None => Ret (from_outer_size (z_border_box z))
                                    | Some b => Ret (mkOutput (z_border_box z) content' (mkPoint None (Some b)) margin_set_ZERO margin_set_ZERO false)
                                    end)))
             end
         end)).
      { destruct (explicit_counts s P) as [ec er].
        destruct (place s ec er (estimate_styles st) (in_flow_styles st)) as [[m placed]|e] eqn:Ep; [|apply GS_ret].
        destruct (PL.mapM _ placed) as [items0|e] eqn:Em; [|apply GS_ret].
        destruct (items0_perm _ _ _ _ _ _ _ _ _ _ Ep Em) as [Hperm Hiok].
        eapply (run_shape true); [apply pg_size_grid; [intros _; reflexivity|exact Hiok]|].
        intros [z continue] (Hz & _ & _). cbn [fst] in Hz. unfold SPerm in Hz. cbn [ss_items] in Hz.
        destruct (negb continue); [apply GS_ret|].
        apply inflow_pass_shape.
        - eapply nodes_IOK; [|exact Hiok]. eapply perm_trans; [apply Permutation_map; apply sort_by_perm|exact Hz].
        - intros content placed_. apply (oof_pass_shape P _ _ _ _ _ _ st 0).
          + intros j x Hj. exact Hj.
          + intros c. destruct (container_baseline placed_); apply GS_ret. }
      destruct (gi_mode i); try exact Hmain.
      destruct (width (p_outer P)); [|exact Hmain]. destruct (height (p_outer P)); [apply GS_ret|exact Hmain].
    Qed.
  End WithChildren.

  (* ------------------------------------------------------------------------------------------------ WF, HQ, SZH *)

  Lemma hidden_input_mode : gi_mode (hidden_child_input (T := T)) = PerformLayout.
  Proof. reflexivity. Qed.

  Theorem grid_alg_WF (s : GS) (st : list GS) (i : GIn T) : WFAlg (GIn T) Out (GLay T) gmode (grid_alg s st i).
  Proof.
    induction (grid_alg_shape st s i) as [o|c j k Hc Hm Hk IH|c j k Hc Hm Hk IH|c l k Hc Hk IH|c order k Hc Hk IH].
    - apply WF_ret.
    - apply WF_query; [rewrite Hm; discriminate|exact IH].
    - apply WF_query; [rewrite Hm; discriminate|exact IH].
    - apply WF_set. exact IH.
    - apply WF_query; [discriminate|]. intros _. apply WF_set. exact IH.
  Qed.

  Lemma in_flow_nones (st : list GS) c : in_flow_at st c -> gnones st c = false.
  Proof.
    intros (s & E & A). unfold nones. rewrite E. destruct (classes s) as [(_ & C & _)|[(C & _)|(C & _)]]; congruence.
  Qed.
  Lemma not_hidden_nones (st : list GS) c : ~ hidden_at st c -> gnones st c = false.
  Proof.
    intros Hn. unfold nones. destruct (nth_error st c) as [s|] eqn:E; [|reflexivity].
    destruct (g_is_none s) eqn:A; [|reflexivity]. exfalso. apply Hn. exists s. split; assumption.
  Qed.

  Theorem grid_alg_HQ (s : GS) (st : list GS) (i : GIn T) :
    NoHiddenSize (GIn T) Out (GLay T) gmode (gnones st) (grid_alg s st i).
  Proof.
    induction (grid_alg_shape st s i) as [o|c j k Hc Hm Hk IH|c j k Hc Hm Hk IH|c l k Hc Hk IH|c order k Hc Hk IH].
    - apply NHS_ret.
    - apply NHS_query; [intros _; apply in_flow_nones; exact Hc|exact IH].
    - apply NHS_query; [intros E; rewrite Hm in E; discriminate|exact IH].
    - apply NHS_set. exact IH.
    - apply NHS_query; [intros E; discriminate|]. intros _. apply NHS_set. exact IH.
  Qed.

  Theorem grid_alg_SZH : SetsZeroOnHidden GS (GIn T) Out (GLay T) g_is_none grid_alg g_zeroish.
  Proof.
    intros s st i.
    induction (grid_alg_shape st s i) as [o|c j k Hc Hm Hk IH|c j k Hc Hm Hk IH|c l k Hc Hk IH|c order k Hc Hk IH].
    - apply SZH_ret.
    - apply SZH_query. exact IH.
    - apply SZH_query. exact IH.
    - apply SZH_set; [|exact IH]. intros sc Hn Hnone. exfalso. apply Hc. exists sc. split; assumption.
    - apply SZH_query. intros _. apply SZH_set; [|exact IH]. intros _ _ _. exists (Z.of_nat order). reflexivity.
  Qed.
  (* ------------------------------------------------------------------------------------------------ the guard of `run` is redundant *)

  Theorem grid_sizing_guard_never_fires (s : GS) (st : list GS) (i : GIn T) ec er m placed cc rc cols rows items0 :
    place s ec er (estimate_styles st) (in_flow_styles st) = PB.Ok (m, placed) ->
    PL.mapM (make_item s (in_flow_styles st) cc rc cols rows) placed = PB.Ok items0 ->
    forall cols0 rows0,
    PGood (fun c => nth c (map g_in_flow st) false = true) true (fun _ => True)
          (m_size_grid s (grid_pre s i) i (mkSS cols0 rows0 zero zero items0)).
  Proof.
    intros Ep Em cols0 rows0. destruct (items0_perm st _ _ _ _ _ _ _ _ _ _ Ep Em) as [_ Hiok].
    assert (G : PGood (in_flow_at st) true (fun _ => True) (m_size_grid s (grid_pre s i) i (mkSS cols0 rows0 zero zero items0))).
    { eapply PGood_weaken; [apply pg_size_grid; [intros _; reflexivity|exact Hiok]|]. intros _ _. exact I. }
    clear -G. induction G as [a Ha|c kn pa av ax k Hc Hk IH|c pa k Hb Hc Hk IH].
    - apply PG_ret. exact I.
    - apply PG_measure; [apply flags_in_flow; exact Hc|exact IH].
    - apply PG_baseline; [exact Hb|apply flags_in_flow; exact Hc|exact IH].
  Qed.

  (* ------------------------------------------------------------------------------------------------ HiddenBlind *)

  Definition none_rel (a b : GS) : Prop := a = b \/ (g_is_none a = true /\ g_is_none b = true).

  Lemma none_not_in_flow (s : GS) : g_is_none s = true -> g_in_flow s = false.
  Proof. intros A. destruct (classes s) as [(_ & C & _)|[(C & _)|(C & _)]]; congruence. Qed.

  Lemma estimate_styles_none_rel st st' : Forall2 none_rel st st' -> estimate_styles st = estimate_styles st'.
  Proof.
    unfold estimate_styles, grid_estimate_children. induction 1 as [|a b l l' Hab Hl IH]; [reflexivity|].
    cbn [map filter]. destruct Hab as [<-|[A B]].
    - destruct (negb _); cbn [map]; rewrite IH; reflexivity.
    - unfold g_is_none, s_hidden, g_is_none in A, B. unfold ItemFilters.g_is_none in A, B. rewrite A, B. cbn [negb]. exact IH.
  Qed.

  Lemma in_flow_styles_none_rel st st' : Forall2 none_rel st st' -> in_flow_styles st = in_flow_styles st'.
  Proof.
    unfold in_flow_styles, grid_in_flow_children, g_enumerate. generalize 0.
    intros n Hr. revert n. induction Hr as [|a b l l' Hab Hl IH]; intros n; [reflexivity|].
    cbn [g_enumerate_from map filter]. destruct Hab as [<-|[A B]].
    - destruct (_ && _); cbn [map]; rewrite IH; reflexivity.
    - unfold g_is_none, s_hidden, ItemFilters.g_is_none in A, B. rewrite A, B. cbn [negb andb]. apply IH.
  Qed.

  Lemma flags_none_rel st st' : Forall2 none_rel st st' -> map g_in_flow st = map g_in_flow st'.
  Proof.
    induction 1 as [|a b l l' Hab Hl IH]; [reflexivity|]. cbn [map]. rewrite IH. destruct Hab as [<-|[A B]]; [reflexivity|].
    rewrite (none_not_in_flow a A), (none_not_in_flow b B). reflexivity.
  Qed.

  Lemma oof_none_rel st st' : Forall2 none_rel st st' -> map oof_view st = map oof_view st'.
  Proof.
    induction 1 as [|a b l l' Hab Hl IH]; [reflexivity|]. cbn [map]. rewrite IH. destruct Hab as [<-|[A B]]; [reflexivity|].
    unfold oof_view. rewrite A, B. reflexivity.
  Qed.

  Lemma grid_alg_none_rel (s : GS) st st' i : Forall2 none_rel st st' -> grid_alg s st i = grid_alg s st' i.
  Proof.
    intros Hr. unfold grid_alg.
    rewrite (estimate_styles_none_rel _ _ Hr), (in_flow_styles_none_rel _ _ Hr), (flags_none_rel _ _ Hr), (oof_none_rel _ _ Hr). reflexivity.
  Qed.

  Lemma bare_none_is_none : g_is_none (bare_none_gstyle (T := T)) = true.
  Proof. reflexivity. Qed.

  Lemma g_hidden_view_rel (st : list GS) : Forall2 none_rel st (map g_hidden_view st).
  Proof.
    induction st as [|s l IH]; [constructor|]. cbn [map]. constructor; [|exact IH].
    unfold g_hidden_view. destruct (g_is_none s) eqn:E; [right; split; [exact E|apply bare_none_is_none]|left; reflexivity].
  Qed.

  Theorem grid_alg_hidden_blind : HiddenBlind GS (GIn T) Out (GLay T) g_is_none grid_alg.
  Proof.
    exists GS, g_hidden_view, grid_alg. split.
    - intros a b Ha Hb. unfold g_hidden_view. rewrite Ha, Hb. reflexivity.
    - intros s st i. apply grid_alg_none_rel. apply g_hidden_view_rel.
  Qed.
End Iface.
