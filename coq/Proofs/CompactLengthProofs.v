(* Proofs about the generated bit-level model of CompactLength (Gen/CompactLengthGen.v). *)
From Coq Require Import NArith ZArith Bool List Lia.
From TV Require Import Gen.CompactLengthGen Model.CompactLength.
Import ListNotations.
Open Scope N_scope.

Ltac Zify.zify_post_hook ::= Z.div_mod_to_equations.

Definition B32 : N := 2 ^ 32.
Definition B64 : N := 2 ^ 64.

(* ---------- bit lemmas ---------- *)

Lemma testbit_high_false a n m : a < 2 ^ n -> n <= m -> N.testbit a m = false.
Proof.
  intros Ha Hnm.
  destruct (N.eq_dec a 0) as [->|Hz]; [apply N.bits_0|].
  apply N.bits_above_log2.
  apply N.log2_lt_pow2 in Ha; lia.
Qed.

Lemma land_shiftl_small v t n : t < 2 ^ n -> N.land (N.shiftl v n) t = 0.
Proof.
  intros Ht. apply N.bits_inj_0. intros m.
  rewrite N.land_spec.
  destruct (N.lt_ge_cases m n) as [H|H].
  - rewrite N.shiftl_spec_low by assumption. reflexivity.
  - rewrite (testbit_high_false t n m) by assumption. apply andb_false_r.
Qed.

Lemma lor_disjoint_add a b : N.land a b = 0 -> N.lor a b = a + b.
Proof.
  intros H. rewrite <- N.lxor_lor by assumption. symmetry. apply N.add_nocarry_lxor. assumption.
Qed.

Lemma wrap64_small x : x < B64 -> wrap64 x = x.
Proof.
  intros H. unfold wrap64. rewrite N.land_ones. apply N.mod_small. exact H.
Qed.

Lemma pow32_64 : B32 * B32 = B64. Proof. reflexivity. Qed.

Lemma from_val_arith v t : v < B32 -> t < B32 -> from_val v t = v * B32 + t.
Proof.
  intros Hv Ht. unfold from_val.
  assert (Hs : N.shiftl v 32 = v * B32) by (rewrite N.shiftl_mul_pow2; reflexivity).
  rewrite wrap64_small.
  - rewrite lor_disjoint_add by (apply land_shiftl_small; exact Ht).
    rewrite Hs. reflexivity.
  - rewrite Hs. unfold B64, B32 in *. nia.
Qed.

Lemma tag_arith w : tag w = w mod 256.
Proof. unfold tag, TAG_MASK. change 255 with (N.ones 8). rewrite N.land_ones. reflexivity. Qed.

Lemma calc_tag_arith w : calc_tag w = w mod 8.
Proof. unfold calc_tag, CALC_TAG_MASK. change 7 with (N.ones 3). rewrite N.land_ones. reflexivity. Qed.

Lemma value_arith w : value w = (w / B32) mod B32.
Proof. unfold value. rewrite N.land_ones, N.shiftr_div_pow2. reflexivity. Qed.

Lemma tag_from_val v t : v < B32 -> t < 256 -> tag (from_val v t) = t.
Proof.
  intros Hv Ht. rewrite tag_arith, from_val_arith by (unfold B32 in *; lia).
  unfold B32 in *. change (2 ^ 32) with 4294967296 in *.
  replace (v * 4294967296 + t) with (t + (v * 16777216) * 256) by lia.
  rewrite N.mod_add by discriminate. apply N.mod_small. assumption.
Qed.

Lemma value_from_val v t : v < B32 -> t < 256 -> value (from_val v t) = v.
Proof.
  intros Hv Ht. rewrite value_arith, from_val_arith by (unfold B32 in *; lia).
  unfold B32 in *. change (2 ^ 32) with 4294967296 in *.
  replace (v * 4294967296 + t) with (t + v * 4294967296) by lia.
  rewrite N.div_add by discriminate. rewrite (N.div_small t) by lia. rewrite N.add_0_l.
  apply N.mod_small. assumption.
Qed.

Lemma from_val_lt v t : v < B32 -> t < 256 -> from_val v t < B64.
Proof.
  intros Hv Ht. rewrite from_val_arith by (unfold B32 in *; lia).
  unfold B32, B64 in *. change (2 ^ 32) with 4294967296 in *. change (2 ^ 64) with 18446744073709551616. lia.
Qed.

Lemma from_val_inj v t v' t' :
  v < B32 -> v' < B32 -> t < 256 -> t' < 256 -> from_val v t = from_val v' t' -> v = v' /\ t = t'.
Proof.
  intros Hv Hv' Ht Ht' E.
  split.
  - rewrite <- (value_from_val v t), <- (value_from_val v' t') by assumption. now rewrite E.
  - rewrite <- (tag_from_val v t), <- (tag_from_val v' t') by assumption. now rewrite E.
Qed.

(* kind / build / kind_tag live in Model/CompactLength.v *)
Lemma kind_eqb_eq a b : kind_eqb a b = true <-> a = b.
Proof. destruct a, b; simpl; split; intros H; try reflexivity; try discriminate. Qed.

Lemma all_kinds_complete k : In k all_kinds.
Proof. destruct k; simpl; tauto. Qed.

(* Facts about the *generated* constants, by computation.  If a tag constant in the source changes so that
   two tags collide, exceed one byte, or get a zero calc field, these stop being provable. *)
Lemma tags_nodup : NoDup all_tags.
Proof.
  unfold all_tags.
  repeat (constructor; [simpl; intros F; repeat (destruct F as [F|F]; [vm_compute in F; discriminate|]); exact F|]).
  constructor.
Qed.

Lemma tags_lt_256 : forallb (fun t => N.ltb t 256) all_tags = true.
Proof. vm_compute. reflexivity. Qed.

Lemma noncalc_tags_low3_nonzero : forallb (fun t => negb (N.eqb (N.land t CALC_TAG_MASK) 0)) noncalc_tags = true.
Proof. vm_compute. reflexivity. Qed.

Lemma kind_tag_lt k : kind_tag k < 256.
Proof. destruct k; vm_compute; reflexivity. Qed.

Lemma kind_tag_inj k k' : kind_tag k = kind_tag k' -> k = k'.
Proof. destruct k, k'; vm_compute; intros H; try reflexivity; discriminate. Qed.

Lemma kind_tag_noncalc k : In (kind_tag k) noncalc_tags.
Proof. destruct k; vm_compute; tauto. Qed.

Lemma kind_tag_mod8 k : kind_tag k mod 8 <> 0.
Proof. destruct k; vm_compute; discriminate. Qed.

(* the shape of a built word *)
Lemma build_shape k v :
  v < B32 -> build k v = from_val (if has_value k then v else 0) (kind_tag k).
Proof.
  intros Hv. destruct k; cbn [build has_value kind_tag];
    try reflexivity;
    unfold cl_auto, cl_min_content, cl_max_content, from_tag;
    (rewrite from_val_arith by (vm_compute; reflexivity)); reflexivity.
Qed.

Lemma tag_build k v : v < B32 -> tag (build k v) = kind_tag k.
Proof.
  intros Hv. rewrite build_shape by assumption. apply tag_from_val.
  - destruct (has_value k); [assumption | vm_compute; reflexivity].
  - apply kind_tag_lt.
Qed.

Lemma value_build k v : v < B32 -> has_value k = true -> value (build k v) = v.
Proof.
  intros Hv Hk. rewrite build_shape by assumption. rewrite Hk. apply value_from_val; [assumption|apply kind_tag_lt].
Qed.

Lemma build_lt k v : v < B32 -> build k v < B64.
Proof.
  intros Hv. rewrite build_shape by assumption. apply from_val_lt; [|apply kind_tag_lt].
  destruct (has_value k); [assumption | vm_compute; reflexivity].
Qed.

Lemma build_inj k v k' v' :
  v < B32 -> v' < B32 -> build k v = build k' v' -> k = k' /\ (has_value k = true -> v = v').
Proof.
  intros Hv Hv' E.
  assert (Hk : k = k').
  { apply kind_tag_inj. rewrite <- (tag_build k v), <- (tag_build k' v') by assumption. now rewrite E. }
  subst k'. split; [reflexivity|]. intros Hh.
  rewrite <- (value_build k v), <- (value_build k v') by assumption. now rewrite E.
Qed.

(* ---------- predicates classify exactly ---------- *)


Lemma tag_eqb_build k v t k0 :
  v < B32 -> t = kind_tag k0 -> N.eqb (tag (build k v)) t = kind_eqb k k0.
Proof.
  intros Hv ->. rewrite tag_build by assumption.
  destruct (kind_eqb k k0) eqn:E.
  - apply kind_eqb_eq in E. subst. apply N.eqb_refl.
  - apply N.eqb_neq. intros H. apply kind_tag_inj in H. subst.
    assert (kind_eqb k0 k0 = true) by (apply kind_eqb_eq; reflexivity). congruence.
Qed.

Lemma is_calc_build k v : v < B32 -> cl_is_calc (build k v) = false.
Proof.
  intros Hv. unfold cl_is_calc. apply N.eqb_neq.
  rewrite calc_tag_arith.
  pose proof (tag_build k v Hv) as Ht. rewrite tag_arith in Ht.
  pose proof (kind_tag_mod8 k) as Hm. rewrite <- Ht in Hm.
  intros H. apply Hm.
  assert (E : (build k v mod 256) mod 8 = build k v mod 8).
  { change 256 with (8 * 32). rewrite N.mod_mul_r by discriminate.
    rewrite N.mul_comm, N.mod_add by discriminate. apply N.mod_mod. discriminate. }
  rewrite E. exact H.
Qed.

Ltac tagcase Hv :=
  repeat match goal with
  | |- context [N.eqb (tag (build ?k ?v)) ?t] =>
      first [ rewrite (tag_eqb_build k v t KLength Hv eq_refl)
            | rewrite (tag_eqb_build k v t KPercent Hv eq_refl)
            | rewrite (tag_eqb_build k v t KFr Hv eq_refl)
            | rewrite (tag_eqb_build k v t KFitPx Hv eq_refl)
            | rewrite (tag_eqb_build k v t KFitPct Hv eq_refl)
            | rewrite (tag_eqb_build k v t KAuto Hv eq_refl)
            | rewrite (tag_eqb_build k v t KMinContent Hv eq_refl)
            | rewrite (tag_eqb_build k v t KMaxContent Hv eq_refl) ]
  end.

Lemma kind_exact k v :
  v < B32 ->
  cl_is_length_or_percentage (build k v) = in_kinds k [KLength; KPercent] /\
  cl_is_auto (build k v) = in_kinds k [KAuto] /\
  cl_is_min_content (build k v) = in_kinds k [KMinContent] /\
  cl_is_max_content (build k v) = in_kinds k [KMaxContent] /\
  cl_is_fit_content (build k v) = in_kinds k [KFitPx; KFitPct] /\
  cl_is_max_or_fit_content (build k v) = in_kinds k [KMaxContent; KFitPx; KFitPct] /\
  cl_is_max_content_alike (build k v) = in_kinds k [KAuto; KMaxContent; KFitPx; KFitPct] /\
  cl_is_min_or_max_content (build k v) = in_kinds k [KMinContent; KMaxContent] /\
  cl_is_intrinsic (build k v) = in_kinds k [KAuto; KMinContent; KMaxContent; KFitPx; KFitPct] /\
  cl_is_fr (build k v) = in_kinds k [KFr] /\
  cl_uses_percentage (build k v) = in_kinds k [KPercent; KFitPct] /\
  cl_is_calc (build k v) = false.
Proof.
  intros Hv.
  unfold cl_is_length_or_percentage, cl_is_auto, cl_is_min_content, cl_is_max_content, cl_is_fit_content,
    cl_is_max_or_fit_content, cl_is_max_content_alike, cl_is_min_or_max_content, cl_is_intrinsic, cl_is_fr,
    cl_uses_percentage.
  rewrite (is_calc_build k v Hv).
  tagcase Hv.
  unfold in_kinds; cbn [existsb].
  repeat split; rewrite ?orb_false_r; reflexivity.
Qed.

Lemma is_zero_build k v : v < B32 -> cl_is_zero (build k v) = (kind_eqb k KLength && N.eqb v 0)%bool.
Proof.
  intros Hv. unfold cl_is_zero. change cl_ZERO with (build KLength 0).
  destruct (N.eqb (build k v) (build KLength 0)) eqn:E.
  - apply N.eqb_eq in E. apply build_inj in E; [|assumption|vm_compute; reflexivity].
    destruct E as [-> Hx]. rewrite (Hx eq_refl). reflexivity.
  - symmetry. apply andb_false_iff.
    destruct (kind_eqb k KLength) eqn:Ek; [|left; reflexivity]. right.
    apply kind_eqb_eq in Ek. subst k. apply N.eqb_neq. intros ->. rewrite N.eqb_refl in E. discriminate.
Qed.

(* ---------- calc handles ---------- *)

Lemma calc_ok p :
  0 < p -> p < B64 -> p mod 8 = 0 ->
  exists w, cl_calc p = Some w /\ cl_is_calc w = true /\ cl_calc_value w = p /\ w < B64.
Proof.
  intros Hp Hlt Hm. unfold cl_calc.
  assert (E1 : N.eqb p 0 = false) by (apply N.eqb_neq; lia).
  assert (E2 : N.land p 7 = 0) by (change 7 with (N.ones 3); rewrite N.land_ones; exact Hm).
  rewrite E1, E2. cbn [negb andb N.eqb].
  assert (Ew : from_ptr p CALC_TAG = p).
  { unfold from_ptr, tag_ptr, CALC_TAG. apply N.lor_0_r. }
  exists (from_ptr p CALC_TAG). rewrite Ew. repeat split; try assumption.
  unfold cl_is_calc. rewrite calc_tag_arith, Hm. reflexivity.
Qed.

Lemma calc_rejects p : p = 0 \/ p mod 8 <> 0 -> cl_calc p = None.
Proof.
  intros [->|H]; [reflexivity|]. unfold cl_calc.
  assert (E2 : N.eqb (N.land p 7) 0 = false).
  { apply N.eqb_neq. change 7 with (N.ones 3). rewrite N.land_ones. exact H. }
  rewrite E2. rewrite andb_false_r. reflexivity.
Qed.

Lemma calc_disjoint p w k v : cl_calc p = Some w -> v < B32 -> w <> build k v.
Proof.
  intros Hc Hv E. subst w.
  unfold cl_calc in Hc.
  destruct (negb (N.eqb p 0) && N.eqb (N.land p 7) 0)%bool eqn:G; [|discriminate].
  apply andb_true_iff in G. destruct G as [_ G]. apply N.eqb_eq in G.
  injection Hc as Hc.
  assert (Ew : from_ptr p CALC_TAG = p) by (unfold from_ptr, tag_ptr, CALC_TAG; apply N.lor_0_r).
  rewrite Ew in Hc.
  pose proof (is_calc_build k v Hv) as Hn. rewrite <- Hc in Hn.
  unfold cl_is_calc, calc_tag, CALC_TAG_MASK in Hn. rewrite G in Hn. discriminate.
Qed.

Lemma calc_tag_not_a_tag p w : cl_calc p = Some w -> ~ In (tag w) noncalc_tags.
Proof.
  intros Hc Hin.
  unfold cl_calc in Hc.
  destruct (negb (N.eqb p 0) && N.eqb (N.land p 7) 0)%bool eqn:G; [|discriminate].
  apply andb_true_iff in G. destruct G as [_ G]. apply N.eqb_eq in G.
  injection Hc as Hc.
  assert (Ew : from_ptr p CALC_TAG = p) by (unfold from_ptr, tag_ptr, CALC_TAG; apply N.lor_0_r).
  rewrite Ew in Hc. subst w.
  pose proof noncalc_tags_low3_nonzero as Hf. rewrite forallb_forall in Hf.
  specialize (Hf _ Hin). apply negb_true_iff, N.eqb_neq in Hf. apply Hf.
  unfold tag, TAG_MASK, CALC_TAG_MASK.
  rewrite <- N.land_assoc. change (N.land 255 7) with 7. exact G.
Qed.

(* ---------- fit_content(lp) keeps the value and maps the tag ---------- *)

Lemma fit_content_length v : v < B32 -> cl_fit_content (build KLength v) = Some (build KFitPx v).
Proof.
  intros Hv. unfold cl_fit_content.
  rewrite (tag_eqb_build KLength v LENGTH_TAG KLength Hv eq_refl). cbn [kind_eqb].
  rewrite (value_build KLength v Hv eq_refl). reflexivity.
Qed.

Lemma fit_content_percent v : v < B32 -> cl_fit_content (build KPercent v) = Some (build KFitPct v).
Proof.
  intros Hv. unfold cl_fit_content.
  rewrite (tag_eqb_build KPercent v LENGTH_TAG KLength Hv eq_refl).
  rewrite (tag_eqb_build KPercent v PERCENT_TAG KPercent Hv eq_refl). cbn [kind_eqb].
  rewrite (value_build KPercent v Hv eq_refl). reflexivity.
Qed.
