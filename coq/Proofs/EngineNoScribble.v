(* The positive counterpart of C01_layouts_refuted_for_scribbling_algorithms: for algorithms that do NOT write layouts while
   only being asked for a size (NoScribble), a ComputeSize evaluation leaves every stored layout of the subtree untouched
   (on trees without display:none nodes; hidden layout zeroes layouts in every run mode). taffy's block algorithm violates
   NoScribble: the harness counts the offending set_unrounded_layout calls on every traced pass. *)
From Coq Require Import List Bool Arith Lia.
From TV Require Import Model.Engine Proofs.EngineMemo.
Import ListNotations.

Section NoScribble.
  Variables (S In Out Lay : Type).
  Variable mode : In -> RunMode.
  Variable in_eqb : In -> In -> bool.
  Variable is_none : S -> bool.
  Variable hidden_out : Out.
  Variable zero_lay : Lay.
  Variable algo : S -> list S -> In -> Alg In Out Lay.

  Notation tree := (tree S In Out Lay).
  Notation Node := (Node S In Out Lay).
  Notation Alg := (Alg In Out Lay).
  Notation memo := (memo S In Out Lay mode in_eqb is_none hidden_out zero_lay algo).
  Notation run_memo := (run_memo S In Out Lay).

  (* an algorithm evaluated in ComputeSize mode issues only ComputeSize queries and stores no layout *)
  Inductive SizeOnly : Alg -> Prop :=
  | SO_ret o : SizeOnly (Ret In Out Lay o)
  | SO_query c i k : mode i = ComputeSize -> (forall o, SizeOnly (k o)) -> SizeOnly (Query In Out Lay c i k).
  Hypothesis NS : forall s st i, mode i = ComputeSize -> SizeOnly (algo s st i).

  (* the stored layouts of a tree *)
  Inductive lt := LNode (l : Lay) (kids : list lt).
  Fixpoint lays (t : tree) : lt := match t with Engine.Node _ _ _ _ _ _ l kids => LNode l (map lays kids) end.

  Inductive NoNone : tree -> Prop :=
  | NN s c l kids : is_none s = false -> Forall NoNone kids -> NoNone (Node s c l kids).

  Definition ev_pure (ev : tree -> In -> option (Out * tree)) : Prop :=
    forall t i o t', mode i = ComputeSize -> NoNone t -> ev t i = Some (o, t') -> lays t' = lays t /\ NoNone t'.

  Lemma run_memo_pure ev : ev_pure ev ->
    forall a kids o kids', SizeOnly a -> Forall NoNone kids -> run_memo ev kids a = Some (o, kids') ->
      map lays kids' = map lays kids /\ Forall NoNone kids'.
  Proof.
    intros Hev a. induction a as [o0|c i k IH|c l k IH]; intros kids o kids' HS HN H; cbn in H.
    - injection H as <- <-. split; [reflexivity|exact HN].
    - inversion HS as [|c0 i0 k0 Hm Hk]; subst.
      destruct (nth_error kids c) as [t|] eqn:En; [|discriminate].
      destruct (ev t i) as [[o1 t1]|] eqn:Ee; [|discriminate].
      assert (HNt : NoNone t) by (rewrite Forall_forall in HN; apply HN; eapply nth_error_In; eauto).
      destruct (Hev _ _ _ _ Hm HNt Ee) as [El HN1].
      assert (HN' : Forall NoNone (replace_nth c t1 kids)) by (apply Forall_replace_nth; assumption).
      destruct (IH o1 _ _ _ (Hk o1) HN' H) as [E2 HN2].
      split; [|exact HN2]. rewrite E2, map_replace_nth, El. apply replace_nth_same. rewrite nth_error_map, En. reflexivity.
    - inversion HS.
  Qed.

  Theorem size_query_writes_no_layout : forall f, ev_pure (memo f).
  Proof.
    induction f as [|f IH]; intros t i o t' Hm HN H; [discriminate|].
    destruct t as [s c l kids]. cbn [Engine.memo] in H. rewrite Hm in H.
    inversion HN as [s0 c0 l0 k0 Hs Hk]; subst.
    destruct (cget In Out mode in_eqb c i) as [o1|].
    - injection H as <- <-. split; [reflexivity|exact HN].
    - rewrite Hs in H.
      destruct (run_memo (memo f) kids (algo s (map (style_of S In Out Lay) kids) i)) as [[o1 kids1]|] eqn:Er; [|discriminate].
      injection H as <- <-.
      destruct (run_memo_pure _ IH _ _ _ _ (NS s _ i Hm) Hk Er) as [E HN1].
      split; [cbn; f_equal; exact E | constructor; assumption].
  Qed.
End NoScribble.
