(* The complete engine with the real cache (Model/TaffyEngineReal.v): the facts that make the generic theorems of Proofs/EngineReal.v
   premise-free for it.
     taffy_mcalls_le_1       one evaluation of a node calls the measure function at most once (a node with children: never; a childless
                             node: the log of Leaf.compute_leaf_layout has at most one entry)
     trl_memo_acct           the accounting invariant for every evaluation;  trl_pass_acct: for a whole compute_layout
     t_projection_laws       from_outer_size keeps the size *)
From Coq Require Import ZArith NArith Bool List Lia.
From TV Require Import Num.Num.
From TV Require Import Model.Common Model.Leaf Model.FlexAlgBase Model.BlockFlexEngine Model.TaffyEngine Model.TaffyRoot.
From TV Require Model.Cache Model.Engine.
From TV Require Import Model.EngineReal Model.TaffyEngineReal Proofs.EngineReal.
Import ListNotations.

Section TaffyReal.
  Context {T : Type} `{Num T}.

  Lemma taffy_leaf_mcalls_le_1 (s : TStyle T) (i : FIn T) : (taffy_leaf_mcalls s i <= 1)%N.
  Proof.
    unfold taffy_leaf_mcalls, compute_leaf_layout.
    destruct (leaf_early _ _); [cbn; lia|].
    destruct (leaf_measure_known _); cbn; lia.
  Qed.

  Lemma taffy_mcalls_le_1 (s : TStyle T) kids i : (taffy_mcalls s kids i <= 1)%N.
  Proof. unfold taffy_mcalls. destruct kids; [apply taffy_leaf_mcalls_le_1|lia]. Qed.

  Lemma tosize_from_outer (s : Cache.size T) : tosize (t_from_outer s) = s.
  Proof. destruct s. reflexivity. Qed.

  (* the ghost test `t_is_outer` only accepts outputs that from_outer_size reproduces from their size, when `teq` is an exact equality *)
  Lemma t_is_outer_spec (teq : T -> T -> bool) (Hteq : forall a b, teq a b = true -> a = b) (o : LayoutOutput T) :
    t_is_outer teq o = true -> t_from_outer (tosize o) = o.
  Proof.
    unfold t_is_outer, t_from_outer, tosize. destruct o as [[sw sh] [cw ch] [bx by_] [tp tn] [bp bn] ct]. cbn.
    rewrite !andb_true_iff. intros [[[[[[[A B] C] D] E] F] G] I].
    apply Hteq in A, B, D, E, F, G. subst.
    destruct bx; [discriminate|]. destruct by_; [discriminate|]. destruct ct; [discriminate|].
    reflexivity.
  Qed.

  Theorem trl_memo_acct teq f (t : @trtree T) i o t' :
    Forall acct (gcounts _ _ _ t) -> trl_memo teq f t i = Some (o, t') -> Forall acct (gcounts _ _ _ t').
  Proof.
    intros HA Hm. apply GAll_counts. apply GAll_counts in HA.
    eapply gmemo_acct; [|exact HA|exact Hm]. intros. apply taffy_mcalls_le_1.
  Qed.

  Lemma tcounts_reset_acct (t : @trtree T) : Forall acct (gcounts _ _ _ (greset _ _ _ t)).
  Proof. apply GAll_counts. apply GAll_reset. Qed.

  Lemma tcounts_set_lay (t : @trtree T) l : gcounts _ _ _ (gset_lay _ _ _ t l) = gcounts _ _ _ t.
  Proof. destruct t. reflexivity. Qed.

  (* one compute_layout: the counters of the pass *)
  Theorem trl_pass_acct teq f (t : @trtree T) avail t' :
    trl_compute_root teq f (greset _ _ _ t) avail = Some t' -> Forall acct (gcounts _ _ _ t').
  Proof.
    unfold trl_compute_root. destruct (trl_memo _ _ _ _) as [[o t1]|] eqn:E; [|discriminate].
    intros E'. injection E' as <-. rewrite tcounts_set_lay. eapply trl_memo_acct; [|exact E]. apply tcounts_reset_acct.
  Qed.
End TaffyReal.
