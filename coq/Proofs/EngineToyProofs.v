(* The toy instance satisfies the hypotheses of the engine theorems (non-vacuity), and a concrete history
   with a display:none node, a mutation and two layout passes is well-formed. *)
From Coq Require Import List Bool Arith NArith Lia.
From TV Require Import Model.Engine Model.EngineToy Proofs.EngineMemo Proofs.EngineDirty Proofs.EngineHistory.
Import ListNotations.

Lemma mode_eqb_eq a b : mode_eqb a b = true -> a = b.
Proof. destruct a, b; cbn; intros H; try reflexivity; discriminate. Qed.

Lemma t_in_eqb_eq a b : t_in_eqb a b = true -> a = b.
Proof.
  destruct a as [m n], b as [m' n']. unfold t_in_eqb. cbn. intros H.
  apply andb_true_iff in H. destruct H as [H1 H2]. apply mode_eqb_eq in H1. apply N.eqb_eq in H2. congruence.
Qed.

Lemma t_in_eqb_refl a : t_in_eqb a a = true.
Proof. destruct a as [m n]. unfold t_in_eqb. cbn. rewrite N.eqb_refl. destruct m; reflexivity. Qed.

Lemma qall_WF st : forall k i acc, t_mode i <> PerformHiddenLayout -> WFAlg TIn TOut TLay t_mode (qall st k i acc).
Proof.
  induction st as [|s st IH]; intros k i acc Hm; cbn.
  - constructor.
  - constructor.
    + destruct (t_is_none s); [cbn; discriminate|exact Hm].
    + intros o. constructor. apply IH. exact Hm.
Qed.

(* hidden-mode inputs never reach an algorithm (memo short-circuits them), but WF is stated for every input, so the toy
   returns immediately on them *)
Definition t_algo' (s : TS) (st : list TS) (i : TIn) : Alg TIn TOut TLay :=
  match t_mode i with
  | PerformHiddenLayout => Ret _ _ _ 0%N
  | _ => t_algo s st i
  end.

Lemma t_algo_WF s st i : WFAlg TIn TOut TLay t_mode (t_algo' s st i).
Proof.
  unfold t_algo', t_algo. destruct (t_mode i) eqn:E.
  - apply qall_WF. congruence.
  - apply qall_WF. congruence.
  - constructor.
Qed.

Lemma remove_head_seq k n : remove Nat.eq_dec k (seq k (S n)) = seq (S k) n.
Proof.
  cbn. destruct (Nat.eq_dec k k) as [_|C]; [|congruence].
  apply notin_remove. intros H. apply in_seq in H. lia.
Qed.

Lemma qall_visits st : forall k i acc, t_mode i = PerformLayout ->
  Visits TIn TOut TLay t_mode (seq k (length st)) (qall st k i acc).
Proof.
  induction st as [|s st IH]; intros k i acc Hm.
  - cbn. constructor.
  - cbn [qall length]. constructor. intros o.
    assert (E : t_mode (if t_is_none s then hidden_child_key else i) = PerformLayout) by (destruct (t_is_none s); [reflexivity|exact Hm]).
    rewrite E. rewrite remove_head_seq. constructor. apply IH. exact Hm.
Qed.

Lemma t_algo_H1 s st i : t_mode i = PerformLayout -> Visits TIn TOut TLay t_mode (seq 0 (length st)) (t_algo' s st i).
Proof. intros Hm. unfold t_algo', t_algo. rewrite Hm. apply qall_visits. exact Hm. Qed.

(* a concrete reachable state: root(0) with children 1 (display:none, with a child 3) and 2 *)
Definition ex_tree : ttree :=
  fresh TS TIn TOut TLay 0%N
    (SNode TS (0%N, false) [SNode TS (1%N, true) [SNode TS (3%N, false) []]; SNode TS (2%N, false) []]).
Definition ex_ops : list (op TS TIn TOut TLay) :=
  [OLayout _ _ _ _ 8 (PerformLayout, 5%N);
   OMutate _ _ _ _ [1] (ESetStyle _ _ _ _ (2%N, false));
   OMutate _ _ _ _ [1] (ENone _ _ _ _);
   OLayout _ _ _ _ 8 (PerformLayout, 5%N)].
Definition ex_run := run_ops TS TIn TOut TLay t_mode t_in_eqb t_is_none 0%N 0%N t_algo' ex_tree ex_ops.

Example ex_run_ok : run_ok TS TIn TOut TLay t_mode t_in_eqb t_is_none 0%N 0%N t_algo' ex_tree ex_ops.
Proof. cbn. repeat split; reflexivity. Qed.

(* after the history nothing outside the display:none region is dirty, the hidden node's descendant is *)
Example ex_flags :
  map (fun t => dirty TS TIn TOut TLay t) (ex_run :: kids_of _ _ _ _ ex_run) = [false; false; false].
Proof. vm_compute. reflexivity. Qed.
