(* C17: the DOCUMENTED way of driving the low-level API, as a second dispatcher over the types of Model/Engine.v.

   src/tree/traits.rs (module documentation) and examples/custom_tree_{vec,owned_partial,owned_unsafe}.rs prescribe

       fn compute_child_layout(&mut self, node, inputs) -> LayoutOutput {
           compute_cached_layout(self, node, inputs, |tree, node, inputs| match tree.kind(node) {
               Kind::Flexbox => compute_flexbox_layout(tree, node, inputs),      (* a container function *)
               Kind::Grid    => compute_grid_layout(tree, node, inputs),
               Kind::Text    => compute_leaf_layout(inputs, style, calc, measure),
               ...                                                               (* and, for display:none, *)
               Kind::Hidden  => compute_hidden_layout(tree, node),               (* src/compute/mod.rs l.276-290 *)
           })
       }

   i.e. EVERY query, hidden-mode ones included, goes through compute_cached_layout (cache_get / cache_store, which never
   hit and never store in RunMode::PerformHiddenLayout: src/tree/cache.rs) and then through a dispatch on the node's kind.
   There is no `if inputs.run_mode == PerformHiddenLayout { return compute_hidden_layout(..) }` line in front of the cache
   as in TaffyView::compute_child_layout (taffy_tree.rs l.351-354): that line is modelled by [guard] (inside the closure,
   where a user who follows the pattern would put it); the examples have none ([guard] = fun _ => false).

   compute_hidden_layout(tree, node) = cache_clear(node); set_unrounded_layout(node, ZERO);
                                       for each child: tree.compute_child_layout(child, LayoutInput::HIDDEN); HIDDEN
   so the recursion into the children is the tree's OWN compute_child_layout again ([hide_kids] below), not a fixed
   "zero everything" traversal: what happens below a display:none node depends on what the user's dispatcher does with
   a hidden-mode input.  Definitions only; theorems in Proofs/EngineDoc.v. *)
From Coq Require Import List Bool Arith NArith Lia.
From TV Require Import Model.Engine Model.EngineToy.
Import ListNotations.

Inductive kind := KHidden | KContainer | KLeaf.

Definition is_hidden_mode (m : RunMode) : bool :=
  match m with PerformHiddenLayout => true | _ => false end.

Section EngineDoc.
  Variables (S In Out Lay : Type).
  Variable mode : In -> RunMode.
  Variable in_eqb : In -> In -> bool.
  Variable hidden_out : Out.               (* LayoutOutput::HIDDEN *)
  Variable zero_lay : Lay.                 (* Layout::with_order(0) *)
  Variable hidden_in : In.                 (* LayoutInput::HIDDEN *)
  (* the public building blocks the dispatcher chooses between *)
  Variable calgo : S -> list S -> In -> Alg In Out Lay.   (* compute_{block,flexbox,grid}_layout (chosen by the style) *)
  Variable lalgo : S -> In -> Out.                        (* compute_leaf_layout with the node's measure data *)
  (* the user's dispatcher: node kind from (style, child count), and the optional hidden-mode line *)
  Variable kind_of : S -> nat -> kind.
  Variable guard : In -> bool.

  Notation tree := (tree S In Out Lay).
  Notation Node := (Node S In Out Lay).

  Definition eff_kind (i : In) (s : S) (n : nat) : kind := if guard i then KHidden else kind_of s n.

  (* the loop of compute_hidden_layout: every child receives LayoutInput::HIDDEN through compute_child_layout *)
  Fixpoint hide_kids (ev : tree -> In -> option (Out * tree)) (kids : list tree) : option (list tree) :=
    match kids with
    | [] => Some []
    | k :: r =>
        match ev k hidden_in with
        | Some (_, k') => match hide_kids ev r with Some r' => Some (k' :: r') | None => None end
        | None => None
        end
    end.

  Fixpoint memo_doc (fuel : nat) (t : tree) (i : In) : option (Out * tree) :=
    match fuel with
    | O => None
    | Datatypes.S f =>
        match t with
        | Engine.Node _ _ _ _ s c l kids =>
            match cget In Out mode in_eqb c i with
            | Some o => Some (o, t)
            | None =>
                match eff_kind i s (length kids) with
                | KHidden =>
                    match hide_kids (memo_doc f) kids with
                    | Some kids' => Some (hidden_out, Node s (cstore In Out mode (cempty In Out) i hidden_out) zero_lay kids')
                    | None => None
                    end
                | KContainer =>
                    match run_memo S In Out Lay (memo_doc f) kids (calgo s (map (style_of S In Out Lay) kids) i) with
                    | Some (o, kids') => Some (o, Node s (cstore In Out mode c i o) l kids')
                    | None => None
                    end
                | KLeaf => let o := lalgo s i in Some (o, Node s (cstore In Out mode c i o) l kids)
                end
            end
        end
    end.

  (* ---- TaffyView's dispatch in the same vocabulary (taffy_tree.rs l.375-394) ----
     match (display, has_children) { (None, _) => hidden, (Block|Flex|Grid, true) => container fn, (_, false) => leaf } *)
  Variable is_none : S -> bool.
  Definition kind_taffy (s : S) (n : nat) : kind :=
    if is_none s then KHidden else match n with O => KLeaf | _ => KContainer end.
  (* the [algo] parameter of Engine.memo that this dispatch amounts to *)
  Definition taffy_algo (s : S) (st : list S) (i : In) : Alg In Out Lay :=
    match st with [] => Ret In Out Lay (lalgo s i) | _ => calgo s st i end.
End EngineDoc.

(* ---- toy instance (Model/EngineToy.v) for the worked example of the trap ---- *)
Definition t_lalgo (s : TS) (i : TIn) : TOut :=
  match t_mode i with PerformLayout => fst s | _ => (fst s + 7)%N end.
Definition t_hidden_in : TIn := (PerformHiddenLayout, 0%N).
Definition t_kind : TS -> nat -> kind := kind_taffy TS t_is_none.
Definition t_guard (i : TIn) : bool := is_hidden_mode (t_mode i).

(* TaffyView *)
Definition toy_taffy := memo TS TIn TOut TLay t_mode t_in_eqb t_is_none 0%N 0%N (taffy_algo TS TIn TOut TLay t_algo t_lalgo).
(* the pattern of the examples, with display:none -> compute_hidden_layout added, nothing else *)
Definition toy_literal := memo_doc TS TIn TOut TLay t_mode t_in_eqb 0%N 0%N t_hidden_in t_algo t_lalgo t_kind (fun _ => false).
(* the same plus the hidden-mode line *)
Definition toy_guarded := memo_doc TS TIn TOut TLay t_mode t_in_eqb 0%N 0%N t_hidden_in t_algo t_lalgo t_kind t_guard.

Notation TN := (Node TS TIn TOut TLay).
Definition tleaf (id : N) : ttree := TN (id, false) (cempty TIn TOut) 0%N [].
(* root#0 (flex) > A#1 > B#2 (flex container) > C#3 (leaf); all visible at first *)
Definition trap_tree : ttree :=
  TN (0%N, false) (cempty TIn TOut) 0%N [TN (1%N, false) (cempty TIn TOut) 0%N [TN (2%N, false) (cempty TIn TOut) 0%N [tleaf 3]]].

(* layout; set_style(A, display:none); layout again -- with the given compute_child_layout *)
Definition trap_run (ev : nat -> ttree -> TIn -> option (TOut * ttree)) : option ttree :=
  match ev 8 trap_tree (PerformLayout, 5%N) with
  | Some (_, t1) =>
      let t2 := t_mutate t1 [0] (ESetStyle TS TIn TOut TLay (1%N, true)) in
      match ev 8 t2 (PerformLayout, 5%N) with Some (_, t3) => Some t3 | None => None end
  | None => None
  end.

(* (stored layout, cache is empty) of the node at a path *)
Definition probe (t : option ttree) (p : list nat) : option (TLay * bool) :=
  match t with
  | Some t => match subtree TS TIn TOut TLay t p with
              | Some n => Some (lay_of TS TIn TOut TLay n, t_dirty n)
              | None => None end
  | None => None
  end.
