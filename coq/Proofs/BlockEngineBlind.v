(* C05 / C06 (audit, wave 5c): the blindness theorems for the block algorithm, re-stated for the dispatcher the engine of
   Model/BlockEngine.v actually uses -- `bl_algo`: dispatch on "has children" over nodes that carry a measure function (what
   TaffyView does, and what the C04 / C12 block-engine instances are about) -- instead of a dispatcher on a predicate of the
   node's own style. *)
From Coq Require Import List Bool Arith NArith.
From TV Require Import Num.Num Gen.BlockGen Model.Block Model.BlockAlg Model.BlockEngine Model.Engine.
From TV Require Import Proofs.EngineBlind Proofs.EngineAbs Proofs.BlockAlgBlind.
Import ListNotations.

Lemma bl_algo_hidden_blind (T : Type) (N : Num T) (pre : BStyle T -> BIn T -> BIn T) (abs_child : @AbsChild T) :
  HiddenBlind (BNode T) (BIn T) (ChildOut T) (BLayout T) bn_is_none (bl_algo pre abs_child).
Proof.
  destruct (block_alg_hidden_blind (T := T) pre abs_child) as (V & view & algo' & Hv & Ha).
  exists V, (fun n => view (bn_style n)),
    (fun n vs i => match vs with
                   | [] => Engine.Ret (BIn T) (ChildOut T) (BLayout T) (leaf_out (bn_style n) (bn_measure n) i)
                   | _ => algo' (bn_style n) vs i end).
  split.
  - intros a b Ea Eb. apply Hv; assumption.
  - intros n kids i. unfold bl_algo. destruct kids as [|k r]; [reflexivity|]. rewrite Ha. rewrite map_map. reflexivity.
Qed.

Theorem bl_engine_hidden_invisible :
  forall (T : Type) (N : Num T) (pre : BStyle T -> BIn T -> BIn T) (abs_child : @AbsChild T) k k',
    hsim (BNode T) bn_is_none k k' -> forall f i,
      bl_plain pre abs_child f k i = bl_plain pre abs_child f k' i /\
      orel (BNode T) (BIn T) (ChildOut T) (BLayout T) bn_is_none
           (bl_memo pre abs_child f (bl_fresh k) i) (bl_memo pre abs_child f (bl_fresh k') i).
Proof.
  intros T N pre abs_child k k' Hs f i. split.
  - apply plain_hsim; [apply bl_algo_hidden_blind|exact Hs].
  - apply memo_tsim; [apply bl_algo_hidden_blind|]. apply tsim_fresh. exact Hs.
Qed.

Lemma ABis_ext (In Out Lay : Type) (oeq : Out -> Out -> Prop) (leq : Lay -> Lay -> Prop) (m m' : nat -> bool) :
  (forall c, m c = m' c) -> forall a b, ABis In Out Lay oeq leq m a b -> ABis In Out Lay oeq leq m' a b.
Proof.
  intros E a b H. induction H.
  - apply AB_ret; assumption.
  - apply AB_query; [rewrite <- E; assumption|auto].
  - apply AB_set; [rewrite <- E; assumption|assumption|assumption].
  - apply AB_query_l; [rewrite <- E; assumption|auto].
  - apply AB_query_r; [rewrite <- E; assumption|auto].
  - apply AB_set_l; [rewrite <- E; assumption|assumption].
  - apply AB_set_r; [rewrite <- E; assumption|assumption].
Qed.
Definition bn_visible_absolute {T} (n : BNode T) : bool := bs_visible_absolute (bn_style n).
Lemma bl_algo_abs_blind (T : Type) (N : Num T) (pre : BStyle T -> BIn T -> BIn T) (abs_child : @AbsChild T) :
  AbsChildLocal abs_child ->
  AbsBlind (BNode T) (BIn T) (ChildOut T) (BLayout T) (bl_algo pre abs_child) bn_visible_absolute out_eq lay_eq.
Proof.
  intros Hloc n st st' i Hr. unfold bl_algo.
  assert (Hr' : Forall2 (arel (BStyle T) bs_visible_absolute) (map bn_style st) (map bn_style st')).
  { induction Hr as [|a b l l' Hab _ IH]; cbn; constructor; [|exact IH].
    destruct Hab as [->|[A B]]; [left; reflexivity|right; split; assumption]. }
  destruct Hr as [|a b l l' Hab Hl]; [apply AB_ret; apply out_eq_refl|].
  apply (ABis_ext _ _ _ _ _ (abmask (BStyle T) bs_visible_absolute (map bn_style (a :: l)))).
  - intros c. unfold abmask. rewrite nth_error_map. destruct (nth_error (a :: l) c); reflexivity.
  - apply (block_alg_abs_blind (T := T) pre abs_child Hloc). exact Hr'.
Qed.
