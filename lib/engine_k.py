"""Engine correspondence shared by C01 / C15 / C16: histories of TaffyTree API calls replayed on the Coq engine model
(Model/EngineRun.v), TaffyTree::dirty compared after every call; plus the trace validation of the interface hypotheses
(WF, H1) the engine theorems assume about the layout algorithms."""
from .common import *
from .stages import *


def engine_correspondence(rep, binp, seed, n):
    rc, out = vh(binp, ['eng', 'cases', seed, n], timeout=300)
    if rc != 0:
        rep.add_broken('correspondence', 'vh eng cases', out[-800:])
        return
    cases, impl = parse_cr(out)
    hyp = [l for l in out.split('\n') if l.startswith('HYP ')]
    m = re.search(r'TRACES (\d+) (\d+)', out)
    rep.cov['traces_validated_against_impl'] = int(m.group(1)) if m else 0
    ms = re.search(r'SCRIBBLES (\d+)', out)
    rep.cov['layouts_written_under_a_ComputeSize_query_in_those_traces'] = int(ms.group(1)) if ms else 0
    for h in hyp[:5]:
        rep.add_broken('interface-hypothesis', h.split()[2] if len(h.split()) > 2 else 'H', h)
    try:
        with Lock('coq'):
            rcm, outm, _ = coq_make(['Model/EngineRun.vo'])
        if rcm != 0:
            raise RuntimeError(outm[-1500:])
        model = run_model(rep.pid + 'E', 'From TV Require Import Model.EngineRun.', 'run_case', cases, scope='Z', elem='list Z')
        bad = diff_results(rep, 'dirty flags after every API call: TaffyTree vs Model/Engine.v (mutate/mark_dirty/memo/hide)', cases, impl, model)
    except RuntimeError as ex:
        rep.add_broken('correspondence', 'engine model evaluation', str(ex)[-1500:])
        bad = []
    ops = {}
    names = ['set_style', 'add_child', 'insert_child_at_index', 'remove_child_at_index', 'replace_child_at_index', 'set_children',
             'remove_child+add_child', 'remove', 'set_node_context', 'mark_dirty', 'compute_layout', 'rounding']
    for c in cases:
        n0 = c[0]
        rest = c[1 + 2 * n0:]
        i = 0
        while i < len(rest):
            ln = rest[i]
            ops[names[rest[i + 1]]] = ops.get(names[rest[i + 1]], 0) + 1
            i += ln + 1
    rep.cov['op_histogram'] = ops
    rep.cov['distinct_nontrivial'] = len(set(tuple(c) for c in cases if len(c) > 12))
    rep.cov['samples'] = [{'history_ints': cases[0][:60], 'dirty_flags_after_each_call': impl[0][:60]}]
    return bad
