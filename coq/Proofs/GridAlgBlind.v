(* Absolute blindness of the grid resumption (Model/GridAlg.v `grid_alg`), in the form that is TRUE for grid containers.

   The implicit-grid size estimate reads the grid lines of box-generating absolute children (known finding C06/grid-estimate-absolute),
   so full AbsBlind (ab = "box-generating and position:absolute") is FALSE: grid_alg_abs_blind_refuted.  What holds:

     grid_alg_abs_bis      for every class `ab` of box-generating absolute children: on two child-style lists that agree except at
                           children of the class, where both sides are in the class AND HAVE THE SAME grid_row / grid_column, the two
                           resumptions are bisimilar (ABis of Proofs/EngineAbs.v): the same queries with the same inputs to every other
                           child, answer for answer up to content_size, the same stored layouts up to content_size, outputs equal up to
                           content_size; traffic with children of the class is arbitrary.
                           I.e. the algorithm is blind to EVERYTHING about an absolute child except its placement lines.
     grid_alg_abs_blind_lines   hence AbsBlind holds for ab = "box-generating, absolute, with grid_row = r and grid_column = c", for every
                           r, c (in particular auto / auto): the form the engine theorem C06_abs_blind_engine consumes.
   No arithmetic fact is used; any `Num` instance. *)
From Coq Require Import ZArith QArith Bool List Lia Permutation.
From TV Require Import Num.QNum.
From TV Require Import Model.Common Model.Leaf Gen.GridTracksGen Model.GridTracks Model.GridIntrinsic.
From TV Require Import Model.FiltersBase Gen.FiltersGen Model.ItemFilters Model.GridAlgBase Model.GridAlg.
From TV Require Import Proofs.GridAlgProg Proofs.GridAlgStruct Proofs.GridAlgIface Proofs.GridAlgVisits.
From TV Require Import Model.Engine Proofs.EngineBlind Proofs.EngineAbs Proofs.EngineAbsKey.
Import ListNotations.
Close Scope Z_scope.
Close Scope N_scope.
Close Scope Q_scope.

Section Blind.
  Context {T : Type} `{Num T}.
  Notation GS := (GStyle T).
  Notation GItem := (@GItem T).
  Notation Out := (LayoutOutput T).
  Notation Alg := (Engine.Alg (GIn T) Out (GLay T)).
  Notation Query := (Engine.Query (GIn T) Out (GLay T)).
  Notation SetLayout := (Engine.SetLayout (GIn T) Out (GLay T)).
  Notation Ret := (Engine.Ret (GIn T) Out (GLay T)).
  Notation Bis := (ABis (GIn T) Out (GLay T) gout_eq glay_eq).

  Lemma gout_eq_refl (o : Out) : gout_eq o o.
  Proof. repeat split. Qed.
  Lemma glay_eq_refl (l : GLay T) : glay_eq l l.
  Proof. repeat split. Qed.

  Variable ab : GS -> bool.
  Hypothesis ab_va : forall s, ab s = true -> g_visible_absolute s = true.

  (* styles a grid parent may not distinguish: in the class on both sides, same placement lines *)
  Definition lrel (a b : GS) : Prop :=
    a = b \/ (ab a = true /\ ab b = true /\ gs_row a = gs_row b /\ gs_column a = gs_column b).

  Lemma va_classes (s : GS) : g_visible_absolute s = true -> g_is_none s = false /\ g_in_flow s = false.
  Proof. intros A. destruct (classes s) as [(_ & _ & C)|[(_ & _ & C)|(C1 & C2 & _)]]; [congruence|congruence|split; assumption]. Qed.

  (* ---- the views of two related child lists *)
  Lemma estimate_styles_lrel st st' : Forall2 lrel st st' -> estimate_styles st = estimate_styles st'.
  Proof.
    unfold estimate_styles, grid_estimate_children. induction 1 as [|a b l l' Hab Hl IH]; [reflexivity|].
    cbn [map filter]. destruct Hab as [<-|(A & B & Er & Ec)].
    - destruct (negb _); cbn [map]; rewrite IH; reflexivity.
    - destruct (va_classes a (ab_va a A)) as [A1 _]. destruct (va_classes b (ab_va b B)) as [B1 _].
      unfold g_is_none, s_hidden, ItemFilters.g_is_none in A1, B1. rewrite A1, B1. cbn [negb map]. rewrite IH.
      unfold g_child. rewrite Er, Ec. reflexivity.
  Qed.

  Lemma in_flow_styles_lrel st st' : Forall2 lrel st st' -> in_flow_styles st = in_flow_styles st'.
  Proof.
    unfold in_flow_styles, grid_in_flow_children, g_enumerate. generalize 0.
    intros n Hr. revert n. induction Hr as [|a b l l' Hab Hl IH]; intros n; [reflexivity|].
    cbn [g_enumerate_from map filter]. destruct Hab as [<-|(A & B & _)].
    - destruct (_ && _); cbn [map]; rewrite IH; reflexivity.
    - destruct (va_classes a (ab_va a A)) as [_ A2]. destruct (va_classes b (ab_va b B)) as [_ B2].
      unfold g_in_flow, s_in_flow, s_hidden, s_absolute, ItemFilters.g_is_none, g_is_absolute in A2, B2. rewrite A2, B2. apply IH.
  Qed.

  Lemma flags_lrel st st' : Forall2 lrel st st' -> map g_in_flow st = map g_in_flow st'.
  Proof.
    induction 1 as [|a b l l' Hab Hl IH]; [reflexivity|]. cbn [map]. rewrite IH. destruct Hab as [<-|(A & B & _)]; [reflexivity|].
    destruct (va_classes a (ab_va a A)) as [_ A2]. destruct (va_classes b (ab_va b B)) as [_ B2]. rewrite A2, B2. reflexivity.
  Qed.

  Definition orel (v v' : @OofChild T) : Prop :=
    v = v' \/ exists cs cs', v = OAbs cs /\ v' = OAbs cs' /\ ab cs = true /\ ab cs' = true /\
                              gs_row cs = gs_row cs' /\ gs_column cs = gs_column cs'.

  Lemma oof_lrel st st' : Forall2 lrel st st' -> Forall2 orel (map oof_view st) (map oof_view st').
  Proof.
    induction 1 as [|a b l l' Hab Hl IH]; [constructor|]. cbn [map]. constructor; [|exact IH].
    destruct Hab as [<-|(A & B & Er & Ec)]; [left; reflexivity|]. right. exists a, b.
    destruct (va_classes a (ab_va a A)) as [A1 _]. destruct (va_classes b (ab_va b B)) as [B1 _].
    unfold oof_view. rewrite A1, B1, (ab_va a A), (ab_va b B). repeat split; assumption.
  Qed.

  (* ---- the phases *)
  Section Phases.
    Variable st : list GS.
    Notation m := (abmask GS ab st).
    Notation N := (in_flow_at st).

    Lemma N_mask c : N c -> m c = false.
    Proof.
      intros (s & E & A). unfold abmask. rewrite E. destruct (ab s) eqn:B; [|reflexivity].
      destruct (va_classes s (ab_va s B)) as [_ C]. congruence.
    Qed.

    Lemma run_bis bl ok A (Q : A -> Prop) (p : Prog A) (k k' : A -> Alg) :
      (forall c, N c -> ok c = true) -> PGood N bl Q p -> (forall a, Q a -> Bis m (k a) (k' a)) -> Bis m (run ok p k) (run ok p k').
    Proof.
      intros Hok Hp Hk. induction Hp as [a Ha|c kn pa av ax f Hc Hf IH|c pa f Hbl Hc Hf IH]; cbn [run].
      - apply Hk. exact Ha.
      - rewrite (Hok c Hc). apply AB_query; [apply N_mask; exact Hc|]. intros o o' (Hs & _). rewrite <- Hs. apply IH.
      - rewrite (Hok c Hc). apply AB_query; [apply N_mask; exact Hc|]. intros o o' (Hs & Hb & _). rewrite <- Hs, <- Hb. apply IH.
    Qed.

    Lemma position_layout_rel area cas shim (cs : GS) order (o o' : Out) : gout_eq o o' ->
      glay_eq (position_layout area cas shim cs order o) (position_layout area cas shim cs order o').
    Proof. intros (Hs & _). unfold position_layout. rewrite <- Hs. repeat split. Qed.

    Lemma inflow_pass_bis cas cols rows : forall items index content content' acc (k k' : Size T -> list Placed -> Alg),
      Forall (IOK N) items -> (forall c c' pl, Bis m (k c pl) (k' c' pl)) ->
      Bis m (inflow_pass cas cols rows items index content acc k) (inflow_pass cas cols rows items index content' acc k').
    Proof.
      induction items as [|g items IH]; intros index content content' acc k k' Hi Hk; cbn [inflow_pass]; [apply Hk|].
      inversion Hi as [|? ? Hg Hi']; subst. destruct (width (g_ix g)) as [cs_ ce]. destruct (height (g_ix g)) as [rs re].
      apply AB_query; [apply N_mask; exact Hg|]. intros o o' Ho. cbv zeta.
      pose proof (position_layout_rel (AB.mkRect (track_offset cols (S cs_)) (track_offset cols ce) (track_offset rows (S rs)) (track_offset rows re))
                                      cas (g_shim g) (g_style g) index o o' Ho) as Hl.
      apply AB_set; [apply N_mask; exact Hg|exact Hl|].
      destruct Hl as (_ & Hloc & Hsz & _). rewrite <- Hloc, <- Hsz. apply IH; [exact Hi'|exact Hk].
    Qed.

    Lemma oof_pass_bis P cas cc rc bb cols rows : forall views views', Forall2 orel views views' ->
      forall index order content content' (k k' : Size T -> Alg),
      (forall j, match nth_error views j with
                 | Some OHidden => m (index + j) = false
                 | Some (OAbs cs) => m (index + j) = ab cs
                 | _ => True
                 end) ->
      (forall c c', Bis m (k c) (k' c')) ->
      Bis m (out_of_flow_pass P cas cc rc bb cols rows views index order content k)
            (out_of_flow_pass P cas cc rc bb cols rows views' index order content' k').
    Proof.
      induction 1 as [|v v' views views' Hv Hvs IH]; intros index order content content' k k' Hm Hk; cbn [out_of_flow_pass]; [apply Hk|].
      assert (Hm0 := Hm 0). cbn [nth_error] in Hm0. rewrite Nat.add_0_r in Hm0.
      assert (Hm' : forall j, match nth_error views j with
                              | Some OHidden => m (S index + j) = false
                              | Some (OAbs cs) => m (S index + j) = ab cs
                              | _ => True
                              end).
      { intros j. specialize (Hm (S j)). cbn [nth_error] in Hm. replace (S index + j) with (index + S j) by lia. exact Hm. }
      destruct Hv as [<-|(cs & cs' & -> & -> & A & B & Er & Ec)].
      - destruct v as [|cs|].
        + apply AB_query; [exact Hm0|]. intros _ _ _. apply AB_set; [exact Hm0|apply glay_eq_refl|]. apply IH; [exact Hm'|exact Hk].
        + destruct (abs_indexes (gs_column cs) cc) as [cix|]; [|apply AB_ret; apply gout_eq_refl].
          destruct (abs_indexes (gs_row cs) rc) as [rix|]; [|apply AB_ret; apply gout_eq_refl].
          destruct (ab cs) eqn:Eab.
          * apply AB_query_l; [exact Hm0|]. intros o. apply AB_query_r; [exact Hm0|]. intros o'.
            apply AB_set_l; [exact Hm0|]. apply AB_set_r; [exact Hm0|]. apply IH; [exact Hm'|exact Hk].
          * apply AB_query; [exact Hm0|]. intros o o' Ho. cbv zeta.
            apply AB_set; [exact Hm0|apply position_layout_rel; exact Ho|]. apply IH; [exact Hm'|exact Hk].
        + apply IH; [exact Hm'|exact Hk].
      - rewrite A in Hm0. rewrite <- Er, <- Ec.
        destruct (abs_indexes (gs_column cs) cc) as [cix|]; [|apply AB_ret; apply gout_eq_refl].
        destruct (abs_indexes (gs_row cs) rc) as [rix|]; [|apply AB_ret; apply gout_eq_refl].
        apply AB_query_l; [exact Hm0|]. intros o. apply AB_query_r; [exact Hm0|]. intros o'.
        apply AB_set_l; [exact Hm0|]. apply AB_set_r; [exact Hm0|]. apply IH; [exact Hm'|exact Hk].
    Qed.

    Lemma oof_mask : forall j, match nth_error (map oof_view st) j with
                               | Some OHidden => m (0 + j) = false
                               | Some (OAbs cs) => m (0 + j) = ab cs
                               | _ => True
                               end.
    Proof.
      intros j. cbn [Nat.add]. rewrite nth_error_map. unfold abmask. destruct (nth_error st j) as [s|]; cbn [option_map]; [|exact I].
      destruct (oof_view_cases s) as [(En & Ev)|[(En & Ea & Ev)|(En & Ea & Ev)]]; rewrite Ev; [|reflexivity|exact I].
      destruct (ab s) eqn:B; [|reflexivity]. destruct (va_classes s (ab_va s B)) as [C _]. congruence.
    Qed.

    Theorem grid_alg_abs_bis (s : GS) (st' : list GS) (i : GIn T) :
      Forall2 lrel st st' -> Bis m (grid_alg s st i) (grid_alg s st' i).
    Proof.
      intros Hr. unfold grid_alg.
      rewrite <- (estimate_styles_lrel _ _ Hr), <- (in_flow_styles_lrel _ _ Hr), <- (flags_lrel _ _ Hr).
      pose proof (oof_lrel _ _ Hr) as Hoof. set (oof' := map oof_view st') in *. clearbody oof'.
      unfold grid_core. cbv zeta.
      assert (Hmain : Bis m (grid_main s (grid_pre s i) (estimate_styles st) (in_flow_styles st) (map g_in_flow st) (map oof_view st) i)
                            (grid_main s (grid_pre s i) (estimate_styles st) (in_flow_styles st) (map g_in_flow st) oof' i)).
      { unfold grid_main. cbv zeta. destruct (explicit_counts s (grid_pre s i)) as [ec er].
        destruct (place s ec er (estimate_styles st) (in_flow_styles st)) as [[mx placed]|e] eqn:Ep; [|apply AB_ret; apply gout_eq_refl].
        destruct (PL.mapM _ placed) as [items0|e] eqn:Em0; [|apply AB_ret; apply gout_eq_refl].
        destruct (items0_perm st _ _ _ _ _ _ _ _ _ _ Ep Em0) as [Hperm Hiok].
        eapply (run_bis true); [apply N_ok|apply pg_size_grid; [intros _; reflexivity|exact Hiok]|].
        intros [z continue] (Hz & _ & _). cbn [fst] in Hz. unfold SPerm in Hz. cbn [ss_items] in Hz.
        destruct (negb continue); [apply AB_ret; apply gout_eq_refl|].
        apply inflow_pass_bis.
        - eapply nodes_IOK; [|exact Hiok]. eapply perm_trans; [apply Permutation_map; apply sort_by_perm|exact Hz].
        - intros c c' pl. apply oof_pass_bis; [exact Hoof|exact oof_mask|]. intros d d'.
          destruct (container_baseline pl); apply AB_ret; [repeat split|apply gout_eq_refl]. }
      destruct (gi_mode i); try exact Hmain.
      destruct (width (p_outer (grid_pre s i))); [|exact Hmain]. destruct (height (p_outer (grid_pre s i))); [apply AB_ret; apply gout_eq_refl|exact Hmain].
    Qed.
  End Phases.
End Blind.

(* ------------------------------------------------------------------------------------------------ AbsBlind per class of lines *)

Section Lines.
  Context {T : Type} `{Num T}.
  Notation GS := (GStyle T).
  Notation Out := (LayoutOutput T).

  Definition gp_eqb (a b : PB.GP) : bool :=
    match a, b with
    | PB.Auto, PB.Auto => true
    | PB.Line x, PB.Line y => Z.eqb x y
    | PB.Span x, PB.Span y => Z.eqb x y
    | _, _ => false
    end.
  Definition ln_eqb (a b : PB.Ln PB.GP) : bool := gp_eqb (PB.l_start a) (PB.l_start b) && gp_eqb (PB.l_end a) (PB.l_end b).
  Lemma gp_eqb_eq a b : gp_eqb a b = true -> a = b.
  Proof. destruct a, b; cbn; try discriminate; try reflexivity; intros E; apply Z.eqb_eq in E; congruence. Qed.
  Lemma ln_eqb_eq a b : ln_eqb a b = true -> a = b.
  Proof.
    destruct a as [a1 a2], b as [b1 b2]. unfold ln_eqb. cbn. intros E. apply andb_true_iff in E. destruct E as [E1 E2].
    rewrite (gp_eqb_eq _ _ E1), (gp_eqb_eq _ _ E2). reflexivity.
  Qed.

  Lemma gp_eqb_refl a : gp_eqb a a = true.
  Proof. destruct a; cbn; try reflexivity; apply Z.eqb_refl. Qed.
  Lemma ln_eqb_refl a : ln_eqb a a = true.
  Proof. unfold ln_eqb. rewrite !gp_eqb_refl. reflexivity. Qed.

  (* box-generating, position:absolute, on the lines (r, c) *)
  Definition ab_lines (r c : PB.Ln PB.GP) (s : GS) : bool := g_visible_absolute s && ln_eqb (gs_row s) r && ln_eqb (gs_column s) c.

  Lemma ab_lines_va r c s : ab_lines r c s = true -> g_visible_absolute s = true.
  Proof. unfold ab_lines. intros E. apply andb_true_iff in E. destruct E as [E _]. apply andb_true_iff in E. tauto. Qed.

  Theorem grid_alg_abs_blind_lines (r c : PB.Ln PB.GP) :
    AbsBlind GS (GIn T) Out (GLay T) grid_alg (ab_lines r c) gout_eq glay_eq.
  Proof.
    intros s st st' i Hr. apply (grid_alg_abs_bis (ab_lines r c) (ab_lines_va r c)).
    clear -Hr. induction Hr as [|a b l l' Hab Hl IH]; constructor; [|exact IH].
    destruct Hab as [->|[A B]]; [left; reflexivity|]. right. split; [exact A|]. split; [exact B|].
    unfold ab_lines in A, B. apply andb_true_iff in A, B. destruct A as [A A2], B as [B B2].
    apply andb_true_iff in A, B. destruct A as [_ A1], B as [_ B1].
    rewrite (ln_eqb_eq _ _ A1), (ln_eqb_eq _ _ B1), (ln_eqb_eq _ _ A2), (ln_eqb_eq _ _ B2). split; reflexivity.
  Qed.
End Lines.

(* ------------------------------------------------------------------------------------------------ AbsBlind keyed by the lines *)

Section Keyed.
  Context {T : Type} `{Num T}.
  Notation GS := (GStyle T).
  Notation Out := (LayoutOutput T).

  (* what a grid parent may read of an absolute child's style *)
  Definition g_lines (s : GS) : PB.Ln PB.GP * PB.Ln PB.GP := (gs_row s, gs_column s).

  Theorem grid_alg_abs_blind_keyed :
    AbsBlindK GS (GIn T) Out (GLay T) grid_alg g_visible_absolute (PB.Ln PB.GP * PB.Ln PB.GP) g_lines gout_eq glay_eq.
  Proof.
    intros s st st' i Hr. apply (grid_alg_abs_bis g_visible_absolute (fun _ E => E)).
    clear -Hr. induction Hr as [|a b l l' Hab Hl IH]; constructor; [|exact IH].
    destruct Hab as [->|(A & B & E)]; [left; reflexivity|]. right. unfold g_lines in E. injection E as Er Ec. repeat split; assumption.
  Qed.
End Keyed.

(* ------------------------------------------------------------------------------------------------ full AbsBlind is false *)

(* display:grid; grid-auto-rows: 7px; one child, position:absolute, (a) on grid_row 4 / auto, (b) bare *)
Definition gab_container : GStyle XQ :=
  let d := default_gstyle (T := XQ) DGrid Relative in
  mkGStyle (gs_core d) (gs_inset d) [] [] [] [(SLength (xq 7), SLength (xq 7))] PB.FRow (gs_gap d) None None None None auto_ln auto_ln None None false.
Definition gab_child4 : GStyle XQ := bare_abs_gstyle (PB.mkLn (PB.Line 4) PB.Auto) auto_ln.
Definition gab_child_bare : GStyle XQ := bare_abs_gstyle auto_ln auto_ln.
Definition gab_input (mode : RunMode) : GIn XQ :=
  mkGIn mode InherentSize AxBoth size_NONE size_NONE (mkSize MaxContent MaxContent) (mkLine false false).

Definition ret_height (a : Engine.Alg (GIn XQ) (LayoutOutput XQ) (GLay XQ)) : option XQ :=
  match a with Engine.Ret _ _ _ o => Some (height (out_size o)) | _ => None end.

Theorem grid_alg_abs_blind_refuted :
  (* the two child lists differ only in the style of a box-generating absolute child ... *)
  Forall2 (arel (GStyle XQ) g_visible_absolute) [gab_child4] [gab_child_bare] /\
  (* ... and the resumptions return at once (ComputeSize) with container heights 28 and 7; with no child at all: 0 *)
  ret_height (grid_alg gab_container [gab_child4] (gab_input ComputeSize)) = Some (xq 28) /\
  ret_height (grid_alg gab_container [gab_child_bare] (gab_input ComputeSize)) = Some (xq 7) /\
  ret_height (grid_alg gab_container [] (gab_input ComputeSize)) = Some (xq 0) /\
  ~ ABis (GIn XQ) (LayoutOutput XQ) (GLay XQ) gout_eq glay_eq (abmask (GStyle XQ) g_visible_absolute [gab_child4])
         (grid_alg gab_container [gab_child4] (gab_input ComputeSize)) (grid_alg gab_container [gab_child_bare] (gab_input ComputeSize)) /\
  ~ AbsBlind (GStyle XQ) (GIn XQ) (LayoutOutput XQ) (GLay XQ) grid_alg g_visible_absolute gout_eq glay_eq.
Proof.
  assert (Hrel : Forall2 (arel (GStyle XQ) g_visible_absolute) [gab_child4] [gab_child_bare]).
  { constructor; [right; split; reflexivity|constructor]. }
  assert (Hn : ~ ABis (GIn XQ) (LayoutOutput XQ) (GLay XQ) gout_eq glay_eq (abmask (GStyle XQ) g_visible_absolute [gab_child4])
                      (grid_alg gab_container [gab_child4] (gab_input ComputeSize)) (grid_alg gab_container [gab_child_bare] (gab_input ComputeSize))).
  { intros Hb. vm_compute in Hb. inversion Hb as [o o' Ho| | | | | |]; subst. destruct Ho as (Hs & _). vm_compute in Hs. discriminate. }
  split; [exact Hrel|]. split; [vm_compute; reflexivity|]. split; [vm_compute; reflexivity|]. split; [vm_compute; reflexivity|].
  split; [exact Hn|]. intros HB. apply Hn. apply HB. exact Hrel.
Qed.
