(* Which children the three container algorithms turn into items: classes of child styles, and the instances of the
   GENERATED pipelines (Gen/FiltersGen.v, regenerated from flexbox.rs / block.rs / grid/mod.rs on every run) at the style
   types of the hand-written models (Model/Block.v, Model/Placement.v).  Definitions only; Proofs/ItemFilters.v shows that
   the hand-written filters of those models ARE the generated ones. *)
From Coq Require Import ZArith Bool List.
From TV Require Import Num.Num Gen.BlockGen Model.Block Model.FiltersBase Gen.FiltersGen.
From TV Require Import Model.PlacementBase Gen.PlacementGen Model.Placement.
Import ListNotations.

Definition g_is_absolute (p : GPosition) : bool := GPosition_eqb p Position_Absolute.
Definition g_is_none (b : GBoxGenerationMode) : bool := GBoxGenerationMode_eqb b BoxGenerationMode_None.

Section Classes.
  Context {S : Type}.
  Variable position : S -> GPosition.
  Variable box_generation_mode : S -> GBoxGenerationMode.
  Definition s_hidden (s : S) : bool := g_is_none (box_generation_mode s).                 (* display: none *)
  Definition s_absolute (s : S) : bool := g_is_absolute (position s).                     (* position: absolute *)
  Definition s_in_flow (s : S) : bool := negb (s_hidden s) && negb (s_absolute s).
  Definition s_out_of_flow (s : S) : bool := negb (s_in_flow s).                           (* hidden or absolute *)
  Definition s_visible_absolute (s : S) : bool := negb (s_hidden s) && s_absolute s.

  (* two style assignments to the same children that agree except on children of the class `ig` (on both sides) *)
  Definition agree_except {C : Type} (ig : S -> bool) (style_of style_of' : C -> S) (cs : list C) : Prop :=
    Forall (fun c => style_of c = style_of' c \/ (ig (style_of c) = true /\ ig (style_of' c) = true)) cs.
End Classes.

(* ---- Model/Block.v: BStyle *)
Definition gpos (p : BPosition) : GPosition := match p with PRelative => Position_Relative | PAbsolute => Position_Absolute end.
Definition gdisplay (d : BDisplay) : GDisplay :=
  match d with DBlock => Display_Block | DFlex => Display_Flex | DGrid => Display_Grid | DNone => Display_None end.
Definition bs_position {T} (st : BStyle T) : GPosition := gpos (st_position st).
Definition bs_bgm {T} (st : BStyle T) : GBoxGenerationMode := style_box_generation_mode (gdisplay (st_display st)).

Section BlockItems.
  Context {T : Type} `{Num T}.
  (* generate_item_list through the generated pipeline; the child handle is the style itself *)
  Definition block_items_gen (sts : list (BStyle T)) (node_inner_size : BSize (option T)) : list (Item T) :=
    block_generate_items (fun st => st) bs_position bs_bgm
                         (fun order _ st => generate_item st node_inner_size (Z.of_nat order)) sts.
  (* ... keeping each item's child position in the container's child list (BlockItem.node_id) *)
  Definition block_items_idx (sts : list (BStyle T)) (node_inner_size : BSize (option T)) : list (nat * Item T) :=
    block_generate_items (C := nat * BStyle T) snd bs_position bs_bgm
                         (fun order c st => (fst c, generate_item st node_inner_size (Z.of_nat order))) (g_enumerate sts).
End BlockItems.

(* ---- Model/Placement.v: the three-valued child kind *)
Definition kind_of (p : GPosition) (b : GBoxGenerationMode) : child_kind :=
  match b with
  | BoxGenerationMode_None => Hidden
  | _ => match p with Position_Absolute => Absolute | _ => InFlow end
  end.
Definition kind_position (k : child_kind) : GPosition := match k with Absolute => Position_Absolute | _ => Position_Relative end.
Definition kind_bgm (k : child_kind) : GBoxGenerationMode := match k with Hidden => BoxGenerationMode_None | _ => BoxGenerationMode_Normal end.
