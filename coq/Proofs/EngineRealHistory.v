(* Histories over the cache interface: the invariants GOk / GJ / GB of Proofs/EngineRealDirty.v hold in every state reachable by
   mutators ("edit, then gmark_dirty" at a node without display:none ancestor) and PerformLayout passes, for any lawful cache
   (Proofs/EngineHistory.v `history_inv` without the `Valid` component, which needs the exact key). *)
From Coq Require Import List Bool Arith NArith Lia.
From TV Require Import Num.Num Model.Engine Model.EngineReal Model.EngineForestG
  Proofs.EngineMemo Proofs.EngineDirty Proofs.EngineRealDirty.
Import ListNotations.

Section GHistoryProofs.
  Variables (S In Out Lay : Type).
  Variable mode : In -> RunMode.
  Variable is_none : S -> bool.
  Variable hidden_out : Out.
  Variable zero_lay : Lay.
  Variable algo : S -> list S -> In -> Alg In Out Lay.
  Variable mcalls : S -> list S -> In -> N.
  Variable C : Type.
  Variable cempty : C.
  Variable cget : C -> In -> option Out.
  Variable clossy : C -> In -> bool.
  Variable cstore : C -> In -> Out -> C.
  Variable cclear : C -> C.
  Variable cdirty : C -> bool.
  Variable cfinal : C -> bool.
  Variable Cok : C -> Prop.

  Hypothesis L : cache_laws In Out mode C cempty cget cstore cclear cdirty cfinal Cok.
  Hypothesis WF : forall s st i, WFAlg In Out Lay mode (algo s st i).
  Hypothesis H1 : forall s st i, mode i = PerformLayout -> Visits In Out Lay mode (seq 0 (length st)) (algo s st i).

  Notation tree := (gtree S Lay C).
  Notation GN := (GNode S Lay C).
  Notation gmemo := (gmemo S In Out Lay mode is_none hidden_out zero_lay algo mcalls C cget clossy cstore cclear).
  Notation gcache := (gcache S Lay C).
  Notation gmd := (gmd S Lay C cclear cdirty).
  Notation gupdate := (gupdate S Lay C).
  Notation gapply_edit := (gapply_edit S Lay C).
  Notation gmutate := (gmutate S Lay C cclear cdirty).
  Notation gedit := (gedit S Lay C).
  Notation GOk := (GOk S Lay C Cok).
  Notation GJ := (GJ S Lay is_none C cdirty cfinal).
  Notation GB := (GB S Lay is_none C cdirty cfinal).
  Notation GFull := (GFull S Lay is_none C cdirty cfinal).
  Notation gvisible_path := (gvisible_path S Lay is_none C).
  Notation gop := (gop S In Lay C).
  Notation gstep := (gstep S In Out Lay mode is_none hidden_out zero_lay algo mcalls C cget clossy cstore cclear cdirty).
  Notation grun_ops := (grun_ops S In Out Lay mode is_none hidden_out zero_lay algo mcalls C cget clossy cstore cclear cdirty).

  Definition GInv (t : tree) : Prop := GOk t /\ GJ t /\ GB t.

  (* every cache on the path to p (target included) is dirty *)
  Fixpoint path_dirty (t : tree) (p : list nat) : Prop :=
    match t with
    | GNode _ _ _ _ c _ _ kids =>
        cdirty c = true /\
        match p with
        | [] => True
        | x :: p' => match nth_error kids x with Some ch => path_dirty ch p' | None => True end
        end
    end.

  Lemma replace_replace {A} n (x y t : A) l :
    nth_error l n = Some t -> replace_nth n x (replace_nth n y l) = replace_nth n x l.
  Proof.
    unfold replace_nth. revert l. induction n as [|n IH]; intros [|a l] Hn; cbn in Hn; try discriminate; cbn.
    - reflexivity.
    - f_equal. apply IH. exact Hn.
  Qed.

  (* mark_dirty after an edit = edit after mark_dirty *)
  Lemma gmd_update_comm e : forall p t,
    gmd (gupdate t p (gapply_edit e)) p = (gupdate (fst (gmd t p)) p (gapply_edit e), snd (gmd t p)).
  Proof.
    induction p as [|x p IH]; intros [s c l n kids].
    - cbn. destruct e; reflexivity.
    - cbn [EngineForestG.gupdate EngineReal.gmd].
      destruct (nth_error kids x) as [ch|] eqn:Ex.
      + cbn [EngineReal.gmd]. rewrite (nth_error_replace_same _ _ _ _ Ex). rewrite IH.
        destruct (gmd ch p) as [ch' cont] eqn:Em. cbn [fst snd].
        rewrite (replace_replace _ _ _ _ _ Ex).
        destruct cont; cbn [fst snd EngineForestG.gupdate];
          rewrite (nth_error_replace_same _ _ _ _ Ex), (replace_replace _ _ _ _ _ Ex); reflexivity.
      + cbn [EngineReal.gmd]. rewrite Ex. cbn. rewrite Ex. reflexivity.
  Qed.

  Lemma gvisible_path_update e : forall p t, gvisible_path (gupdate t p (gapply_edit e)) p <-> gvisible_path t p.
  Proof.
    induction p as [|x p IH]; intros [s c l n kids]; [cbn; tauto|].
    cbn [EngineForestG.gupdate]. destruct (nth_error kids x) as [ch|] eqn:Ex.
    - cbn. rewrite (nth_error_replace_same _ _ _ _ Ex), Ex. rewrite IH. tauto.
    - cbn. rewrite Ex. tauto.
  Qed.

  (* mark_dirty keeps the invariants and leaves the whole path dirty *)
  Lemma gmd_inv : forall p t, GInv t -> gvisible_path t p ->
    GInv (fst (gmd t p)) /\ path_dirty (fst (gmd t p)) p /\ snd (gmd t p) = negb (cdirty (gcache t)).
  Proof.
    induction p as [|x p IH]; intros [s c l n kids] (HO & HJ & HB) Hv;
      inversion HO as [? ? ? ? ? HOc HOk]; subst; inversion HJ as [? ? ? ? ? HJl HJk]; subst;
      inversion HB as [? ? ? ? ? HBl HBk]; subst.
    - cbn. pose proof (clear_dirty _ _ _ _ _ _ _ _ _ _ _ L _ HOc) as Hd.
      split; [|split; [split; [exact Hd|exact I]|reflexivity]].
      split; [constructor; [apply (ok_clear _ _ _ _ _ _ _ _ _ _ _ L); exact HOc|exact HOk]|].
      split; constructor; try assumption.
      + intros _ Hf. pose proof (final_not_dirty _ _ _ _ _ _ _ _ _ _ _ L _ Hf). congruence.
      + intros _ Hnd. congruence.
    - cbn in Hv. destruct Hv as [En Hv].
      destruct (nth_error kids x) as [ch|] eqn:Ex; [|contradiction].
      assert (HIc : GInv ch).
      { rewrite Forall_forall in HOk, HJk, HBk. pose proof (nth_error_In _ _ Ex). repeat split; auto. }
      destruct (IH ch HIc Hv) as [(IO & IJ & IB) [IP Ib]].
      cbn [EngineReal.gmd]. rewrite Ex.
      destruct (gmd ch p) as [ch' cont] eqn:Em. cbn [fst snd] in *. subst cont.
      assert (Hroot : cdirty (if negb (cdirty (gcache ch)) then cclear c else c) = true).
      { destruct (cdirty (gcache ch)) eqn:Ee; cbn [negb].
        - destruct (cdirty c) eqn:Ec; [reflexivity|]. exfalso.
          pose proof (HBl En eq_refl) as Hfin. pose proof (HJl En Hfin) as HFk.
          rewrite Forall_forall in HFk. specialize (HFk ch (nth_error_In _ _ Ex)).
          destruct ch as [s1 c1 l1 n1 k1]. cbn in Ee.
          pose proof (GFull_not_dirty _ _ _ _ _ _ _ _ _ _ _ _ _ _ L _ _ _ _ _ HFk). congruence.
        - apply (clear_dirty _ _ _ _ _ _ _ _ _ _ _ L). exact HOc. }
      assert (Hok' : Cok (if negb (cdirty (gcache ch)) then cclear c else c)).
      { destruct (negb (cdirty (gcache ch))); [apply (ok_clear _ _ _ _ _ _ _ _ _ _ _ L)|]; exact HOc. }
      assert (E : (if negb (cdirty (gcache ch))
                   then (GN s (cclear c) l n (replace_nth x ch' kids), negb (cdirty c))
                   else (GN s c l n (replace_nth x ch' kids), false))
                  = (GN s (if negb (cdirty (gcache ch)) then cclear c else c) l n (replace_nth x ch' kids), negb (cdirty c))).
      { destruct (cdirty (gcache ch)) eqn:Ee; cbn [negb]; [|reflexivity].
        cbn [negb] in Hroot. rewrite Hroot. reflexivity. }
      rewrite E. cbn [fst snd]. split; [|split; [|reflexivity]].
      + split; [constructor; [exact Hok'|apply Forall_replace_nth; assumption]|].
        split; constructor; try (apply Forall_replace_nth; assumption).
        * intros _ Hf. pose proof (final_not_dirty _ _ _ _ _ _ _ _ _ _ _ L _ Hf). congruence.
        * intros _ Hnd. congruence.
      + cbn. split; [exact Hroot|]. rewrite (nth_error_replace_same _ _ _ _ Ex). exact IP.
  Qed.

  (* an edit at the end of an all-dirty path keeps the invariants *)
  Definition gedit_ok (e : gedit) : Prop :=
    match e with
    | GSetKids _ _ _ ks => Forall GInv ks
    | _ => True
    end.

  Lemma gupdate_inv e : gedit_ok e -> forall p t, GInv t -> path_dirty t p -> GInv (gupdate t p (gapply_edit e)).
  Proof.
    intros He. induction p as [|x p IH]; intros [s c l n kids] (HO & HJ & HB) Hp;
      inversion HO as [? ? ? ? ? HOc HOk]; subst; inversion HJ as [? ? ? ? ? HJl HJk]; subst;
      inversion HB as [? ? ? ? ? HBl HBk]; subst; cbn in Hp; destruct Hp as [Hd Hp].
    - assert (Hnf : cfinal c = true -> False).
      { intros Hf. pose proof (final_not_dirty _ _ _ _ _ _ _ _ _ _ _ L _ Hf). congruence. }
      cbn [EngineForestG.gupdate]. destruct e as [s'|ks|]; cbn [EngineForestG.gapply_edit].
      + split; [constructor; assumption|]. split; constructor; try assumption; intros; try congruence; try (exfalso; auto; fail).
      + cbn in He.
        assert (H1' : Forall GOk ks) by (eapply Forall_impl; [|exact He]; intros a (A1 & A2 & A3); assumption).
        assert (H2' : Forall GJ ks) by (eapply Forall_impl; [|exact He]; intros a (A1 & A2 & A3); assumption).
        assert (H3' : Forall GB ks) by (eapply Forall_impl; [|exact He]; intros a (A1 & A2 & A3); assumption).
        split; [constructor; assumption|]. split; constructor; try assumption; intros; try congruence; try (exfalso; auto; fail).
      + repeat split; assumption.
    - cbn [EngineForestG.gupdate]. destruct (nth_error kids x) as [ch|] eqn:Ex; [|repeat split; assumption].
      assert (HIc : GInv ch).
      { rewrite Forall_forall in HOk, HJk, HBk. pose proof (nth_error_In _ _ Ex). repeat split; auto. }
      destruct (IH ch HIc Hp) as (IO & IJ & IB).
      split; [constructor; [exact HOc|apply Forall_replace_nth; assumption]|].
      split; constructor; try (apply Forall_replace_nth; assumption).
      + intros _ Hf. pose proof (final_not_dirty _ _ _ _ _ _ _ _ _ _ _ L _ Hf). congruence.
      + intros _ Hnd. congruence.
  Qed.

  Lemma path_dirty_some : forall p t, path_dirty t p -> True. Proof. auto. Qed.

  Theorem gmutate_inv t p e : GInv t -> gvisible_path t p -> gedit_ok e -> GInv (gmutate t p e).
  Proof.
    intros HI Hv He. unfold EngineForestG.gmutate, EngineReal.gmark_dirty. rewrite gmd_update_comm. cbn [fst].
    destruct (gmd_inv p t HI Hv) as [HI' [HP _]]. apply gupdate_inv; assumption.
  Qed.

  (* ---------- histories ---------- *)
  Definition gop_ok (t : tree) (o : gop) : Prop :=
    match o with
    | GOMutate _ _ _ _ p e => gvisible_path t p /\ gedit_ok e
    | GOLayout _ _ _ _ f i => mode i = PerformLayout
    end.

  Fixpoint grun_ok (t : tree) (ops : list gop) : Prop :=
    match ops with
    | [] => True
    | o :: r => gop_ok t o /\ grun_ok (gstep t o) r
    end.

  Lemma gstep_inv t o : GInv t -> gop_ok t o -> GInv (gstep t o).
  Proof.
    intros HI Hok. destruct o as [p e|f i]; cbn in *.
    - destruct Hok as [Hv He]. apply gmutate_inv; assumption.
    - destruct (gmemo f t i) as [[o t']|] eqn:Em; [|exact HI].
      destruct HI as (HO & HJ & HB).
      destruct (gpass_clean S In Out Lay mode is_none hidden_out zero_lay algo mcalls C cempty cget clossy cstore cclear cdirty cfinal Cok
                  L WF H1 f _ _ _ _ Hok HO HJ HB Em) as [_ HI'].
      exact HI'.
  Qed.

  Theorem ghistory_inv : forall ops t, GInv t -> grun_ok t ops -> GInv (grun_ops t ops).
  Proof.
    induction ops as [|o r IH]; intros t HI Hok; [exact HI|].
    destruct Hok as [Ho Hr]. cbn. apply IH; [apply gstep_inv; assumption|exact Hr].
  Qed.
End GHistoryProofs.
