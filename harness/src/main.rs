//! vh -- verification harness: runs the real taffy on generated cases and prints integer-only result lines.
//! Output protocol: one line per case, `C <fields...>` (inputs) followed by `R <fields...>` (implementation results);
//! all fields are decimal integers so the model side (Coq, N/Z) can be diffed without any float formatting.
mod rng;
mod c18;
mod f32ops;
mod treegen;
mod c03;
mod hist;
mod c01;
mod eng;
mod engev;
mod c15;
mod c14;
mod c02;
mod c13;
mod c19;
mod c11;
mod c08;
mod c05;
mod c09;
mod c10;
mod c07;
mod c17;
mod c12;
mod c04;
mod gridalg;
mod flexalg;
mod blocktree;
mod taffytree;

fn main() {
    let args: Vec<String> = std::env::args().collect();
    if args.len() < 2 {
        eprintln!("usage: vh <prop> <cmd> [args]");
        std::process::exit(2);
    }
    let rest = &args[2..];
    match args[1].as_str() {
        "c18" => c18::main(rest),
        "f32" => f32ops::main(rest),
        "c03" => c03::main(rest),
        "c01" => c01::main(rest),
        "eng" => eng::main(rest),
        "engev" => engev::main(rest),
        "c15" => c15::main15(rest),
        "c16" => c15::main16(rest),
        "c14" => c14::main(rest),
        "c02" => c02::main(rest),
        "c13" => c13::main(rest),
        "c19" => c19::main(rest),
        "c11" => c11::main(rest),
        "c08" => c08::main(rest),
        "c05" => c05::main05(rest),
        "c06" => c05::main06(rest),
        "c09" => c09::main(rest),
        "c10" => c10::main(rest),
        "c07" => c07::main(rest),
        "c17" => c17::main(rest),
        "c12" => c12::main(rest),
        "c04" => c04::main(rest),
        "gridalg" => gridalg::main(rest),
        "flexalg" => flexalg::main(rest),
        "blocktree" => blocktree::main(rest),
        "taffytree" => taffytree::main(rest),
        other => {
            eprintln!("unknown property {other}");
            std::process::exit(2);
        }
    }
}
