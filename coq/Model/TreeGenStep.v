(* C14 -- `step` / `run` of Model/Tree.v rebuilt from the method bodies that translator/gen_tree.py translates from
   src/tree/taffy_tree.rs on every run (Gen/TreeBodiesGen.v).  10 of the 13 operations dispatch to a translated body;
   new_leaf_with_context, clear and set_node_context are not translated and still dispatch to the hand model.
   Definitions only. *)
From Coq Require Import NArith List Bool.
From TV Require Import Model.Tree Model.TreeImp Gen.TreeBodiesGen.
Import ListNotations.

Definition gen_step (t : tree) (o : op) : res (tree * ret) :=
  match o with
  | ONewLeaf => gen_new_leaf t
  | ONewLeafCtx c => new_leaf_with_context t c                  (* hand model *)
  | ONewWithChildren cs => gen_new_with_children t cs
  | OAddChild p c => gen_add_child t p c
  | OInsertChild p i c => gen_insert_child_at_index t p i c
  | OSetChildren p cs => gen_set_children t p cs
  | ORemoveChild p c => gen_remove_child t p c
  | ORemoveChildAt p i => gen_remove_child_at_index t p i
  | ORemoveRange p a b => gen_remove_children_range t p a b
  | OReplaceChildAt p i c => gen_replace_child_at_index t p i c
  | ORemove n => gen_remove t n
  | OClear => clear t                                           (* hand model *)
  | OSetCtx n c => set_node_context t n c                       (* hand model *)
  end.

Definition gen_run (t : tree) (os : list op) : res (tree * list ret) :=
  fold_left (fun acc o => x <- acc ;; y <- gen_step (fst x) o ;; Ok (fst y, snd x ++ [snd y])) os (Ok (t, [])).
