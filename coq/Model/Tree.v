(* C14 -- executable model of the structural part of TaffyTree (src/tree/taffy_tree.rs) and of the slotmap
   crate semantics it relies on (slotmap-1.x src/basic.rs, src/secondary.rs).  Definitions only; the proofs are in
   Proofs/TreeProofs.v, the runner used by the correspondence check in Model/TreeRun.v.

   Conventions
   * A slot-map key (DefaultKey / NodeId) is (idx, version); NodeId raw = (version << 32) | idx (KeyData::as_ffi).
     KeyData::new forces the version odd; the decoder in TreeRun.v does the same.
   * idx / free_head / num_elems are `nat` (they index `list`s; they stay tiny), versions and user supplied
     child indices are `N` (a child index may be usize::MAX).
   * Rust code that may panic returns `res`: `Ok x` or `Panic` (unwrap on None, SlotMap index of a dead key,
     Vec::drain with a bad range).  A panic ends the history (state is not observed afterwards).
   * TaffyResult<T> is `ret`: ROk-like values or `RErr parent child_index child_count`
     (TaffyError::ChildIndexOutOfBounds; the other TaffyError variants are never constructed by these methods).
   * NodeData is reduced to `has_context : bool`; style, layouts and the cache are not structural.
     `mark_dirty(n)` is therefore `nodes[n]` (panics on a dead key) and nothing else: all caches are empty as long
     as no layout is computed (Cache::new().is_empty = true, Cache::clear returns AlreadyEmpty, the recursion of
     mark_dirty_recursive stops at the first node).
   Not modelled: "SlotMap is full" panic (2^32 slots), allocation failure. *)
From Coq Require Import NArith List Bool Arith.
Import ListNotations.

Set Implicit Arguments.

(* ------------------------------------------------------------------ panics *)
Inductive res (A : Type) : Type := Ok (a : A) | Panic.
Arguments Ok {A} a.
Arguments Panic {A}.

Definition bind {A B} (r : res A) (f : A -> res B) : res B :=
  match r with Ok a => f a | Panic => Panic end.
Notation "x <- e ;; k" := (bind e (fun x => k)) (at level 61, e at next level, right associativity).
Definition of_opt {A} (o : option A) : res A := match o with Some a => Ok a | None => Panic end.

(* ------------------------------------------------------------------ keys *)
Definition key := (nat * N)%type.
Definition key_eqb (a b : key) : bool := Nat.eqb (fst a) (fst b) && N.eqb (snd a) (snd b).
Definition mem (k : key) (l : list key) : bool := existsb (key_eqb k) l.

(* ------------------------------------------------------------------ Vec helpers *)
Fixpoint upd {A} (l : list A) (i : nat) (x : A) : list A :=
  match l, i with
  | [], _ => []
  | _ :: r, O => x :: r
  | a :: r, S j => a :: upd r j x
  end.
(* Vec::insert(i, x), i <= len *)
Definition vec_insert {A} (l : list A) (i : nat) (x : A) : list A := firstn i l ++ x :: skipn i l.
(* Vec::remove(i), i < len *)
Definition vec_remove {A} (l : list A) (i : nat) : list A := firstn i l ++ skipn (S i) l.
(* Vec::drain(a..b), a <= b <= len: what stays *)
Definition vec_drain_rest {A} (l : list A) (a b : nat) : list A := firstn a l ++ skipn b l.
(* Vec::drain(a..b): what is yielded *)
Definition vec_drained {A} (l : list A) (a b : nat) : list A := firstn (b - a) (skipn a l).
(* iter().position(|n| *n == k) *)
Fixpoint position (k : key) (l : list key) : option nat :=
  match l with
  | [] => None
  | x :: r => if key_eqb x k then Some O else option_map S (position k r)
  end.
(* retain(|f| *f != k) *)
Definition retain_ne (k : key) (l : list key) : list key := filter (fun x => negb (key_eqb x k)) l.

(* ------------------------------------------------------------------ slotmap::SlotMap (basic.rs) *)
Definition wrap32 (v : N) : N := N.modulo v (2 ^ 32).     (* u32 wrapping arithmetic *)

Inductive content (V : Type) : Type := Occ (v : V) | Vac (next_free : nat).
Arguments Occ {V} v.
Arguments Vac {V} next_free.
Record slot (V : Type) : Type := mkSlot { s_ver : N; s_cont : content V }.
Record slotmap (V : Type) : Type := mkSM { sm_slots : list (slot V); sm_free : nat; sm_num : nat }.

Section SlotMap.
  Variable V : Type.

  (* with_capacity_and_key: sentinel slot 0, free_head = 1 *)
  Definition sm_new : slotmap V := mkSM [mkSlot 0%N (Vac 0)] 1 0.

  Definition sm_len (m : slotmap V) : nat := sm_num m.

  (* contains_key: slot.version == kd.version *)
  Definition sm_contains (m : slotmap V) (k : key) : bool :=
    match nth_error (sm_slots m) (fst k) with
    | Some s => N.eqb (s_ver s) (snd k)
    | None => false
    end.

  (* get: same test, then the value.  (A vacant slot has an even version and key versions are odd, so the
     `Vac` branch is dead for keys produced by KeyData::new; see sm_inv / parity in the proofs.) *)
  Definition sm_get (m : slotmap V) (k : key) : option V :=
    match nth_error (sm_slots m) (fst k) with
    | Some s => if N.eqb (s_ver s) (snd k) then match s_cont s with Occ v => Some v | Vac _ => None end else None
    | None => None
    end.

  (* Index::index : panics with "invalid SlotMap key used" *)
  Definition sm_index (m : slotmap V) (k : key) : res V := of_opt (sm_get m k).

  (* `m[k] = v` / mutation through IndexMut::index_mut *)
  Definition sm_set (m : slotmap V) (k : key) (v : V) : res (slotmap V) :=
    match sm_get m k with
    | Some _ => Ok (mkSM (upd (sm_slots m) (fst k) (mkSlot (snd k) (Occ v))) (sm_free m) (sm_num m))
    | None => Panic
    end.

  (* try_insert_with_key *)
  Definition sm_insert (m : slotmap V) (v : V) : slotmap V * key :=
    match nth_error (sm_slots m) (sm_free m) with
    | Some s =>
        let occupied_version := N.lor (s_ver s) 1 in
        let next := match s_cont s with Vac n => n | Occ _ => sm_free m end in
        (mkSM (upd (sm_slots m) (sm_free m) (mkSlot occupied_version (Occ v))) next (S (sm_num m)),
         (sm_free m, occupied_version))
    | None =>
        let idx := length (sm_slots m) in
        (mkSM (sm_slots m ++ [mkSlot 1%N (Occ v)]) (S idx) (S (sm_num m)), (idx, 1%N))
    end.

  (* remove_from_slot: only called on occupied slots *)
  Definition sm_remove_from_slot (m : slotmap V) (idx : nat) : slotmap V * option V :=
    match nth_error (sm_slots m) idx with
    | Some s =>
        (mkSM (upd (sm_slots m) idx (mkSlot (wrap32 (s_ver s + 1)) (Vac (sm_free m)))) idx (pred (sm_num m)),
         match s_cont s with Occ v => Some v | Vac _ => None end)
    | None => (m, None)
    end.

  Definition sm_remove (m : slotmap V) (k : key) : slotmap V * option V :=
    if sm_contains m k then sm_remove_from_slot m (fst k) else (m, None).

  (* clear = drain: cur = 1 .. len, every occupied slot is removed from its slot *)
  Definition slot_occupied (s : slot V) : bool := N.odd (s_ver s).
  Definition sm_clear (m : slotmap V) : slotmap V :=
    fold_left (fun acc idx =>
                 match nth_error (sm_slots acc) idx with
                 | Some s => if slot_occupied s then fst (sm_remove_from_slot acc idx) else acc
                 | None => acc
                 end) (seq 1 (length (sm_slots m) - 1)) m.

  (* the live keys, in slot order (used by the abstraction function and by the runner) *)
  Fixpoint slot_keys (l : list (slot V)) (i : nat) : list key :=
    match l with
    | [] => []
    | s :: r => match s_cont s with
                | Occ _ => (i, s_ver s) :: slot_keys r (S i)
                | Vac _ => slot_keys r (S i)
                end
    end.
  Definition sm_keys (m : slotmap V) : list key := slot_keys (sm_slots m) 0.
End SlotMap.

(* for v in l { m[v] = x }  -- panics at the first dead key *)
Fixpoint sm_set_all {V} (m : slotmap V) (l : list key) (x : V) : res (slotmap V) :=
  match l with
  | [] => Ok m
  | k :: r => m' <- sm_set m k x ;; sm_set_all m' r x
  end.

(* ------------------------------------------------------------------ slotmap::SecondaryMap (secondary.rs) *)
(* Slot::Occupied { value, version } | Vacant ; Slot::version() of Vacant is 0 *)
Definition secmap (C : Type) : Type := list (option (N * C)).

Definition is_older_version (a b : N) : bool :=          (* util.rs: a.wrapping_sub(b) >= 2^31 *)
  N.leb (2 ^ 31) (N.modulo (a + 2 ^ 32 - b) (2 ^ 32)).

Section SecondaryMap.
  Variable C : Type.
  Definition sec_new : secmap C := [None].
  Definition sec_get (m : secmap C) (k : key) : option C :=
    match nth_error m (fst k) with
    | Some (Some (ver, c)) => if N.eqb ver (snd k) then Some c else None
    | _ => None
    end.
  Definition sec_extend (m : secmap C) (n : nat) : secmap C := m ++ repeat None (n - length m).
  (* insert (keys are never null here: idx = u32::MAX is unreachable) *)
  Definition sec_insert (m : secmap C) (k : key) (c : C) : secmap C :=
    let m1 := sec_extend m (S (fst k)) in
    match nth_error m1 (fst k) with
    | Some (Some (ver, _)) =>
        if N.eqb ver (snd k) then upd m1 (fst k) (Some (snd k, c))
        else if is_older_version (snd k) ver then m1
        else upd m1 (fst k) (Some (snd k, c))
    | _ => upd m1 (fst k) (Some (snd k, c))
    end.
  Definition sec_remove (m : secmap C) (k : key) : secmap C :=
    match nth_error m (fst k) with
    | Some (Some (ver, _)) => if N.eqb ver (snd k) then upd m (fst k) None else m
    | _ => m
    end.
End SecondaryMap.

(* ------------------------------------------------------------------ TaffyTree *)
Record tree : Type := mkTree {
  t_nodes : slotmap bool;                 (* SlotMap<DefaultKey, NodeData>, NodeData ~ has_context *)
  t_ctx : secmap N;                       (* node_context_data: SecondaryMap<DefaultKey, NodeContext>, NodeContext = u32 *)
  t_children : slotmap (list key);        (* SlotMap<DefaultKey, ChildrenVec<NodeId>> *)
  t_parents : slotmap (option key)        (* SlotMap<DefaultKey, Option<NodeId>> *)
}.

Definition set_nodes (t : tree) x := mkTree x (t_ctx t) (t_children t) (t_parents t).
Definition set_ctx (t : tree) x := mkTree (t_nodes t) x (t_children t) (t_parents t).
Definition set_children_map (t : tree) x := mkTree (t_nodes t) (t_ctx t) x (t_parents t).
Definition set_parents_map (t : tree) x := mkTree (t_nodes t) (t_ctx t) (t_children t) x.

(* TaffyResult payloads of the structural methods *)
Inductive ret : Type :=
| RUnit                                    (* Ok(()) *)
| RKey (k : key)                           (* Ok(NodeId) *)
| RErr (parent : key) (child_index child_count : N).   (* Err(ChildIndexOutOfBounds{..}) *)

(* TaffyTree::new / with_capacity *)
Definition tree_new : tree := mkTree (sm_new bool) (sec_new N) (sm_new (list key)) (sm_new (option key)).

(* mark_dirty(node): nodes[node_key].mark_dirty() -- see header *)
Definition mark_dirty (t : tree) (n : key) : res unit :=
  if sm_contains (t_nodes t) n then Ok tt else Panic.

(* new_leaf: taffy_tree.rs `pub fn new_leaf` *)
Definition new_leaf (t : tree) : res (tree * ret) :=
  let rn := sm_insert (t_nodes t) false in
  let rc := sm_insert (t_children t) [] in
  let rp := sm_insert (t_parents t) None in
  Ok (mkTree (fst rn) (t_ctx t) (fst rc) (fst rp), RKey (snd rn)).

(* new_leaf_with_context *)
Definition new_leaf_with_context (t : tree) (c : N) : res (tree * ret) :=
  let rn := sm_insert (t_nodes t) true in
  let cx := sec_insert (t_ctx t) (snd rn) c in
  let rc := sm_insert (t_children t) [] in
  let rp := sm_insert (t_parents t) None in
  Ok (mkTree (fst rn) cx (fst rc) (fst rp), RKey (snd rn)).

(* new_with_children: parents[child] = Some(id) for every child *before* the inserts into children / parents *)
Definition new_with_children (t : tree) (cs : list key) : res (tree * ret) :=
  let rn := sm_insert (t_nodes t) false in
  let id := snd rn in
  p1 <- sm_set_all (t_parents t) cs (Some id) ;;
  let rc := sm_insert (t_children t) cs in
  let rp := sm_insert p1 None in
  Ok (mkTree (fst rn) (t_ctx t) (fst rc) (fst rp), RKey id).

(* clear: node_context_data is NOT cleared *)
Definition clear (t : tree) : res (tree * ret) :=
  Ok (mkTree (sm_clear (t_nodes t)) (t_ctx t) (sm_clear (t_children t)) (sm_clear (t_parents t)), RUnit).

(* remove *)
Definition remove (t : tree) (node : key) : res (tree * ret) :=
  pp <- sm_index (t_parents t) node ;;
  ch1 <- match pp with
         | Some parent =>
             ch <- match sm_get (t_children t) parent with          (* children.get_mut(parent) *)
                   | Some l => sm_set (t_children t) parent (retain_ne node l)
                   | None => Ok (t_children t)
                   end ;;
             _ <- mark_dirty t parent ;;
             Ok ch
         | None => Ok (t_children t)
         end ;;
  p1 <- match sm_get ch1 node with                                  (* children.get(key) *)
        | Some l => sm_set_all (t_parents t) l None
        | None => Ok (t_parents t)
        end ;;
  let ch2 := fst (sm_remove ch1 node) in
  let p2 := fst (sm_remove p1 node) in
  let n2 := fst (sm_remove (t_nodes t) node) in
  Ok (mkTree n2 (t_ctx t) ch2 p2, RKey node).

(* set_node_context *)
Definition set_node_context (t : tree) (node : key) (c : option N) : res (tree * ret) :=
  match c with
  | Some v =>
      n1 <- sm_set (t_nodes t) node true ;;
      Ok (mkTree n1 (sec_insert (t_ctx t) node v) (t_children t) (t_parents t), RUnit)
  | None =>
      n1 <- sm_set (t_nodes t) node false ;;
      Ok (mkTree n1 (sec_remove (t_ctx t) node) (t_children t) (t_parents t), RUnit)
  end.
(* (the trailing mark_dirty(node) cannot panic: nodes[key] was just indexed) *)

(* get_node_context *)
Definition get_node_context (t : tree) (node : key) : option N := sec_get (t_ctx t) node.

(* add_child *)
Definition add_child (t : tree) (parent child : key) : res (tree * ret) :=
  p1 <- sm_set (t_parents t) child (Some parent) ;;
  l <- sm_index (t_children t) parent ;;
  c1 <- sm_set (t_children t) parent (l ++ [child]) ;;
  _ <- mark_dirty t parent ;;
  Ok (mkTree (t_nodes t) (t_ctx t) c1 p1, RUnit).

(* insert_child_at_index *)
Definition insert_child_at_index (t : tree) (parent : key) (child_index : N) (child : key) : res (tree * ret) :=
  l <- sm_index (t_children t) parent ;;
  let child_count := N.of_nat (length l) in
  if N.ltb child_count child_index then Ok (t, RErr parent child_index child_count)
  else
    p1 <- sm_set (t_parents t) child (Some parent) ;;
    c1 <- sm_set (t_children t) parent (vec_insert l (N.to_nat child_index) child) ;;
    _ <- mark_dirty t parent ;;
    Ok (mkTree (t_nodes t) (t_ctx t) c1 p1, RUnit).

(* remove_child_at_index *)
Definition remove_child_at_index (t : tree) (parent : key) (child_index : N) : res (tree * ret) :=
  l <- sm_index (t_children t) parent ;;
  let child_count := N.of_nat (length l) in
  if N.leb child_count child_index then Ok (t, RErr parent child_index child_count)
  else
    child <- of_opt (nth_error l (N.to_nat child_index)) ;;
    c1 <- sm_set (t_children t) parent (vec_remove l (N.to_nat child_index)) ;;
    p1 <- sm_set (t_parents t) child None ;;
    _ <- mark_dirty t parent ;;
    Ok (mkTree (t_nodes t) (t_ctx t) c1 p1, RKey child).

(* remove_child: position(..).unwrap() then remove_child_at_index *)
Definition remove_child (t : tree) (parent child : key) : res (tree * ret) :=
  l <- sm_index (t_children t) parent ;;
  index <- of_opt (position child l) ;;
  remove_child_at_index t parent (N.of_nat index).

(* remove_children_range(parent, a..b): Vec::drain panics unless a <= b <= len *)
Definition remove_children_range (t : tree) (parent : key) (a b : N) : res (tree * ret) :=
  l <- sm_index (t_children t) parent ;;
  if N.ltb b a || N.ltb (N.of_nat (length l)) b then Panic
  else
    c1 <- sm_set (t_children t) parent (vec_drain_rest l (N.to_nat a) (N.to_nat b)) ;;
    p1 <- sm_set_all (t_parents t) (vec_drained l (N.to_nat a) (N.to_nat b)) None ;;
    _ <- mark_dirty t parent ;;
    Ok (mkTree (t_nodes t) (t_ctx t) c1 p1, RUnit).

(* replace_child_at_index *)
Definition replace_child_at_index (t : tree) (parent : key) (child_index : N) (new_child : key) : res (tree * ret) :=
  l <- sm_index (t_children t) parent ;;
  let child_count := N.of_nat (length l) in
  if N.leb child_count child_index then Ok (t, RErr parent child_index child_count)
  else
    p1 <- sm_set (t_parents t) new_child (Some parent) ;;
    old_child <- of_opt (nth_error l (N.to_nat child_index)) ;;
    c1 <- sm_set (t_children t) parent (upd l (N.to_nat child_index) new_child) ;;
    p2 <- sm_set p1 old_child None ;;
    _ <- mark_dirty t parent ;;
    Ok (mkTree (t_nodes t) (t_ctx t) c1 p2, RKey old_child).

(* set_children, second loop: for &child in children { if let Some(prev) = parents[child] { remove_child(prev, child).unwrap() }
   parents[child] = Some(parent) } *)
Fixpoint set_children_loop (t : tree) (parent : key) (cs : list key) : res tree :=
  match cs with
  | [] => Ok t
  | child :: r =>
      pp <- sm_index (t_parents t) child ;;
      t1 <- match pp with
            | Some previous_parent =>
                x <- remove_child t previous_parent child ;;
                match snd x with RErr _ _ _ => Panic | _ => Ok (fst x) end     (* .unwrap() *)
            | None => Ok t
            end ;;
      p1 <- sm_set (t_parents t1) child (Some parent) ;;
      set_children_loop (set_parents_map t1 p1) parent r
  end.

Definition set_children (t : tree) (parent : key) (cs : list key) : res (tree * ret) :=
  old <- sm_index (t_children t) parent ;;
  p1 <- sm_set_all (t_parents t) old None ;;
  t2 <- set_children_loop (set_parents_map t p1) parent cs ;;
  _ <- sm_index (t_children t2) parent ;;                       (* &mut self.children[parent_key] *)
  c1 <- sm_set (t_children t2) parent cs ;;                      (* clear(); push each *)
  _ <- mark_dirty t2 parent ;;
  Ok (set_children_map t2 c1, RUnit).

(* ---- queries *)
Definition child_at_index (t : tree) (parent : key) (child_index : N) : res ret :=
  l <- sm_index (t_children t) parent ;;
  let child_count := N.of_nat (length l) in
  if N.leb child_count child_index then Ok (RErr parent child_index child_count)
  else c <- of_opt (nth_error l (N.to_nat child_index)) ;; Ok (RKey c).
Definition child_count (t : tree) (parent : key) : res nat := l <- sm_index (t_children t) parent ;; Ok (length l).
Definition children (t : tree) (parent : key) : res (list key) := sm_index (t_children t) parent.
Definition parent (t : tree) (child : key) : res (option key) := sm_index (t_parents t) child.
Definition total_node_count (t : tree) : nat := sm_len (t_nodes t).

(* ------------------------------------------------------------------ operations as data *)
Inductive op : Type :=
| ONewLeaf
| ONewLeafCtx (c : N)
| ONewWithChildren (cs : list key)
| OAddChild (p c : key)
| OInsertChild (p : key) (i : N) (c : key)
| OSetChildren (p : key) (cs : list key)
| ORemoveChild (p c : key)
| ORemoveChildAt (p : key) (i : N)
| ORemoveRange (p : key) (a b : N)
| OReplaceChildAt (p : key) (i : N) (c : key)
| ORemove (n : key)
| OClear
| OSetCtx (n : key) (c : option N).

Definition step (t : tree) (o : op) : res (tree * ret) :=
  match o with
  | ONewLeaf => new_leaf t
  | ONewLeafCtx c => new_leaf_with_context t c
  | ONewWithChildren cs => new_with_children t cs
  | OAddChild p c => add_child t p c
  | OInsertChild p i c => insert_child_at_index t p i c
  | OSetChildren p cs => set_children t p cs
  | ORemoveChild p c => remove_child t p c
  | ORemoveChildAt p i => remove_child_at_index t p i
  | ORemoveRange p a b => remove_children_range t p a b
  | OReplaceChildAt p i c => replace_child_at_index t p i c
  | ORemove n => remove t n
  | OClear => clear t
  | OSetCtx n c => set_node_context t n c
  end.

(* a history: the state after running all operations (Panic if any of them panics) and the outputs *)
Definition run (t : tree) (os : list op) : res (tree * list ret) :=
  fold_left (fun acc o => x <- acc ;; y <- step (fst x) o ;; Ok (fst y, snd x ++ [snd y])) os (Ok (t, [])).

(* ------------------------------------------------------------------ abstract specification: a forest *)
(* live ids, an ordered child list per id; the parent relation is DERIVED (the live node that lists c). *)
Record spec : Type := mkSpec { live : list key; kids : key -> list key }.

Definition kupd (f : key -> list key) (k : key) (l : list key) : key -> list key :=
  fun q => if key_eqb q k then l else f q.

Definition spec_parent (s : spec) (c : key) : option key := find (fun p => mem c (kids s p)) (live s).
Definition spec_live (s : spec) (k : key) : Prop := In k (live s).

Definition spec_empty : spec := mkSpec [] (fun _ => []).

(* `fresh` is the id the allocator hands out for a creation (any id that is not live; C14_refines shows the
   concrete allocator satisfies this and C14_slot_reuse that it never repeats an earlier one) *)
Definition spec_step (s : spec) (o : op) (fresh : key) : spec * ret :=
  match o with
  | ONewLeaf | ONewLeafCtx _ => (mkSpec (live s ++ [fresh]) (kupd (kids s) fresh []), RKey fresh)
  | ONewWithChildren cs => (mkSpec (live s ++ [fresh]) (kupd (kids s) fresh cs), RKey fresh)
  | OAddChild p c => (mkSpec (live s) (kupd (kids s) p (kids s p ++ [c])), RUnit)
  | OInsertChild p i c =>
      let n := N.of_nat (length (kids s p)) in
      if N.ltb n i then (s, RErr p i n)
      else (mkSpec (live s) (kupd (kids s) p (vec_insert (kids s p) (N.to_nat i) c)), RUnit)
  | OSetChildren p cs =>
      (* p lists exactly cs; everybody else loses the nodes that were moved *)
      (mkSpec (live s) (fun q => if key_eqb q p then cs else filter (fun x => negb (mem x cs)) (kids s q)), RUnit)
  | ORemoveChild p c => (mkSpec (live s) (kupd (kids s) p (retain_ne c (kids s p))), RKey c)
  | ORemoveChildAt p i =>
      let n := N.of_nat (length (kids s p)) in
      if N.leb n i then (s, RErr p i n)
      else match nth_error (kids s p) (N.to_nat i) with
           | Some c => (mkSpec (live s) (kupd (kids s) p (vec_remove (kids s p) (N.to_nat i))), RKey c)
           | None => (s, RErr p i n)           (* unreachable: i < n *)
           end
  | ORemoveRange p a b =>
      (mkSpec (live s) (kupd (kids s) p (vec_drain_rest (kids s p) (N.to_nat a) (N.to_nat b))), RUnit)
  | OReplaceChildAt p i c =>
      let n := N.of_nat (length (kids s p)) in
      if N.leb n i then (s, RErr p i n)
      else match nth_error (kids s p) (N.to_nat i) with
           | Some old => (mkSpec (live s) (kupd (kids s) p (upd (kids s p) (N.to_nat i) c)), RKey old)
           | None => (s, RErr p i n)           (* unreachable: i < n *)
           end
  | ORemove n =>
      (* n is gone, nobody lists it any more; its former children are listed by no live node: they are roots *)
      (mkSpec (filter (fun x => negb (key_eqb x n)) (live s)) (fun q => retain_ne n (kids s q)), RKey n)
  | OClear => (mkSpec [] (kids s), RUnit)
  | OSetCtx _ _ => (s, RUnit)
  end.

(* the precondition of the property: keys are live, a node is attached only while detached (or via set_children,
   whose list must be duplicate free); remove_child names an actual child; a drained range is a valid range *)
Definition detached (s : spec) (c : key) : Prop := spec_parent s c = None.
Definition pre (s : spec) (o : op) : Prop :=
  match o with
  | ONewLeaf | ONewLeafCtx _ | OClear => True
  | ONewWithChildren cs => NoDup cs /\ forall c, In c cs -> spec_live s c /\ detached s c
  | OAddChild p c => spec_live s p /\ spec_live s c /\ detached s c
  | OInsertChild p i c => spec_live s p /\ spec_live s c /\ detached s c
  | OSetChildren p cs => spec_live s p /\ NoDup cs /\ forall c, In c cs -> spec_live s c
  | ORemoveChild p c => spec_live s p /\ In c (kids s p)
  | ORemoveChildAt p i => spec_live s p
  | ORemoveRange p a b => spec_live s p /\ (a <= b)%N /\ (b <= N.of_nat (length (kids s p)))%N
  | OReplaceChildAt p i c => spec_live s p /\ spec_live s c /\ detached s c
  | ORemove n => spec_live s n
  | OSetCtx n _ => spec_live s n
  end.

(* abstraction function *)
Definition abs (t : tree) : spec :=
  mkSpec (sm_keys (t_nodes t))
         (fun k => match sm_get (t_children t) k with Some l => l | None => [] end).

(* two abstract states are the same forest: same live set (both duplicate free), same child lists of live nodes *)
Definition spec_equiv (s1 s2 : spec) : Prop :=
  (forall k, In k (live s1) <-> In k (live s2)) /\
  length (live s1) = length (live s2) /\
  (forall k, In k (live s1) -> kids s1 k = kids s2 k).

(* the key the next creation will return *)
Definition next_key (t : tree) : key := snd (sm_insert (t_nodes t) false).

(* ------------------------------------------------------------------ the specification run as a whole *)
(* the reference model run on its own: operations paired with the ids handed out for creations *)
Fixpoint spec_run (s : spec) (os : list op) (ks : list key) : spec * list ret :=
  match os, ks with
  | o :: r, k :: kr => let x := spec_step s o k in let y := spec_run (fst x) r kr in (fst y, snd x :: snd y)
  | _, _ => (s, [])
  end.

(* the precondition judged on the reference model along its own run *)
Fixpoint spec_pre_run (s : spec) (os : list op) (ks : list key) : Prop :=
  match os, ks with
  | o :: r, k :: kr => pre s o /\ spec_pre_run (fst (spec_step s o k)) r kr
  | _, _ => True
  end.

(* the ids the concrete allocator hands out along a run (one per operation; only creations use theirs) *)
Fixpoint run_keys (t : tree) (os : list op) : list key :=
  match os with
  | [] => []
  | o :: r => next_key t :: match step t o with Ok (t', _) => run_keys t' r | Panic => [] end
  end.
