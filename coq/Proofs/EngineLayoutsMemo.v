(* The memoised evaluation against the cache-free layout-writing evaluation, at the level of the STORED LAYOUTS:
   on a coherent tree (Coh: every final-layout entry is consistent with the layouts stored below its node) a
   memoised PerformLayout evaluation leaves below the node exactly the layouts the cache-free evaluation leaves,
   and the tree stays coherent.  Exact key, WF, H1, H3, NS, HQ (see Model/EngineLayouts.v). *)
From Coq Require Import List Bool Arith Lia.
From TV Require Import Model.Engine Model.EngineLayouts Proofs.EngineMemo Proofs.EngineDirty Proofs.EngineNoScribble
  Proofs.EngineLayoutsPlain.
Import ListNotations.

Section LayoutsMemo.
  Variables (S In Out Lay : Type).
  Variable mode : In -> RunMode.
  Variable in_eqb : In -> In -> bool.
  Variable is_none : S -> bool.
  Variable hidden_out : Out.
  Variable zero_lay : Lay.
  Variable algo : S -> list S -> In -> Alg In Out Lay.

  Notation tree := (tree S In Out Lay).
  Notation Node := (Node S In Out Lay).
  Notation st := (st S Lay).
  Notation STNode := (STNode S Lay).
  Notation sstyle := (sstyle S Lay).
  Notation slay := (slay S Lay).
  Notation skids := (skids S Lay).
  Notation sset := (sset S Lay).
  Notation sk_of := (sk_of S Lay).
  Notation szero := (szero S Lay zero_lay).
  Notation strip := (strip S In Out Lay).
  Notation Alg := (Alg In Out Lay).
  Notation run_plain_l := (run_plain_l S In Out Lay).
  Notation plain_l := (plain_l S In Out Lay mode is_none hidden_out zero_lay algo).
  Notation plain := (plain S In Out Lay mode is_none hidden_out algo).
  Notation memo := (memo S In Out Lay mode in_eqb is_none hidden_out zero_lay algo).
  Notation run_memo := (run_memo S In Out Lay).
  Notation skel := (skel S In Out Lay).
  Notation hide := (hide S In Out Lay zero_lay).
  Notation fresh := (fresh S In Out Lay zero_lay).
  Notation cget := (cget In Out mode in_eqb).
  Notation cstore := (cstore In Out mode).
  Notation cempty := (cempty In Out).
  Notation final := (final In Out).
  Notation style_of := (style_of S In Out Lay).
  Notation lay_of := (lay_of S In Out Lay).
  Notation kids_of := (kids_of S In Out Lay).
  Notation set_lay := (set_lay S In Out Lay).
  Notation nones := (nones S is_none).
  Notation NoHiddenSize := (NoHiddenSize In Out Lay mode).
  Notation SetsLast := (SetsLast In Out Lay).
  Notation WFAlg := (WFAlg In Out Lay mode).
  Notation Visits := (Visits In Out Lay mode).
  Notation SizeOnly := (SizeOnly In Out Lay mode).
  Notation Valid := (Valid S In Out Lay mode is_none hidden_out algo).
  Notation Coh := (Coh S In Out Lay mode is_none hidden_out zero_lay algo).
  Notation ev_sound := (ev_sound S In Out Lay mode is_none hidden_out algo).

  (* ---------- strip ---------- *)
  Lemma strip_style t : sstyle (strip t) = style_of t. Proof. destruct t; reflexivity. Qed.
  Lemma strip_lay t : slay (strip t) = lay_of t. Proof. destruct t; reflexivity. Qed.
  Lemma strip_kids t : skids (strip t) = map strip (kids_of t). Proof. destruct t; reflexivity. Qed.
  Lemma strip_set_lay t l : strip (set_lay t l) = sset (strip t) l. Proof. destruct t; reflexivity. Qed.

  Lemma sk_of_strip t : sk_of (strip t) = skel t.
  Proof.
    induction t as [s c l kids IH] using tree_ind'. cbn. f_equal.
    rewrite map_map. apply map_ext_Forall. exact IH.
  Qed.

  Lemma strip_hide t : strip (hide t) = szero (strip t).
  Proof.
    induction t as [s c l kids IH] using tree_ind'. cbn. f_equal.
    rewrite !map_map. apply map_ext_Forall. exact IH.
  Qed.

  Lemma szero_idem (x : st) : szero (szero x) = szero x.
  Proof.
    induction x as [s l kids IH] using st_ind'. cbn. f_equal.
    rewrite map_map. apply map_ext_Forall. exact IH.
  Qed.

  Lemma map_style_strip (kids : list tree) : map sstyle (map strip kids) = map style_of kids.
  Proof. rewrite map_map. apply map_ext. intros [s c l k]. reflexivity. Qed.

  Lemma skel_style a b : skel a = skel b -> style_of a = style_of b.
  Proof. destruct a, b; cbn; intros H; injection H; auto. Qed.

  Lemma nones_map_tree (kids : list tree) n u : nth_error kids n = Some u -> is_none (style_of u) = nones (map style_of kids) n.
  Proof. intros H. unfold EngineLayouts.nones. rewrite nth_error_map, H. reflexivity. Qed.

  (* a cache-less tree agreeing with a concrete tree except, possibly, in the node's own stored layout *)
  Lemma agree_sset x u : sstyle x = style_of u -> skids x = map strip (kids_of u) -> x = sset (strip u) (slay x).
  Proof. destruct x, u; cbn; intros -> ->. reflexivity. Qed.

  (* ---------- memo ---------- *)
  Lemma memo_step f s c l kids i :
    mode i <> PerformHiddenLayout ->
    memo (Datatypes.S f) (Node s c l kids) i =
    match cget c i with
    | Some o => Some (o, Node s c l kids)
    | None =>
        if is_none s then Some (hidden_out, Node s (cstore cempty i hidden_out) zero_lay (map hide kids))
        else match run_memo (memo f) kids (algo s (map style_of kids) i) with
             | Some (o, kids') => Some (o, Node s (cstore c i o) l kids')
             | None => None
             end
    end.
  Proof. intros Hm. cbn [Engine.memo]. destruct (mode i); try reflexivity. congruence. Qed.

  Lemma memo_own f t i o t' :
    mode i <> PerformHiddenLayout -> is_none (style_of t) = false -> memo f t i = Some (o, t') -> lay_of t' = lay_of t.
  Proof.
    intros Hm Hn H. destruct f as [|f]; [discriminate|]. destruct t as [s c l kids]. cbn in Hn.
    rewrite (memo_step f s c l kids i Hm), Hn in H.
    destruct (cget c i); [injection H as <- <-; reflexivity|].
    destruct (run_memo (memo f) kids _) as [[o1 k1]|]; [|discriminate]. injection H as <- <-. reflexivity.
  Qed.

  Hypothesis in_eqb_eq : forall a b, in_eqb a b = true -> a = b.

  Lemma cget_final c i o : mode i = PerformLayout -> cget c i = Some o -> final c = Some (i, o).
  Proof.
    intros Hm H. unfold Engine.cget in H. rewrite Hm in H.
    destruct (final c) as [[i' o']|]; [|discriminate].
    destruct (in_eqb i' i) eqn:E; [|discriminate]. apply in_eqb_eq in E. congruence.
  Qed.

  (* ---------- Coh ---------- *)
  Lemma Coh_hide t : Coh (hide t).
  Proof.
    induction t as [s c l kids IH] using tree_ind'. cbn. constructor.
    - cbn. intros j o E. discriminate.
    - apply Forall_map. exact IH.
  Qed.

  Lemma Coh_fresh k : Coh (fresh k).
  Proof.
    revert k. fix IH 1. intros [s kids]. cbn. constructor.
    - cbn. intros j o E. discriminate.
    - induction kids as [|x r IHr]; cbn; constructor; [apply IH|exact IHr].
  Qed.

  Lemma Coh_set_lay t l : Coh t -> Coh (set_lay t l).
  Proof.
    destruct t as [s c l0 kids]. intros H. inversion H as [? ? ? ? He Hk]; subst. cbn. constructor; [|exact Hk].
    intros j o E. destruct (He j o E) as [g [r [Hp Hr]]].
    destruct (plain_l_sset S In Out Lay mode is_none hidden_out zero_lay algo g _ l _ _ _ Hp) as [r' [Hp' Hr']].
    exists g, r'. split; [exact Hp'|congruence].
  Qed.

  Lemma Coh_kids s c l kids : Coh (Node s c l kids) -> Forall Coh kids.
  Proof. intros H. inversion H; assumption. Qed.

  (* ================================================================================================
     interface hypotheses
     ================================================================================================ *)
  Hypothesis WF : forall s sts i, WFAlg (algo s sts i).
  Hypothesis H1 : forall s sts i, mode i = PerformLayout -> Visits (seq 0 (length sts)) (algo s sts i).
  Hypothesis H3 : forall s sts i, mode i = PerformLayout -> SetsLast (nones sts) (seq 0 (length sts)) (algo s sts i).
  Hypothesis NS : forall s sts i, mode i = ComputeSize -> SizeOnly (algo s sts i).
  Hypothesis HQ : forall s sts i, NoHiddenSize (nones sts) (algo s sts i).

  (* what one memoised evaluation does to the stored layouts, in terms of the cache-free evaluation *)
  Definition ev_coh (ev : tree -> In -> option (Out * tree)) : Prop :=
    forall t i o t',
      mode i <> PerformHiddenLayout -> (mode i = ComputeSize -> is_none (style_of t) = false) ->
      Valid t -> Coh t -> ev t i = Some (o, t') ->
      Coh t' /\ (mode i = ComputeSize -> strip t' = strip t) /\
      exists g r, plain_l g (strip t) i = Some (o, r) /\ skids r = map strip (kids_of t').

  (* ---------- the resumption of a ComputeSize evaluation: nothing is written ---------- *)
  Lemma run_memo_size ev (none : nat -> bool) : ev_sound ev -> ev_coh ev ->
    forall a us o us', SizeOnly a -> NoHiddenSize none a ->
      (forall n u, nth_error us n = Some u -> is_none (style_of u) = none n) ->
      Forall Valid us -> Forall Coh us -> run_memo ev us a = Some (o, us') ->
      map strip us' = map strip us /\ Forall Coh us'.
  Proof.
    intros Hs Hc a. induction a as [o0|c i k IH|c l k IH]; intros us o us' HS HN Hst HV HC H; cbn in H.
    - injection H as <- <-. split; [reflexivity|exact HC].
    - inversion HS as [|c0 i0 k0 Hm Hks]; subst. inversion HN as [|c0 i0 k0 Hcn Hkn|]; subst.
      destruct (nth_error us c) as [u|] eqn:En; [|discriminate].
      destruct (ev u i) as [[o1 u1]|] eqn:Ee; [|discriminate].
      assert (HVu : Valid u) by (rewrite Forall_forall in HV; apply HV; eapply nth_error_In; eauto).
      assert (HCu : Coh u) by (rewrite Forall_forall in HC; apply HC; eapply nth_error_In; eauto).
      assert (Hnu : is_none (style_of u) = false) by (rewrite (Hst _ _ En); auto).
      assert (Hm' : mode i <> PerformHiddenLayout) by congruence.
      destruct (Hc _ _ _ _ Hm' (fun _ => Hnu) HVu HCu Ee) as [HC1 [Hstrip _]].
      destruct (Hs _ _ _ _ HVu Ee) as [_ [HV1 Hsk1]].
      assert (E : map strip us' = map strip (replace_nth c u1 us) /\ Forall Coh us').
      { eapply IH; [apply Hks|apply Hkn| | | |exact H].
        - intros n u' En'. destruct (Nat.eq_dec c n) as [<-|Hne].
          + rewrite (nth_error_replace_same _ _ _ _ En) in En'. injection En' as <-.
            rewrite (skel_style _ _ Hsk1). eapply Hst; eauto.
          + rewrite (nth_error_replace_other _ _ _ _ _ En Hne) in En'. eapply Hst; eauto.
        - apply Forall_replace_nth; assumption.
        - apply Forall_replace_nth; assumption. }
      destruct E as [E1 E2]. split; [|exact E2].
      rewrite E1, map_replace_nth, (Hstrip Hm). apply replace_nth_same. rewrite nth_error_map, En. reflexivity.
    - inversion HS.
  Qed.

  (* ---------- the resumption of a PerformLayout evaluation ---------- *)
  (* memo-world children [us] against cache-free-world children [xs]: they agree below every child, and in the
     child's own stored layout unless it is a display:none child queried since its last SetLayout *)
  Definition mrel (none : nat -> bool) (pend : list nat) (us : list tree) (xs : list st) : Prop :=
    length us = length xs /\
    forall n u x, nth_error us n = Some u -> nth_error xs n = Some x ->
      Valid u /\ Coh u /\ is_none (style_of u) = none n /\
      sstyle x = style_of u /\ skids x = map strip (kids_of u) /\
      (none n = false \/ ~ List.In n pend -> slay x = lay_of u).

  Definition ev_own (ev : tree -> In -> option (Out * tree)) : Prop :=
    forall t i o t', mode i <> PerformHiddenLayout -> is_none (style_of t) = false -> ev t i = Some (o, t') -> lay_of t' = lay_of t.

  Lemma run_memo_coh ev (none : nat -> bool) : ev_sound ev -> ev_coh ev -> ev_own ev ->
    forall a us xs pend o us',
      WFAlg a -> NoHiddenSize none a -> SetsLast none pend a -> mrel none pend us xs ->
      run_memo ev us a = Some (o, us') ->
      exists g, run_plain_l (plain_l g) xs a = Some (o, map strip us') /\ Forall Coh us'.
  Proof.
    intros Hs Hc Hown0 a. induction a as [o0|c i k IH|c l k IH]; intros us xs pend o us' HWF HNH HSL [Hlen HR] H; cbn in H.
    - injection H as <- <-. inversion HSL; subst. exists 0. cbn. split.
      + f_equal. f_equal. apply list_eq_nth; [rewrite map_length; symmetry; exact Hlen|].
        intros n a b Ea Eb. rewrite nth_error_map in Eb.
        destruct (nth_error us n) as [u|] eqn:Eu; [|discriminate]. injection Eb as <-.
        destruct (HR _ _ _ Eu Ea) as [_ [_ [_ [R1 [R2 R3]]]]].
        apply st_eq; [rewrite strip_style; exact R1|rewrite strip_lay; apply R3; right; intros []|rewrite strip_kids; exact R2].
      + apply Forall_forall. intros u Hin. destruct (In_nth_error _ _ Hin) as [n Eu].
        destruct (nth_error_same_length _ xs _ _ Hlen Eu) as [x Ex].
        destruct (HR _ _ _ Eu Ex) as [_ [HC _]]. exact HC.
    - inversion HWF as [|c0 i0 k0 Hm Hkw|]; subst. inversion HNH as [|c0 i0 k0 Hcn Hkn|]; subst.
      inversion HSL as [|ps0 c0 i0 k0 Hks|]; subst.
      destruct (nth_error us c) as [u|] eqn:Eu; [|discriminate].
      destruct (ev u i) as [[o1 u1]|] eqn:Ee; [|discriminate].
      destruct (nth_error_same_length _ xs _ _ Hlen Eu) as [x Ex].
      destruct (HR _ _ _ Eu Ex) as [HVu [HCu [Hnu [R1 [R2 R3]]]]].
      assert (Hq : mode i = ComputeSize -> is_none (style_of u) = false) by (intros E; rewrite Hnu; auto).
      destruct (Hc _ _ _ _ Hm Hq HVu HCu Ee) as [HC1 [_ [g1 [r [Hp Hr]]]]].
      destruct (Hs _ _ _ _ HVu Ee) as [_ [HV1 Hsk1]].
      (* the cache-free evaluation of this child, started from x (which may differ from strip u in its own layout) *)
      rewrite (agree_sset x u R1 R2) in Ex.
      destruct (plain_l_sset S In Out Lay mode is_none hidden_out zero_lay algo g1 _ (slay x) _ _ _ Hp) as [r' [Hp' Hr']].
      set (x0 := sset (strip u) (slay x)) in *.
      assert (Hsty : sstyle r' = style_of u1).
      { pose proof (plain_l_sk S In Out Lay mode is_none hidden_out zero_lay algo _ _ _ _ _ Hp') as E.
        rewrite (sk_of_style S Lay _ _ E). unfold x0. destruct u; cbn. apply (skel_style _ _ (eq_sym Hsk1)). }
      assert (Hkids : skids r' = map strip (kids_of u1)) by congruence.
      assert (Hown : none c = false -> slay r' = lay_of u1).
      { intros Enc. assert (Hn0 : is_none (style_of u) = false) by congruence.
        assert (Hx0 : is_none (sstyle x0) = false) by (unfold x0; destruct u; exact Hn0).
        destruct (plain_l_own S In Out Lay mode is_none hidden_out zero_lay algo _ _ _ _ _ Hm Hx0 Hp') as [E _].
        rewrite E, (Hown0 _ _ _ _ Hm Hn0 Ee). unfold x0. destruct u; cbn. apply R3. left. exact Enc. }
      destruct (IH o1 (replace_nth c u1 us) (replace_nth c r' xs) (if none c then c :: pend else pend) o us'
                   (Hkw o1) (Hkn o1) (Hks o1)) as [g2 [Hrun HCs]]; [|exact H|].
      + split; [rewrite (length_replace_nth _ _ _ _ Eu), (length_replace_nth _ _ _ _ Ex); exact Hlen|].
        intros n u' x' Eu' Ex'. destruct (Nat.eq_dec c n) as [<-|Hne].
        * rewrite (nth_error_replace_same _ _ _ _ Eu) in Eu'. rewrite (nth_error_replace_same _ _ _ _ Ex) in Ex'.
          injection Eu' as <-. injection Ex' as <-.
          split; [exact HV1|]. split; [exact HC1|]. split; [rewrite (skel_style _ _ Hsk1); exact Hnu|].
          split; [exact Hsty|]. split; [exact Hkids|].
          intros [Enc|Hnin]; [apply Hown; exact Enc|].
          destruct (none c) eqn:Enc; [exfalso; apply Hnin; left; reflexivity|apply Hown; reflexivity].
        * rewrite (nth_error_replace_other _ _ _ _ _ Eu Hne) in Eu'. rewrite (nth_error_replace_other _ _ _ _ _ Ex Hne) in Ex'.
          destruct (HR _ _ _ Eu' Ex') as [D1 [D2 [D3 [D4 [D5 D6]]]]].
          repeat (split; [assumption|]). intros [E|Hnin]; apply D6; [left; exact E|right].
          intros Hin. apply Hnin. destruct (none c); [right|]; exact Hin.
      + exists (Nat.max g1 g2). split; [|exact HCs]. cbn. rewrite Ex.
        rewrite (plain_l_mono S In Out Lay mode is_none hidden_out zero_lay algo g1 (Nat.max g1 g2) _ _ _ (Nat.le_max_l _ _) Hp').
        eapply run_plain_l_mono; [|exact Hrun]. intros y j p. apply plain_l_mono. lia.
    - inversion HWF as [| |c0 l0 k0 Hkw]; subst. inversion HNH as [| |c0 l0 k0 Hkn]; subst.
      inversion HSL as [| |ps0 c0 l0 k0 Hks]; subst.
      destruct (nth_error us c) as [u|] eqn:Eu; [|discriminate].
      destruct (nth_error_same_length _ xs _ _ Hlen Eu) as [x Ex].
      destruct (HR _ _ _ Eu Ex) as [HVu [HCu [Hnu [R1 [R2 R3]]]]].
      destruct (IH (replace_nth c (set_lay u l) us) (replace_nth c (sset x l) xs) (remove Nat.eq_dec c pend) o us'
                   Hkw Hkn Hks) as [g2 [Hrun HCs]]; [|exact H|].
      + split; [rewrite (length_replace_nth _ _ _ _ Eu), (length_replace_nth _ _ _ _ Ex); exact Hlen|].
        intros n u' x' Eu' Ex'. destruct (Nat.eq_dec c n) as [<-|Hne].
        * rewrite (nth_error_replace_same _ _ _ _ Eu) in Eu'. rewrite (nth_error_replace_same _ _ _ _ Ex) in Ex'.
          injection Eu' as <-. injection Ex' as <-.
          split; [destruct u; inversion HVu; subst; constructor; assumption|].
          split; [apply Coh_set_lay; exact HCu|].
          destruct u, x; cbn in *. repeat (split; [assumption|]). intros _. reflexivity.
        * rewrite (nth_error_replace_other _ _ _ _ _ Eu Hne) in Eu'. rewrite (nth_error_replace_other _ _ _ _ _ Ex Hne) in Ex'.
          destruct (HR _ _ _ Eu' Ex') as [D1 [D2 [D3 [D4 [D5 D6]]]]].
          repeat (split; [assumption|]). intros [E|Hnin]; apply D6; [left; exact E|right].
          intros Hin. apply Hnin. apply in_in_remove; [congruence|exact Hin].
      + exists g2. split; [|exact HCs]. cbn. rewrite Ex. exact Hrun.
  Qed.

  Lemma mrel_init (kids : list tree) :
    Forall Valid kids -> Forall Coh kids ->
    mrel (nones (map style_of kids)) (seq 0 (length (map style_of kids))) kids (map strip kids).
  Proof.
    intros HV HC. split; [rewrite map_length; reflexivity|].
    intros n u x Eu Ex. rewrite nth_error_map, Eu in Ex. injection Ex as <-.
    split; [rewrite Forall_forall in HV; apply HV; eapply nth_error_In; eauto|].
    split; [rewrite Forall_forall in HC; apply HC; eapply nth_error_In; eauto|].
    split; [apply nones_map_tree; exact Eu|].
    split; [apply strip_style|]. split; [apply strip_kids|]. intros _. apply strip_lay.
  Qed.

  (* ---------- the main lemma ---------- *)
  Theorem memo_coh : forall f, ev_coh (memo f).
  Proof.
    induction f as [|f IH]; intros t i o t' Hm Hq HV HC H; [discriminate|].
    destruct (memo_sound S In Out Lay mode in_eqb is_none hidden_out zero_lay algo in_eqb_eq _ _ _ _ _ HV H)
      as [[f0 Hp0] [HV' Hsk']].
    (* the cache-free evaluation is defined, and for a size query it writes nothing *)
    assert (Hsize : mode i = ComputeSize -> exists g, plain_l g (strip t) i = Some (o, strip t)).
    { intros Ec. rewrite <- sk_of_strip in Hp0.
      destruct (plain_l_complete S In Out Lay mode is_none hidden_out zero_lay algo _ _ _ _ Hp0) as [r Hr].
      exists f0. rewrite Hr. f_equal. f_equal.
      eapply (plain_l_pure S In Out Lay mode is_none hidden_out zero_lay algo NS HQ); [exact Ec| |exact Hr].
      rewrite strip_style. apply Hq. exact Ec. }
    destruct t as [s c l kids]. cbn [Engine.style_of] in Hq.
    rewrite (memo_step f s c l kids i Hm) in H.
    inversion HV as [? ? ? ? Hcok HVk]; subst. inversion HC as [? ? ? ? Hent HCk]; subst.
    destruct (cget c i) as [oh|] eqn:Eg.
    - (* hit: the tree is returned as it is *)
      injection H as <- <-. split; [exact HC|]. split; [reflexivity|].
      destruct (mode i) eqn:Em; [|destruct (Hsize eq_refl) as [g Hg]; exists g, (strip (Node s c l kids)); split; [exact Hg|reflexivity]|congruence].
      destruct (Hent _ _ (cget_final _ _ _ Em Eg)) as [g [r [Hg Hr]]]. exists g, r. split; [exact Hg|exact Hr].
    - destruct (is_none s) eqn:En.
      + (* display:none, miss: hidden layout *)
        injection H as <- <-.
        assert (Ep : mode i = PerformLayout) by (destruct (mode i); [reflexivity|specialize (Hq eq_refl); discriminate|congruence]).
        assert (Ez : map szero (map strip kids) = map strip (map hide kids)).
        { rewrite !map_map. apply map_ext. intros a. symmetry. apply strip_hide. }
        split; [|split; [intros E; congruence|]].
        * constructor; [|apply Forall_map; apply Forall_forall; intros x _; apply Coh_hide].
          intros j o E. unfold Engine.cstore in E. rewrite Ep in E. cbn in E. injection E as <- <-.
          exists 1, (szero (STNode s zero_lay (map strip (map hide kids)))). split.
          -- apply (plain_l_none_ex S In Out Lay mode is_none hidden_out zero_lay algo). exact En.
          -- cbn. rewrite <- Ez, map_map. apply map_ext. intros a. apply szero_idem.
        * exists 1, (szero (strip (Node s c l kids))). split.
          -- apply (plain_l_none_ex S In Out Lay mode is_none hidden_out zero_lay algo). exact En.
          -- cbn. exact Ez.
      + destruct (run_memo (memo f) kids (algo s (map style_of kids) i)) as [[o1 kids1]|] eqn:Er; [|discriminate].
        injection H as <- <-.
        pose proof (memo_sound S In Out Lay mode in_eqb is_none hidden_out zero_lay algo in_eqb_eq f) as Hsf.
        destruct (mode i) eqn:Em; [| |congruence].
        * (* PerformLayout, miss *)
          destruct (run_memo_coh _ (nones (map style_of kids)) Hsf IH (memo_own f) _ _ _ _ _ _ (WF s _ i) (HQ s _ i)
                      (H3 s _ i Em) (mrel_init kids HVk HCk) Er) as [g [Hrun HCk1]].
          assert (Hpl : plain_l (Datatypes.S g) (strip (Node s c l kids)) i = Some (o1, STNode s l (map strip kids1))).
          { cbn [EngineLayouts.strip]. rewrite plain_l_step by congruence. rewrite En, map_style_strip, Hrun. reflexivity. }
          split; [|split; [intros E; discriminate|]].
          -- constructor; [|exact HCk1].
             intros j o E. unfold Engine.cstore in E. rewrite Em in E. cbn in E. injection E as <- <-.
             pose proof (plain_l_out S In Out Lay mode is_none hidden_out zero_lay algo _ _ _ _ _ Hpl) as Hout.
             assert (Esk : sk_of (STNode s l (map strip kids1)) = sk_of (strip (Node s c l kids))).
             { change (STNode s l (map strip kids1)) with (strip (Node s (cstore c i o1) l kids1)).
               rewrite !sk_of_strip. exact Hsk'. }
             rewrite <- Esk in Hout.
             destruct (plain_l_complete S In Out Lay mode is_none hidden_out zero_lay algo _ _ _ _ Hout) as [r' Hr'].
             exists (Datatypes.S g), r'. split; [exact Hr'|].
             destruct (plain_l_det S In Out Lay mode is_none hidden_out zero_lay algo WF H1 H3 NS HQ _ _ _ _ _ _ _ _ _
                         Em Esk Hr' Hpl) as [_ Ek]. exact Ek.
          -- exists (Datatypes.S g), (STNode s l (map strip kids1)). split; [exact Hpl|reflexivity].
        * (* ComputeSize, miss *)
          assert (Hsty : forall n u, nth_error kids n = Some u -> is_none (style_of u) = nones (map style_of kids) n)
            by (intros n u; apply nones_map_tree).
          destruct (run_memo_size _ (nones (map style_of kids)) Hsf IH _ _ _ _ (NS s _ i Em) (HQ s _ i) Hsty HVk HCk Er)
            as [Estrip HCk1].
          assert (Es : strip (Node s (cstore c i o1) l kids1) = strip (Node s c l kids)) by (cbn; f_equal; exact Estrip).
          split; [|split; [intros _; exact Es|]].
          -- constructor; [|exact HCk1]. intros j o E. unfold Engine.cstore in E. rewrite Em in E. cbn in E.
             rewrite Estrip. apply Hent. exact E.
          -- destruct (Hsize eq_refl) as [g Hg]. exists g, (strip (Node s c l kids)). split; [exact Hg|].
             cbn. symmetry. exact Estrip.
  Qed.

  (* ---------- a PerformLayout pass on a coherent tree, against a freshly built tree ---------- *)
  Theorem pass_layouts_equal_fresh f f' t i o o' t1 t2 :
    mode i = PerformLayout -> Valid t -> Coh t ->
    memo f t i = Some (o, t1) -> memo f' (fresh (skel t)) i = Some (o', t2) ->
    o = o' /\ map strip (kids_of t1) = map strip (kids_of t2) /\ Coh t1.
  Proof.
    intros Hm HV HC M1 M2.
    assert (Hm' : mode i <> PerformHiddenLayout) by congruence.
    assert (Hq : forall u : tree, mode i = ComputeSize -> is_none (style_of u) = false) by (intros u E; congruence).
    destruct (memo_coh f _ _ _ _ Hm' (Hq t) HV HC M1) as [HC1 [_ [g1 [r1 [P1 K1]]]]].
    destruct (memo_coh f' _ _ _ _ Hm' (Hq _) (Valid_fresh S In Out Lay mode is_none hidden_out zero_lay algo _) (Coh_fresh _) M2)
      as [_ [_ [g2 [r2 [P2 K2]]]]].
    assert (Esk : sk_of (strip t) = sk_of (strip (fresh (skel t)))).
    { rewrite !sk_of_strip. symmetry. apply (skel_fresh S In Out Lay). }
    destruct (plain_l_det S In Out Lay mode is_none hidden_out zero_lay algo WF H1 H3 NS HQ _ _ _ _ _ _ _ _ _ Hm Esk P1 P2)
      as [Eo Ek].
    split; [exact Eo|]. split; [congruence|exact HC1].
  Qed.
End LayoutsMemo.
