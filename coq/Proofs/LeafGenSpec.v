(* The C19 theorems about the hand model, restated about the translated compute_leaf_layout (Gen/LeafGen.v). *)
From Coq Require Import QArith Bool List ZArith.
From TV Require Import Num.QNum Model.Common Model.Leaf Model.Root Model.LeafSpec Model.LeafGenRoot Gen.LeafGen.
From TV Require Import Proofs.LeafAxis Proofs.LeafProofs Proofs.LeafGenProofs.
Import ListNotations.
Open Scope Q_scope.

Lemma gen_root_leaf_spec_noratio : forall (st : Style XQ) (measure : MeasureFn XQ) (av : Size (AvailableSpace XQ)),
  fin_style st -> size_all fin_avail av -> fin_measure measure -> nonneg_padding_border st av ->
  display st <> DNone -> aspect_ratio st = None ->
  exists lay aa,
    gen_root_gen_leaf st measure av = Some (lay, [(size_NONE, aa)]) /\
    size_rel avail_xeq aa (leaf_spec_measure_avail st av) /\
    layout_xeq lay (leaf_spec st av (measure size_NONE aa)).
Proof. intros. rewrite gen_root_gen_leaf_is_model. apply root_leaf_spec_noratio; assumption. Qed.

Lemma gen_leaf_floor : forall (inputs : LayoutInput XQ) (st : Style XQ) (measure : MeasureFn XQ) out calls pbw pbh,
  gen_compute_leaf_layout inputs st measure = Some (out, calls) ->
  sum_axes (le_padding_border (leaf_env inputs st)) = mkSize (Fin pbw) (Fin pbh) ->
  x_leb (Fin pbw) (width (out_size out)) = true /\ x_leb (Fin pbh) (height (out_size out)) = true.
Proof. intros until pbh. rewrite gen_leaf_is_model. apply leaf_floor. Qed.

Lemma gen_leaf_measure_args : forall (inputs : LayoutInput XQ) (st : Style XQ) (measure : MeasureFn XQ) out calls,
  gen_compute_leaf_layout inputs st measure = Some (out, calls) ->
  (calls = [] /\ leaf_early inputs (leaf_env inputs st) = Some out) \/
  (leaf_early inputs (leaf_env inputs st) = None /\
   exists known, calls = [(known, leaf_spec_avail inputs st)] /\
     ((run_mode inputs = ComputeSize /\ known = known_dimensions inputs) \/
      (run_mode inputs = PerformLayout /\ known = size_NONE)) /\
     out = leaf_finish inputs (leaf_env inputs st) (measure known (leaf_spec_avail inputs st))).
Proof. intros until calls. rewrite gen_leaf_is_model. apply leaf_measure_args. Qed.

(* non-vacuity: the example of C19_example_premises / _result, computed with the translated routine *)
Lemma gen_example_result :
  exists lay aa, gen_root_gen_leaf ex_style ex_measure ex_avail = Some (lay, [(size_NONE, aa)]) /\
    size_rel xeq (l_size lay) (mkSize (Fin 170) (Fin 62)) /\ avail_xeq (width aa) (Definite (Fin 136)) /\
    size_rel xeq (l_content_size lay) (mkSize (Fin 156) (Fin 27)).
Proof.
  do 2 eexists. split; [vm_compute; reflexivity|]. vm_compute. repeat split; discriminate.
Qed.
