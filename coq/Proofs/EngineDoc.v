(* C17: the documented dispatcher (Model/EngineDoc.v memo_doc) against TaffyView's (Model/Engine.v memo).

   Found by trying the proof: mapping display:none nodes to compute_hidden_layout is NOT enough.  The children of a hidden
   node receive LayoutInput::HIDDEN through the tree's own compute_child_layout, so the equivalence needs

     (Hg)  the dispatcher sends every hidden-mode input to compute_hidden_layout, whatever the node's kind
           (guard i = true  <->  mode i = PerformHiddenLayout), and
     (Hk)  on every other input it dispatches like TaffyView: display:none -> hidden, no children -> leaf, else container.

   Under (Hg)+(Hk), for EVERY pair of algorithms, tree (any cache contents, any stored layouts) and input, memo_doc and
   memo return the same output and the same tree.  memo_doc spends fuel on walking hidden subtrees (it recurses through
   compute_child_layout) where memo's [hide] is structural, hence the two directions: same fuel suffices doc -> taffy,
   some larger fuel taffy -> doc. *)
From Coq Require Import List Bool Arith NArith Lia.
From TV Require Import Model.Engine Model.EngineToy Model.EngineDoc Proofs.EngineMemo Proofs.EngineDirty.
Import ListNotations.

Section DocEquiv.
  Variables (S In Out Lay : Type).
  Variable mode : In -> RunMode.
  Variable in_eqb : In -> In -> bool.
  Variable is_none : S -> bool.
  Variable hidden_out : Out.
  Variable zero_lay : Lay.
  Variable hidden_in : In.
  Variable calgo : S -> list S -> In -> Alg In Out Lay.
  Variable lalgo : S -> In -> Out.
  Variable kind_of : S -> nat -> kind.
  Variable guard : In -> bool.

  Notation tree := (tree S In Out Lay).
  Notation TNode := (Node S In Out Lay).
  Notation algo := (taffy_algo S In Out Lay calgo lalgo).
  Notation memo := (memo S In Out Lay mode in_eqb is_none hidden_out zero_lay algo).
  Notation memo_doc := (memo_doc S In Out Lay mode in_eqb hidden_out zero_lay hidden_in calgo lalgo kind_of guard).
  Notation run_memo := (run_memo S In Out Lay).
  Notation hide := (hide S In Out Lay zero_lay).
  Notation hide_kids := (hide_kids S In Out Lay hidden_in).
  Notation cget := (cget In Out mode in_eqb).
  Notation cstore := (cstore In Out mode).
  Notation cempty := (cempty In Out).
  Notation style_of := (style_of S In Out Lay).

  Hypothesis hidden_in_mode : mode hidden_in = PerformHiddenLayout.
  Hypothesis Hg : forall i, guard i = true <-> mode i = PerformHiddenLayout.
  Hypothesis Hk : forall s n, kind_of s n = kind_taffy S is_none s n.

  (* ---------- the cache in hidden mode ---------- *)
  Lemma cget_hidden c i : mode i = PerformHiddenLayout -> cget c i = None.
  Proof. intros H. unfold Engine.cget. rewrite H. reflexivity. Qed.

  Lemma cstore_hidden c i o : mode i = PerformHiddenLayout -> cstore c i o = c.
  Proof. intros H. unfold Engine.cstore. rewrite H. reflexivity. Qed.

  Lemma guard_false i : mode i <> PerformHiddenLayout -> guard i = false.
  Proof. intros H. destruct (guard i) eqn:E; [|reflexivity]. apply Hg in E. contradiction. Qed.

  (* ---------- monotonicity of the interpreters in the child evaluator ---------- *)
  Lemma run_memo_impl (ev1 ev2 : tree -> In -> option (Out * tree)) :
    (forall t i r, ev1 t i = Some r -> ev2 t i = Some r) ->
    forall a kids r, run_memo ev1 kids a = Some r -> run_memo ev2 kids a = Some r.
  Proof.
    intros Hev a. induction a as [o0|c i k IH|c l k IH]; intros kids r H; cbn in *.
    - exact H.
    - destruct (nth_error kids c) as [t|]; [|discriminate].
      destruct (ev1 t i) as [[o1 t1]|] eqn:E; [|discriminate].
      rewrite (Hev _ _ _ E). apply IH. exact H.
    - destruct (nth_error kids c); [|discriminate]. apply IH. exact H.
  Qed.

  Lemma hide_kids_impl (ev1 ev2 : tree -> In -> option (Out * tree)) :
    (forall t i r, ev1 t i = Some r -> ev2 t i = Some r) ->
    forall kids r, hide_kids ev1 kids = Some r -> hide_kids ev2 kids = Some r.
  Proof.
    intros Hev kids. induction kids as [|k kids IH]; intros r H; cbn in *; [exact H|].
    destruct (ev1 k hidden_in) as [[o1 k1]|] eqn:E; [|discriminate].
    rewrite (Hev _ _ _ E).
    destruct (hide_kids ev1 kids) as [r1|] eqn:E1; [|discriminate].
    rewrite (IH _ eq_refl). exact H.
  Qed.

  Lemma memo_doc_eq f s c l kids i :
    memo_doc (Datatypes.S f) (TNode s c l kids) i =
    match cget c i with
    | Some o => Some (o, TNode s c l kids)
    | None =>
        match eff_kind S In kind_of guard i s (length kids) with
        | KHidden =>
            match hide_kids (memo_doc f) kids with
            | Some kids' => Some (hidden_out, TNode s (cstore cempty i hidden_out) zero_lay kids')
            | None => None
            end
        | KContainer =>
            match run_memo (memo_doc f) kids (calgo s (map style_of kids) i) with
            | Some (o, kids') => Some (o, TNode s (cstore c i o) l kids')
            | None => None
            end
        | KLeaf => Some (lalgo s i, TNode s (cstore c i (lalgo s i)) l kids)
        end
    end.
  Proof. reflexivity. Qed.

  Lemma memo_doc_S f : forall t i r, memo_doc f t i = Some r -> memo_doc (Datatypes.S f) t i = Some r.
  Proof.
    induction f as [|f IH]; intros t i r H; [discriminate|].
    destruct t as [s c l kids]. rewrite memo_doc_eq in H |- *.
    destruct (cget c i); [exact H|].
    destruct (eff_kind S In kind_of guard i s (length kids)).
    - destruct (hide_kids (memo_doc f) kids) as [k1|] eqn:E; [|discriminate].
      rewrite (hide_kids_impl _ _ IH _ _ E). exact H.
    - destruct (run_memo (memo_doc f) kids (calgo s (map style_of kids) i)) as [r1|] eqn:E; [|discriminate].
      rewrite (run_memo_impl _ _ IH _ _ _ E). exact H.
    - exact H.
  Qed.

  Lemma memo_doc_mono f f' t i r : f <= f' -> memo_doc f t i = Some r -> memo_doc f' t i = Some r.
  Proof. intros Hle H. induction Hle as [|m Hle IHle]; [exact H|]. apply memo_doc_S. exact IHle. Qed.

  (* ---------- hidden-mode inputs ---------- *)
  Lemma memo_hidden f t i : mode i = PerformHiddenLayout ->
    memo (Datatypes.S f) t i = Some (hidden_out, hide t).
  Proof. intros H. destruct t as [s c l kids]. cbn [Engine.memo]. rewrite H. reflexivity. Qed.

  (* the children loop of compute_hidden_layout, when every child's hidden-mode query behaves like TaffyView's *)
  Lemma hide_kids_sound (ev : tree -> In -> option (Out * tree)) :
    (forall t r, ev t hidden_in = Some r -> snd r = hide t) ->
    forall kids kids', hide_kids ev kids = Some kids' -> kids' = map hide kids.
  Proof.
    intros Hev kids. induction kids as [|k kids IH]; intros kids' H; cbn in *.
    - injection H as <-. reflexivity.
    - destruct (ev k hidden_in) as [[o1 k1]|] eqn:E; [|discriminate].
      destruct (hide_kids ev kids) as [r1|] eqn:E1; [|discriminate].
      injection H as <-. apply Hev in E. cbn in E. subst k1. f_equal. apply IH. reflexivity.
  Qed.

  Lemma hide_eq s c l kids : hide (TNode s c l kids) = TNode s cempty zero_lay (map hide kids).
  Proof. reflexivity. Qed.

  (* ---------- documented -> TaffyView, same fuel ---------- *)
  Theorem doc_to_taffy : forall f t i r, memo_doc f t i = Some r -> memo f t i = Some r.
  Proof.
    induction f as [|f IH]; intros t i r H; [discriminate|].
    assert (Hkids : forall kids kids', hide_kids (memo_doc f) kids = Some kids' -> kids' = map hide kids).
    { apply hide_kids_sound. intros t0 r0 H0. apply IH in H0.
      destruct f as [|f0]; [discriminate|]. rewrite (memo_hidden _ _ _ hidden_in_mode) in H0. injection H0 as <-. reflexivity. }
    destruct t as [s c l kids]. cbn [EngineDoc.memo_doc] in H.
    destruct (mode i) eqn:Em.
    3: { (* hidden-mode input: never answered from the cache, sent to compute_hidden_layout by the guard, nothing stored *)
      rewrite (cget_hidden _ _ Em) in H. unfold eff_kind in H. rewrite (proj2 (Hg i) Em) in H.
      destruct (hide_kids (memo_doc f) kids) as [k1|] eqn:E; [|discriminate].
      apply Hkids in E. subst k1. rewrite (cstore_hidden _ _ _ Em) in H.
      rewrite (memo_hidden _ _ _ Em). rewrite hide_eq. exact H. }
    all: cbn [Engine.memo]; rewrite Em.
    all: destruct (cget c i) as [o1|]; [exact H|].
    all: unfold eff_kind in H; rewrite guard_false in H by congruence; rewrite Hk in H; unfold kind_taffy in H.
    all: destruct (is_none s).
    all: try (destruct (hide_kids (memo_doc f) kids) as [k1|] eqn:E; [|discriminate]; apply Hkids in E; subst k1; exact H).
    all: destruct kids as [|k0 kids0]; [cbn in H |- *; exact H|].
    all: cbn [length map] in H; cbn [map taffy_algo].
    all: match type of H with context [run_memo ?e ?k ?a] => destruct (run_memo e k a) as [[o1 k1]|] eqn:E; [|discriminate] end.
    all: rewrite (run_memo_impl _ _ (IH) _ _ _ E); exact H.
  Qed.

  (* ---------- TaffyView -> documented, with enough fuel ---------- *)
  Lemma hide_doc_ex : forall t, exists f, memo_doc f t hidden_in = Some (hidden_out, hide t).
  Proof.
    induction t as [s c l kids IH] using (tree_ind' S In Out Lay).
    assert (Hk' : exists f, hide_kids (memo_doc f) kids = Some (map hide kids)).
    { induction IH as [|k kids [fk Hfk] _ [fr Hfr]]; [exists 0; reflexivity|].
      exists (Nat.max fk fr). cbn. rewrite (memo_doc_mono fk (Nat.max fk fr) _ _ _ (Nat.le_max_l _ _) Hfk).
      rewrite (hide_kids_impl (memo_doc fr) (memo_doc (Nat.max fk fr))) with (r := map hide kids); [reflexivity| |exact Hfr].
      intros t0 i0 r0. apply memo_doc_mono. lia. }
    destruct Hk' as [f Hf]. exists (Datatypes.S f). cbn [EngineDoc.memo_doc].
    rewrite (cget_hidden _ _ hidden_in_mode). unfold eff_kind. rewrite (proj2 (Hg hidden_in) hidden_in_mode).
    rewrite Hf. rewrite (cstore_hidden _ _ _ hidden_in_mode). reflexivity.
  Qed.

  Lemma hide_kids_ex kids : exists f, hide_kids (memo_doc f) kids = Some (map hide kids).
  Proof.
    induction kids as [|k kids [fr Hfr]]; [exists 0; reflexivity|].
    destruct (hide_doc_ex k) as [fk Hfk].
    exists (Nat.max fk fr). cbn. rewrite (memo_doc_mono fk (Nat.max fk fr) _ _ _ (Nat.le_max_l _ _) Hfk).
    rewrite (hide_kids_impl (memo_doc fr) (memo_doc (Nat.max fk fr))) with (r := map hide kids); [reflexivity| |exact Hfr].
    intros t0 i0 r0. apply memo_doc_mono. lia.
  Qed.

  Lemma run_memo_ex (ev1 : tree -> In -> option (Out * tree)) :
    (forall t i r, ev1 t i = Some r -> exists f, memo_doc f t i = Some r) ->
    forall a kids r, run_memo ev1 kids a = Some r -> exists f, run_memo (memo_doc f) kids a = Some r.
  Proof.
    intros Hev a. induction a as [o0|c i k IH|c l k IH]; intros kids r H; cbn in H.
    - exists 0. exact H.
    - destruct (nth_error kids c) as [t|] eqn:En; [|discriminate].
      destruct (ev1 t i) as [[o1 t1]|] eqn:E; [|discriminate].
      destruct (Hev _ _ _ E) as [f1 H1]. destruct (IH _ _ _ H) as [f2 H2].
      exists (Nat.max f1 f2). cbn. rewrite En.
      rewrite (memo_doc_mono f1 (Nat.max f1 f2) _ _ _ (Nat.le_max_l _ _) H1).
      eapply run_memo_impl; [|exact H2]. intros t0 i0 r0. apply memo_doc_mono. lia.
    - destruct (nth_error kids c) as [t|] eqn:En; [|discriminate].
      destruct (IH _ _ H) as [f2 H2]. exists f2. cbn. rewrite En. exact H2.
  Qed.

  Theorem taffy_to_doc : forall f t i r, memo f t i = Some r -> exists f', memo_doc f' t i = Some r.
  Proof.
    induction f as [|f IH]; intros t i r H; [discriminate|].
    destruct t as [s c l kids].
    destruct (mode i) eqn:Em.
    3: { rewrite (memo_hidden _ _ _ Em) in H. injection H as <-.
      destruct (hide_kids_ex kids) as [f1 H1]. exists (Datatypes.S f1). cbn [EngineDoc.memo_doc].
      rewrite (cget_hidden _ _ Em). unfold eff_kind. rewrite (proj2 (Hg i) Em). rewrite H1.
      rewrite (cstore_hidden _ _ _ Em). reflexivity. }
    all: cbn [Engine.memo] in H; rewrite Em in H.
    all: destruct (cget c i) as [o1|] eqn:Eg; [exists 1; cbn [EngineDoc.memo_doc]; rewrite Eg; exact H|].
    all: destruct (is_none s) eqn:En.
    1,3: destruct (hide_kids_ex kids) as [f1 H1]; exists (Datatypes.S f1); cbn [EngineDoc.memo_doc]; rewrite Eg;
         unfold eff_kind; rewrite guard_false by congruence; rewrite Hk; unfold kind_taffy; rewrite En, H1; exact H.
    all: destruct kids as [|k0 kids0].
    1,3: exists 1; cbn [EngineDoc.memo_doc]; rewrite Eg; unfold eff_kind; rewrite guard_false by congruence;
         rewrite Hk; unfold kind_taffy; rewrite En; cbn in H |- *; exact H.
    all: cbn [map taffy_algo] in H.
    all: destruct (run_memo (memo f) (k0 :: kids0) (calgo s (style_of k0 :: map style_of kids0) i)) as [[o1 k1]|] eqn:E; [|discriminate].
    all: destruct (run_memo_ex _ IH _ _ _ E) as [f1 H1]; exists (Datatypes.S f1); cbn [EngineDoc.memo_doc]; rewrite Eg;
         unfold eff_kind; rewrite guard_false by congruence; rewrite Hk; unfold kind_taffy; rewrite En; cbn [length map];
         rewrite H1; exact H.
  Qed.

  (* the documented evaluation is a function of (tree, input): whatever fuel makes it terminate gives the same answer *)
  Lemma memo_doc_det f f' t i r r' : memo_doc f t i = Some r -> memo_doc f' t i = Some r' -> r = r'.
  Proof.
    intros H H'. apply (memo_doc_mono f (Nat.max f f')) in H; [|lia].
    apply (memo_doc_mono f' (Nat.max f f')) in H'; [|lia]. congruence.
  Qed.
End DocEquiv.

(* ---------- the examples as written (no hidden-mode line) are right as long as nothing is display:none ---------- *)
Section LiteralWithoutNone.
  Variables (S In Out Lay : Type).
  Variable mode : In -> RunMode.
  Variable in_eqb : In -> In -> bool.
  Variable is_none : S -> bool.
  Variable hidden_out : Out.
  Variable zero_lay : Lay.
  Variable hidden_in : In.
  Variable calgo : S -> list S -> In -> Alg In Out Lay.
  Variable lalgo : S -> In -> Out.
  Variable kind_of : S -> nat -> kind.

  Notation tree := (tree S In Out Lay).
  Notation TNode := (Node S In Out Lay).
  Notation algo := (taffy_algo S In Out Lay calgo lalgo).
  Notation memo := (memo S In Out Lay mode in_eqb is_none hidden_out zero_lay algo).
  Notation memo_lit := (memo_doc S In Out Lay mode in_eqb hidden_out zero_lay hidden_in calgo lalgo kind_of (fun _ => false)).
  Notation run_memo := (run_memo S In Out Lay).
  Notation style_of := (style_of S In Out Lay).

  Hypothesis Hk : forall s n, kind_of s n = kind_taffy S is_none s n.
  (* WF (trace-validated for the real algorithms): a container function never issues a hidden-mode query *)
  Hypothesis HWF : forall s st i, WFAlg In Out Lay mode (calgo s st i).

  Inductive NoNone : tree -> Prop :=
  | NN s c l kids : is_none s = false -> Forall NoNone kids -> NoNone (TNode s c l kids).

  Definition ev_agree (ev1 ev2 : tree -> In -> option (Out * tree)) : Prop :=
    forall t i, NoNone t -> mode i <> PerformHiddenLayout ->
      ev1 t i = ev2 t i /\ (forall r, ev2 t i = Some r -> NoNone (snd r)).

  Lemma run_memo_agree ev1 ev2 : ev_agree ev1 ev2 ->
    forall a kids, WFAlg In Out Lay mode a -> Forall NoNone kids ->
      run_memo ev1 kids a = run_memo ev2 kids a /\ (forall r, run_memo ev2 kids a = Some r -> Forall NoNone (snd r)).
  Proof.
    intros Hev a. induction a as [o0|c i k IH|c l k IH]; intros kids HW HN; cbn.
    - split; [reflexivity|]. intros r H. injection H as <-. exact HN.
    - inversion HW as [|c0 i0 k0 Hm Hk0|]; subst.
      destruct (nth_error kids c) as [t|] eqn:En; [|split; [reflexivity|discriminate]].
      assert (Ht : NoNone t) by (rewrite Forall_forall in HN; apply HN; eapply nth_error_In; eauto).
      destruct (Hev t i Ht Hm) as [E Hr]. rewrite E.
      destruct (ev2 t i) as [[o1 t1]|] eqn:E2; [|split; [reflexivity|discriminate]].
      apply IH; [apply Hk0|]. apply Forall_replace_nth; [exact HN|]. exact (Hr _ eq_refl).
    - inversion HW; subst.
      destruct (nth_error kids c) as [t|] eqn:En; [|split; [reflexivity|discriminate]].
      assert (Ht : NoNone t) by (rewrite Forall_forall in HN; apply HN; eapply nth_error_In; eauto).
      apply IH; [assumption|]. apply Forall_replace_nth; [exact HN|].
      destruct t; inversion Ht; subst; constructor; assumption.
  Qed.

  Theorem literal_without_none : forall f, ev_agree (memo_lit f) (memo f).
  Proof.
    induction f as [|f IH]; intros t i HN Hm; [split; [reflexivity|discriminate]|].
    destruct t as [s c l kids]. inversion HN as [s0 c0 l0 kids0 Hs Hkids]; subst.
    cbn [EngineDoc.memo_doc Engine.memo]. unfold eff_kind. rewrite Hk. unfold kind_taffy. rewrite Hs.
    destruct (mode i) eqn:Em; [| |congruence].
    all: destruct (cget In Out mode in_eqb c i) as [o1|]; [split; [reflexivity|]; intros r H; injection H as <-; exact HN|].
    all: destruct kids as [|k0 kids0]; [cbn; split; [reflexivity|]; intros r H; injection H as <-; constructor; [exact Hs|constructor]|].
    all: cbn [length map taffy_algo].
    all: destruct (run_memo_agree _ _ IH (calgo s (style_of k0 :: map style_of kids0) i) (k0 :: kids0) (HWF _ _ _) Hkids) as [E Hr].
    all: cbn [map] in E; rewrite E.
    all: destruct (run_memo (memo f) (k0 :: kids0) (calgo s (style_of k0 :: map style_of kids0) i)) as [[o1 k1]|] eqn:E2;
         [|split; [reflexivity|discriminate]].
    all: split; [reflexivity|]; intros r H; injection H as <-; constructor; [exact Hs|exact (Hr _ eq_refl)].
  Qed.
End LiteralWithoutNone.

(* ---------- the trap, on the toy instance ---------- *)
Lemma trap_taffy :
  probe (trap_run toy_taffy) [0] = Some (1%N, false) /\     (* A: display:none; layout written by its parent, HIDDEN cached *)
  probe (trap_run toy_taffy) [0; 0] = Some (0%N, true) /\   (* B: zero layout, cache cleared *)
  probe (trap_run toy_taffy) [0; 0; 0] = Some (0%N, true).  (* C: zero layout, cache cleared *)
Proof. vm_compute. repeat split. Qed.

Lemma trap_guarded : trap_run toy_guarded = trap_run toy_taffy.
Proof. vm_compute. reflexivity. Qed.

Lemma trap_literal :
  probe (trap_run toy_literal) [0] = Some (1%N, false) /\
  (exists l, probe (trap_run toy_literal) [0; 0] = Some (l, false) /\ l <> 0%N) /\     (* B keeps its old layout AND its old cache *)
  (exists l, probe (trap_run toy_literal) [0; 0; 0] = Some (l, false) /\ l <> 0%N).    (* C is laid out by B's algorithm *)
Proof.
  vm_compute. split; [reflexivity|]. split; eexists; (split; [reflexivity|discriminate]).
Qed.

(* ---------- corollaries in closed form ---------- *)
Section DocCorollaries.
  Variables (S In Out Lay : Type).
  Variable mode : In -> RunMode.
  Variable in_eqb : In -> In -> bool.
  Variable is_none : S -> bool.
  Variable hidden_out : Out.
  Variable zero_lay : Lay.
  Variable hidden_in : In.
  Variable calgo : S -> list S -> In -> Alg In Out Lay.
  Variable lalgo : S -> In -> Out.
  Variable kind_of : S -> nat -> kind.
  Variable guard : In -> bool.
  Hypothesis hidden_in_mode : mode hidden_in = PerformHiddenLayout.
  Hypothesis Hg : forall i, guard i = true <-> mode i = PerformHiddenLayout.
  Hypothesis Hk : forall s n, kind_of s n = kind_taffy S is_none s n.

  Notation algo := (taffy_algo S In Out Lay calgo lalgo).
  Notation memo := (memo S In Out Lay mode in_eqb is_none hidden_out zero_lay algo).
  Notation memo_doc := (memo_doc S In Out Lay mode in_eqb hidden_out zero_lay hidden_in calgo lalgo kind_of guard).

  (* whatever fuel each side needs to terminate: same output, same resulting tree (caches and stored layouts of every node) *)
  Theorem doc_equals_taffy f f' t i r r' : memo_doc f t i = Some r -> memo f' t i = Some r' -> r = r'.
  Proof.
    intros H H'.
    destruct (taffy_to_doc S In Out Lay mode in_eqb is_none hidden_out zero_lay hidden_in calgo lalgo kind_of guard
                hidden_in_mode Hg Hk _ _ _ _ H') as [f'' H''].
    eapply memo_doc_det; eauto.
  Qed.

  (* with an exact key the documented tree computes what the cache-free evaluation computes *)
  Theorem doc_exact :
    (forall a b, in_eqb a b = true -> a = b) ->
    forall f t i o t',
      Valid S In Out Lay mode is_none hidden_out algo t ->
      memo_doc f t i = Some (o, t') ->
      (exists f', plain S In Out Lay mode is_none hidden_out algo f' (skel S In Out Lay t) i = Some o) /\
      Valid S In Out Lay mode is_none hidden_out algo t' /\ skel S In Out Lay t' = skel S In Out Lay t.
  Proof.
    intros Hkey f t i o t' HV H.
    apply (doc_to_taffy S In Out Lay mode in_eqb is_none hidden_out zero_lay hidden_in calgo lalgo kind_of guard
             hidden_in_mode Hg Hk) in H.
    eapply memo_sound; eauto.
  Qed.
End DocCorollaries.

(* the toy instance satisfies the hypotheses of the equivalence *)
Lemma toy_hyps :
  t_mode t_hidden_in = PerformHiddenLayout /\
  (forall i, t_guard i = true <-> t_mode i = PerformHiddenLayout) /\
  (forall s n, t_kind s n = kind_taffy TS t_is_none s n).
Proof.
  split; [reflexivity|]. split; [|reflexivity].
  intros i. unfold t_guard. destruct (t_mode i); cbn; split; intros H; try reflexivity; discriminate.
Qed.
