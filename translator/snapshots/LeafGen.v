(* GENERATED on every run by translator/gen_leaf.py from src/compute/leaf.rs (whole body of compute_leaf_layout) -- do not edit. *)
From Coq Require Import List Bool.
From TV Require Import Model.Common Model.Leaf.
Import ListNotations.
Section LeafGen.
Context {T : Type} `{Num T}.

Definition gen_compute_leaf_layout (inputs : LayoutInput T) (style : Style T) (measure_function : MeasureFn T)
  : option (LayoutOutput T * list (MeasureCall T)) :=
    let v_known_dimensions := (known_dimensions inputs) in
    let v_parent_size := (parent_size inputs) in
    let v_available_space := (available_space inputs) in
    let v_sizing_mode := (sizing_mode inputs) in
    let v_run_mode := (run_mode inputs) in
    let v_margin := (rect_resolve_or_zero_lpa (margin style) (width v_parent_size)) in
    let v_padding := (rect_resolve_or_zero_lp (padding style) (width v_parent_size)) in
    let v_border := (rect_resolve_or_zero_lp (border style) (width v_parent_size)) in
    let v_padding_border := (rect_add v_padding v_border) in
    let v_pb_sum := (sum_axes v_padding_border) in
    let v_box_sizing_adjustment := (match (box_sizing style) with ContentBox => (v_pb_sum) | _ => (size_ZERO) end) in
    let '(v_node_size, v_node_min_size, v_node_max_size, v_aspect_ratio) := (match v_sizing_mode with
      | ContentSize => (let v_node_size := v_known_dimensions in
    let v_node_min_size := (size_NONE : Size (option T)) in
    let v_node_max_size := (size_NONE : Size (option T)) in
    (v_node_size, v_node_min_size, v_node_max_size, None))
      | InherentSize => (let v_aspect_ratio := (aspect_ratio style) in
    let v_style_size := (size_maybe_add_of (maybe_apply_aspect_ratio (size_maybe_resolve_dim (size style) v_parent_size) v_aspect_ratio) v_box_sizing_adjustment) in
    let v_style_min_size := (size_maybe_add_of (maybe_apply_aspect_ratio (size_maybe_resolve_dim (min_size style) v_parent_size) v_aspect_ratio) v_box_sizing_adjustment) in
    let v_style_max_size := (size_maybe_add_of (size_maybe_resolve_dim (max_size style) v_parent_size) v_box_sizing_adjustment) in
    let v_node_size := (size_or v_known_dimensions v_style_size) in
    (v_node_size, v_style_min_size, v_style_max_size, v_aspect_ratio))
      end) in
    let v_scrollbar_gutter := (point_map (fun v_overflow => (match v_overflow with
      | Scroll => (scrollbar_width style)
      | _ => zero
      end)) (point_transpose (overflow style))) in
    let v_content_box_inset := v_padding_border in
    let v_content_box_inset := (mkRect (r_left v_content_box_inset) (add (r_right v_content_box_inset) (px v_scrollbar_gutter)) (r_top v_content_box_inset) (r_bottom v_content_box_inset)) in
    let v_content_box_inset := (mkRect (r_left v_content_box_inset) (r_right v_content_box_inset) (r_top v_content_box_inset) (add (r_bottom v_content_box_inset) (py v_scrollbar_gutter))) in
    let v_has_styles_preventing_being_collapsed_through := (orb (orb (orb (orb (orb (orb (orb (orb (orb (negb (is_block style)) (is_scroll_container (px (overflow style)))) (is_scroll_container (py (overflow style)))) (match (position style) with Absolute => true | _ => false end)) (gtb (r_top v_padding) zero)) (gtb (r_bottom v_padding) zero)) (gtb (r_top v_border) zero)) (gtb (r_bottom v_border) zero)) (match (height v_node_size) with (Some v_h) => (gtb v_h zero) | _ => false end)) (match (height v_node_min_size) with (Some v_h) => (gtb v_h zero) | _ => false end)) in
    (let k1 := (let v_available_space := (mkSize (avail_map_definite_value (avail_maybe_set (avail_maybe_set (maybe_sub_af (opt_unwrap_or (option_map (@Definite T) (width v_known_dimensions)) (width v_available_space)) (horizontal_axis_sum v_margin)) (width v_known_dimensions)) (width v_node_size)) (fun v_size => ((sub (maybe_clamp_fo v_size (width v_node_min_size) (width v_node_max_size)) (horizontal_axis_sum v_content_box_inset))))) (avail_map_definite_value (avail_maybe_set (avail_maybe_set (maybe_sub_af (opt_unwrap_or (option_map (@Definite T) (height v_known_dimensions)) (height v_available_space)) (vertical_axis_sum v_margin)) (height v_known_dimensions)) (height v_node_size)) (fun v_size => ((sub (maybe_clamp_fo v_size (height v_node_min_size) (height v_node_max_size)) (vertical_axis_sum v_content_box_inset)))))) in
    (match (match v_run_mode with
      | ComputeSize => Some v_known_dimensions
      | PerformLayout => Some size_NONE
      | PerformHiddenLayout => None
      end) with
    | None => None
    | Some m_known2 =>
    let m_avail2 := v_available_space in
    let v_measured_size := measure_function m_known2 m_avail2 in
    let v_clamped_size := (size_maybe_clamp_fo (size_unwrap_or (size_or v_known_dimensions v_node_size) (size_add v_measured_size (sum_axes v_content_box_inset))) v_node_min_size v_node_max_size) in
    let v_size := (mkSize (width v_clamped_size) (fmax (height v_clamped_size) (opt_unwrap_or (option_map (fun v_ratio => (div (width v_clamped_size) v_ratio)) v_aspect_ratio) zero))) in
    let v_size := (size_maybe_max_fo v_size (size_map Some (sum_axes v_padding_border))) in
    (Some ((mkOutput v_size (size_add v_measured_size (sum_axes v_padding)) point_NONE margin_set_ZERO margin_set_ZERO (andb (andb (negb v_has_styles_preventing_being_collapsed_through) (eqb (height v_size) zero)) (eqb (height v_measured_size) zero))), [(m_known2, m_avail2)]))
    end)) in
    if (andb (match v_run_mode with ComputeSize => true | _ => false end) v_has_styles_preventing_being_collapsed_through)
    then (let k2 := (k1) in
    match v_node_size with
    | (mkSize (Some v_width) (Some v_height)) => let v_size := (size_maybe_max_fo (size_maybe_clamp_fo (mkSize v_width v_height) v_node_min_size v_node_max_size) (size_map Some (sum_axes v_padding_border))) in
    (Some ((mkOutput v_size size_ZERO point_NONE margin_set_ZERO margin_set_ZERO false), []))
    | _ => k2
    end)
    else k1).

End LeafGen.
