"""C15 -- relayout is lazy, dirtiness is exact.  proof: Props/C15.v; K: dirty-flag correspondence + WF/H1 traces;
search: the three clauses on the implementation (vh c15 oracle)."""
from ..common import *
from ..stages import *
from ..engine_k import engine_correspondence, engine_event_correspondence


def run(rep, tier, seed, replay=None):
    res, changed = proof_stage(rep, 'C15', extra_trusted=[
        'engine skeleton Model/Engine.v is hand-written (tied by the dirty-flag correspondence, the event-level correspondence with the real algorithms replayed, and trace validation)',
        'interface hypotheses WF, H1 on the real algorithms: validated on every traced pass, not proved',
        'C15_second_pass_silent needs a reflexive key: for the real cache this is C02_store_hit (NaN-free known dimensions, finite definite available space)',
        'engine over the REAL cache (Model/EngineReal.v memo_real / gmark_dirty, forest layer Model/EngineForestG.v): hand-written, tied by the real-cache event-level correspondence (no exact-key hook); '
        'the real algorithms are replayed from recorded scripts, output sizes are probed by re-running the pass on a clone up to a query limit'])
    rc, out, binp, dt = build_harness('release')
    if rc != 0:
        rep.add_broken('build', 'harness', out[-1500:])
        return
    engine_correspondence(rep, binp, seed + 15, 400 if tier == 'quick' else 4000)
    engine_event_correspondence(rep, binp, seed + 15, 600 if tier == 'quick' else 6000)
    # ---- the same histories WITHOUT the exact-key hook against the engine over the REAL cache (wave 7c, notes/REALHIST.md): memo_real /
    # gmark_dirty / rclear / rdirty of Model/EngineReal.v; hit/miss by the lossy Cache.compat on binary32
    esc = bool([c for c in changed if c.startswith('gen_cache:') or 'compute_cached_layout' in c or 'compute_child_layout' in c
                or 'compute_hidden_layout' in c or 'mark_dirty' in c])
    engine_event_correspondence(rep, binp, seed + 15, 3000 if tier != 'quick' or esc else 300, real=True)
    # extreme-value corpus (sizes that overflow f32 or are huge): laziness must hold for them as for any tree
    if not replay:
        rcx, outx = vh(binp, ['c15', 'extreme'], timeout=120)
        if 'EXTREME' not in outx:
            rep.add_broken('search', 'vh c15 extreme', outx[-400:])
        for l in [l for l in outx.split('\n') if l.startswith('FAIL extreme')][:3]:
            rep.add_violation(l[:400], {'cmd': 'vh c15 extreme'})
        rep.cov['extreme_corpus_cases'] = 12
    n = 1500 if tier == 'quick' and not rep.broken else 15000
    start = 0
    if replay:
        start, n, seed = replay['idx'], 1, replay.get('seed', seed)
    rc, out = vh(binp, ['c15', 'oracle', seed, start, n], timeout=900)
    if 'DONE' not in out:
        rep.add_broken('search', 'vh c15 oracle', out[-600:])
        return
    d = re.search(r'DONE (\d+) (\d+) (\d+)', out)
    rep.cov['oracle_histories'] = int(d.group(1))
    rep.cov['oracle_layout_passes_checked'] = int(d.group(2))
    rep.cov['oracle_mutations_checked'] = int(d.group(3))
    rep.cov['evaluations'] = rep.cov.get('evaluations', 0) + int(d.group(1))
    fails = [l for l in out.split('\n') if l.startswith('FAIL ') or l.startswith('PANIC ')]
    for l in fails[:3]:
        p = l.split(' ', 2)
        rep.add_violation(l[:500], {'seed': seed, 'idx': int(p[1]), 'cmd': 'vh c15 oracle %d %s 1' % (seed, p[1])})
    rep.cov['rule'] = ('K as C01 (dirty flags after every API call, model vs implementation). search: random histories; after every layout: no '
                       'box-generating node outside display:none regions is dirty and a second compute_layout with the same available space '
                       'makes zero measure calls; around every mutation at a node without display:none ancestor: node and ancestors dirty, '
                       'all other nodes unchanged')
    rep.cov['samples'].append({'theorem': 'C15_mark_exact: J t -> B t -> visible_path t p -> caches on the path to p become empty, every other cache, every style and layout is unchanged'})
