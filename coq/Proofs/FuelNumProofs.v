(* Fuel sufficiency, numerically counted loops.
   Generic part (any `Num`): a fuelled loop whose result satisfies its own exit test is unchanged by more fuel
   (`distribute_loop_stable`, `fr_loop_stable`, `flex_loop_stable`).
   Exact instance XQ: with the fuel expression the model passes the exit test holds on the stated classes
     fr_loop / fr_exit                 fuel length tracks + 2        (fr_terminates: the set of flexible tracks with a positive factor shrinks)
     distribute_loop in maximise_tracks fuel 2 * length tracks + 8   (mstep_progress: the number of growable tracks shrinks or the space is used up)
     flex_loop                          fuel S (length items)         (loop_body_decreases: every iteration freezes an item; no premise) *)
From Coq Require Import ZArith QArith Bool List Lia Lqa.
From TV Require Import Num.Num Num.QNum Model.Common Gen.GridTracksGen Model.GridTracks Proofs.GridTracksProofs Model.Flex.
From TV Require Proofs.FlexProofs.
Import ListNotations.

(* ------------------------------------------------------------------------------------------------ any Num *)
Section Generic.
  Context {T : Type} `{Num T}.
  Notation track := (track T).

  Lemma distribute_loop_stable (aff : track -> bool) (p pr lim : track -> T) : forall fuel extra space tracks,
    (let r := distribute_loop aff p pr lim fuel space tracks in distribute_step aff p pr lim (fst r) (snd r) = None) ->
    distribute_loop aff p pr lim (fuel + extra) space tracks = distribute_loop aff p pr lim fuel space tracks.
  Proof.
    induction fuel as [|f IH]; intros extra space tracks Hx; cbv zeta in Hx.
    - cbn [distribute_loop fst snd Nat.add] in *. destruct extra as [|e]; [reflexivity|]. cbn [distribute_loop]. rewrite Hx. reflexivity.
    - cbn [Nat.add distribute_loop] in *. destruct (distribute_step aff p pr lim space tracks) as [[s' ts']|]; [|reflexivity].
      apply IH. exact Hx.
  Qed.

  Lemma fr_loop_stable : forall fuel extra (tracks : list track) space h,
    snd (fr_loop fuel tracks space h) = true -> fr_loop (fuel + extra) tracks space h = fr_loop fuel tracks space h.
  Proof.
    induction fuel as [|f IH]; intros extra tracks space h Hx; [cbn in Hx; discriminate|].
    cbn [Nat.add fr_loop] in *. destruct (fr_valid tracks h (fr_next tracks space h)); [reflexivity|]. apply IH. exact Hx.
  Qed.

  Lemma flex_loop_stable (k : LoopCtx T) : forall fuel extra (items res : list (FlexItem T)),
    flex_loop fuel k items = Some res -> flex_loop (fuel + extra) k items = Some res.
  Proof.
    induction fuel as [|f IH]; intros extra items res Hx; [cbn in Hx; discriminate|].
    cbn [Nat.add flex_loop] in *. destruct (forallb fi_frozen items); [exact Hx|]. apply IH. exact Hx.
  Qed.
End Generic.

(* ------------------------------------------------------------------------------------------------ XQ *)
Local Open Scope Q_scope.

(* find_size_of_fr: the search has left through `break` and more fuel does not change (h_prev, h, exited) *)
Theorem fr_loop_fuel_suffices (tracks : list (track XQ)) (sp : Q) : Forall track_ok2 tracks ->
  snd (fr_exit tracks (Fin sp)) = true /\
  forall extra, fr_loop (fr_fuel tracks + extra) tracks (Fin sp) infinity = fr_exit tracks (Fin sp).
Proof.
  intro Hok. pose proof (fr_terminates tracks sp Hok) as Ht. split; [exact Ht|].
  intro extra. unfold fr_exit in *. apply fr_loop_stable. exact Ht.
Qed.

(* the distribution loop of maximise_tracks (11.6) *)
Lemma mloop_exits inner n : forall sp tracks fuel, Forall (tok inner) tracks -> (G inner tracks <= n)%nat -> (n + 1 <= fuel)%nat ->
  let r := mloop inner fuel (Fin sp) tracks in mstep inner (fst r) (snd r) = None.
Proof.
  induction n as [|n IH]; intros sp tracks fuel Hok Hg Hfuel; cbv zeta.
  - assert (Hg0 : G inner tracks = 0%nat) by lia. destruct fuel as [|f]; [lia|].
    unfold mloop. cbn [distribute_loop]. fold (mstep inner). rewrite (mstep_none_G0 _ _ _ Hg0). cbn [fst snd].
    apply mstep_none_G0. exact Hg0.
  - destruct fuel as [|f]; [lia|]. unfold mloop. cbn [distribute_loop]. fold (mstep inner). fold (mloop inner).
    destruct (mstep inner (Fin sp) tracks) as [[s' ts']|] eqn:Es; [|cbn [fst snd]; exact Es].
    destruct (mstep_progress _ _ _ _ _ Hok Es) as [Hok' [sp' [E' Hd]]]. subst s'.
    destruct Hd as [Hd|Hd].
    + apply (IH sp' ts' f Hok'); lia.
    + destruct f as [|f]; [lia|]. unfold mloop. cbn [distribute_loop]. fold (mstep inner).
      rewrite (mstep_none_nonpos _ _ _ Hd). cbn [fst snd]. apply mstep_none_nonpos. exact Hd.
Qed.

Theorem maximise_distribute_fuel_suffices (inner : option XQ) (sp : Q) (tracks : list (track XQ)) :
  Forall (tok inner) tracks ->
  let lim := fit_content_limited_growth_limit inner in
  let r := distribute_space_up_to_limits (Fin sp) tracks (fun _ => true) (fun _ => one) base_size lim in
  distribute_step (fun _ => true) (fun _ => one) base_size lim (fst r) (snd r) = None /\
  forall extra, distribute_loop (fun _ => true) (fun _ => one) base_size lim (distribute_fuel tracks + extra) (Fin sp) tracks = r.
Proof.
  intro Hok. cbv zeta.
  assert (Hx : distribute_step (fun _ => true) (fun _ => one) base_size (fit_content_limited_growth_limit inner)
                 (fst (distribute_space_up_to_limits (Fin sp) tracks (fun _ => true) (fun _ => one) base_size (fit_content_limited_growth_limit inner)))
                 (snd (distribute_space_up_to_limits (Fin sp) tracks (fun _ => true) (fun _ => one) base_size (fit_content_limited_growth_limit inner))) = None).
  { apply (mloop_exits inner (length tracks) sp tracks (distribute_fuel tracks) Hok (G_le_length inner tracks)).
    unfold distribute_fuel. lia. }
  split; [exact Hx|]. intro extra. unfold distribute_space_up_to_limits in *. apply distribute_loop_stable. exact Hx.
Qed.

(* the freeze / violation loop of resolve_flexible_lengths: any context, any items (NaN and infinities included) *)
Theorem flex_loop_fuel_suffices (k : LoopCtx XQ) (items : list (FlexItem XQ)) :
  exists res, flex_loop (S (length items)) k items = Some res /\
              forall extra, flex_loop (S (length items) + extra) k items = Some res.
Proof.
  destruct (FlexProofs.flex_loop_total k (S (length items)) items) as [res Hr].
  { pose proof (FlexProofs.cnt_le_length items). lia. }
  exists res. split; [exact Hr|]. intro extra. apply flex_loop_stable. exact Hr.
Qed.
