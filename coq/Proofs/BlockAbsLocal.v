(* The real absolute-item routine (Model/BlockAbs.v abs_child_block) addresses only the item's own node: one query and one
   stored layout, both on `ai_node a` -- the premise AbsChildLocal of the C05 / C06 theorems about the block resumption
   (Proofs/BlockAlgBlind.v).  Any `Num`. *)
From Coq Require Import ZArith Bool List.
From TV Require Import Num.Num Gen.BlockGen Model.Block Model.Engine Model.FiltersBase Gen.FiltersGen Model.ItemFilters Model.BlockAlg.
From TV Require Import Model.BlockAbs.

Section Local.
  Context {T : Type} `{Num T}.
  Lemma abs_child_block_local : AbsChildLocal (abs_child_block (T := T)).
  Proof. intros st sz a r K. unfold abs_child_block. apply OC_query. intros o. apply OC_set. apply OC_done. Qed.
End Local.
