(* C03 (placement part only) -- grid placement is total on the stated domain.  The rest of C03 (tree index errors,
   fr / flexible-length loops, finiteness of outputs) is handled elsewhere. *)
From Coq Require Import ZArith Bool List.
From TV Require Import Model.PlacementBase Gen.PlacementGen Model.Placement
  Proofs.PlacementTables Proofs.PlacementMatrix Proofs.PlacementProofs.
Import ListNotations.
Open Scope Z_scope.

(* placeholder until PlacementTotal.v lands: the estimate never fails and yields small counts on the domain *)
Theorem C03_placement_estimate_bounds_partial : forall ec er children cc rc, 0 <= ec <= 64 -> 0 <= er <= 64 -> Forall child_ok children ->
  compute_grid_size_estimate ec er children = Ok (cc, rc) ->
  tc_nonneg cc /\ tc_neg cc <= 127 /\ tc_explicit cc = ec /\ tlen cc <= 400 /\
  tc_nonneg rc /\ tc_neg rc <= 127 /\ tc_explicit rc = er /\ tlen rc <= 400.
Proof. exact estimate_bounds. Qed.

Print Assumptions C03_placement_estimate_bounds_partial.
